"""C06 / C07: ownership oracles on real trees that contain symbolic links.  Implementation only: nothing here
uses the Coq model or coq/gen, so these families run (and find witnesses) when the translator failed closed.

The statement checked is the property's own: a cleanup (remove_deletable_files, Builder.finalize, `stepup clean`)
removes or alters nothing that StepUp does not own *with exactly the recorded content*.

Tree snapshots are taken with lstat: path -> ["dir"] | ["file", digest, mode] | ["link", target, resolved] where
resolved is what stat (following links) sees: ["file", digest, mode] | ["dir"] | None (dangling / loop).

The generator of the histories replaces outputs between "StepUp recorded them" and the cleanup by
  content        different content
  same-new-inode same content, new inode (must still be removed: C07)
  replaced-same-stat  ANOTHER file renamed over the output: other content, same size, permission bits and mtime
                 (cp -p / rsync -t + mv), new inode -- only the inode tells the stat shortcut of FileHash.refreshed
  inplace-same-stat   other content of the same size written in place, mtime restored: same (mode, mtime, size, inode).
                 This is the documented limit of the stat shortcut (assumption A-stat; C03's hypothesis `honest`): the
                 code cannot see the change, so a removal of such a file is NOT reported
  link-user      a symbolic link to a user file with different content
  link-copy      a symbolic link to a user file holding a copy of the recorded content
  moved-linked   the file moved into a user directory, a symbolic link left in its place
  link-output    a symbolic link to another output of the workflow
  link-dangling  a symbolic link to nothing
  link-loop      a symbolic link to itself
  link-dir       a symbolic link to a user directory
  dir-empty / dir-nonempty   a directory
  removed        nothing
and contains outputs that are symbolic links made by the step itself (to another output of the same step, sorted
before or after it, or to a user file), volatile outputs, user files and user links inside directories that are
scheduled for removal."""
from __future__ import annotations

import contextlib
import hashlib
import io
import os
import stat

from path import Path

from . import clean_common as cc
from .wfutil import WF

TAMPERS = ["content", "same-new-inode", "replaced-same-stat", "inplace-same-stat", "link-user", "link-copy", "moved-linked", "link-output", "link-dangling",
           "link-loop", "link-dir", "dir-empty", "dir-nonempty", "removed"]
LINK_TAMPERS = [t for t in TAMPERS if t.startswith("link-") or t == "moved-linked"]


# ---------------------------------------------------------------------------------------------
# snapshots
# ---------------------------------------------------------------------------------------------


def _sha(full):
    with open(full, "rb") as fh:
        return hashlib.sha256(fh.read()).hexdigest()[:16]


def _hid(full, hids):
    """Identity of what FileHash.__eq__ compares (cc.HashIds), the model's `h`."""
    if hids is None:
        return None
    from stepup.core.hash import FileHash
    return hids.of(FileHash.unknown().refreshed(full))


def _resolved(full, hids=None):
    try:
        st = os.stat(full)
    except OSError:
        return None
    if stat.S_ISDIR(st.st_mode):
        return ["dir"]
    return ["file", _sha(full), stat.S_IMODE(st.st_mode), _hid(full, hids)]


def lentry(full, hids=None, rel=None):
    """lstat entry of one path; `rel`: the path relative to the project root (for the normalised link target)."""
    st = os.lstat(full)
    if stat.S_ISLNK(st.st_mode):
        target = os.readlink(full)
        rel = full if rel is None else rel
        return ["link", target, _resolved(full, hids), os.path.normpath(os.path.join(os.path.dirname(rel), target))]
    if stat.S_ISDIR(st.st_mode):
        return ["dir"]
    return ["file", _sha(full), stat.S_IMODE(st.st_mode), _hid(full, hids)]


def lsnap(root=".", hids=None):
    out = {}
    for dirpath, dirnames, filenames in os.walk(root):
        rel = os.path.relpath(dirpath, root)
        if rel == ".":
            dirnames[:] = [d for d in dirnames if d != ".stepup"]
        for name in sorted(dirnames + filenames):
            p = os.path.normpath(os.path.join(rel, name))
            out[p] = lentry(os.path.join(dirpath, name), hids, p)
    return out


def model_fs(snap):
    """The model's view of a snapshot (cc.coq_fs input): path -> 'dir' | hash identity | ["link", target], the
    target as a normalised path relative to the project root."""
    out = {}
    for p, e in snap.items():
        out[p] = "dir" if e[0] == "dir" else e[3] if e[0] == "file" else ["link", e[3]]
    return out


def honest_stat(c):
    """No file of the case was changed behind the stat shortcut (assumption A-stat of the model): cases with the
    tamper inplace-same-stat are judged by the oracle (which skips them) but not compared with the model."""
    kinds = [k for _, _, k in c["desc"]] if "desc" in c else list(c.get("edits", {}).values())
    return "inplace-same-stat" not in kinds


def model_ok(snap):
    """Is the tree inside the model's assumptions (A-links)?  Link targets stay inside the project."""
    return all(not (e[0] == "link" and (e[3].startswith("..") or os.path.isabs(e[3]))) for e in snap.values())


def what(ent):
    if ent[0] == "file":
        return "regular"
    if ent[0] == "dir":
        return "dir"
    if ent[2] is None:
        return "symlink-dangling"
    return "symlink-to-" + ent[2][0]


def through(ent):
    """What reading through the path gives: ["file", digest, mode] | ["dir"] | None."""
    return ent[2] if ent[0] == "link" else ent


# ---------------------------------------------------------------------------------------------
# the judge: the property's statement on one cleanup
# ---------------------------------------------------------------------------------------------


def judge(site, before, after, owned, why_not=None, unsafe=False, forged=(), twins=()):
    """`owned`: path -> {"volatile": bool, "digest": recorded content digest} for every path StepUp may remove in
    this cleanup.  `why_not(p)`: the reason a removed path is not owned (signature part).  Returns [(sig, detail)]."""
    out = []
    for p, ent in sorted(before.items()):
        if p in after:
            a = after[p]
            if a[:2] != ent[:2] or (ent[0] == "file" and a[2] != ent[2]):
                out.append((f"own:{site}:altered:{what(ent)}", f"{p}: {ent} became {a}"))
            continue
        w = what(ent)
        if w == "dir":
            continue          # it was empty when it went: everything that was below it is judged on its own
        o = owned.get(p)
        if o is None:
            reason = why_not(p) if why_not else "not-owned"
            out.append((f"own:{site}:removed:{w}:{reason}", f"{p} ({ent}) was removed; StepUp does not own it ({reason})"))
        elif o["volatile"] or unsafe:
            continue
        else:
            t = through(ent)
            if t is None or t[0] != "file":
                out.append((f"own:{site}:removed:{w}:holds-no-content",
                            f"{p} ({ent}) was put there by the user in place of the recorded output and was removed"))
            elif t[1] != o["digest"]:
                q, hops = p, 0
                while before.get(q, ["?"])[0] == "link" and hops < 8:      # what the path leads to
                    q, hops = before[q][3], hops + 1
                if o.get("forged") or owned.get(q, {}).get("forged") or p in forged or q in forged:
                    continue      # same (mode, mtime, size, inode): invisible to the stat shortcut (assumption A-stat)
                circ = ":same-size-mode-mtime-new-inode" if (p in twins or q in twins) else ""
                out.append((f"own:{site}:removed:{w}:content-differs{circ}",
                            f"{p} ({ent}) does not hold the recorded content {o['digest']} and was removed"))
    for p in sorted(after):
        if p not in before:
            out.append((f"own:{site}:created:{what(after[p])}", f"{p} appeared during the cleanup"))
    return out


# ---------------------------------------------------------------------------------------------
# user tampering
# ---------------------------------------------------------------------------------------------


def _rel(target, link):
    return os.path.relpath(target, os.path.dirname(link) or ".")


def _replace_by_link(p, target):
    if os.path.lexists(p):
        os.remove(p)
    os.symlink(target, p)


def tamper(rng, p, kind, pool, serial):
    """Apply one user edit to the path p (a regular file or a link the step made).  pool: {"outputs": [...]}.
    Returns the edit actually applied (the requested one may be impossible)."""
    if not os.path.lexists(p) or (os.path.isdir(p) and not os.path.islink(p)):
        return None
    if kind == "content":
        if os.path.islink(p):
            os.remove(p)
        Path(p).write_text(f"user data in place of {p}, longer than what the step wrote")
    elif kind == "same-new-inode":
        if os.path.islink(p) or not os.path.isfile(p):
            return None
        c = Path(p).read_bytes()
        m = stat.S_IMODE(os.stat(p).st_mode)
        os.remove(p)
        Path(p).write_bytes(c)
        os.chmod(p, m)
    elif kind in ("replaced-same-stat", "inplace-same-stat"):
        if os.path.islink(p) or not os.path.isfile(p):
            return None
        st = os.stat(p)
        old = Path(p).read_bytes()
        new = bytes((c + 1) % 256 for c in old)        # same size, every byte different
        if not old:
            return None
        if kind == "replaced-same-stat":
            tmp = p + ".incoming"
            Path(tmp).write_bytes(new)
            os.chmod(tmp, stat.S_IMODE(st.st_mode))
            os.utime(tmp, ns=(st.st_atime_ns, st.st_mtime_ns))
            os.rename(tmp, p)                             # new inode, same size / mode / mtime
        else:
            with open(p, "r+b") as fh:                     # same inode
                fh.write(new)
            os.utime(p, ns=(st.st_atime_ns, st.st_mtime_ns))
    elif kind in ("link-user", "link-copy", "moved-linked", "link-dir"):
        os.makedirs("user", exist_ok=True)
        if kind == "link-dir":
            os.makedirs(f"user/dir{serial}", exist_ok=True)
            if rng.random() < 0.5:
                Path(f"user/dir{serial}/inside.txt").write_text("user file")
            _replace_by_link(p, _rel(f"user/dir{serial}", p))
        else:
            t = f"user/u{serial}.txt"
            if kind == "link-user":
                Path(t).write_text(f"curated by hand, not generated ({p})")
            else:
                if not os.path.isfile(p):
                    return None
                src = os.path.realpath(p) if os.path.islink(p) else p
                c, m = Path(src).read_bytes(), stat.S_IMODE(os.stat(src).st_mode)
                if kind == "moved-linked" and not os.path.islink(p):
                    os.rename(p, t)
                else:
                    Path(t).write_bytes(c)
                    os.chmod(t, m)
            _replace_by_link(p, _rel(t, p))
    elif kind == "link-output":
        cands = [q for q in pool.get("outputs", []) if q != p and os.path.lexists(q)]
        if not cands:
            return None
        _replace_by_link(p, _rel(rng.choice(cands), p))
    elif kind == "link-dangling":
        _replace_by_link(p, f"nowhere{serial}.txt")
    elif kind == "link-loop":
        _replace_by_link(p, os.path.basename(p))
    elif kind in ("dir-empty", "dir-nonempty"):
        os.remove(p)
        os.mkdir(p)
        if kind == "dir-nonempty":
            Path(os.path.join(p, "keep.txt")).write_text("user file")
    elif kind == "removed":
        os.remove(p)
    else:
        raise ValueError(kind)
    return kind


# ---------------------------------------------------------------------------------------------
# level 1: remove_deletable_files on a hand-made queue
# ---------------------------------------------------------------------------------------------

TREE_DIRS = ["", "a/", "a/b/", "a/b/c/", "d/", "d/e/", "z/"]


async def rdf_case(rng, force=None):
    """A random real tree, a to_be_deleted queue filled the way File.before_delete fills it (recorded hash through
    FileHash.refreshed, None for volatile outputs, directories through the real mark_dir_to_be_deleted), user
    edits afterwards, the real remove_deletable_files.  `force`: tamper for the first queued file."""
    from stepup.core.finalize import remove_deletable_files
    from stepup.core.hash import FileHash
    hids = cc.HashIds()
    with cc.project_dir():
        async with WF() as w:
            wf = w.wf
            desc, owned, outputs = [], {}, []
            n = rng.randint(2, 7)
            plan = []
            for i in range(n):
                d = rng.choice(TREE_DIRS)
                role = rng.choice(["hashed", "hashed", "hashed", "volatile", "user", "step-link"])
                plan.append((f"{d}f{i}.txt", role))
            for p, role in list(plan):
                if os.path.dirname(p):
                    os.makedirs(os.path.dirname(p), exist_ok=True)
                if role == "step-link":
                    # the step made a data file (an output too) and this output as a link to it; the name of
                    # the data file sorts before or after the link
                    data = os.path.join(os.path.dirname(p), rng.choice(["a_", "zz_"]) + os.path.basename(p))
                    Path(data).write_text(f"data behind {p} " * rng.randint(1, 3))
                    os.symlink(os.path.basename(data), p)
                    plan.append((data, "hashed-data"))
                else:
                    Path(p).write_text(f"content of {p} " * rng.randint(1, 3))
            for dname in rng.sample(TREE_DIRS[1:], k=rng.randint(0, 2)):
                os.makedirs(dname, exist_ok=True)
                if rng.random() < 0.4:
                    # a user's link inside a directory that may be scheduled for removal
                    os.symlink("../plan.py", os.path.join(dname, "userlink"))
            async with w.db:
                for p, role in plan:
                    if role == "user":
                        continue
                    outputs.append(p)
                    if role == "volatile":
                        wf.to_be_deleted[p] = None
                        owned[p] = {"volatile": True, "digest": None}
                    else:
                        fh = FileHash.unknown().refreshed(p)
                        wf.to_be_deleted[p] = fh
                        owned[p] = {"volatile": False, "digest": through(lentry(p))[1]}
                    if rng.random() < 0.8:
                        wf.mark_dir_to_be_deleted(Path(p).parent)
                for dname in rng.sample(TREE_DIRS[1:] + ["."], k=rng.randint(0, 2)):
                    wf.mark_dir_to_be_deleted(dname)
                if rng.random() < 0.3:
                    # a directory scheduled for removal that the user replaced by a symbolic link to a directory of
                    # their own (empty or not): is_dir() and iterdir() follow the link, rmdir does not
                    os.makedirs("user/linked", exist_ok=True)
                    if rng.random() < 0.5:
                        Path("user/linked/mine.txt").write_text("user file")
                    os.symlink("user/linked", "lnkdir")
                    wf.mark_dir_to_be_deleted("lnkdir")
                    desc.append(["lnkdir", "marked-directory", "link-dir"])
            serial = 0
            first = True
            for p, role in plan:
                if role == "user":
                    continue
                serial += 1
                if first and force is not None:
                    kind = force
                elif rng.random() < 0.6:
                    kind = rng.choice(TAMPERS)
                else:
                    kind = None
                first = False
                if kind is not None:
                    kind = tamper(rng, p, kind, {"outputs": outputs}, serial)
                if kind == "inplace-same-stat" and p in owned:
                    owned[p]["forged"] = True
                desc.append([p, role, kind])
            before = lsnap(".", hids)
            queue = {str(k): (None if v is None else "hash") for k, v in wf.to_be_deleted.items()}
            qfiles, qdirs = cc.dump_queue(wf, hids)
            client, reporter = cc.make_reporter()
            crash = await cc.call_cleanup(w, "remove_deletable_files", lambda: remove_deletable_files(wf, reporter))
            after = lsnap(".", hids)
            removed = [d for t, d in client.reports if t == "REMOVE"]
            left = {str(k): str(v) for k, v in wf.to_be_deleted.items()}
    return {"desc": desc, "queue": queue, "before": before, "after": after, "removed_events": removed,
            "owned": owned, "left": left, "qfiles": qfiles, "qdirs": sorted(qdirs), "crash": crash}


def rdf_model_check(c):
    """Gallina bool: model/Clean.v remove_deletable_files on the same queue and tree gives the same tree and the
    same REMOVE events in the same order."""
    if c.get("crash"):
        return "false"        # an exception escaped the real function; the model has none
    files = [d for d in c["removed_events"] if c["before"].get(d, ["?"])[0] != "dir"]
    dirs = [d for d in c["removed_events"] if c["before"].get(d, ["?"])[0] == "dir"]
    # fs_closedb: the hypothesis of C07_rdf_emptied_parents_pruned holds of the snapshot of the real tree
    return (f"let f0 := {cc.coq_fs(model_fs(c['before']))} in "
            f"let r := remove_deletable_files {cc.coq_queue(c['qfiles'], c['qdirs'])} f0 in "
            f"fs_match {cc.coq_fs(model_fs(c['after']))} (r_fs r) && strs_eqb {cc.coq_strs(files)} (r_files r) && "
            f"strs_eqb {cc.coq_strs(dirs)} (r_dirs r) && fs_closedb f0")


async def link_pair_case(order, d=""):
    """Directed: a step made a data file and, as a second output, a symbolic link to it; both are queued with the
    hash StepUp recorded (for the link: the hash of what it led to) and nobody touched them.  `order`: whether the
    name of the target sorts after the link's (then the single reverse-sorted loop removes the target first)."""
    from stepup.core.finalize import remove_deletable_files
    from stepup.core.hash import FileHash
    hids = cc.HashIds()
    data = d + ("zdata.txt" if order == "target-sorts-after" else "adata.txt")
    link = d + "mlink.txt"
    with cc.project_dir():
        async with WF() as w:
            wf = w.wf
            if d:
                os.makedirs(d, exist_ok=True)
            Path(data).write_text("data made by the step")
            os.symlink(os.path.basename(data), link)
            owned = {}
            async with w.db:
                for p in (data, link):
                    wf.to_be_deleted[p] = FileHash.unknown().refreshed(p)
                    owned[p] = {"volatile": False, "digest": through(lentry(p))[1]}
                    wf.mark_dir_to_be_deleted(Path(p).parent)
            before = lsnap(".", hids)
            queue = {str(k): (None if v is None else "hash") for k, v in wf.to_be_deleted.items()}
            qfiles, qdirs = cc.dump_queue(wf, hids)
            client, reporter = cc.make_reporter()
            crash = await cc.call_cleanup(w, "remove_deletable_files", lambda: remove_deletable_files(wf, reporter))
            after = lsnap(".", hids)
            removed = [x for t, x in client.reports if t == "REMOVE"]
            left = {str(k): str(v) for k, v in wf.to_be_deleted.items()}
    return {"desc": [[link, "step-link", None], [data, "hashed-data", None]], "queue": queue, "before": before,
            "after": after, "removed_events": removed, "owned": owned, "left": left, "qfiles": qfiles,
            "qdirs": sorted(qdirs), "directed": {"family": "link-pair", "order": order, "dir": d}, "crash": crash}


def link_pair_witness(order, d=""):
    """The same at the Workflow level (witness for finalize_case): step mk declares both outputs, runs, and is
    dropped by the next run of the plan; nobody touches the files."""
    data = d + ("zdata.txt" if order == "target-sorts-after" else "adata.txt")
    link = d + "mlink.txt"

    def witness(b):
        b.write("src.txt", "source")
        b.declare_static(b.w.plan, "src.txt")
        b.force_links = {link: data}
        b.define(b.w.plan, "mk", inp=["src.txt"], out=[data, link])
        b.define(b.w.plan, "other", inp=["src.txt"], out=["other.txt"])
        b.complete_all(list(b.steps))
        b.meta()
        b.log.append(["build-1 complete:", link, "is a symbolic link to", data, "made by mk"])
        b.rerun(b.w.plan, keep_step=lambda inf: str(inf.command) != "mk")
        b.log.append(["build-2: the plan no longer declares mk"])
        return list(b.steps)
    witness.info = {"family": "link-pair", "order": order, "dir": d, "link": link, "target": data}
    return witness


def rdf_oracle(c):
    out = judge("rdf", c["before"], c["after"], c["owned"], why_not=lambda p: "not-queued",
                forged={p for p, _, k in c["desc"] if k == "inplace-same-stat"},
                twins={p for p, _, k in c["desc"] if k == "replaced-same-stat"})
    if c["left"]:
        out.append(("own:rdf:queue-not-cleared", f"to_be_deleted after remove_deletable_files: {c['left']}"))
    if c.get("crash"):
        out.append(("own:rdf:exception:" + c["crash"].split(":")[0], f"remove_deletable_files raised {c['crash']}"))
    gone = sorted(p for p in c["before"] if p not in c["after"])
    if sorted(c["removed_events"]) != gone:
        out.append(("own:rdf:remove-events-differ-from-what-vanished", f"events {c['removed_events']} vanished {gone}"))
    return out


def rdf_orphans(c):
    """C07 on the same run: a queued output that holds exactly the recorded content (a volatile one: anything the
    user did not touch) is gone afterwards."""
    out = []
    tampered = {p: k for p, _, k in c["desc"]}
    for p, role, kind in c["desc"]:
        if p not in c["after"] or p not in c["owned"] or p not in c["before"]:
            continue
        o, ent = c["owned"][p], c["before"][p]
        if kind not in (None, "same-new-inode"):
            continue
        t = through(ent)
        if role == "step-link":
            # the link is as the step made it; did the user touch what it points to?
            data = os.path.normpath(os.path.join(os.path.dirname(p), ent[1]))
            if tampered.get(data) not in (None, "same-new-inode"):
                continue
            if data in c["after"]:
                out.append(("own:c07:orphan-kept:symlink-output:target-kept", f"{p} -> {ent[1]} is queued, unmodified, and still there"))
                continue
            first = "target-removed-first" if data > p else "target-removed-later"
            out.append((f"own:c07:orphan-kept:symlink-output:{first}",
                        f"{p} -> {ent[1]} is an output the step made as a symbolic link to its other output; both are "
                        f"unmodified and queued, the target was removed and the link stays behind, dangling"))
        elif o["volatile"] or (t is not None and t[0] == "file" and t[1] == o["digest"]):
            out.append((f"own:c07:orphan-kept:{what(ent)}", f"{p} is queued, unmodified, and still there"))
    return out


def rdf_empty_dirs(c):
    return empty_ancestors(c["before"], c["after"]) if c.get("all_parents_marked") else []


def rdf_witness(c):
    return {k: c.get(k) for k in ("directed", "desc", "queue", "before", "after", "removed_events", "crash", "left")}


# ---------------------------------------------------------------------------------------------
# level 2: projects through the real Workflow API, the real Builder.finalize / clean.clean()
# ---------------------------------------------------------------------------------------------


class OwnBuilder(cc.Builder):
    """cc.Builder whose steps sometimes make an output as a symbolic link (to an earlier output of the workflow or
    to a static file), and which remembers what exactly StepUp recorded for every path."""

    def __init__(self, w, rng, hids=None):
        super().__init__(w, rng, disk=True)
        self.hids = hids
        self.force_links = {}   # output path -> the other output it is a symbolic link to (directed cases)
        self.recorded = {}      # path -> lstat entry right after the step wrote it
        self.link_prob = 0.25

    def write(self, path, content):
        p = Path(path)
        if p.parent != "":
            p.parent.makedirs_p()
        if p.is_dir() and not p.islink():
            return False
        if os.path.lexists(path):
            os.remove(path)
        if path in self.force_links:
            target = self.force_links[path]
            if not os.path.lexists(target):
                self.write(target, "built " + target)
            os.symlink(_rel(target, path), path)
            self.recorded[path] = lentry(path, self.hids)
            return True
        cands = sorted(q for q in set(self.recorded) | self.statics if q != path and os.path.isfile(q))
        if path in self.force_links.values():
            cands = []          # the target of a directed link is a plain file with the same content on every write
        if content.startswith(("built ", "volatile ")) and cands and self.rng.random() < self.link_prob:
            os.symlink(_rel(self.rng.choice(cands), path), path)
        else:
            p.write_text(content)
        self.recorded[path] = lentry(path, self.hids)
        return True


def own_edits(b, rng, quiet=False):
    edits = {}
    serial = 0
    for p in sorted(b.written):
        if quiet or rng.random() >= 0.55:
            continue
        serial += 1
        kind = rng.choice(TAMPERS + ["neighbour", "adopt-static"])
        if kind == "neighbour":
            (Path(p).parent / f"user{serial}.dat").write_text("user neighbour")
            if rng.random() < 0.5:
                os.symlink("../plan.py", str(Path(p).parent / f"userlink{serial}"))
        elif kind == "adopt-static":
            from stepup.core.enums import HashUpdateCause
            from stepup.core.file import File
            f, det = b.wf.find_and_detached(File, p)
            if f is None or not det or not os.path.isfile(p):
                continue
            if os.path.islink(p):
                os.remove(p)
            Path(p).write_text("adopted by the user " + p)

            def go(p=p):
                unconfirmed = b.wf.declare_static_files(b.w.plan, [p])
                b.wf.update_file_hashes({q: b.hash_of(q) for q in unconfirmed}, cause=HashUpdateCause.CONFIRMED)
            if not b.attempt(go, ["adopt-static", p]):
                continue
            b.statics.add(p)
        else:
            kind = tamper(rng, p, kind, {"outputs": sorted(b.written)}, serial)
            if kind is None:
                continue
        edits[p] = kind
    b.log.append(["user-edits", edits])
    return edits


def _owned_from_graph(b, graph, edits, selectable=None):
    """What this cleanup may remove, from the harness' own records: paths some step declared as output, whose
    content StepUp recorded, that are not static (any more) -- volatile by the node's state."""
    nodes = cc._nodes_by_path(graph)
    owned, reasons = {}, {}
    for p, ent in b.recorded.items():
        n = nodes.get(p)
        if p not in b.ever_output:
            reasons[p] = "never-declared-output"
        elif n is None:
            reasons[p] = "no-node"
        elif n["fstate"] in cc.STATIC_STATES or edits.get(p) == "adopt-static":
            reasons[p] = "static"
        elif n["fstate"] not in (16, 17, 18):
            reasons[p] = f"state-{n['fstate']}"
        elif selectable is not None and not selectable(n):
            reasons[p] = "attached-without-all"
        else:
            t = through(ent)
            owned[p] = {"volatile": n["fstate"] == cc.VOLATILE, "digest": t[1] if t and t[0] == "file" else None,
                        "forged": edits.get(p) == "inplace-same-stat"}
    return owned, reasons


async def finalize_case(rng, guard, witness=None, quiet=False):
    """cc.disk_case with symbolic links: the project is grown by OwnBuilder, the user edits are own_edits, the
    snapshots are lstat snapshots; no model involved."""
    from stepup.core.enums import StepState
    from stepup.core.hash import StepHash
    from stepup.core.step import Step
    hids = cc.HashIds()
    wfkw = {}
    if guard == "targets":
        wfkw = {"targets": frozenset({Path("o1.txt")})}
    res = {"guard": guard}
    with cc.project_dir():
        async with WF(**wfkw) as w:
            Path("plan.py").write_text("#!/usr/bin/env python3\n")
            async with w.db:
                b = OwnBuilder(w, rng, hids)
                if witness is not None:
                    made = witness(b)
                else:
                    made = b.grow(rng.randint(2, 6))
                    b.complete_all(made)
                    b.meta()
                    b.outdate_some(made, prob=0.2)
                    b.evolve(made)
                edits = own_edits(b, rng, quiet)
                skipped = False
                for st in list(w.wf.nodes(Step)):
                    if st.label == "./plan.py" or st.get_state() == StepState.SUCCEEDED:
                        continue
                    if guard == "incomplete" and not skipped:
                        skipped = True
                        continue
                    b.link_prob = 0.0
                    b.complete(st)
                w.plan.mark_completed(StepHash(b"plan", None, b"plan", None), False)
            await cc.update_meta(w)
            async with w.db:
                res["before_graph"] = cc.dump_graph(w, hids)
            res["before"] = lsnap(".", hids)
            client, reporter = cc.make_reporter()
            builder = cc.make_builder(w, reporter, do_remove_outdated=(guard != "no-clean"))
            err = None
            try:
                await builder.finalize()
            except Exception as e:  # noqa: BLE001 - whatever escapes is this case's outcome
                err = f"{type(e).__name__}: {e}"
            res["error"] = err
            res["returncode"] = int(builder.returncode.value) if builder.returncode is not None else 0
            res["has_targets"] = bool(w.wf.targets) or bool(w.wf.target_dirs)
            res["clean"] = guard != "no-clean"
            res["removed_events"] = [d for t, d in client.reports if t == "REMOVE"]
            res["queue_left"] = {str(k): str(v) for k, v in w.wf.to_be_deleted.items()}
            res["queue_after"] = cc.dump_queue(w.wf, hids)
            async with w.db:
                res["after_graph"] = cc.dump_graph(w, hids)
            res["after"] = lsnap(".", hids)
            res["before_fs"], res["after_fs"] = model_fs(res["before"]), model_fs(res["after"])   # for cc.finalize_check
            res["edits"] = edits
            res["log"] = b.log
            res["recorded"] = dict(b.recorded)
            res["directed"] = getattr(witness, "info", None)
            res["owned"], res["reasons"] = _owned_from_graph(b, res["before_graph"], edits)
    return res


def finalize_oracle(res):
    out = []
    gone = sorted(p for p in res["before"] if p not in res["after"])
    if cc.guarded(res):
        if gone:
            why = "targets" if res["has_targets"] else "returncode" if (res["returncode"] & ~8) else "no-clean"
            out.append((f"own:finalize:guard-ignored:{why}", f"guarded finalize (rc={res['returncode']}) removed {gone}"))
        out += [x for x in judge("finalize", res["before"], res["after"], {}) if ":altered:" in x[0] or ":created:" in x[0]]
        return out
    out += judge("finalize", res["before"], res["after"], res["owned"],
                 why_not=lambda p: res["reasons"].get(p, "never-written-by-a-step"),
                 forged={p for p, k in res["edits"].items() if k == "inplace-same-stat"},
                 twins={p for p, k in res["edits"].items() if k == "replaced-same-stat"})
    if res["queue_left"]:
        out.append(("own:finalize:queue-left", str(res["queue_left"])))
    if sorted(res["removed_events"]) != gone:
        out.append(("own:finalize:remove-events-differ-from-what-vanished", f"events {res['removed_events']} vanished {gone}"))
    return out


def finalize_orphans(res):
    """C07 with links: after a successful unrestricted finalize a detached output that nothing holds, and whose
    path still is exactly what the step left there, is gone from disk."""
    out = []
    if cc.guarded(res) or res["error"]:
        return out
    held = cc.held_nodes(res["before_graph"])
    for n in res["before_graph"]["nodes"]:
        p = n["key"][1]
        if n["key"][0] != cc.KIND["file"] or n["fstate"] not in (16, 17, 18) or not n["det"] or n["key"] in held:
            continue
        rec, ent = res["recorded"].get(p), res["before"].get(p)
        if rec is None or ent is None or p not in res["after"] or res["edits"].get(p) not in (None, "same-new-inode"):
            continue
        if ent[:2] != rec[:2]:
            continue
        if ent[0] == "link":
            if through(ent) != through(rec):
                continue          # what it points to was modified (or is gone already)
            data = os.path.normpath(os.path.join(os.path.dirname(p), ent[1]))
            if data not in res["after"] and data in res["before"]:
                first = "target-removed-first" if data > p else "target-removed-later"
                out.append((f"own:c07:orphan-kept:symlink-output:{first}",
                            f"{p} -> {ent[1]}: an unmodified output the step made as a symbolic link; its target (another "
                            f"orphaned output) was removed by this cleanup and the link stays behind, dangling"))
                continue
        out.append((f"own:c07:orphan-kept:{what(ent)}", f"{p} (state {n['fstate']}) is an unmodified orphan and still on disk"))
    trees = [n["key"][1] for n in res["after_graph"]["nodes"] if n["key"][0] == cc.KIND["st"] and not n["det"]]
    out += empty_ancestors(res["before"], res["after"], trees)
    return out


def empty_ancestors(before, after, trees=()):
    """C07, "together with the directories StepUp created for it that became empty": a directory above a removed file
    (its parent, or any ancestor) that is left behind EMPTY.  Directories of attached static trees and links are
    exempt."""
    out = []
    seen = set()
    for p, ent in sorted(before.items()):
        if p in after or ent[0] == "dir":
            continue
        d, level = os.path.dirname(p), 0
        while d:
            if d in seen:
                break
            a = after.get(d)
            if a is not None and a[0] == "dir" and not any(q.startswith(d + "/") for q in after) \
                    and not any((d + "/").startswith(t) for t in trees):
                seen.add(d)
                kind = "parent" if level == 0 else "ancestor"
                siblings = sorted({q[len(d) + 1:].split("/")[0] for q in before if q.startswith(d + "/")})
                circ = "several-sub-directories-emptied" if len(siblings) > 1 else "single-chain"
                out.append((f"own:c07:empty-dir-kept:{kind}:{circ}",
                            f"{d} held nothing but what this cleanup removed ({siblings}) and is left behind empty"))
            d, level = os.path.dirname(d), level + 1
    return out


SIBLING_SHAPES = {
    "two-siblings": ["results/a/one.txt", "results/b/two.txt"],
    "deep-fork": ["results/a/x/one.txt", "results/a/y/two.txt", "results/b/three.txt"],
    "three-levels": ["top/mid/a/1.txt", "top/mid/b/2.txt", "top/other/3.txt"],
    "with-file-beside": ["res/a/1.txt", "res/b/2.txt", "res/direct.txt"],
}


def sibling_dirs_witness(shape, volatile=False):
    """Steps whose outputs live in sibling sub-directories of one created parent (and deeper forks); all of them are
    dropped by the next run of the plan; nobody touches anything."""
    outs = SIBLING_SHAPES[shape]

    def witness(b):
        b.link_prob = 0.0
        b.write("src.txt", "source")
        b.declare_static(b.w.plan, "src.txt")
        for i, o in enumerate(outs):
            b.define(b.w.plan, f"mk{i}", inp=["src.txt"], out=[] if volatile else [o], vol=[o] if volatile else [])
        b.define(b.w.plan, "other", inp=["src.txt"], out=["other.txt"])
        b.complete_all(list(b.steps))
        b.meta()
        b.log.append(["build-1 complete; outputs:", outs])
        b.rerun(b.w.plan, keep_step=lambda inf: not str(inf.command).startswith("mk"))
        b.log.append(["build-2: the plan no longer declares mk*"])
        return list(b.steps)
    witness.info = {"family": "sibling-dirs", "shape": shape, "volatile": volatile, "outputs": outs}
    return witness


async def sibling_rdf_case(shape):
    """The same on a hand-made queue: every output queued with its hash, the parent of each marked (what
    File.before_delete does), the real remove_deletable_files."""
    from stepup.core.finalize import remove_deletable_files
    from stepup.core.hash import FileHash
    hids = cc.HashIds()
    outs = SIBLING_SHAPES[shape]
    with cc.project_dir():
        async with WF() as w:
            wf = w.wf
            owned = {}
            for o in outs:
                os.makedirs(os.path.dirname(o), exist_ok=True)
                Path(o).write_text("built " + o)
            async with w.db:
                for o in outs:
                    wf.to_be_deleted[o] = FileHash.unknown().refreshed(o)
                    owned[o] = {"volatile": False, "digest": lentry(o)[1]}
                    wf.mark_dir_to_be_deleted(Path(o).parent)
            before = lsnap(".", hids)
            queue = {str(k): (None if v is None else "hash") for k, v in wf.to_be_deleted.items()}
            qfiles, qdirs = cc.dump_queue(wf, hids)
            client, reporter = cc.make_reporter()
            crash = await cc.call_cleanup(w, "remove_deletable_files", lambda: remove_deletable_files(wf, reporter))
            after = lsnap(".", hids)
            removed = [x for t, x in client.reports if t == "REMOVE"]
            left = {str(k): str(v) for k, v in wf.to_be_deleted.items()}
    return {"desc": [[o, "hashed", None] for o in outs], "queue": queue, "before": before, "after": after,
            "removed_events": removed, "owned": owned, "left": left, "qfiles": qfiles, "qdirs": sorted(qdirs),
            "directed": {"family": "sibling-dirs", "shape": shape}, "crash": crash, "all_parents_marked": True}


def finalize_witness(res):
    return {"directed": res.get("directed"), "operations": res["log"], "guard": res["guard"], "returncode": res["returncode"], "edits": res["edits"],
            "exception": res.get("error"), "queue_left": res.get("queue_left"),
            "tree_before": res["before"], "tree_after": res["after"], "removed_events": res["removed_events"]}


async def clean_case(rng):
    """harness.p_c06._clean_case with symbolic links, implementation only."""
    from stepup.core.clean import clean
    from stepup.core.exceptions import HashError
    hids = cc.HashIds()
    with cc.project_dir():
        async with WF() as w:
            Path("plan.py").write_text("#!/usr/bin/env python3\n")
            async with w.db:
                b = OwnBuilder(w, rng, hids)
                made = b.grow(rng.randint(2, 6))
                b.complete_all(made, fraction=rng.choice([1.0, 0.8]))
                b.outdate_some(made, prob=0.4)
                b.evolve(made)
                edits = own_edits(b, rng)
            async with w.db:
                g = cc.dump_graph(w, hids)
            before = lsnap(".", hids)
            all_, safe, commit = rng.random() < 0.5, rng.random() < 0.7, rng.random() < 0.85
            hand = sorted(q for q, e in edits.items() if e not in ("neighbour", "adopt-static"))
            r = rng.random()
            if r < 0.5 or not hand:
                trs = ["."]
            else:
                q = rng.choice(hand)
                trs = [q if rng.random() < 0.5 or not os.path.dirname(q) else os.path.dirname(q)]
            crash = None
            async with w.db:
                try:
                    with contextlib.redirect_stdout(io.StringIO()):
                        clean(w.db, {Path(t) for t in trs}, cc.clean_namespace(all_, safe, commit))
                except Exception as e:  # noqa: BLE001
                    crash = f"{type(e).__name__}: {e}"
            after = lsnap(".", hids)
            owned, reasons = _owned_from_graph(b, g, edits, selectable=lambda n: all_ or n["det"])
    return {"graph": g, "before": before, "after": after, "args": [all_, safe, commit], "paths": trs, "crash": crash,
            "edits": edits, "log": b.log, "owned": owned, "reasons": reasons}


def clean_oracle(c):
    all_, safe, commit = c["args"]
    gone = sorted(p for p in c["before"] if p not in c["after"])
    out = []
    if not commit and gone:
        out.append(("own:clean:removed-without-commit", str(gone)))
    out += judge("clean", c["before"], c["after"], c["owned"],
                 why_not=lambda p: c["reasons"].get(p, "never-written-by-a-step"), unsafe=not safe,
                 forged={p for p, k in c["edits"].items() if k == "inplace-same-stat"},
                 twins={p for p, k in c["edits"].items() if k == "replaced-same-stat"})
    return out


def clean_model_check(c):
    all_, safe, commit = c["args"]
    return (f"let r := clean_tool {cc.coq_graph(c['graph'])} (mkArgs {cc.coq_bool(all_)} {cc.coq_bool(safe)} "
            f"{cc.coq_bool(commit)}) {cc.coq_strs(c['paths'])} {cc.coq_fs(model_fs(c['before']))} in "
            f"fs_match {cc.coq_fs(model_fs(c['after']))} (k_fs r) && Bool.eqb (k_crash r) {cc.coq_bool(c['crash'] is not None)}")


def clean_witness(c):
    return {"operations": c["log"], "args": dict(zip(["all", "safe", "commit"], c["args"])), "paths": c["paths"],
            "edits": c["edits"], "tree_before": c["before"], "tree_after": c["after"], "crash": c["crash"]}


# ---------------------------------------------------------------------------------------------
# drivers used by p_c06 / p_c07 (oracle: small; search: large)
# ---------------------------------------------------------------------------------------------

GUARDS = ["none", "none", "none", "targets", "incomplete", "no-clean"]


async def _run_all(ctx, n_rdf, n_fin, n_clean):
    out = {"rdf": [], "fin": [], "clean": []}
    for j, order in enumerate(["target-sorts-after", "target-sorts-before"]):
        d = ["", "d1/"][(j + ctx.seed) % 2]
        out["rdf"].append(await link_pair_case(order, d))
        out["fin"].append(await finalize_case(ctx.rng, "none", witness=link_pair_witness(order, d), quiet=True))
    shapes = sorted(SIBLING_SHAPES)
    for j, shape in enumerate(shapes):
        out["rdf"].append(await sibling_rdf_case(shape))
        out["fin"].append(await finalize_case(ctx.rng, "none", witness=sibling_dirs_witness(shape, volatile=(j + ctx.seed) % 3 == 2),
                                              quiet=True))
    for k in range(n_rdf):
        # every tamper is forced once per len(TAMPERS) cases, the rest is random
        out["rdf"].append(await rdf_case(ctx.rng, force=TAMPERS[(k + ctx.seed) % len(TAMPERS)] if k % 2 == 0 else None))
    for k in range(n_fin):
        out["fin"].append(await finalize_case(ctx.rng, GUARDS[k % len(GUARDS)]))
    for k in range(n_clean):
        out["clean"].append(await clean_case(ctx.rng))
    return out


def generate_families(ctx, n_rdf, n_fin, n_clean):
    return cc.run(_run_all(ctx, n_rdf, n_fin, n_clean), timeout=1800)


def run_families(ctx, n_rdf, n_fin, n_clean, c06=True, c07=False, suffix="", res=None):
    """Run the three families (or judge the cases in `res`) and report through ctx.add_failure (first witness per
    signature)."""
    if res is None:
        res = generate_families(ctx, n_rdf, n_fin, n_clean)
    seen = set()

    def emit(name, sig, detail, witness):
        if sig in seen:
            return
        seen.add(sig)
        ctx.add_failure("oracle", name, sig + suffix, detail, witness=witness)
    for c in res["rdf"]:
        gone = [p for p in c["before"] if p not in c["after"]]
        ctx.case(("own-rdf", repr(c["before"]), repr(c["queue"])), bool(gone))
        ctx.count("own_rdf_cases", 1)
        for p, role, kind in c["desc"]:
            if kind:
                ctx.count(f"own_rdf_tamper_{kind}", 1)
            if role == "step-link":
                ctx.count("own_rdf_step_made_links", 1)
        ctx.count("own_rdf_removed_links", sum(1 for p in gone if c["before"][p][0] == "link"))
        ctx.count("own_rdf_kept_tampered_links", sum(1 for p, _, k in c["desc"] if k in LINK_TAMPERS and p in c["after"]))
        if c06:
            for sig, detail in rdf_oracle(c):
                emit("own:remove_deletable_files", sig, detail, rdf_witness(c))
        if c07:
            for sig, detail in rdf_orphans(c) + rdf_empty_dirs(c):
                emit("own:remove_deletable_files", sig, detail, rdf_witness(c))
    for r in res["fin"]:
        gone = [p for p in r["before"] if p not in r["after"]]
        ctx.case(("own-fin", repr(r["before_graph"]), repr(r["before"]), r["guard"]), bool(gone) or cc.guarded(r))
        ctx.count("own_finalize_cases", 1)
        for k in r["edits"].values():
            ctx.count(f"own_finalize_tamper_{k}", 1)
        ctx.count("own_finalize_step_made_links", sum(1 for e in r["recorded"].values() if e[0] == "link"))
        ctx.count("own_finalize_removed_links", sum(1 for p in gone if r["before"][p][0] == "link"))
        if c06:
            for sig, detail in finalize_oracle(r):
                emit("own:finalize", sig, detail, finalize_witness(r))
        if c07:
            for sig, detail in finalize_orphans(r):
                emit("own:finalize", sig, detail, finalize_witness(r))
    for c in res["clean"]:
        gone = [p for p in c["before"] if p not in c["after"]]
        ctx.case(("own-clean", repr(c["graph"]), repr(c["before"]), repr(c["args"]), repr(c["paths"])),
                 bool(gone) or c["crash"] is not None)
        ctx.count("own_clean_cases", 1)
        ctx.count("own_clean_crashes", int(c["crash"] is not None))
        ctx.count("own_clean_removed_links", sum(1 for p in gone if c["before"][p][0] == "link"))
        if c06:
            for sig, detail in clean_oracle(c):
                emit("own:clean", sig, detail, clean_witness(c))
    return res


# ---------------------------------------------------------------------------------------------
# level 3: the real serve(): a step is dropped, the user replaces its output, the next build cleans
# ---------------------------------------------------------------------------------------------


def e3_replace_variants():
    for kind in [None] + TAMPERS:
        for via in ("no-clean", "direct"):
            for volatile in (False, True):
                yield kind, via, volatile


def e3_replace_case(kind, via, volatile, subdir=""):
    """Build 1: mkA writes report.txt (regular or volatile output), mkB writes keep.txt.  The plan drops mkA.
    via "no-clean": build 2 runs with --no-clean (report.txt stays, its node lingers detached), then the user
    replaces report.txt, then build 3 cleans.  via "direct": the user replaces report.txt before build 2, which
    cleans.  Returns (violations C06, violations C07, record)."""
    import random
    import tempfile

    from . import e3
    out = f"{subdir}report.txt"

    def plan(with_a):
        acts = [{"op": "static", "paths": ["src.txt"]}]
        if with_a:
            a = {"op": "step", "label": "mkA", "inp": ["src.txt"]}
            a["vol" if volatile else "out"] = [out]
            acts.append(a)
        acts.append({"op": "step", "label": "mkB", "inp": ["src.txt"], "out": ["keep.txt"]})
        return acts
    project = e3.Project(sources={"src.txt": "source"}, program={"scripts": {"plan.py": plan(True)}, "commands": {}}, env={})
    rcs, events = [], []
    with tempfile.TemporaryDirectory(prefix="verif-own-e3-") as root:
        project.materialise(root)
        if subdir:
            os.makedirs(os.path.join(root, subdir), exist_ok=True)
        r = e3.build(root, project.program, env={}, timeout=120)
        rcs.append(r.returncode)
        if out not in r.files:
            return [], [], {"skipped": "the output was not produced", "rc": rcs}
        with contextlib.chdir(root):
            wrote = lentry(out)
        e3.apply_edit(project, root, {"op": "script", "path": "plan.py", "actions": plan(False)})
        if via == "no-clean":
            r = e3.build(root, project.program, env={}, timeout=120, clean=False)
            rcs.append(r.returncode)
        with contextlib.chdir(root):
            applied = tamper(random.Random(0), out, kind, {"outputs": ["keep.txt"]}, 1) if kind else None
            before = lsnap(".")
        r = e3.build(root, project.program, env={}, timeout=120)
        rcs.append(r.returncode)
        events = [e[1] for e in r.events if e[0] == "REMOVE"]
        with contextlib.chdir(root):
            after = lsnap(".")
    rec = {"variant": {"tamper": kind, "applied": applied, "via": via, "volatile": volatile, "output": out},
           "rc": rcs, "tree_before_last_build": before, "tree_after": after, "removed_events": events,
           "how": "harness.clean_own.e3_replace_case(kind, via, volatile): plan.py drops mkA, harness.e3.build after each phase"}
    if (rcs[-1] & ~8) != 0:
        return [], [], rec
    owned = {out: {"volatile": volatile, "digest": wrote[1], "forged": applied == "inplace-same-stat"}}
    v6 = judge("e3", before, after, owned, why_not=lambda p: "not-an-orphaned-output",
               twins={out} if applied == "replaced-same-stat" else ())
    v7 = []
    if applied in (None, "same-new-inode") and kind in (None, "same-new-inode") and out in after:
        v7.append(("own:c07:e3:orphan-kept:" + what(before[out]), f"{out} is unmodified, its step is gone, and it is still there"))
    return v6, v7, rec


def run_e3_replace(ctx, n, c06=True, c07=False, suffix=""):
    from . import e3
    variants = list(e3_replace_variants())
    # the link shapes first, rotated by the seed
    variants.sort(key=lambda v: (v[0] not in LINK_TAMPERS, v[2]))
    k0 = (ctx.seed * n) % len(variants)
    chosen = (variants[k0:] + variants[:k0])[:n]
    seen = set()
    for j, (kind, via, volatile) in enumerate(chosen):
        try:
            v6, v7, rec = e3_replace_case(kind, via, volatile, subdir=["", "sub/"][(j + ctx.seed) % 2])
        except e3.E3Error as exc:
            ctx.count("e3_harness_errors", 1)
            ctx.notes.append(f"own e3 replace case {kind}/{via}: {str(exc)[:200]}")
            continue
        ctx.case(("own-e3", kind, via, volatile), "skipped" not in rec)
        ctx.count("own_e3_replace_cases", 1)
        ctx.count(f"own_e3_replace_{kind}", 1)
        for sig, detail in (v6 if c06 else []) + (v7 if c07 else []):
            if sig not in seen:
                seen.add(sig)
                ctx.add_failure("oracle", "own:e3", sig + suffix, detail, witness=rec)


# ---------------------------------------------------------------------------------------------
# level 4: the real command line (a subprocess per build): a step whose command makes a symbolic link
# ---------------------------------------------------------------------------------------------

CLI_PLAN_1 = """#!/usr/bin/env python3
from stepup.core.api import run

run("echo data > {data}; ln -s {data} {link}", shell=True, out=["{data}", "{link}"])
run("echo other > other.txt", shell=True, out="other.txt")
"""

CLI_PLAN_2 = """#!/usr/bin/env python3
from stepup.core.api import run

run("echo other > other.txt", shell=True, out="other.txt")
"""


def cli_link_pair_case(order):
    """`stepup build` twice in a scratch project: build 1 runs a shell step that writes a data file and a symbolic
    link to it (both declared outputs); the plan drops the step; build 2 cleans.  Returns (violations C07, record)
    or (None, record) when the builds could not be run."""
    import subprocess
    import sys
    import tempfile
    data = "zdata.txt" if order == "target-sorts-after" else "adata.txt"
    link = "mlink.txt"
    from . import common
    repo = str(common.REPO)
    env = {k: v for k, v in os.environ.items() if not k.startswith("STEPUP_")}
    env["PYTHONPATH"] = repo + os.pathsep + os.path.join(repo, "tests")
    env["PATH"] = os.path.dirname(sys.executable) + os.pathsep + env.get("PATH", "")
    env["COLUMNS"] = "100"
    rec = {"variant": {"order": order, "link": link, "target": data}, "builds": [],
           "how": "harness.clean_own.cli_link_pair_case: python -m stepup.core build -j 1 --no-progress, twice, in a scratch project"}
    with tempfile.TemporaryDirectory(prefix="verif-own-cli-") as root:
        def build():
            try:
                proc = subprocess.run([sys.executable, "-m", "stepup.core", "build", "-j", "1", "--no-progress"], cwd=root,
                                      env=env, stdin=subprocess.DEVNULL, stdout=subprocess.PIPE, stderr=subprocess.STDOUT,
                                      text=True, timeout=300, check=False)
            except subprocess.TimeoutExpired:
                rec["builds"].append({"rc": "timeout"})
                return False
            rec["builds"].append({"rc": proc.returncode, "removed": [ln.split("│")[-1].strip() for ln in proc.stdout.splitlines()
                                                                    if "REMOVE" in ln]})
            return proc.returncode == 0
        plan = os.path.join(root, "plan.py")
        Path(plan).write_text(CLI_PLAN_1.format(data=data, link=link))
        os.chmod(plan, 0o755)
        if not build() or not os.path.islink(os.path.join(root, link)):
            return None, rec
        Path(plan).write_text(CLI_PLAN_2)
        before = lsnap(root)
        if not build():
            return None, rec
        after = lsnap(root)
    rec["tree_before_last_build"], rec["tree_after"] = before, after
    out = []
    if link in after:
        first = "target-removed-first" if data not in after and data > link else "target-kept" if data in after else "target-removed-later"
        out.append((f"own:c07:orphan-kept:symlink-output:{first}",
                    f"{link} -> {data}: an unmodified output the step made as a symbolic link is still there after the "
                    f"successful build that dropped the step (the target is {'gone' if data not in after else 'there'})"))
    if data in after:
        out.append(("own:c07:cli:orphan-kept:regular", f"{data} is still there"))
    return out, rec


def run_cli_link_pairs(ctx, orders, suffix=""):
    for order in orders:
        viol, rec = cli_link_pair_case(order)
        if viol is None:
            ctx.notes.append(f"cli link-pair case {order}: builds could not be run: {rec['builds']}")
            ctx.count("own_cli_not_run", 1)
            continue
        ctx.case(("own-cli", order), True)
        ctx.count("own_cli_link_pair_cases", 1)
        for sig, detail in viol:
            ctx.add_failure("oracle", "own:cli", sig + suffix, detail, witness=rec)


# ---------------------------------------------------------------------------------------------
# level 2b: several build phases of ONE director (one Workflow object, one Builder): watch mode
# ---------------------------------------------------------------------------------------------

PHASE_SCENARIOS = ["A-volatile-replaced-by-directory", "B-removal-fails-once", "random"]


@contextlib.contextmanager
def failing_remove_once(paths):
    """os.remove raises PermissionError the first time it is called for one of `paths` (a busy file, a directory that
    is read-only for the moment)."""
    real = os.remove
    pending = {os.path.normpath(p) for p in paths}

    def remove(path, *a, **kw):
        key = os.path.normpath(os.path.relpath(os.fspath(path))) if os.path.isabs(os.fspath(path)) else os.path.normpath(os.fspath(path))
        if key in pending:
            pending.discard(key)
            raise PermissionError(13, "Permission denied (injected once)", os.fspath(path))
        return real(path, *a, **kw)
    os.remove = remove
    try:
        yield
    finally:
        os.remove = real


async def phases_case(rng, scenario, d=""):
    """Three build phases inside one Workflow / Builder (what `stepup build --watch` does): phase 1 builds; in phase 2
    steps are dropped and the cleanup meets removals that fail (the path is a directory now, or os.remove fails
    once); then the user adopts former outputs as static files (own content or unchanged); phase 3 is a complete
    build again.  After every phase the ownership judge runs on that phase's own graph: what is static when the
    cleanup starts must survive it.  Returns {"phases": [record per phase], ...}."""
    from stepup.core.enums import HashUpdateCause, StepState
    from stepup.core.file import File
    from stepup.core.hash import StepHash
    from stepup.core.step import Step
    hids = cc.HashIds()
    out = {"scenario": scenario, "dir": d, "phases": [], "log": None}
    with cc.project_dir():
        async with WF() as w:
            Path("plan.py").write_text("#!/usr/bin/env python3\n")
            client, reporter = cc.make_reporter()
            builder = cc.make_builder(w, reporter)
            b = OwnBuilder(w, rng, hids)
            b.link_prob = 0.0
            adopted = {}

            async def phase(label, fail_once=()):
                async with w.db:
                    for st in list(w.wf.nodes(Step)):
                        if st.label != "./plan.py" and st.get_state() != StepState.SUCCEEDED:
                            b.complete(st)
                    if w.plan.get_state() != StepState.SUCCEEDED:
                        w.plan.mark_completed(StepHash(b"plan", None, b"plan", None), False)
                await cc.update_meta(w)
                async with w.db:
                    g = cc.dump_graph(w, hids)
                before = lsnap(".", hids)
                owned, reasons = _owned_from_graph(b, g, adopted)
                nev = len(client.reports)
                err = None
                with failing_remove_once(fail_once):
                    try:
                        await builder.finalize()
                    except Exception as e:  # noqa: BLE001 - outcome of this phase
                        err = f"{type(e).__name__}: {e}"
                after = lsnap(".", hids)
                async with w.db:
                    g_after = cc.dump_graph(w, hids)
                out["phases"].append({
                    "label": label, "graph": g, "after_graph": g_after, "before": before, "after": after,
                    "owned": owned, "reasons": reasons, "error": err, "injected_failures": sorted(fail_once),
                    "returncode": int(builder.returncode.value) if builder.returncode is not None else 0,
                    "removed_events": [x for t, x in client.reports[nev:] if t == "REMOVE"],
                    "queue_after": cc.dump_queue(w.wf, hids),
                    "queue_left": {str(k): str(v) for k, v in w.wf.to_be_deleted.items()},
                    "statics": sorted(n["key"][1] for n in g["nodes"] if n["key"][0] == cc.KIND["file"]
                                      and n["fstate"] in cc.STATIC_STATES and not n["det"])})

            def adopt(p, content=None):
                if content is not None:
                    Path(p).write_text(content)

                def go():
                    unconfirmed = b.wf.declare_static_files(w.plan, [p])
                    b.wf.update_file_hashes({q: b.hash_of(q) for q in unconfirmed}, cause=HashUpdateCause.CONFIRMED)
                if b.attempt(go, ["user adopts as static", p, "own content" if content is not None else "content unchanged"]):
                    b.statics.add(p)
                    adopted[p] = "adopt-static"

            if scenario != "random":
                vol = scenario.startswith("A")
                p = f"{d}scratch" if vol else f"{d}report.txt"
                async with w.db:
                    b.write("src.txt", "source")
                    b.declare_static(w.plan, "src.txt")
                    b.define(w.plan, "mk", inp=["src.txt"], out=[] if vol else [p], vol=[p] if vol else [])
                    b.define(w.plan, "other", inp=["src.txt"], out=["other.txt"])
                await phase("phase 1: everything built")
                async with w.db:
                    b.find_step("mk").detach()
                    b.log.append(["the plan no longer declares mk (detach)"])
                if vol:
                    os.remove(p)
                    os.mkdir(p)
                    Path(os.path.join(p, "mine.txt")).write_text("user data")
                    b.log.append(["user replaces", p, "by a directory of their own"])
                    await phase("phase 2: cleanup cannot remove the directory")
                    import shutil
                    shutil.rmtree(p)
                    async with w.db:
                        adopt(p, "hand-written, never produced by any step")
                else:
                    await phase("phase 2: removal fails once", fail_once=[p])
                    async with w.db:
                        adopt(p)
                await phase("phase 3: complete build after the adoption")
            else:
                async with w.db:
                    made = b.grow(rng.randint(2, 5))
                    b.complete_all(made)
                    b.meta()
                await phase("phase 1: everything built")
                async with w.db:
                    b.drop_random(made)
                fail = []
                for q in sorted(b.written):
                    r = rng.random()
                    if not os.path.isfile(q) or os.path.islink(q):
                        continue
                    if r < 0.25:
                        tamper(rng, q, rng.choice(["dir-empty", "dir-nonempty"]), {}, 0)
                        b.log.append(["user replaces", q, "by a directory"])
                    elif r < 0.5:
                        fail.append(q)
                await phase("phase 2: drops, directories in place of outputs, removals that fail once", fail_once=fail)
                async with w.db:
                    for q in sorted(b.written):
                        f, det = b.wf.find_and_detached(File, q)
                        if f is not None and not det:
                            continue      # still an output of an attached step
                        if rng.random() < 0.6:
                            if os.path.isdir(q) and not os.path.islink(q):
                                import shutil
                                shutil.rmtree(q)
                                adopt(q, "the user's own file " + q)
                            elif os.path.isfile(q):
                                adopt(q, None if rng.random() < 0.5 else "the user's own file " + q)
                await phase("phase 3: complete build after the adoptions")
            out["log"] = b.log
    return out


def phases_oracle(c):
    out = []
    for i, ph in enumerate(c["phases"]):
        if (ph["returncode"] & ~8) != 0:
            gone = sorted(p for p in ph["before"] if p not in ph["after"])
            if gone:
                out.append(("own:phases:guard-ignored:returncode", f"{ph['label']}: incomplete build removed {gone}"))
            continue
        for sig, detail in judge("phases", ph["before"], ph["after"], ph["owned"],
                                 why_not=lambda p, ph=ph: ph["reasons"].get(p, "never-written-by-a-step")):
            out.append((sig, f"{ph['label']}: {detail}"))
        if ph["queue_left"]:
            out.append(("own:phases:queue-survives-the-cleanup",
                        f"{ph['label']}: Workflow.to_be_deleted still holds {ph['queue_left']} when finalize returns; the "
                        f"next phase of this director starts its cleanup with it"))
        if ph["error"]:
            out.append(("own:phases:exception:" + ph["error"].split(":")[0], f"{ph['label']}: finalize raised {ph['error']}"))
    return out


def phases_model_check(c):
    """Gallina bool: model/Clean.v run phase by phase with the queue handed on (next_phase) against what the real
    Builder left: tree, REMOVE events, queue after every phase.  Only for cases without injected os.remove failures
    (the model's os.remove fails on directories and missing paths only)."""
    terms = []
    prev = "empty_queue"
    lets = []
    for i, ph in enumerate(c["phases"]):
        files = [x for x in ph["removed_events"] if ph["before"].get(x, ["?"])[0] != "dir"]
        dirs = [x for x in ph["removed_events"] if ph["before"].get(x, ["?"])[0] == "dir"]
        ctx = f"(mkCtx false {ph['returncode']} true)"
        lets.append(f"let s{i} := finalize {ctx} (mkFin {cc.coq_graph(ph['graph'])} {prev} {cc.coq_fs(model_fs(ph['before']))} [] [] false) in")
        qf, qd = ph["queue_after"]
        terms.append(f"fs_match {cc.coq_fs(model_fs(ph['after']))} (s_fs s{i}) && strs_eqb {cc.coq_strs(files)} (s_files s{i}) && "
                     f"strs_eqb {cc.coq_strs(dirs)} (s_dirs s{i}) && queue_match {cc.coq_qfiles(qf)} {cc.coq_strs(sorted(qd))} (s_q s{i}) && "
                     f"Bool.eqb (s_err s{i}) {cc.coq_bool(ph['error'] is not None)}")
        prev = f"(s_q s{i})"
    return " ".join(lets) + " " + " && ".join(terms)


def phases_modelled(c):
    return all(not ph["injected_failures"] and model_ok(ph["before"]) for ph in c["phases"])


def phases_witness(c):
    return {"scenario": c["scenario"], "dir": c["dir"], "operations": c["log"],
            "phases": [{k: ph[k] for k in ("label", "statics", "injected_failures", "returncode", "removed_events", "error",
                                           "queue_left", "before", "after")} for ph in c["phases"]],
            "how": "harness.clean_own.phases_case: one Workflow + one Builder, Builder.finalize() once per phase"}


async def _run_phases(ctx, n_random):
    out = []
    for j, sc in enumerate(PHASE_SCENARIOS[:2]):
        for d in ("", "d1/"):
            out.append(await phases_case(ctx.rng, sc, d))
    for _ in range(n_random):
        out.append(await phases_case(ctx.rng, "random"))
    return out


def generate_phases(ctx, n_random):
    return cc.run(_run_phases(ctx, n_random), timeout=1800)


def judge_phases(ctx, cases, suffix=""):
    seen = set()
    for c in cases:
        gone = sum(1 for ph in c["phases"] for p in ph["before"] if p not in ph["after"])
        ctx.case(("own-phases", c["scenario"], c["dir"], repr([ph["before"] for ph in c["phases"]])), gone > 0)
        ctx.count("own_phases_cases", 1)
        ctx.count("own_phases_" + c["scenario"].split("-")[0], 1)
        ctx.count("own_phases_injected_failures", sum(len(ph["injected_failures"]) for ph in c["phases"]))
        ctx.count("own_phases_adopted_static_in_last_phase", len(c["phases"][-1]["statics"]) if c["phases"] else 0)
        for sig, detail in phases_oracle(c):
            if sig not in seen:
                seen.add(sig)
                ctx.add_failure("oracle", "own:phases", sig + suffix, detail, witness=phases_witness(c))


# ---------------------------------------------------------------------------------------------
# a DIRECTORY on the way to an output replaced by a symbolic link to a directory of the user
# ---------------------------------------------------------------------------------------------


async def parent_link_case(site, volatile=False):
    """Step mk wrote res/o.txt (a regular or volatile output).  The user copies the results (`cp -r res backup`),
    removes res/ and makes it a symbolic link to backup/: res/o.txt now IS backup/o.txt, a file the user created at
    a path no step ever declared.  mk is dropped; site "finalize": the real Builder.finalize; site "clean": the real
    clean.clean(--commit) on the whole project."""
    import shutil

    from stepup.core.clean import clean
    from stepup.core.hash import StepHash
    hids = cc.HashIds()
    out = "res/o.txt"
    res = {"site": site, "volatile": volatile}
    with cc.project_dir():
        async with WF() as w:
            Path("plan.py").write_text("#!/usr/bin/env python3\n")
            async with w.db:
                b = OwnBuilder(w, __import__("random").Random(0), hids)
                b.link_prob = 0.0
                b.write("src.txt", "source")
                b.declare_static(w.plan, "src.txt")
                b.define(w.plan, "mk", inp=["src.txt"], out=[] if volatile else [out], vol=[out] if volatile else [])
                b.define(w.plan, "other", inp=["src.txt"], out=["other.txt"])
                b.complete_all(list(b.steps))
                b.meta()
                shutil.copytree("res", "backup")
                shutil.rmtree("res")
                os.symlink("backup", "res")
                b.log.append(["user: cp -r res backup; rm -r res; ln -s backup res"])
                b.find_step("mk").detach()
                b.log.append(["the plan no longer declares mk (detach)"])
                w.plan.mark_completed(StepHash(b"plan", None, b"plan", None), False)
            await cc.update_meta(w)
            async with w.db:
                g = cc.dump_graph(w, hids)
            before = lsnap(".", hids)
            client, reporter = cc.make_reporter()
            err = None
            try:
                if site == "finalize":
                    await cc.make_builder(w, reporter).finalize()
                else:
                    async with w.db:
                        with contextlib.redirect_stdout(io.StringIO()):
                            clean(w.db, {Path(".")}, cc.clean_namespace(False, True, True))
            except Exception as e:  # noqa: BLE001
                err = f"{type(e).__name__}: {e}"
            after = lsnap(".", hids)
            res.update({"before": before, "after": after, "error": err, "log": b.log, "graph": g,
                        "removed_events": [x for t, x in client.reports if t == "REMOVE"]})
    return res


def parent_link_oracle(c):
    out = []
    for p, ent in sorted(c["before"].items()):
        if p not in c["after"] and p.startswith("backup/"):
            out.append((f"own:{c['site']}:removed:{what(ent)}:behind-linked-parent-directory",
                        f"{p} is a file the user made (a copy of the results, at a path no step ever declared); the cleanup reached "
                        f"it through res -> backup, where the {'volatile ' if c['volatile'] else ''}output res/o.txt used to be, "
                        f"and removed it"))
    for sig, detail in judge(c["site"], c["before"], c["after"], {}):
        if ":altered:" in sig or ":created:" in sig:
            out.append((sig, detail))
    return out


def parent_link_witness(c):
    return {k: c[k] for k in ("site", "volatile", "log", "before", "after", "removed_events", "error")}


def run_parent_links(ctx, suffix=""):
    async def go():
        return [await parent_link_case(site, vol) for site in ("finalize", "clean") for vol in (False, True)]
    seen = set()
    for c in cc.run(go()):
        ctx.case(("own-parent-link", c["site"], c["volatile"]), True)
        ctx.count("own_parent_link_cases", 1)
        for sig, detail in parent_link_oracle(c):
            if sig not in seen:
                seen.add(sig)
                ctx.add_failure("oracle", "own:parent-link", sig + suffix, detail, witness=parent_link_witness(c))
