"""C02: the witnesses of the `_refuted` lemmas of coq/proofs/CommuteProofs.v as e2 operations.

Each entry: trace (operations that reach the state through the executor / director protocol),
r1, r2 (requests of two different RUNNING steps), the verdict of model/Commute.v `both_orders`
(0 commute, 1 both-reject, 2 diff-graph, 3 diff-success), the Coq constant prefix, and how the
real-code difference is classified:
  finding   confirmed at system level by c02_e3.SCENARIOS[...] (success / failure of the SAME build
            depends on the schedule)
  note      real at transaction level; no system-level scenario built (see design.d/C02.md)
  harmless  the difference disappears before the build ends (lemma ..._converges)
"""
ROOT = ("root", "")
PL = "./plan.py"


def S(label):
    return ("step", label)


def D(c, label, i=(), o=(), v=(), e=(), n="DEFAULT"):
    return ("define_step", S(c), label, tuple(i), tuple(e), tuple(o), tuple(v), n)


def RUN(label):
    return [("dispatch", label), ("reset_for_rerun", label)]


BOOT = [("declare_static", ROOT, ("plan.py",)), ("update_hashes", "CONFIRMED", (("plan.py", 1),)),
        ("define_step", ROOT, PL, ("plan.py",), (), (), (), "PLAN"), *RUN(PL)]
# the plan step is deferred and rerun: its products become stale, it re-declares some of them
DEFER = [("exec_end", PL, (), "FAILED", (), False, True), *RUN(PL)]

VERDICTS = {"commute": 0, "both-reject": 1, "DIFF-GRAPH": 2, "DIFF-SUCCESS": 3}

WITNESSES = {
    "stale_volatile_input": dict(
        trace=BOOT + [D(PL, "x", v=["v"]), D(PL, "a")] + DEFER + [D(PL, "a")] + RUN("a"),
        r1=D("a", "b", i=["v"]), r2=("declare_static", S(PL), ("v",)),
        verdict="DIFF-SUCCESS", cls="finding", signature="C02:noncommute:stale-volatile-input"),
    "stale_output_cycle": dict(
        trace=BOOT + [D(PL, "a", o=["o"]), D(PL, "u", i=["o"], o=["f"])] + DEFER
        + [D(PL, "a", o=["o"])] + RUN("a"),
        r1=("amend_step", "a", ("f",), (), (), ()), r2=("declare_static", S(PL), ("f",)),
        verdict="DIFF-SUCCESS", cls="finding", signature="C02:noncommute:stale-output-cycle"),
    "recycle_subtree": dict(
        trace=BOOT + [D(PL, "t"), D(PL, "a")] + RUN("t")
        + [D("t", "u", o=["f"]), ("exec_end", "t", (), "SUCCEEDED", (), True, False)] + DEFER
        + [D(PL, "a")] + RUN("a"),
        r1=D("a", "t"), r2=("declare_static", S(PL), ("f",)),
        verdict="DIFF-SUCCESS", cls="finding", signature="C02:noncommute:recycle-subtree"),
    "detached_creator_static_static": dict(
        trace=BOOT + [D(PL, "a"), D(PL, "b")] + RUN("a") + DEFER + [D(PL, "b")] + RUN("b"),
        r1=("declare_static", S("a"), ("q",)), r2=("declare_static", S("b"), ("q",)),
        verdict="DIFF-SUCCESS", cls="note", signature="C02:noncommute:detached-creator"),
    "stale_partial_recycle": dict(
        trace=BOOT + [D(PL, "s", o=["f"])] + DEFER + [D(PL, "a")] + RUN("a"),
        r1=D("a", "s", i=["g"]), r2=("amend_step", PL, ("f",), (), (), ()),
        verdict="DIFF-GRAPH", cls="note", signature="C02:noncommute:stale-partial-recycle"),
    "confirm_vs_static_same_path": dict(
        trace=BOOT + [("declare_static", S(PL), ("q",))] + DEFER,
        r1=("update_hashes", "CONFIRMED", (("q", 5),)), r2=("declare_static", S(PL), ("q",)),
        verdict="DIFF-GRAPH", cls="harmless", signature="C02:noncommute:confirm-vs-declare-same-path"),
}
