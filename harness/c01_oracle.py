"""C01 differential oracle: incremental build == build from scratch, on the real system (E3).

Pieces:
  active_view(result)      the *active, plan-defined* part of a final workflow, normalised
  compare(inc, scr)        structured differences between two final results
  decls / edit_kinds       what a plan declares; what changed between two phases (trigger kinds)
  signatures(...)          differences -> stable signatures (named root causes first)
  run_case / shrink        one history end to end; greedy minimiser

Reading of the property that the normalisation implements (see design.d/C01.md):
  * "active" = attached and defined by plans that completed: a node counts when every step above
    it in the creator chain SUCCEEDED (initial outputs of a step are defined by the step's
    *definition*, everything else a step creates by its *run*).  What a PENDING or FAILED step
    created in an earlier run is memory, not part of the workflow the current plans define.
  * amended (dynamic) relations are facts discovered by running a step; they are compared for
    SUCCEEDED steps only.
  * OUTDATED and PLANNED both say "declared output, not up to date"; they are identified and the
    bytes on disk of such a file are not compared (the graph does not call it done).
"""
from __future__ import annotations

import copy
import json
import time

from . import e3

DYN = " [dynamic]"
IMPLIED = "DEFAULT (implied by sinks > OPTIONAL)"
UNBUILT = "UNBUILT"


# ---------------------------------------------------------------------------------------------
# Normalised view of the active part of a final graph
# ---------------------------------------------------------------------------------------------


def _strip(key: str):
    """'(file:x) [dynamic]' -> ('file:x', detached, dynamic)"""
    dyn = key.endswith(DYN)
    if dyn:
        key = key[: -len(DYN)]
    det = key.startswith("(") and key.endswith(")")
    if det:
        key = key[1:-1]
    return key, det, dyn


def active_view(res: e3.BuildResult, *, complete: bool = True) -> dict:
    """{key: {"kind", "state", "props": {...}, "creator", "inp": [[key, detached, dyn]], "out": [[key, dyn]]}}
    restricted to trusted attached nodes.

    complete=False (the incremental build did not end with return-code class "ok", so
    ``revert_optional_steps`` and ``delete_detached`` were skipped by design): a step whose need
    is plain OPTIONAL (nothing needs it) is shown as PENDING with unbuilt outputs whatever it is,
    because only the cleanup pass reverts such a step."""
    raw = e3.parse_graph(res.graph)
    nodes, creator = {}, {}
    for pkey, node in raw.items():
        k, det, _ = _strip(pkey)
        nodes[k] = (det, node)
        for prod in node["rel"].get("product", []):
            pk, _, _ = _strip(prod)
            creator[pk] = k
    state = {k: (n["props"].get("state") or [None])[0] for k, (_, n) in nodes.items()}

    def initial_outputs(step):
        out = set()
        for s in nodes[step][1]["rel"].get("sink", []):
            k, _, dyn = _strip(s)
            if not dyn:
                out.add(k)
        return out

    memo: dict = {}

    def trusted(k) -> bool:
        if k in memo:
            return memo[k]
        memo[k] = False     # cycle guard
        det = nodes[k][0] if k in nodes else True
        if k == "root:":
            r = True
        elif det or k not in creator:
            r = False
        else:
            c = creator[k]
            if c == "root:":
                r = True
            elif c not in nodes:
                r = False
            elif k.startswith("file:") and c.startswith("step:") and k in initial_outputs(c):
                r = trusted(c)                     # defined by the step's definition
            elif c.startswith("st:"):
                r = trusted(c)
            else:
                r = state.get(c) == "SUCCEEDED" and trusted(c)   # defined by the creator's run
        memo[k] = r
        return r

    view = {}
    for k, (det, node) in nodes.items():
        if not trusted(k):
            continue
        kind = k.split(":", 1)[0]
        props = node["props"]
        ent = {"kind": kind, "creator": creator.get(k), "state": state.get(k), "props": {}, "inp": [], "out": []}
        if kind == "file":
            if ent["state"] in ("OUTDATED", "PLANNED"):
                ent["state"] = UNBUILT
            if ent["state"] == "CONFIRMED":
                ent["digest"] = props.get("digest")
        elif kind == "step":
            done = ent["state"] == "SUCCEEDED"
            env = props.get("using_env", [])
            ent["props"]["need"] = props.get("need", [])
            ent["props"]["env"] = sorted(e for e in env if not e.endswith(DYN))
            ent["props"]["env_dynamic"] = sorted(e for e in env if e.endswith(DYN)) if done else []
            ent["props"]["nglob"] = sorted(props.get("nglob", [])) if done else []
            ent["props"]["resource"] = sorted(props.get("resource", []))
            ent["props"]["env_overrides"] = sorted(props.get("env_overrides", []))
            for s in node["rel"].get("source", []):
                sk, sdet, dyn = _strip(s)
                if dyn and not done:
                    continue
                ent["inp"].append([sk, sdet, dyn])
            for s in node["rel"].get("sink", []):
                sk, sdet, dyn = _strip(s)
                if (dyn and not done) or sdet:
                    continue    # a detached sink is a former output kept until the next cleanup
                ent["out"].append([sk, dyn])
            ent["inp"].sort()
            ent["out"].sort()
        view[k] = ent
    _settle_needs(view, nodes)
    if not complete:
        for k, ent in view.items():
            if ent["kind"] == "step" and ent["props"]["need"] == ["OPTIONAL"] and ent["state"] == "SUCCEEDED":
                ent["state"] = "PENDING"
                ent["props"]["env_dynamic"], ent["props"]["nglob"] = [], []
                ent["inp"] = [x for x in ent["inp"] if not x[2]]
                ent["out"] = [x for x in ent["out"] if not x[1]]
                outs = {o for o, _ in ent["out"]}
                for o in outs:
                    if o in view and view[o]["state"] == "BUILT":
                        view[o]["state"] = UNBUILT
                for o in [o for o, e2 in view.items() if e2["creator"] == k and o not in outs]:
                    del view[o]           # what its (disregarded) run created
    # A static tree declares everything below it; the file nodes it owns only record which of
    # those paths are in use.  One without a consumer in the view carries no information.
    used = {sk for ent in view.values() if ent["kind"] == "step" for sk, _, _ in ent["inp"]}
    for k in [k for k, ent in view.items()
              if ent["kind"] == "file" and (ent["creator"] or "").startswith("st:") and k not in used]:
        del view[k]
    # An input counts as declared when it is itself part of the active view (an attached file
    # that only a PENDING step's earlier run declared is as good as undeclared).
    # ``memory_inp``: inputs that ARE attached in the stored graph but lie outside the view: all that
    # declares them is the earlier run of a step that is not SUCCEEDED now (not compared; it tells
    # D4, whose input is detached, from F9, whose input is kept alive by a plan that cannot rerun).
    for ent in view.values():
        ent["memory_inp"] = sorted(x[0] for x in ent["inp"] if not x[1] and x[0] not in view and x[0] in nodes)
        for x in ent["inp"]:
            x[1] = x[0] not in view
    return view


def _needed_fixpoint(declared: dict, consumers: dict) -> set:
    """Steps with an effective need above OPTIONAL: declared so, or producing an input of one."""
    needed = {k for k, d in declared.items() if d != "OPTIONAL"}
    changed = True
    while changed:
        changed = False
        for k in declared:
            if k not in needed and any(c in needed for c in consumers.get(k, ())):
                needed.add(k)
                changed = True
    return needed


def _settle_needs(view: dict, nodes: dict) -> None:
    """Replace the printed need of every step of the view by the need that the edges OF THE VIEW
    imply (so that an implied need which only rests on the remembered amended input of a step
    that is not SUCCEEDED is treated like that edge: as memory), and flag ``stale_need`` when the
    printed implied need is not even justified by the raw graph (the cached column is stale)."""
    declared, printed = {}, {}
    for k, ent in view.items():
        if ent["kind"] == "step":
            text = (ent["props"].get("need") or ["DEFAULT"])[0]
            printed[k] = text
            declared[k] = text.split(">")[-1].strip(" )") if "implied" in text else text
    producer = {o: k for k, ent in view.items() if ent["kind"] == "step" for o, _ in ent["out"]}
    cons_view: dict = {}
    for k, ent in view.items():
        if ent["kind"] == "step":
            for sk, _, _ in ent["inp"]:
                if sk in producer:
                    cons_view.setdefault(producer[sk], set()).add(k)
    # raw graph: every attached consumer through any edge of any attached output
    cons_raw: dict = {}
    for k in declared:
        for s in nodes[k][1]["rel"].get("sink", []):
            fk, fdet, _ = _strip(s)
            if fdet or fk not in nodes:
                continue
            for c in nodes[fk][1]["rel"].get("sink", []):
                ck, cdet, _ = _strip(c)
                if not cdet and ck in declared:
                    cons_raw.setdefault(k, set()).add(ck)
    need_view = _needed_fixpoint(declared, cons_view)
    need_raw = _needed_fixpoint(declared, cons_raw)
    for k in declared:
        ent = view[k]
        ent["stale_need"] = "implied" in printed[k] and k not in need_raw
        if declared[k] == "OPTIONAL":
            ent["props"]["need"] = [IMPLIED] if k in need_view else ["OPTIONAL"]
        else:
            ent["props"]["need"] = [declared[k]]


PRIORITY = ["rc", "static-digest", "step-state", "extra-step", "missing-step", "content", "file-state", "extra-file",
            "missing-file", "extra-st", "missing-st", "inputs", "outputs", "creator",
            "prop:env", "prop:env_dynamic", "prop:need", "prop:nglob", "prop:resource", "prop:env_overrides"]


def compare(inc: e3.BuildResult, scr: e3.BuildResult) -> list:
    """Differences [{kind, key, a, b}] (a = incremental, b = from scratch), sorted by PRIORITY."""
    out = []
    ca, cb = e3.rc_class(inc.returncode), e3.rc_class(scr.returncode)
    drained = "DRAINED" in ca or "DRAINED" in cb
    if (inc.error is None) != (scr.error is None) or \
            (ca != cb and not (drained and ca != "ok" and cb != "ok")):
        out.append({"kind": "rc", "key": "", "a": ca if inc.error is None else "error:" + inc.error,
                    "b": cb if scr.error is None else "error:" + scr.error})
    if drained:
        # A drained build stops dispatching after the first failure: which other steps got done
        # depends on the order and on what earlier builds left, by design; and what exactly is
        # reported for sources that cannot be built either way (a dependency cycle through an
        # amended edge is a CyclicError for a build that remembers the edge and an unbuildable
        # PENDING step for one that does not) is not part of the property.  Both must be
        # unsuccessful; nothing else is compared.
        return out
    complete = ca == "ok" and inc.error is None
    va, vb = active_view(inc, complete=complete), active_view(scr, complete=complete)
    for k in sorted(set(va) | set(vb)):
        a, b = va.get(k), vb.get(k)
        kind = k.split(":", 1)[0]
        if a is None or b is None:
            out.append({"kind": ("extra-" if b is None else "missing-") + kind, "key": k,
                        "a": None if a is None else a["state"], "b": None if b is None else b["state"]})
            continue
        if a["state"] != b["state"]:
            out.append({"kind": f"{kind}-state", "key": k, "a": a["state"], "b": b["state"]})
        if a.get("digest") != b.get("digest") and a["state"] == b["state"]:
            out.append({"kind": "static-digest", "key": k, "a": a.get("digest"), "b": b.get("digest")})
        if a["creator"] != b["creator"]:
            out.append({"kind": "creator", "key": k, "a": a["creator"], "b": b["creator"]})
        if a["inp"] != b["inp"]:
            out.append({"kind": "inputs", "key": k, "a": a["inp"], "b": b["inp"]})
        if a["out"] != b["out"]:
            out.append({"kind": "outputs", "key": k, "a": a["out"], "b": b["out"]})
        for name in sorted(set(a["props"]) | set(b["props"])):
            if a["props"].get(name) != b["props"].get(name):
                out.append({"kind": "prop:" + name, "key": k, "a": a["props"].get(name), "b": b["props"].get(name)})
        done = a["state"] == "BUILT" or (a["state"] == "VOLATILE" and all(
            v.get(a["creator"], {}).get("state") == "SUCCEEDED" for v in (va, vb)))
        if kind == "file" and a["state"] == b["state"] and done:
            path = k.split(":", 1)[1]
            if inc.files.get(path) != scr.files.get(path):
                out.append({"kind": "content", "key": k, "a": inc.files.get(path), "b": scr.files.get(path)})
    out.sort(key=lambda d: (PRIORITY.index(d["kind"]) if d["kind"] in PRIORITY else 99, d["key"]))
    return out


# ---------------------------------------------------------------------------------------------
# What a program declares; what an edit changes
# ---------------------------------------------------------------------------------------------


def decls(program: dict) -> dict:
    """Static reading of the scripts: {"static": {path-or-pattern: script}, "glob": {...},
    "step": {label: {script, inp, env, out, vol, need, ...}}, "script": {path: text}}"""
    d = {"static": {}, "glob": {}, "step": {}, "script": {}}
    for path, actions in program.get("scripts", {}).items():
        d["script"][path] = json.dumps(actions, sort_keys=True)

        def walk(actions):
            for a in actions:
                op = a.get("op")
                if op == "static":
                    for p in a.get("paths", []):
                        d["static"][p] = path
                elif op == "glob":
                    d["glob"][a["pattern"]] = path
                    walk(a.get("foreach", []))
                elif op in ("step", "run", "plan"):
                    need = "PLAN" if op == "plan" else ("OPTIONAL" if a.get("optional") else a.get("need", "DEFAULT"))
                    d["step"][a["label"]] = {
                        "script": path, "inp": sorted(a.get("inp", [])), "env": sorted(a.get("env", [])),
                        "out": sorted(a.get("out", [])), "vol": sorted(a.get("vol", [])), "need": need,
                        "resources": a.get("resources", {}),
                        "ovr": sorted(f"{k}={v}" for k, v in (a.get("env_overrides") or {}).items())}
                elif op == "if_exists":
                    walk(a.get("then", []))
                    walk(a.get("else", []))
        walk(actions)
    return d


def edit_kinds(project: e3.Project, history: list) -> list:
    """Per phase: sorted list of kinds of change, the trigger vocabulary of generic signatures."""
    proj = project.clone()
    seen_steps = set(decls(proj.program)["step"])
    seen_static = set(decls(proj.program)["static"])
    result = []
    for phase in history:
        before = decls(proj.program)
        src_before = dict(proj.sources)
        env_before = dict(proj.env)
        kinds = set()
        for edit in phase.get("edits", []):
            e3.apply_edit(proj, None, edit)
        after = decls(proj.program)
        for p in set(src_before) | set(proj.sources):
            if p.endswith("/"):
                continue
            if p not in proj.sources:
                kinds.add("source-deleted" + ("-still-declared" if p in after["static"] else ""))
            elif p not in src_before:
                kinds.add("source-added")
            elif src_before[p] != proj.sources[p]:
                kinds.add("source-changed")
        for n in set(env_before) | set(proj.env):
            if env_before.get(n) != proj.env.get(n):
                kinds.add("env-changed")
        for p in set(before["static"]) - set(after["static"]):
            kinds.add("static-dropped")
        for p in set(after["static"]) - set(before["static"]):
            kinds.add("static-readded" if p in seen_static else "static-added")
        for p in set(before["glob"]) ^ set(after["glob"]):
            kinds.add("glob-dropped" if p in before["glob"] else "glob-added")
        for l in set(before["step"]) - set(after["step"]):
            kinds.add("subplan-dropped" if before["step"][l]["need"] == "PLAN" else "step-dropped")
        for l in set(after["step"]) - set(before["step"]):
            plan = after["step"][l]["need"] == "PLAN"
            kinds.add(("subplan-" if plan else "step-") + ("readded" if l in seen_steps else "added"))
        for l in set(after["step"]) & set(before["step"]):
            a, b = before["step"][l], after["step"][l]
            for f in ("inp", "env", "out", "vol", "ovr"):
                if a[f] != b[f]:
                    less, more = set(a[f]) - set(b[f]), set(b[f]) - set(a[f])
                    kinds.add(f"step-redefined:{f}" + ("-" if less else "") + ("+" if more else ""))
            if a["need"] != b["need"]:
                kinds.add("step-redefined:need")
            if a["resources"] != b["resources"]:
                kinds.add("step-redefined:resources")
            if a["script"] != b["script"]:
                kinds.add("step-moved-between-plans")
        for p in set(before["script"]) & set(after["script"]):
            if before["script"][p] != after["script"][p] and p not in ("plan.py",) and \
                    not any(s["need"] == "PLAN" and l.lstrip("./") == p for l, s in after["step"].items()):
                kinds.add("step-script-changed")
        seen_steps |= set(after["step"])
        seen_static |= set(after["static"])
        result.append(sorted(kinds))
    return result


def _body(program: dict, label: str):
    """The actions that run when step ``label`` executes (its script, or its simulated command;
    None = the default behaviour of a simulated command)."""
    word = label.split()[0] if label.split() else ""
    scripts = program.get("scripts", {})
    if word.startswith("./") and word[2:] in scripts:
        return scripts[word[2:]]
    return program.get("commands", {}).get(label)


def _body_reads(actions) -> tuple:
    """(variable names, paths) that a list of actions reads or amends as inputs."""
    env, paths = set(), set()

    def walk(acts):
        for a in acts or ():
            op = a.get("op")
            if op == "getenv":
                env.add(a["name"])
            elif op == "amend":
                env.update(a.get("env", []))
                paths.update(a.get("inp", []))
            elif op == "read":
                paths.update(a.get("paths", []))
            elif op == "if_exists":
                walk(a.get("then", []))
                walk(a.get("else", []))
    walk(actions)
    return env, paths


def _declares(static_key: str, path: str) -> bool:
    """Does the static declaration ``static_key`` (a path or a tree 'dir/') cover ``path``?"""
    return static_key == path or (static_key.endswith("/") and path.startswith(static_key))


def subject_edit_kinds(project: e3.Project, history: list, steps: set, files: set) -> set:
    """The kinds of edit, over the whole history, that touch the SUBJECT of a difference: the
    steps ``steps`` (their definition, their script / command, the plan that declares them, the
    variables and input files they declare or read, one level of producers of those inputs) and
    the static files ``files`` (content, declaration).  Edits elsewhere do not contribute, so the
    result does not depend on what else a generated history happens to contain."""
    proj = project.clone()
    seen_steps = set(decls(proj.program)["step"])
    seen_static = set(decls(proj.program)["static"])
    kinds: set = set()
    for phase in history:
        before, prog_b = decls(proj.program), copy.deepcopy(proj.program)
        src_b, env_b = dict(proj.sources), dict(proj.env)
        for edit in phase.get("edits", []):
            e3.apply_edit(proj, None, edit)
        after, prog_a = decls(proj.program), proj.program

        def step_kinds(l, prefix="", deep=True):
            out = set()
            b, a = before["step"].get(l), after["step"].get(l)
            if b is None and a is None:
                return out
            plan = (a or b)["need"] == "PLAN"
            word = "subplan-" if plan else "step-"
            if a is None:
                out.add(prefix + word + "dropped")
            elif b is None:
                out.add(prefix + word + ("readded" if l in seen_steps else "added"))
            else:
                for f in ("inp", "env", "out", "vol", "ovr"):
                    if a[f] != b[f]:
                        less, more = set(b[f]) - set(a[f]), set(a[f]) - set(b[f])
                        out.add(prefix + f"step-redefined:{f}" + ("-" if less else "") + ("+" if more else ""))
                if a["need"] != b["need"]:
                    out.add(prefix + "step-redefined:need")
                if a["resources"] != b["resources"]:
                    out.add(prefix + "step-redefined:resources")
                if a["script"] != b["script"]:
                    out.add(prefix + "step-moved-between-plans")
                if json.dumps(_body(prog_b, l), sort_keys=True) != json.dumps(_body(prog_a, l), sort_keys=True):
                    out.add(prefix + "script-changed")
            if not deep:
                return out
            # the plan that declares it
            for d, dd in ((b, before), (a, after)):
                if d is not None and d["script"] != "plan.py":
                    for pl in set(before["step"]) | set(after["step"]):
                        if (pl.split() or [""])[0].lstrip("./") == d["script"] and pl != l:
                            for k in step_kinds(pl, deep=False):
                                if k.startswith("subplan-") or k == "script-changed":
                                    out.add("declaring-" + k if k != "script-changed" else "declaring-plan-changed")
            # what it reads
            env, paths = set(), set()
            for d, prog in ((b, prog_b), (a, prog_a)):
                if d is not None:
                    env.update(d["env"])
                    paths.update(d["inp"])
                    e2_, p2 = _body_reads(_body(prog, l))
                    env |= e2_
                    paths |= p2
            if any(env_b.get(n) != proj.env.get(n) for n in env):
                out.add("env-changed")
            for p in sorted(paths):
                out |= file_kinds(p, "input-")
                for pl in set(before["step"]) | set(after["step"]):
                    for d in (before["step"].get(pl), after["step"].get(pl)):
                        if d is not None and pl != l and (p in d["out"] or p in d["vol"]):
                            out |= {k for k in step_kinds(pl, "input-producer-", deep=False)
                                    if not k.endswith("-added")}
            return out

        def file_kinds(p, prefix=""):
            out = set()
            if p in src_b and p not in proj.sources:
                out.add(prefix + "source-deleted" + ("-still-declared" if any(_declares(s, p) for s in after["static"]) else ""))
            elif p not in src_b and p in proj.sources:
                out.add(prefix + "source-added")
            elif p in src_b and src_b[p] != proj.sources[p]:
                out.add(prefix + "source-changed")
            was = any(_declares(s, p) for s in before["static"])
            now = any(_declares(s, p) for s in after["static"])
            if was and not now:
                out.add(prefix + "static-dropped")
            elif now and not was:
                out.add(prefix + ("static-readded" if any(_declares(s, p) for s in seen_static) else "static-added"))
            return out

        for l in sorted(steps):
            kinds |= step_kinds(l)
        for p in sorted(files):
            kinds |= file_kinds(p)
        seen_steps |= set(after["step"])
        seen_static |= set(after["static"])
    # being declared for the first time is what a build from scratch does too: it only names a
    # cause when nothing else happened to the subject
    first = {"step-added", "subplan-added", "static-added", "input-static-added"}
    if kinds - first:
        kinds -= first
    return kinds


def cause_class(case: dict, diffs: list, va: dict, vb: dict) -> str:
    """Cause class of the leading unexplained difference: the edit kinds that touch its subject
    (see ``subject_edit_kinds``); 'elsewhere(...)' with the kinds of the whole history when no
    edit touches the subject."""
    key = next((d["key"] for d in diffs if d["key"]), "")
    steps, files = set(), set()
    kind, _, label = key.partition(":")
    if kind == "step":
        steps.add(label)
    elif kind == "file":
        for view in (va, vb):
            for k, ent in view.items():
                if ent["kind"] == "step" and any(o == key for o, _ in ent["out"]):
                    steps.add(k.split(":", 1)[1])
        if not steps:
            files.add(label)
            for view in (va, vb):       # a file that a step's run declares: that step is the subject
                c = (view.get(key) or {}).get("creator") or ""
                if c.startswith("step:") and c != "step:./plan.py":
                    steps.add(c.split(":", 1)[1])
    elif label:
        files.add(label)
    project, history = e3.Project.from_json(case["project"]), case["history"]
    kinds = subject_edit_kinds(project, history, steps, files) if (steps or files) else set()
    if kinds:
        return "+".join(sorted(kinds))
    allk = sorted({k for ph in edit_kinds(project, history) for k in ph})
    return "elsewhere(" + ("+".join(allk) if allk else "nothing") + ")"


# ---------------------------------------------------------------------------------------------
# Signatures
# ---------------------------------------------------------------------------------------------

SIG_D4 = "C01:D4:dropped-static-keeps-consumer-succeeded"
SIG_D9 = "C01:D9:stale-env-var-after-partial-recycle"
SIG_F1 = "C01:F1:cleanup-removed-source-directory-then-plan-fails"
SIG_F2 = "C01:F2:static-of-deleted-source-fails-only-from-scratch"
SIG_F3 = "C01:F3:optional-step-needed-only-through-amended-edges"
SIG_D8 = "C01:D8:stale-implied-need-keeps-optional-step-built"
SIG_F4 = "C01:F4:stale-amended-input-blocks-redefined-step"
SIG_F5 = "C01:F5:reattached-static-file-not-revalidated"
SIG_F6 = "C01:F6:env-var-restored-to-declared-value-leaves-stale-output"
SIG_F7 = "C01:F7:env-var-changed-while-step-detached-then-recycled"
SIG_F8 = "C01:F8:glob-match-added-while-registrant-detached-then-recycled"
SIG_F9 = "C01:F9:products-of-plan-that-cannot-rerun-keep-consumer-succeeded"
SIG_F10 = "C01:F10:env-overrides-changed-on-fully-recycled-step-leaves-stale-output"
MISSING_RE = "PathError: Path does not exist: "


def _failed_missing(res: e3.BuildResult) -> list:
    """Paths named by 'Path does not exist' failures of commands of this build."""
    return [c["stderr"].split(MISSING_RE, 1)[1].strip() for c in res.commands
            if c["rc"] and MISSING_RE in (c["stderr"] or "")]


def _downstream(view: dict, seeds: set) -> set:
    """Keys reachable from the seeds through output and input edges of the active view."""
    consumers: dict = {}
    for k, ent in view.items():
        if ent["kind"] == "step":
            for sk, _, _ in ent["inp"]:
                consumers.setdefault(sk, set()).add(k)
    seen, todo = set(), list(seeds)
    while todo:
        k = todo.pop()
        if k in seen:
            continue
        seen.add(k)
        ent = view.get(k)
        if ent is None:
            continue
        if ent["kind"] == "step":
            todo.extend(o for o, _ in ent["out"])
        todo.extend(consumers.get(k, ()))
    return seen


def overrides_edited(case: dict) -> set:
    """Labels of the steps whose environment overrides a plan edit of the history added, changed
    or removed while the rest of the definition (inputs, variables, outputs) stayed as it was."""
    proj = e3.Project.from_json(case["project"])
    out = set()
    for phase in case["history"]:
        before = decls(proj.program)["step"]
        for edit in phase.get("edits", []):
            e3.apply_edit(proj, None, edit)
        after = decls(proj.program)["step"]
        for l in set(before) & set(after):
            a, b = before[l], after[l]
            if a["ovr"] != b["ovr"] and all(a[f] == b[f] for f in ("inp", "env", "out", "vol")):
                out.add(l)
    return out


def signatures(inc: e3.BuildResult, scr: e3.BuildResult, diffs: list, case: dict | None = None,
               earlier: list | None = None) -> dict:
    """{signature: [diffs explained by it]}.  Named root causes first; everything else
    ``C01:diff:<difference kind>[:<a>/<b>]:cause:<cause class>`` where the cause class names the
    kinds of edit that touch the SUBJECT of the leading difference (``cause_class``; needs
    ``case``).  ``earlier``: the results of the builds before the last incremental one (for F1)."""
    sigs: dict = {}
    if not diffs:
        return sigs
    # F1: the incremental directory no longer holds the final sources: a cleanup pass of an
    # earlier build removed a (then empty) source directory, and a plan that names it now fails.
    gone = [p for p in _failed_missing(inc) if p.rstrip("/") + "/" in scr.dirs and p.rstrip("/") + "/" not in inc.dirs
            and (earlier is None or any(p.rstrip("/") + "/" in r.dirs for r in earlier))]
    if gone:
        return {SIG_F1: list(diffs)}
    # F2: a plan of the final sources names a static path that does not exist.  From scratch that
    # plan fails (api.static checks existence in the client); incrementally the unchanged plan is
    # not rerun and the path is merely MISSING.
    lost = [p for p in _failed_missing(scr) if p not in scr.files and p.rstrip("/") + "/" not in scr.dirs
            and p not in _failed_missing(inc)]
    if lost:
        return {SIG_F2: list(diffs)}
    complete = e3.rc_class(inc.returncode) == "ok" and inc.error is None
    va, vb = active_view(inc, complete=complete), active_view(scr, complete=complete)
    explained = set()
    # D4 pattern = K violated in the incremental result: an active SUCCEEDED step with an initial
    # input that is detached (nothing declares it), which a from-scratch build leaves unbuilt.
    # F9 is the same violation of K with another cause: the input is still ATTACHED, but only as the
    # product of an earlier run of a (sub-)plan that is PENDING / FAILED now and cannot run again
    # (its own input is gone, or it fails); nothing was dropped and nothing recycled.
    stale, stale_mem = set(), set()
    for k, ent in va.items():
        if ent["kind"] == "step" and ent["state"] == "SUCCEEDED":
            gone = [sk for sk, det, dyn in ent["inp"] if det and not dyn]
            b = vb.get(k)
            if gone and (b is None or b["state"] != "SUCCEEDED"):
                if any(sk not in ent.get("memory_inp", ()) for sk in gone):
                    stale.add(k)
                else:
                    stale_mem.add(k)
    for name, seeds in ((SIG_D4, stale), (SIG_F9, stale_mem)):
        if seeds:
            cone = _downstream(va, seeds) | _downstream(vb, seeds)
            mine = [d for d in diffs if id(d) not in explained and (d["kind"] == "rc" or d["key"] in cone)]
            sigs[name] = mine
            explained |= {id(d) for d in mine}
    # D9 pattern: an active step lists initial env vars that the current definition does not name.
    d9 = [d for d in diffs if d["kind"] == "prop:env" and set(d["a"]) > set(d["b"])]
    # ... second symptom of the same rows: the rerun of the re-defined step amends a variable whose
    # stale row (dynamic = 0) is still there; amend_env_deps is INSERT OR IGNORE, so the row keeps
    # dynamic = 0 where a build from scratch records "<name> [dynamic]".  Claimed only when the
    # names that lack the mark are all stale rows of the same step and nothing else differs.
    stale_rows = {d["key"]: set(d["a"]) - set(d["b"]) for d in d9}
    for d in diffs:
        if d["kind"] == "prop:env_dynamic" and d["key"] in stale_rows:
            a = {x[: -len(DYN)] for x in d["a"]}
            b = {x[: -len(DYN)] for x in d["b"]}
            if a < b and (b - a) <= stale_rows[d["key"]]:
                d9.append(d)
    if d9:
        sigs[SIG_D9] = d9
        explained |= {id(d) for d in d9}
    # Steps that the incremental graph needs "by implication" while a from-scratch build leaves
    # them OPTIONAL and unbuilt.
    consumers: dict = {}
    for k, ent in va.items():
        if ent["kind"] == "step":
            for sk, _, _ in ent["inp"]:
                consumers.setdefault(sk, set()).add(k)
    f3, d8 = set(), set()
    for d in diffs:
        if d["key"] in va and va[d["key"]].get("stale_need"):
            d8.add(d["key"])            # the cached implied need has no support in the graph (D8)
    for d in diffs:
        if d["kind"] == "prop:need" and d["a"] == [IMPLIED] and d["b"] == ["OPTIONAL"] and d["key"] not in d8:
            ent = va[d["key"]]
            if not any(True for o, dyn in ent["out"] if not dyn for c in consumers.get(o, ())
                         if va[c]["props"]["need"] != ["OPTIONAL"]
                         and any(sk == o and not sdyn for sk, _, sdyn in va[c]["inp"])):
                # every edge that makes it needed is run-time knowledge of an earlier build: an
                # amended output of this step, or an amended input of the consumer
                f3.add(d["key"])
    for name, seeds in ((SIG_D8, d8), (SIG_F3, f3)):
        if seeds:
            # everything upstream that is needed only through the seed, and everything downstream
            cone = _downstream(va, seeds) | _downstream(vb, seeds)
            up = {d["key"] for d in diffs if d["kind"] == "prop:need" and d["a"] == [IMPLIED]}
            for k in up:
                cone |= {k} | {o for o, _ in va[k]["out"]}
            for k in list(cone):     # what only a run of these steps declares: amended inputs
                if k in va and va[k]["kind"] == "step":
                    cone |= {sk for sk, _, dyn in va[k]["inp"] if dyn}
            mine = [d for d in diffs if id(d) not in explained and (d["kind"] == "rc" or d["key"] in cone)]
            sigs[name] = mine
            explained |= {id(d) for d in mine}
    # F4: a step is PENDING incrementally and SUCCEEDED from scratch, and the incremental graph
    # still holds amended input edges of an earlier (deferred) run that the from-scratch run
    # of the current script never makes: the remembered edges gate the dispatch.
    raw_inc, raw_scr = e3.parse_graph(inc.graph), e3.parse_graph(scr.graph)
    blocked = set()
    for d in diffs:
        if d["kind"] == "step-state" and d["a"] == "PENDING" and d["b"] == "SUCCEEDED":
            src_a = {_strip(x)[0] for x in raw_inc.get(d["key"], {"rel": {}})["rel"].get("source", []) if x.endswith(DYN)}
            src_b = {_strip(x)[0] for x in raw_scr.get(d["key"], {"rel": {}})["rel"].get("source", [])}
            if src_a - src_b:
                blocked.add(d["key"])
    if blocked:
        cone = _downstream(va, blocked) | _downstream(vb, blocked)
        mine = [d for d in diffs if id(d) not in explained and (d["kind"] == "rc" or d["key"] in cone)]
        sigs[SIG_F4] = mine
        explained |= {id(d) for d in mine}
    # F10: the environment overrides of a step were edited (the rest of its definition not): the
    # step was fully recycled (Step.can_recycle does not look at the overrides), after_recycle
    # stored the new overrides -- the stored ones EQUAL the from-scratch ones -- and kept the
    # state: SUCCEEDED with the output and the input digest of the run under the old overrides,
    # none of its inputs differs.  (When the stored overrides differ as well, the cause is another
    # one and nothing is claimed here.)
    differing0 = {d["key"] for d in diffs}
    edited = overrides_edited(case) if case is not None else set()
    stale_ovr = set()
    for d in diffs:
        if d["kind"] == "content" and id(d) not in explained and edited:
            c = va.get(d["key"], {}).get("creator")
            ent, entb = va.get(c), vb.get(c)
            if ent and entb and c.split(":", 1)[1] in edited and ent["state"] == "SUCCEEDED" \
                    and entb["state"] == "SUCCEEDED" \
                    and ent["props"]["env_overrides"] == entb["props"]["env_overrides"] \
                    and not any(sk in differing0 for sk, _, _ in ent["inp"]) \
                    and raw_inc.get(c, {}).get("props", {}).get("inp_digest") != \
                    raw_scr.get(c, {}).get("props", {}).get("inp_digest"):
                stale_ovr.add(c)
    if stale_ovr:
        cone = _downstream(va, stale_ovr) | _downstream(vb, stale_ovr)
        mine = [d for d in diffs if id(d) not in explained and (d["kind"] == "rc" or d["key"] in cone)]
        sigs[SIG_F10] = mine
        explained |= {id(d) for d in mine}
    # F6: a SUCCEEDED step with tracked variables has outputs that differ from the from-scratch
    # ones although none of its inputs differs, and its recorded input digest differs too: it ran
    # last under other variable values and the change back was not noticed (rescan_env_vars
    # compares with the value recorded at declaration time, not with the one last used).
    differing = {d["key"] for d in diffs}
    stale_env = set()
    for d in diffs:
        if d["kind"] == "content" and id(d) not in explained:
            c = va.get(d["key"], {}).get("creator")
            ent = va.get(c)
            if ent and ent["state"] == "SUCCEEDED" and (ent["props"]["env"] or ent["props"]["env_dynamic"]) \
                    and not any(sk in differing for sk, _, _ in ent["inp"]) \
                    and raw_inc.get(c, {}).get("props", {}).get("inp_digest") != \
                    raw_scr.get(c, {}).get("props", {}).get("inp_digest"):
                stale_env.add(c)
    # keys that were detached at the end of some earlier build of the history
    detached_before = set()
    for res in earlier or ():
        for key in e3.parse_graph(res.graph):
            if key.startswith("("):
                detached_before.add(key[1:-1])
    if stale_env:
        cone = _downstream(va, stale_env) | _downstream(vb, stale_env)
        mine = [d for d in diffs if id(d) not in explained and (d["kind"] == "rc" or d["key"] in cone)]
        # F7: the variable changed while the step sat detached (rescan_env_vars skips detached
        # steps) and the step was then fully recycled; F6: it never was detached
        sigs[SIG_F7 if stale_env & detached_before else SIG_F6] = mine
        explained |= {id(d) for d in mine}
    # F8: a step that registered a glob was detached while a new match appeared (the startup
    # rescan of globs skips detached registrants), then fully recycled without running again:
    # what its run would declare for the new match is missing
    registrants = {k for k, ent in va.items() if ent["kind"] == "step" and ent["state"] == "SUCCEEDED"
                   and ent["props"]["nglob"] and k in detached_before
                   and k in vb and vb[k]["state"] == "SUCCEEDED"}
    if registrants:
        def under(k):
            seen = set()
            while k in vb and k not in seen:
                seen.add(k)
                if k in registrants:
                    return True
                k = vb[k]["creator"]
            return False
        seeds = {d["key"] for d in diffs if id(d) not in explained and d["kind"].startswith("missing-")
                 and under(d["key"])}
        if seeds:
            cone = _downstream(vb, seeds) | seeds
            mine = [d for d in diffs if id(d) not in explained and (d["kind"] == "rc" or d["key"] in cone)]
            sigs[SIG_F8] = mine
            explained |= {id(d) for d in mine}
    # F5: a static file shows a state or digest that the file system contradicts: it was
    # re-attached by a full recycle of its declaring (sub-)plan after the startup rescan, which
    # only looks at attached files.
    STATIC = ("MISSING", "CONFIRMED")
    # (its own cause only: the file node sat DETACHED at the end of an earlier build of the history;
    # a stale digest of a file that was attached all along is something else, e.g. a rescan that
    # does not notice a replaced file)
    stale_static = {d["key"] for d in diffs if id(d) not in explained and d["key"].startswith("file:")
                    and d["key"] in detached_before and (
        (d["kind"] == "file-state" and d["a"] in STATIC and d["b"] in STATIC) or d["kind"] == "static-digest")}
    if stale_static:
        cone = _downstream(va, stale_static) | _downstream(vb, stale_static)
        mine = [d for d in diffs if id(d) not in explained and (d["kind"] == "rc" or d["key"] in cone)]
        sigs[SIG_F5] = mine
        explained |= {id(d) for d in mine}
    rest = [d for d in diffs if id(d) not in explained]
    if rest:
        d = rest[0]
        detail = ""
        if d["kind"].endswith("-state") or d["kind"] == "rc":
            detail = f":{d['a']}/{d['b']}"
        cause = ":cause:" + cause_class(case, rest, va, vb) if case is not None else ""
        sigs[f"C01:diff:{d['kind']}{detail}{cause}"] = rest
    return sigs


# ---------------------------------------------------------------------------------------------
# One case end to end
# ---------------------------------------------------------------------------------------------


def case_json(project: e3.Project, history: list, flavour: str = "restart", build: dict | None = None) -> dict:
    return {"project": project.to_json(), "history": history, "flavour": flavour, "build": build or {}}


def run_case(case: dict) -> dict:
    """Run one history incrementally and its final sources from scratch; return the verdict.

    {"diffs", "rc": [inc, scr], "executed": [[labels per build]], "signatures": {sig: n}, ...}
    """
    project = e3.Project.from_json(case["project"])
    history = case["history"]
    kw = dict(case.get("build") or {})
    kw.setdefault("resources", "tok:1")
    kw.setdefault("timeout", 25)
    results = e3.run_history(project, history, mode=case.get("flavour", "restart"), **kw)
    skw = dict(kw)
    skw.pop("schedule", None)
    scr = e3.scratch_of_history(project, history, **skw)
    inc = results[-1]
    diffs = compare(inc, scr)
    return {"inc": inc, "scr": scr, "results": results, "diffs": diffs}


def case_signatures(case: dict) -> dict:
    r = run_case(case)
    return signatures(r["inc"], r["scr"], r["diffs"], case, r["results"][:-1])


# ---------------------------------------------------------------------------------------------
# Shrinker
# ---------------------------------------------------------------------------------------------


def _labels(program: dict) -> set:
    return set(decls(program)["step"])


def _drop_label(program: dict, label: str) -> dict:
    prog = copy.deepcopy(program)

    def walk(actions):
        out = []
        for a in actions:
            if a.get("op") in ("step", "run", "plan") and a.get("label") == label:
                continue
            if "foreach" in a:
                a = dict(a, foreach=walk(a["foreach"]))
            out.append(a)
        return out
    for p in list(prog.get("scripts", {})):
        prog["scripts"][p] = walk(prog["scripts"][p])
    word = label.split()[0] if label.split() else ""
    if word.startswith("./") and word[2:] in prog.get("scripts", {}) and word[2:] != "plan.py":
        del prog["scripts"][word[2:]]
    return prog


def _drop_static(program: dict, path: str) -> dict:
    prog = copy.deepcopy(program)

    def walk(actions):
        out = []
        for a in actions:
            if a.get("op") == "static":
                paths = [p for p in a.get("paths", []) if p != path]
                if not paths:
                    continue
                a = dict(a, paths=paths)
            out.append(a)
        return out
    for p in list(prog.get("scripts", {})):
        prog["scripts"][p] = walk(prog["scripts"][p])
    return prog


def _map_programs(case: dict, fn) -> dict:
    c = copy.deepcopy(case)
    c["project"]["program"] = fn(c["project"]["program"])
    for ph in c["history"]:
        for e in ph["edits"]:
            if e["op"] == "program":
                e["program"] = fn(e["program"])
    return c


def _fold_first(case: dict) -> dict:
    """The first phase becomes part of the initial project (one build less)."""
    c = copy.deepcopy(case)
    proj = e3.Project.from_json(c["project"])
    for edit in c["history"][0].get("edits", []):
        e3.apply_edit(proj, None, edit)
    c["project"] = proj.to_json()
    del c["history"][0]
    return c


def _candidates(case: dict):
    h = case["history"]
    if len(h) > 1 and not any(k != "edits" for k in h[0]):
        yield "fold phase 0 into the project", _fold_first(case)
    for i in range(len(h) - 1, -1, -1):
        if len(h) > 1:
            c = copy.deepcopy(case)
            del c["history"][i]
            yield f"drop phase {i}", c
    for i, ph in enumerate(h):
        for j in range(len(ph["edits"]) - 1, -1, -1):
            c = copy.deepcopy(case)
            del c["history"][i]["edits"][j]
            yield f"drop edit {i}.{j}", c
    labels = set(_labels(case["project"]["program"]))
    statics = set(decls(case["project"]["program"])["static"])
    for ph in h:
        for e in ph["edits"]:
            if e["op"] == "program":
                labels |= _labels(e["program"])
                statics |= set(decls(e["program"])["static"])
    for l in sorted(labels):
        yield f"drop step {l}", _map_programs(case, lambda p, l=l: _drop_label(p, l))
    for s in sorted(statics):
        yield f"drop static {s}", _map_programs(case, lambda p, s=s: _drop_static(p, s))
    for p in sorted(case["project"]["sources"]):
        c = copy.deepcopy(case)
        del c["project"]["sources"][p]
        yield f"drop source {p}", c
    for n in sorted(case["project"].get("env", {})):
        c = copy.deepcopy(case)
        del c["project"]["env"][n]
        yield f"drop env {n}", c


def shrink(case: dict, keep, budget_s: float = 25.0, max_runs: int = 200) -> tuple[dict, int]:
    """Greedy minimisation: apply the first candidate that still satisfies ``keep(case) -> bool``.

    ``keep`` runs the case; harness errors count as "does not keep".  Returns (case, runs)."""
    t0, runs = time.time(), 0
    progress = True
    while progress:
        progress = False
        for _, cand in _candidates(case):
            if time.time() - t0 > budget_s or runs >= max_runs:
                return case, runs
            if json.dumps(cand, sort_keys=True) == json.dumps(case, sort_keys=True):
                continue
            runs += 1
            try:
                ok = keep(cand)
            except e3.E3Error:
                ok = False
            if ok:
                case, progress = cand, True
                break
    return case, runs


def case_size(case: dict) -> int:
    return len(json.dumps(case, sort_keys=True))
