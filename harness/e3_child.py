"""Child-process entry point of the E3 engine (alternative to the fork used by ``build_forked``).

``python -m harness.e3_child`` reads one JSON object from stdin
``{"project_dir": str, "program": dict|null, "crash": dict|null, "kwargs": {build kwargs}}``,
runs ``e3.build`` and prints one JSON line ``{"result": ...}`` or ``{"error": ...}`` on stdout.
With a crash spec the process ends through ``os._exit(137)`` after printing ``{"crash": ...}``.
Use it through ``e3.build_subprocess`` when the calling process has threads or an event loop
running (where ``os.fork`` is unsafe); it costs one interpreter start (about 0.4 s).
"""
from __future__ import annotations

import json
import os
import sys
import traceback


def main() -> int:
    spec = json.load(sys.stdin)
    out_fd = os.dup(1)
    # Anything the code under test prints must not corrupt the protocol.
    os.dup2(2, 1)
    from harness import e3

    try:
        res = e3.build(spec["project_dir"], spec.get("program"), crash=spec.get("crash"),
                       _crash_fd=out_fd, **spec.get("kwargs", {}))
        payload = {"result": res.to_json()}
    except BaseException as exc:  # noqa: BLE001
        payload = {"error": f"{type(exc).__name__}: {exc}\n{traceback.format_exc()}"}
    data = (json.dumps(payload) + "\n").encode()
    while data:
        n = os.write(out_fd, data)
        data = data[n:]
    return 0


if __name__ == "__main__":
    sys.exit(main())
