"""C19: exit status and final report tell the truth about the build."""
from __future__ import annotations

import asyncio
import contextlib
import os
import re
import tempfile

from . import common
from .common import coq_bool, coq_list, coq_option, coq_str
from .wfutil import WF, fake_hash, run

PID = "C19"
PROPS_FILE = "props/C19.v"
MODEL_TARGETS = ["model/Pending.vo"]
RULE = ("leftover graphs built through the real Workflow/Step API on in-memory SQLite (static, missing, "
        "undeclared and detached inputs; steps created by steps; FAILED / SUCCEEDED / RUNNING+hold creators; "
        "unsatisfiable and undefined resources; dynamic-input cycles through product steps; deferred steps "
        "with and without unavailable dynamic inputs; OPTIONAL steps below the threshold; exact and directory "
        "targets; glob registrations whose recorded matches are static files, unjustified files on disk or "
        "files a step builds; stale metadata when the settle pass is skipped); for each graph the real "
        "_analyze_pending (temp tables pend_blocker / pend_attributed read before they are dropped) and the "
        "real report_unbuilt are compared with model/Pending.v evaluated by vm_compute on the dumped snapshot; "
        "a case is non-trivial when the pending universe has at least two steps and at least two distinct "
        "root kinds or a cycle; distinct by the canonical snapshot")
TRUSTED_BASE = [
    "Coq 8.16.1 kernel (vm_compute in Examples and in the correspondence evaluation; no native_compute)",
    "Print Assumptions: Closed under the global context for every C19 theorem (no axioms)",
    "translator/gen_pending.py (enum/priority import, SQL boolean fragment parser for UNAVAILABLE_INPUT_WHERE, "
    "statement-level translation of the four return-code functions of finalize.py, structure checks of "
    "Builder.finalize / serve / director main / tui, fingerprints of the pend_* SQL templates)",
    "harness/p_c19.py (snapshot dump, Gallina literal printer, capture of the pend_* temp tables through a "
    "wrapper around pending._drop_pend_tables, recording reporter)",
    "coq/model/Pending.v is hand-written from pending.py (SQL re-expressed as list functions) and tied by the "
    "correspondence, not generated",
    "no extraction: the model is evaluated inside Coq",
]
ASSUMPTIONS = [
    "node.i is a primary key (NoDup of step ids in a snapshot); step.state takes one of the five StepState values "
    "(CHECK constraint); no step is RUNNING or CHECKING when report_unbuilt runs (job_loop returned)",
    "SQLite orders TEXT by memcmp on UTF-8, which equals code point order",
    "reading of 'counts that add up': the attributed counts per root kind plus the cyclic residue; the exact "
    "transitive counts shown in the two ranked tables overlap by design and are checked separately against the "
    "model's closure",
    "the pending-bit clause is read for builds that ran a build phase; an invalid target returns FAILED before "
    "any phase runs",
]

HEADER = ("From Coq Require Import List NArith Bool.\nImport ListNotations.\n"
          "From SV Require Import lib.Bytes lib.SqlExpr model.PendingTypes gen.GenPending model.Pending.\n"
          "Open Scope N_scope.\n")

KIND_NAMES = {0: "file", 1: "resource", 2: "failed", 3: "deferred", 4: "other", 5: "runnable", 6: "block_step"}


def generate(ctx):
    from translator import gen_pending
    from translator.astutil import TranslatorError
    text, facts, err = gen_pending.generate()
    ctx.write_gen("GenPending.v", text)
    ctx.facts = facts
    ctx.stats["returncode_bits"] = facts["rc"]
    ctx.stats["root_kinds"] = facts["kinds"]
    if err:
        raise TranslatorError(err)


# ---------------------------------------------------------------------------------------------
# Driving the real implementation
# ---------------------------------------------------------------------------------------------


class Recorder:
    """RPC client stand-in collecting reporter calls (as tests/test_finalize.py does)."""

    def __init__(self):
        self.reports = []

    @property
    def call(self):
        return self

    async def report(self, tag, description, pages):
        self.reports.append((tag, description, pages))


@contextlib.contextmanager
def capture_pend_tables(store):
    """Read the pend_* scratch tables right before pending.py drops them."""
    from stepup.core import pending
    orig = pending._drop_pend_tables

    def wrapper(db):
        have = db.execute("SELECT 1 FROM sqlite_temp_master WHERE name = 'pend_attributed'").fetchone()
        if have is not None:
            for name in pending._PEND_TABLE_NAMES:
                store[name] = db.execute(f"SELECT * FROM {name}").fetchall()
        return orig(db)

    pending._drop_pend_tables = wrapper
    try:
        yield
    finally:
        pending._drop_pend_tables = orig


def dump_snapshot(w):
    db = w.db
    steps = db.execute(
        "SELECT node.i, node.label, step.state, step._implied_need, node.detached, step._safe, step._has_hash, "
        "step._safe_ignoring_hold, step.deferred, step._holding, node.creator "
        "FROM step JOIN node ON node.i = step.node ORDER BY node.i").fetchall()
    reqs = {}
    for node, name, units in db.execute("SELECT node, name, units FROM step_resource ORDER BY node, name"):
        reqs.setdefault(node, []).append((name, units))
    files = db.execute("SELECT node.i, node.label, file.state, node.detached FROM file JOIN node "
                       "ON node.i = file.node ORDER BY node.i").fetchall()
    deps = db.execute("SELECT dep.source, dep.sink, dynamic_dep.i IS NOT NULL FROM dependency AS dep "
                      "LEFT JOIN dynamic_dep ON dynamic_dep.i = dep.i ORDER BY dep.i").fetchall()
    avail = db.execute("SELECT name, units FROM available_resource ORDER BY name").fetchall()
    return {
        "steps": [list(s) + [reqs.get(s[0], [])] for s in steps],
        "files": [list(f) for f in files],
        "deps": [list(d) for d in deps],
        "avail": [list(a) for a in avail],
        "threshold": w.wf.need_threshold.value,
    }


def snap_term(sn):
    steps = []
    for i, label, state, ineed, det, safe, hh, snh, deferred, holding, creator, req in sn["steps"]:
        reqs = coq_list([f"({coq_str(n)}, {u})" for n, u in req])
        steps.append(f"mk_step {i} {coq_str(label)} {state} {ineed} {coq_bool(det)} {coq_bool(safe)} "
                     f"{coq_bool(hh)} {coq_bool(snh)} {coq_bool(deferred)} {holding} "
                     f"{coq_option(creator, str)} {reqs}")
    files = [f"mk_file {i} {coq_str(l)} {s} {coq_bool(d)}" for i, l, s, d in sn["files"]]
    deps = [f"mk_dep {a} {b} {coq_bool(d)}" for a, b, d in sn["deps"]]
    avail = [f"({coq_str(n)}, {u})" for n, u in sn["avail"]]
    return (f"(mk_snap {coq_list(steps)} {coq_list(files)} {coq_list(deps)} {coq_list(avail)} "
            f"{sn['threshold']})")


def cand_term(kind, label, src):
    return f"({kind}, {coq_str(label)}, {src})"


def rows_term(rows):
    return coq_list([f"({d}, {cand_term(k, l, s)})" for d, k, l, s in rows])


def bucket_term(b):
    return f"({b.nblocked}, {coq_option(b.example, coq_str)})"


def canon_rows(db, tables, rows):
    """(dst, kind, src) of pend_blocker / pend_attributed -> (dst, kind, label, src) as the model has it."""
    labels = dict(db.execute("SELECT i, label FROM node"))
    resname = {r[0]: r[1] for r in tables.get("pend_resource", [])}
    out = []
    for dst, kind, src in rows:
        if kind == 1:
            out.append((dst, kind, resname[src], 0))
        elif kind in (0, 2, 6):
            out.append((dst, kind, labels[src], src))
        else:
            out.append((dst, kind, "", src))
    return sorted(out)


# ---------------------------------------------------------------------------------------------
# Case generator: leftover graphs through the real API
# ---------------------------------------------------------------------------------------------

DISK_FILES = ["w0.txt", "w1.txt", "sub/w2.txt"]


class Case:
    def __init__(self):
        self.ops = []        # replayable description
        self.notes = set()


def gen_plan(rng, size):
    """A replayable list of operations (pure data)."""
    ops = []
    res = rng.choice([None, "small:1", "small:1,big:3", "big:2"])
    targets, target_dirs = [], []
    nstep = rng.randint(2, size)
    statics = [f"s{k}.txt" for k in range(rng.randint(0, 3))]
    missing = [f"m{k}.txt" for k in range(rng.randint(0, 3))]
    undecl = [f"u{k}.txt" for k in range(rng.randint(0, 2))]
    ops.append(("statics", statics))
    ops.append(("missing", missing))
    outs, steps = [], []
    for k in range(nstep):
        creator = rng.choice(steps) if steps and rng.random() < 0.3 else None
        pool = statics + missing + undecl + outs
        inp = sorted(set(rng.sample(pool, k=min(len(pool), rng.choice([0, 0, 1, 1, 2, 3])))))
        out = [f"{rng.choice(['o', 'd/o'])}{k}_{j}.txt" for j in range(rng.choice([0, 1, 1, 2]))]
        vol = [f"v{k}.txt"] if rng.random() < 0.1 else []
        rs = {}
        if rng.random() < 0.3:
            for name in rng.sample(["small", "big", "ghost"], k=rng.choice([1, 1, 2])):
                rs[name] = rng.choice([1, 2, 5])
        optional = rng.random() < 0.2
        name = rng.choice(["st", "b", "é"]) + str(k)
        ops.append(("step", name, creator, inp, out, vol, rs, optional))
        steps.append(name)
        outs += out
        if vol and rng.random() < 0.5:
            outs += vol
    if rng.random() < 0.3:
        pick = [rng.choice(outs)] if outs and rng.random() < 0.7 else []
        if rng.random() < 0.5:
            pick.append("nowhere.txt")
        if rng.random() < 0.4:
            target_dirs.append(rng.choice(["d/", "nodir/"]))
        targets = pick
    clean = rng.random() < 0.15
    if clean:
        # a build in which everything that ran succeeded (exit status 0 unless a glob/target objects)
        for op in list(ops):
            if op[0] == "step" and not any(p in missing + undecl for p in op[3]) and "ghost" not in op[6]:
                ops.append(("succeed", op[1]))
    npost = 0 if clean else rng.randint(0, 2 + nstep)
    for _ in range(npost):
        r = rng.random()
        s = rng.choice(steps)
        if r < 0.2:
            ops.append(("succeed", s))
        elif r < 0.35:
            ops.append(("fail", s))
        elif r < 0.5:
            pool = missing + undecl + outs + statics + ["dyn_new.txt"]
            ops.append(("amend_defer", s, sorted(set(rng.sample(pool, k=min(len(pool), rng.choice([1, 1, 2]))))),
                        rng.random() < 0.7))
        elif r < 0.6:
            ops.append(("detach_step", s))
        elif r < 0.68:
            pool = statics + missing + undecl + outs
            if pool:
                ops.append(("detach_file", rng.choice(pool)))
        elif r < 0.75:
            ops.append(("run_hold", s))
        elif r < 0.85:
            ops.append(("cycle", s, rng.choice(steps)))
        elif r < 0.9:
            ops.append(("outdate", s))
        elif r < 0.95:
            ops.append(("plan_state", rng.choice(["FAILED", "PENDING", "RUNNING"])))
        else:
            ops.append(("stale_deferred", s))
    if rng.random() < 0.35:
        kind = rng.choice(["static", "disk", "absent", "built", "built", "tree"])
        ops.append(("glob", rng.choice(steps), kind, rng.choice(outs) if outs else None))
    settle = rng.random() < 0.85
    draining = rng.random() < 0.2
    return {"resources": res, "targets": targets, "target_dirs": target_dirs, "ops": ops,
            "settle": settle, "draining": draining}


async def build_case(plan):
    """Run a plan on a fresh real workflow. Returns the open WF (caller closes it)."""
    from conftest import amend_step
    from path import Path
    from stepup.core.enums import HashUpdateCause, Need, StepState
    from stepup.core.file import File
    from stepup.core.hash import FileHash
    from stepup.core.nglob import NamedGlob
    from stepup.core.step import Step

    kw = {}
    if plan["targets"]:
        kw["targets"] = frozenset(Path(t) for t in plan["targets"])
    if plan["target_dirs"]:
        kw["target_dirs"] = frozenset(Path(t) for t in plan["target_dirs"])
    w = WF(**kw)
    await w.__aenter__()
    wf, db = w.wf, w.db
    await w.sched.initialize(plan["resources"])
    applied = []

    def find_step(name):
        return wf.find(Step, name)

    async with db:
        w.plan.set_state(StepState.SUCCEEDED)
        for op in plan["ops"]:
            db.execute("SAVEPOINT c19op")
            try:
                kind = op[0]
                if kind == "statics":
                    w.confirm_static(w.plan, op[1])
                elif kind == "missing":
                    wf.declare_static_files(w.plan, op[1])
                    wf.update_file_hashes({p: FileHash.unknown() for p in op[1]}, cause=HashUpdateCause.CONFIRMED)
                elif kind == "step":
                    _, name, creator, inp, out, vol, rs, optional = op
                    cr = w.plan if creator is None else find_step(creator)
                    if cr is None:
                        raise LookupError(creator)
                    wf.define_step(cr, name, inp_paths=inp, out_paths=out, vol_paths=vol,
                                   resources=rs or None,
                                   need=Need.OPTIONAL if optional else Need.DEFAULT)
                elif kind == "succeed":
                    st = find_step(op[1])
                    st.set_state(StepState.SUCCEEDED)
                    recs = list(st.out_paths())
                    wf.update_file_hashes({r.path: fake_hash(r.path) for r in recs
                                           if r.state.name in ("PLANNED", "OUTDATED")},
                                          cause=HashUpdateCause.SUCCEEDED)
                elif kind == "fail":
                    find_step(op[1]).set_state(StepState.FAILED)
                elif kind == "amend_defer":
                    st = find_step(op[1])
                    st.set_state(StepState.RUNNING)
                    amend_step(wf, st, inp_paths=op[2])
                    st.set_state(StepState.PENDING, deferred=op[3])
                elif kind == "detach_step":
                    find_step(op[1]).detach()
                elif kind == "detach_file":
                    f = wf.find(File, op[1])
                    if f is None:
                        raise LookupError(op[1])
                    f.detach()
                elif kind == "run_hold":
                    st = find_step(op[1])
                    st.set_state(StepState.RUNNING)
                    st.hold()
                elif kind == "cycle":
                    a, b = find_step(op[1]), find_step(op[2])
                    if a is None or b is None or a.i == b.i:
                        raise LookupError("cycle")
                    tag = f"{a.i}_{b.i}"
                    wf.define_step(a, f"sub_a{tag}", out_paths=[f"cyc_a{tag}.txt"])
                    wf.define_step(b, f"sub_b{tag}", out_paths=[f"cyc_b{tag}.txt"])
                    for x in (a, b):
                        x.set_state(StepState.RUNNING)
                    amend_step(wf, a, inp_paths=[f"cyc_b{tag}.txt"])
                    amend_step(wf, b, inp_paths=[f"cyc_a{tag}.txt"])
                    for x in (a, b):
                        x.set_state(StepState.PENDING)
                elif kind == "outdate":
                    st = find_step(op[1])
                    wf.mark_step_pending(st)
                elif kind == "plan_state":
                    w.plan.set_state(getattr(StepState, op[1]))
                elif kind == "stale_deferred":
                    st = find_step(op[1])
                    if st.get_state() != StepState.PENDING:
                        raise LookupError("not pending")
                    st.set_state(StepState.PENDING, deferred=True)
                elif kind == "glob":
                    _, sname, gkind, outp = op
                    st = find_step(sname)
                    if gkind == "static":
                        ng = NamedGlob("s*.txt", {}, {(): {Path("s0.txt")}})
                        wf.register_nglob(st, ng)
                    elif gkind == "disk":
                        ng = NamedGlob("w*.txt", {}, {(): {Path("w0.txt"), Path("w1.txt")}})
                        wf.register_nglob(st, ng)
                    elif gkind == "absent":
                        ng = NamedGlob("gone*.txt", {}, {(): {Path("gone1.txt")}})
                        wf.register_nglob(st, ng)
                    elif gkind == "tree":
                        wf.register_static_tree(w.plan, "sub/")
                        ng = NamedGlob("sub/*.txt", {}, {(): {Path("sub/w2.txt")}})
                        wf.register_nglob(st, ng)
                    else:
                        # A match that a step builds: the registering step is detached while the
                        # output is declared, and recycled afterwards (the late-validation case).
                        g = "globber"
                        wf.define_step(w.plan, g)
                        gs = find_step(g)
                        ng = NamedGlob("late*.txt", {}, {(): {Path("late1.txt")}})
                        wf.register_nglob(gs, ng)
                        gs.detach()
                        wf.define_step(w.plan, "mk_late", inp_paths=[outp] if outp else [], out_paths=["late1.txt"])
                        wf.define_step(w.plan, g)
                else:
                    raise AssertionError(kind)
                db.execute("RELEASE c19op")
                applied.append(op[0])
            except Exception as e:  # noqa: BLE001 - rejected operations are part of the distribution
                db.execute("ROLLBACK TO c19op")
                db.execute("RELEASE c19op")
                applied.append(f"rejected:{op[0]}:{type(e).__name__}")
    if plan["settle"]:
        async with db:
            w.sched._update_meta_safe()
            w.sched._update_meta_after()
            w.sched._update_meta_ready()
    w.sched.draining = bool(plan["draining"])
    w.applied = applied
    return w


async def observe(w):
    """Everything the checks need from the real implementation for one built case."""
    from stepup.core import pending
    from stepup.core.finalize import report_unbuilt
    from stepup.core.reporter import ReporterClient
    from stepup.core.enums import ReturnCode
    wf, db = w.wf, w.db
    obs = {}
    async with db:
        obs["snap"] = dump_snapshot(w)
        tables = {}
        with capture_pend_tables(tables):
            try:
                summary, totals = pending._analyze_pending(wf)
                obs["error"] = None
            except Exception as e:  # noqa: BLE001
                summary, totals = None, None
                obs["error"] = f"{type(e).__name__}: {e}"
        obs["summary"], obs["totals"], obs["tables"] = summary, totals, tables
        if tables:
            obs["blocker"] = canon_rows(db, tables, tables["pend_blocker"])
            obs["attributed"] = canon_rows(db, tables, tables["pend_attributed"])
        obs["truth"] = dispatch_truth(db, obs["snap"])
        obs["labels"] = dict(db.execute("SELECT i, label FROM node"))
        obs["file_ids"] = dict(db.execute("SELECT label, i FROM node WHERE kind = 'file'"))
        # inputs of report_unbuilt measured through the same real helpers it uses
        viol = wf.find_glob_violations()
        obs["glob_warn"] = [(v.step_label, v.pattern, v.path) for v in viol if not v.is_error]
        obs["glob_err"] = [(v.step_label, v.pattern, v.path, v.state.name) for v in viol if v.is_error]
        obs["miss_t"] = sorted(str(t) for t in wf.targets if not wf.is_regular_output(t))
        obs["miss_d"] = sorted(str(t) for t in wf.target_dirs if not wf.has_regular_output_under(t))
    rec = Recorder()
    try:
        rc = await report_unbuilt(wf, w.sched, ReporterClient(rec))
        obs["rc"] = rc.value
        obs["rc_name"] = str(rc)
    except Exception as e:  # noqa: BLE001 - the end-of-build report itself failed: reported with the plan as witness
        obs["rc"], obs["rc_name"] = -1, f"report_unbuilt raised {type(e).__name__}"
        if obs["error"] is None:
            obs["error"] = f"{type(e).__name__}: {e} (in report_unbuilt)"
    obs["reports"] = [(t, d) for t, d, _ in rec.reports]
    obs["pages"] = [(t, d, p) for t, d, p in rec.reports]
    obs["draining"] = bool(w.sched.draining)
    obs["ReturnCode"] = {m.name: m.value for m in ReturnCode}
    return obs


def dispatch_truth(db, sn):
    """What DISPATCH says about the inputs of every pending needed step, asked of the real database
    with the scheduler's own test (step.unavailable_input_sql, the sub-query of RECOMPUTE_READY);
    independent of pending.py."""
    from stepup.core.step import UNAVAILABLE_INPUT_WHERE, unavailable_input_sql
    out = {}
    for i, _label, state, ineed, det, *_ in sn["steps"]:
        if not (state == 21 and ineed > sn["threshold"] and not det):
            continue
        refused = bool(db.execute(f"SELECT EXISTS({unavailable_input_sql('?')})", (i,)).fetchone()[0])
        ids = [r[0] for r in db.execute(
            "SELECT dep.source FROM dependency AS dep JOIN file AS input_file ON input_file.node = dep.source "
            "JOIN node AS input_node ON input_node.i = dep.source LEFT JOIN dynamic_dep ON dynamic_dep.i = dep.i "
            f"WHERE dep.sink = ? AND ({UNAVAILABLE_INPUT_WHERE})", (i,))]
        out[i] = {"refused": refused, "inputs": sorted(set(ids))}
    return out


def check_term(obs):
    """Gallina bool: the model reproduces what the implementation computed for this case."""
    sn = snap_term(obs["snap"])
    s = obs["summary"]
    parts = [f"(N.of_nat (length (U sn)) =? {s.ntotal})"]
    if s.ntotal > 0:
        totals = obs["totals"]
        parts += [
            f"rows_eqb (sort_rows (blocker_rows sn)) {rows_term(obs['blocker'])}",
            f"rows_eqb (sort_rows (attributed sn)) {rows_term(obs['attributed'])}",
            f"bucket_eqb (bucket sn K_ROOT_FAILED) {bucket_term(s.failed)}",
            f"bucket_eqb (cyclic_bucket sn) {bucket_term(s.cyclic)}",
            f"bucket_eqb (bucket sn K_ROOT_DEFERRED) {bucket_term(s.deferred)}",
            f"bucket_eqb (bucket sn K_ROOT_OTHER) {bucket_term(s.other)}",
            f"bucket_eqb (bucket sn K_ROOT_RUNNABLE) {bucket_term(s.runnable)}",
            f"(count_kind K_ROOT_FILE (attributed sn) =? {totals.get(0, 0)})",
            f"(count_kind K_ROOT_RESOURCE (attributed sn) =? {totals.get(1, 0)})",
            f"(N.of_nat (length (dead_files sn)) =? {len(s.inputs) + s.ninputs_hidden})",
            f"(N.of_nat (length (unsat_resources sn)) =? {len(s.resources) + s.nresources_hidden})",
        ]
        if s.ninputs_hidden == 0:
            rows = sorted((r.path, r.state.value, r.detached) for r in s.inputs)
            parts.append("files_eqb (dead_files sn) " + coq_list(
                [f"({coq_str(p)}, {st}, {coq_bool(d)})" for p, st, d in rows]))
        if s.nresources_hidden == 0:
            rows = sorted((r.name, r.units_needed, r.units_available) for r in s.resources)
            parts.append("res_eqb (unsat_resources sn) " + coq_list(
                [f"({coq_str(n)}, {u}, {coq_option(a, str)})" for n, u, a in rows]))
        for r in s.inputs:
            parts.append(f"(exact_file sn {obs['file_ids'][r.path]} =? {r.nblocked})")
        for r in s.resources:
            parts.append(f"(exact_resource sn {coq_str(r.name)} =? {r.nblocked})")
    ru = (f"(ru_of_snap sn {coq_bool(obs['draining'])} {len(obs['miss_t'])} {len(obs['miss_d'])} "
          f"{len(obs['glob_warn'])} {len(obs['glob_err'])})")
    # the clauses translated from pending.py against their hand-written meaning (always true while
    # PendingGenSpec.v compiles; a counterexample inside Coq when it does not)
    parts.append("match cands_disagree sn with [] => true | _ => false end")
    parts.append("match universe_disagree sn with [] => true | _ => false end")
    parts.append(f"(report_unbuilt {ru} =? {obs['rc']})")
    parts.append(f"(report_unbuilt_gen {ru} =? {obs['rc']})")
    return sn, parts


def case_key(obs):
    sn = obs["snap"]
    return (tuple(tuple(map(str, s)) for s in sn["steps"]), tuple(map(tuple, sn["files"])),
            tuple(map(tuple, sn["deps"])), tuple(map(tuple, sn["avail"])), sn["threshold"], obs["rc"])


def nontrivial(obs):
    s = obs["summary"]
    if s is None or s.ntotal < 2:
        return False
    kinds = {k for _, k, _, _ in obs.get("attributed", [])}
    return len(kinds) >= 2 or s.cyclic.nblocked > 0


@contextlib.contextmanager
def scratch_cwd():
    old = os.getcwd()
    with tempfile.TemporaryDirectory(prefix="c19-") as d:
        os.chdir(d)
        try:
            os.makedirs("sub", exist_ok=True)
            for p in DISK_FILES:
                with open(p, "w") as fh:
                    fh.write("x")
            yield d
        finally:
            os.chdir(old)


async def _run_plans(ctx, plans, timeout=120):
    out = []
    for plan in plans:
        w = await asyncio.wait_for(build_case(plan), timeout)
        try:
            obs = await asyncio.wait_for(observe(w), timeout)
            obs["applied"] = w.applied
        finally:
            await w.__aexit__(None, None, None)
        out.append((plan, obs))
    return out


# ---------------------------------------------------------------------------------------------
# Fixed corpus: the shapes of tests/test_pending.py plus the D7 witnesses
# ---------------------------------------------------------------------------------------------


def corpus_plans():
    base = {"resources": "small:1", "targets": [], "target_dirs": [], "settle": True, "draining": False}
    plans = []
    # partition-invariant graph of tests/test_pending.py
    plans.append(dict(base, ops=[
        ("statics", ["side.txt"]), ("missing", ["missing.txt"]),
        ("step", "step1", None, ["missing.txt"], ["out1.txt"], [], {}, False),
        ("step", "step2", None, ["out1.txt"], [], [], {}, False),
        ("step", "needs_small", None, [], [], [], {"small": 2}, False),
        ("step", "producer", None, [], ["prod.txt"], [], {}, False),
        ("fail", "producer"),
        ("step", "consumer", None, ["prod.txt"], [], [], {}, False),
        ("step", "deferred_work", None, [], [], [], {}, False),
        ("amend_defer", "deferred_work", ["side.txt"], True),
        ("step", "cyc1", None, [], [], [], {}, False),
        ("step", "cyc2", None, [], [], [], {}, False),
        ("cycle", "cyc1", "cyc2"),
        ("step", "runnable_work", None, [], [], [], {}, False),
    ]))
    # diamond: exact counts overlap, attributed counts partition
    plans.append(dict(base, ops=[
        ("missing", ["config_a.txt", "data_b.txt"]),
        *[("step", f"only_a_{k}", None, ["config_a.txt"], [], [], {}, False) for k in range(2)],
        *[("step", f"only_b_{k}", None, ["data_b.txt"], [], [], {}, False) for k in range(3)],
        *[("step", f"both_{k}", None, ["config_a.txt", "data_b.txt"], [], [], {}, False) for k in range(4)],
    ]))
    # unsafe through a SUCCEEDED intermediate; other (ancestor detached / optional)
    plans.append(dict(base, ops=[
        ("missing", ["missing.txt"]),
        ("step", "ancestor", None, ["missing.txt"], [], [], {}, False),
        ("step", "middle", "ancestor", [], [], [], {}, False),
        ("succeed", "middle"),
        ("step", "descendant", "middle", [], [], [], {}, False),
        ("step", "opt", None, ["missing.txt"], [], [], {}, True),
        ("step", "under_opt", "opt", [], [], [], {}, False),
    ]))
    return plans


def d7_plans():
    """Glob match that a step builds, together with each way the code can already be non-zero.

    Finding D7 (fixed in /repo by 4c893f7): before the fix the last three ended with PENDING, WARNING
    and DRAINED alone.  They stay in the corpus as regression scenarios; the oracle names a relapse
    `report_unbuilt:glob-error-skipped:*`.
    """
    glob = ("glob", "keep", "built", None)
    common_ops = [("statics", ["s0.txt"]), ("missing", ["m0.txt"]),
                  ("step", "keep", None, ["s0.txt"], ["k.txt"], [], {}, False), ("succeed", "keep")]
    base = {"resources": None, "targets": [], "target_dirs": [], "settle": True, "draining": False}
    out = {}
    # everything else fine: the glob error is reported, FAILED bit set
    out["glob-error-alone"] = dict(base, ops=common_ops + [glob, ("succeed", "mk_late"), ("succeed", "globber")])
    # a required step stays pending (missing input): code is PENDING, glob check skipped
    out["glob-error+pending"] = dict(base, ops=common_ops + [
        ("step", "waits", None, ["m0.txt"], [], [], {}, False), glob, ("succeed", "mk_late"), ("succeed", "globber")])
    # a requested target is not produced: code is WARNING, glob check skipped
    out["glob-error+missing-target"] = dict(base, targets=["nowhere.txt"], ops=common_ops + [
        glob, ("succeed", "mk_late"), ("succeed", "globber")])
    # drained without a failed step (interrupt / hashing error): early return
    out["glob-error+draining"] = dict(base, draining=True, ops=common_ops + [
        glob, ("succeed", "mk_late"), ("succeed", "globber")])
    return out


# ---------------------------------------------------------------------------------------------
# Correspondence
# ---------------------------------------------------------------------------------------------


def correspondence(ctx):
    rng = ctx.rng
    n = ctx.scale(160, 1500)
    plans = corpus_plans() + list(d7_plans().values())
    plans += [gen_plan(rng, rng.choice([4, 6, 9, 12])) for _ in range(n)]
    with scratch_cwd():
        results = run(_run_plans(ctx, plans))
    ctx.results = results
    checks, index = [], []
    raised_seen = set()
    for k, (plan, obs) in enumerate(results):
        for a in obs["applied"]:
            parts = a.split(":")
            ctx.count("op:" + (parts[1] + ":rejected:" + parts[2] if parts[0] == "rejected" else parts[0]))
        if obs["error"] is not None:
            sig = f"analyze_pending:raises:{obs['error'].split(':')[0]}"
            ctx.count(sig)
            if sig not in raised_seen:
                raised_seen.add(sig)
                ctx.add_failure("correspondence", "analyze_pending-raises", sig,
                                f"the real end-of-build analysis raised {obs['error']}", witness={"plan": plan})
            continue
        sn, parts = check_term(obs)
        checks.append(f"let sn := {sn} in forallb (fun b : bool => b) {coq_list(parts)}")
        index.append(k)
        s = obs["summary"]
        ctx.case(case_key(obs), nontrivial(obs))
        ctx.count("ntotal=0" if s.ntotal == 0 else "ntotal>0")
        ctx.count(f"rc={obs['rc_name']}")
        for _, kind, _, _ in obs.get("attributed", []):
            ctx.count("attributed:" + KIND_NAMES[kind])
        ctx.count("attributed:cyclic", s.cyclic.nblocked)
        if k < 3:
            ctx.sample({"plan_ops": [list(map(str, op)) for op in plan["ops"]][:12], "ntotal": s.ntotal,
                        "rc": obs["rc_name"], "reports": obs["reports"]})
    bad = common.run_cases(ctx, "snap", HEADER, checks, chunk=40, timeout=900)
    ctx.traces_validated += len(checks) - len(bad)
    for i in bad[:3]:
        plan, obs = results[index[i]]
        sn, parts = check_term(obs)
        vals = common.eval_terms(ctx, "diag", HEADER, [f"let sn := {sn} in {p}" for p in parts])
        failing = [re.sub(r"\s+", " ", p)[:160] for p, v in zip(parts, vals) if v != "true"]
        first = failing[0].split(" ")[0].strip("(") if failing else "?"
        comp = _component(failing[0]) if failing else "?"
        note = ""
        if comp.startswith("report_unbuilt"):
            ru = (f"(ru_of_snap sn {coq_bool(obs['draining'])} {len(obs['miss_t'])} {len(obs['miss_d'])} "
                  f"{len(obs['glob_warn'])} {len(obs['glob_err'])})")
            pre = common.eval_terms(ctx, "diagpre", HEADER, [f"let sn := {sn} in (report_unbuilt_prefix {ru} =? {obs['rc']})"])
            if pre and pre[0] == "true":
                note = (" -- the implementation behaves like the guard chain before fix 4c893f7 "
                        "(D7 regression, cf. C19_prefix_guard_chain_refuted)")
        if comp in ("cands_disagree", "universe_disagree"):
            # counterexample found inside Coq: the clauses as translated from pending.py do not mean what
            # PendingGenSpec.v says on this snapshot (the model follows the code, so model = implementation)
            ids = common.eval_terms(ctx, "diagids", HEADER, [f"let sn := {sn} in {comp} sn"])
            which = "blocker-arms" if comp == "cands_disagree" else "universe"
            ctx.add_failure("correspondence", "clauses:" + which, f"Coq:translated-clause-differs-from-spec:{which}",
                            f"the WHERE clauses translated from pending.py give other candidates than the relation "
                            f"pending.py documents (cands_spec) for step ids {ids}; real pend_blocker={obs.get('blocker')}",
                            witness={"plan": plan, "snapshot": obs["snap"], "steps": ids})
            continue
        ctx.add_failure("correspondence", "snapshot:" + comp, f"E2:model-vs-analyze_pending:{comp}",
                        f"model and implementation disagree on: {failing[:4]}{note}; summary={obs['summary']}; rc={obs['rc_name']}",
                        witness={"plan": plan, "snapshot": obs["snap"], "first": first})
    clause_sweep(ctx)


def clause_sweep(ctx):
    """The two sweeps of model/Pending.v over (state, detached, dynamic, deferred): rows dispatch refuses that
    the translated _INSERT_PEND_FILE_BLOCK clause misses, and rows it lists without reason.  Evaluated inside Coq
    on the clauses generated in this run."""
    try:
        vals = common.eval_terms(ctx, "sweep", HEADER, ["fb_gap_complete", "fb_gap_sound"])
    except Exception as e:  # noqa: BLE001 - the model did not build; the implementation-only probe still runs
        ctx.notes.append(f"clause sweep inside Coq skipped: {type(e).__name__}")
        return
    for name, v in zip(("complete", "sound"), vals):
        flat = re.sub(r"\s+", " ", v or "")
        ctx.count(f"clause-sweep:{name}:{'not-evaluated' if not flat else 'empty' if flat.startswith('[]') else 'gap'}")
        if flat and not flat.startswith("[]"):
            m = re.search(r"\((\d+)%?N?, \((true|false), \((true|false), (true|false)\)\)\)", flat)
            wit = None
            if m:
                wit = {"state": int(m.group(1)), "detached": m.group(2) == "true", "dynamic": m.group(3) == "true",
                       "deferred": m.group(4) == "true"}
            ctx.add_failure("correspondence", "clauses:file-block", f"Coq:file-block-clause:{'misses-refused-input' if name == 'complete' else 'lists-available-input'}",
                            f"fb_gap_{name} evaluated inside Coq on the translated clauses = {flat[:300]}", witness=wit)


def _component(text):
    for key in ("cands_disagree", "universe_disagree", "blocker_rows", "attributed", "bucket", "count_kind", "dead_files", "unsat_resources",
                "exact_file", "exact_resource", "report_unbuilt_gen", "report_unbuilt", "length (U sn)"):
        if key in text:
            return key.replace(" ", "_")
    return "other"


# ---------------------------------------------------------------------------------------------
# Oracle on the real implementation
# ---------------------------------------------------------------------------------------------


def oracle_case(ctx, plan, obs, tag=None):
    """Direct checks of the property on what the real code produced. Returns failures as tuples."""
    fails = []
    RC = obs["ReturnCode"]
    sn, s, rc = obs["snap"], obs["summary"], obs["rc"]
    if s is None:
        return fails
    # --- recomputed from the database dump, independent of pending.py
    pend, succ_required, failed_attached = [], True, 0
    # report_unbuilt runs after job_loop returned: nothing is RUNNING or CHECKING then.  Graphs that
    # contain such steps (built to exercise the hold arm of the ancestor walk) are outside that
    # precondition; for them "zero means every required step succeeded" is not demanded.
    stopped = all(st[2] not in (22, 25) for st in sn["steps"])
    for i, label, state, ineed, det, *_ in sn["steps"]:
        if state == 24 and not det:
            failed_attached += 1
        if ineed > sn["threshold"] and not det:
            if state == 21:
                pend.append(i)
            if state != 23:
                succ_required = False
    if s.ntotal != len(pend):
        fails.append(("summary:ntotal", f"ntotal={s.ntotal} but {len(pend)} required steps are PENDING"))
    if s.ntotal > 0:
        tables = obs["tables"]
        blocker_ids = [r[0] for r in tables["pend_blocker"]]
        attr_ids = [r[0] for r in tables["pend_attributed"]]
        if sorted(blocker_ids) != sorted(pend):
            fails.append(("pend_blocker:not-one-row-per-step",
                          f"pend_blocker rows {sorted(blocker_ids)} versus pending steps {sorted(pend)}"))
        if len(set(attr_ids)) != len(attr_ids):
            fails.append(("pend_attributed:duplicate", f"step attributed twice: {sorted(attr_ids)}"))
        if not set(attr_ids) <= set(pend):
            fails.append(("pend_attributed:outside-universe", f"{sorted(set(attr_ids) - set(pend))}"))
        totals = obs["totals"]
        buckets = {2: s.failed.nblocked, 3: s.deferred.nblocked, 4: s.other.nblocked, 5: s.runnable.nblocked}
        for k, v in buckets.items():
            if totals.get(k, 0) != v:
                fails.append(("summary:bucket-differs-from-attribution", f"kind {k}: bucket {v} totals {totals}"))
        total = totals.get(0, 0) + totals.get(1, 0) + sum(buckets.values()) + s.cyclic.nblocked
        if total != s.ntotal:
            fails.append(("summary:counts-do-not-add-up",
                          f"file {totals.get(0, 0)} + resource {totals.get(1, 0)} + buckets {buckets} + cyclic "
                          f"{s.cyclic.nblocked} = {total} != ntotal {s.ntotal}"))
        if set(totals) - {0, 1, 2, 3, 4, 5}:
            fails.append(("summary:unknown-root-kind", f"{totals}"))
        # every step of U under exactly one cause
        cause = {}
        for dst, kind, _ in tables["pend_attributed"]:
            cause.setdefault(dst, []).append(kind)
        for i in pend:
            if len(cause.get(i, [])) > 1:
                fails.append(("summary:step-under-two-causes", f"step {i}: {cause[i]}"))
        ncyc = sum(1 for i in pend if i not in cause)
        if ncyc != s.cyclic.nblocked:
            fails.append(("summary:cyclic-count", f"{ncyc} unattributed steps, cyclic bucket {s.cyclic.nblocked}"))
        for b, name in ((s.failed, "failed"), (s.cyclic, "cyclic"), (s.deferred, "deferred"),
                        (s.other, "other"), (s.runnable, "runnable")):
            if (b.nblocked == 0) != (b.example is None):
                fails.append(("summary:example", f"{name}: {b}"))
        # what the user sees
        msgs = [d for t, d in obs["reports"] if t == "WARNING"]
        if not obs["draining"] and f"{s.ntotal} step(s) remained pending." not in msgs:
            fails.append(("report:pending-line-missing", f"{msgs}"))
        if not obs["draining"]:
            page = next((dict(p).get("Other reasons", "") for t, d, p in obs["pages"]
                         if d.endswith("remained pending.")), "")
            for b, word in ((s.failed, "blocked by failed steps"), (s.cyclic, "waiting on each other"),
                            (s.deferred, "are deferred"), (s.other, "not reported here"),
                            (s.runnable, "seem runnable")):
                line = next((ln for ln in page.split("\n") if word in ln), None)
                if (b.nblocked > 0) != (line is not None) or \
                        (line is not None and not line.startswith(f"{b.nblocked} step(s) ")):
                    fails.append(("report:bucket-line", f"{word}: bucket {b.nblocked}, page {page!r}"))
    # --- exit status bits against their definitions
    has = lambda name: bool(rc & RC[name])  # noqa: E731
    glob_err, glob_warn = obs["glob_err"], obs["glob_warn"]
    exp_pending = (not obs["draining"]) and len(pend) > 0
    if has("PENDING") != exp_pending:
        fails.append(("returncode:PENDING-bit", f"rc={obs['rc_name']} draining={obs['draining']} pending={len(pend)}"))
    if has("DRAINED") != obs["draining"]:
        fails.append(("returncode:DRAINED-bit", f"rc={obs['rc_name']} draining={obs['draining']}"))
    exp_failed = failed_attached > 0 or len(glob_err) > 0
    if has("FAILED") != exp_failed:
        if has("FAILED"):
            fails.append(("returncode:FAILED-bit-without-cause", f"rc={obs['rc_name']}"))
        elif failed_attached > 0:
            fails.append(("returncode:FAILED-step-without-FAILED-bit", f"rc={obs['rc_name']} nfailed={failed_attached}"))
        elif obs["draining"]:
            fails.append(("report_unbuilt:glob-error-skipped:draining",
                          f"glob match(es) {glob_err} are files a step builds, exit status {obs['rc_name']} has no FAILED bit "
                          "(D7 regression: behaviour of the guard chain before fix 4c893f7)"))
        elif rc != 0:
            fails.append(("report_unbuilt:glob-error-skipped:returncode-already-nonzero",
                          f"glob match(es) {glob_err} are files a step builds, exit status {obs['rc_name']} has no FAILED bit"))
        else:
            fails.append(("returncode:glob-error-without-FAILED-bit", f"rc=0 with {glob_err}"))
    if rc == 0:
        why = []
        if not succ_required and stopped:
            why.append("a required step is not SUCCEEDED")
        if failed_attached:
            why.append("FAILED step")
        if glob_err or glob_warn:
            why.append(f"glob violations {glob_err + glob_warn}")
        if obs["miss_t"] or obs["miss_d"]:
            why.append(f"missing targets {obs['miss_t'] + obs['miss_d']}")
        if obs["draining"]:
            why.append("draining")
        if why:
            fails.append(("returncode:zero-but-" + why[0].replace(" ", "-")[:40], f"rc=0 although {why}"))
    if has("INTERNAL") or has("INTERRUPTED"):
        fails.append(("returncode:foreign-bit", f"rc={obs['rc_name']}"))
    fails += cause_failures(plan, obs)
    return fails


def probe_file_block(state, detached, dynamic, deferred):
    """One input row through the REAL SQL: does dispatch (step.unavailable_input_sql) refuse it, and does the
    real pending._INSERT_PEND_FILE_BLOCK list it?  Scratch in-memory database holding only the columns the two
    statements read; independent of the translator and of Coq."""
    import sqlite3
    from stepup.core import pending
    from stepup.core.step import unavailable_input_sql
    con = sqlite3.connect(":memory:")
    con.executescript(
        "CREATE TABLE node(i INTEGER PRIMARY KEY, detached INTEGER, label TEXT, kind TEXT);"
        "CREATE TABLE file(node INTEGER PRIMARY KEY, state INTEGER);"
        "CREATE TABLE dependency(i INTEGER PRIMARY KEY, source INTEGER, sink INTEGER);"
        "CREATE TABLE dynamic_dep(i INTEGER PRIMARY KEY);"
        "CREATE TEMP TABLE pend_step(i INTEGER PRIMARY KEY, label TEXT, unsafe INTEGER, deferred INTEGER);"
        "CREATE TEMP TABLE pend_file_block(src_file INTEGER, dst_step INTEGER);")
    con.execute("INSERT INTO node VALUES (1, 0, 'step', 'step'), (2, ?, 'f', 'file')", (int(detached),))
    con.execute("INSERT INTO file VALUES (2, ?)", (state,))
    con.execute("INSERT INTO dependency VALUES (7, 2, 1)")
    if dynamic:
        con.execute("INSERT INTO dynamic_dep VALUES (7)")
    con.execute("INSERT INTO pend_step VALUES (1, 'step', 0, ?)", (int(deferred),))
    refused = bool(con.execute(f"SELECT EXISTS({unavailable_input_sql('1')})").fetchone()[0])
    con.execute(pending._INSERT_PEND_FILE_BLOCK)
    listed = con.execute("SELECT COUNT(*) FROM pend_file_block").fetchone()[0] > 0
    con.close()
    return refused, listed


def oracle_clauses(ctx):
    """Implementation only: over every file state x detached x dynamic x deferred, an input that dispatch refuses
    is a blocking input for the report (otherwise a blocked step is reported as 'seems runnable'), and a blocking
    input is refused by dispatch or an unbuilt dynamic input of a deferred step."""
    from stepup.core.enums import FileState
    built_ok = (FileState.CONFIRMED.value, FileState.BUILT.value)
    seen = set()
    for st in FileState:
        for det in (False, True):
            for dyn in (False, True):
                for defr in (False, True):
                    try:
                        refused, listed = probe_file_block(st.value, det, dyn, defr)
                    except Exception as e:  # noqa: BLE001
                        sig = f"report:file-block-probe-raises:{type(e).__name__}"
                        if sig not in seen:
                            seen.add(sig)
                            ctx.add_failure("oracle", "clauses", sig, f"{e}", witness=None)
                        continue
                    ctx.case(("clause", st.value, det, dyn, defr), refused != listed)
                    wit = {"state": st.value, "state_name": st.name, "detached": det, "dynamic": dyn, "deferred": defr}
                    if refused and not listed:
                        sig = "report:input-refused-by-dispatch-not-blocking-in-report:" + \
                              ("dynamic" if dyn else "initial") + (":detached" if det else "")
                        if sig not in seen:
                            seen.add(sig)
                            ctx.add_failure("oracle", "clauses", sig,
                                            f"dispatch (UNAVAILABLE_INPUT_WHERE) refuses an input in {wit}, the real "
                                            "_INSERT_PEND_FILE_BLOCK does not list it: a step blocked by it gets no "
                                            "cause and is reported as 'seems runnable'", witness=wit)
                    if listed and not refused and not (defr and dyn and st.value not in built_ok):
                        sig = "report:blocking-input-that-dispatch-accepts:" + ("dynamic" if dyn else "initial")
                        if sig not in seen:
                            seen.add(sig)
                            ctx.add_failure("oracle", "clauses", sig,
                                            f"the real _INSERT_PEND_FILE_BLOCK lists an input dispatch accepts: {wit}",
                                            witness=wit)


def cause_failures(plan, obs):
    """'The report tells the truth', on the real tables: every row of the real pend_blocker names a cause that
    is real according to the database dump and to dispatch's own input test."""
    fails = []
    sn, tables, truth = obs["snap"], obs.get("tables") or {}, obs.get("truth") or {}
    if not tables:
        return fails
    steps = {s[0]: s for s in sn["steps"]}
    files = {f[0]: f for f in sn["files"]}
    avail = dict((n, u) for n, u in sn["avail"])
    resname = {r[0]: r[1] for r in tables.get("pend_resource", [])}
    in_u = set(truth)
    producers, inputs = {}, {}
    for src, sink, dyn in sn["deps"]:
        if src in steps and sink in files:
            producers.setdefault(sink, []).append(src)
        if src in files and sink in steps:
            inputs.setdefault(sink, []).append((src, bool(dyn)))

    def ancestors(i):
        seen, cur = [], steps[i][10]
        while cur is not None and cur in steps and cur not in seen:
            seen.append(cur)
            cur = steps[cur][10]
        return seen

    for dst, kind, src in tables["pend_blocker"]:
        if dst not in truth:
            continue   # reported by pend_blocker:not-one-row-per-step
        st = steps[dst]
        deferred, safe = bool(st[8]), bool(st[5]) or (bool(st[6]) and bool(st[7]))
        blocking = set(truth[dst]["inputs"])
        if deferred:
            blocking |= {f for f, dyn in inputs.get(dst, []) if dyn and files[f][2] not in (14, 16)}
        short = [(n, u) for n, u in st[11] if avail.get(n) is None or avail[n] < u]
        related = any(src in producers.get(f, []) for f in blocking) or src in ancestors(dst)
        name = KIND_NAMES.get(kind, str(kind))
        why = None
        if kind == 0:
            if src not in blocking:
                why = "input-is-available"
            elif any(p in in_u or steps[p][2] == 24 for p in producers.get(src, [])):
                why = "file-has-a-live-producer"
        elif kind == 1:
            need = dict(st[11]).get(resname.get(src))
            if need is None:
                why = "resource-not-required"
            elif avail.get(resname[src]) is not None and avail[resname[src]] >= need:
                why = "resource-not-short"
        elif kind == 2:
            if src not in steps or steps[src][2] != 24:
                why = "source-not-failed"
            elif not related:
                why = "source-unrelated"
        elif kind == 3:
            if not deferred:
                why = "step-not-deferred"
            elif truth[dst]["refused"]:
                why = "input-refused-by-dispatch"
        elif kind == 4:
            if safe:
                why = "step-is-safe"
            elif src in in_u or (src in steps and steps[src][2] == 24):
                why = "ancestor-in-universe-or-failed"
        elif kind == 5:
            if truth[dst]["refused"]:
                why = "input-refused-by-dispatch"
            elif deferred:
                why = "step-deferred"
            elif short:
                why = "resource-short"
            elif not safe and plan.get("settle") and any(
                    steps[a][2] not in (22, 23) or steps[a][9] > 0 for a in ancestors(dst)):
                why = "unsafe-with-chain-broken-ancestor"
        elif kind == 6:
            if src not in in_u:
                why = "source-not-pending"
            elif not related:
                why = "source-unrelated"
        if why:
            fails.append((f"report:cause-not-real:{name}:{why}",
                          f"step {dst} ({st[1]!r}) is reported under {name} (src {src}), but {why}: dispatch refuses "
                          f"inputs {truth[dst]['inputs']}, deferred={deferred}, safe={safe}, short resources={short}"))
    return fails


def oracle(ctx):
    oracle_clauses(ctx)
    results = getattr(ctx, "results", None)
    if results is None:
        with scratch_cwd():
            results = run(_run_plans(ctx, corpus_plans() + list(d7_plans().values())))
    seen = set()
    nfail = 0
    for plan, obs in results:
        for sig, detail in oracle_case(ctx, plan, obs):
            nfail += 1
            if sig in seen:
                continue
            seen.add(sig)
            ctx.add_failure("oracle", sig.split(":")[0], sig, detail,
                            witness={"plan": plan, "rc": obs["rc_name"], "reports": obs["reports"],
                                     "glob_errors": obs["glob_err"]})
    ctx.count("oracle_failures", nfail)
    # The fixed D7 scenarios must behave as the model says (FAILED only when nothing else is wrong).
    with scratch_cwd():
        named = d7_plans()
        res = run(_run_plans(ctx, list(named.values())))
    for (name, _), (plan, obs) in zip(named.items(), res):
        ctx.count(f"d7:{name}:rc={obs['rc_name']}:glob_errors={len(obs['glob_err'])}")
        if not obs["glob_err"]:
            ctx.add_failure("oracle", "d7-scenario", f"d7-scenario-lost:{name}",
                            f"the scenario {name} no longer produces a glob error ({obs['applied']})",
                            witness={"plan": plan})
    ctx.sample({"d7": {name: obs["rc_name"] for (name, _), (_, obs) in zip(named.items(), res)}})
    try_e3(ctx)


# ---------------------------------------------------------------------------------------------
# E3 part: real serve() return codes for a few projects
# ---------------------------------------------------------------------------------------------

_PF = {"op": "amend", "env": ["STEPUP_PATH_FILTER"]}


def _e3_probe(handler, db):
    wf = handler.workflow
    steps = db.execute("SELECT step.state, step._implied_need, node.detached FROM step "
                       "JOIN node ON node.i = step.node").fetchall()
    viol = wf.find_glob_violations()
    return {
        "steps": [list(r) for r in steps], "threshold": wf.need_threshold.value,
        "glob_err": sum(1 for v in viol if v.is_error), "glob_warn": sum(1 for v in viol if not v.is_error),
        "miss_t": sum(1 for t in wf.targets if not wf.is_regular_output(t)),
        "miss_d": sum(1 for t in wf.target_dirs if not wf.has_regular_output_under(t)),
        "draining": bool(handler.scheduler.draining),
    }


def e3_projects():
    """(name, project, history): the last build of each history is the one that is judged."""
    from . import e3
    static_a = {"op": "static", "paths": ["a.txt"]}
    mk = {"op": "step", "label": "mk", "inp": ["a.txt"], "out": ["b.txt"]}
    base = e3.Project(sources={"a.txt": "x\n"},
                      program={"scripts": {"plan.py": [_PF, static_a, mk]}, "commands": {}})
    bad = e3.Project(sources={"a.txt": "x\n"}, program={"scripts": {"plan.py": [
        _PF, static_a, {"op": "step", "label": "bad", "inp": ["a.txt"], "out": ["b.txt"]},
        {"op": "step", "label": "after", "inp": ["b.txt"], "out": ["c.txt"]}]},
        "commands": {"bad": [{"op": "exit", "rc": 1}]}})
    waits = e3.Project(sources={}, program={"scripts": {"plan.py": [
        _PF, {"op": "step", "label": "waits", "inp": ["nothere.txt"], "out": ["c.txt"]}]}, "commands": {}})
    plan1 = [_PF, {"op": "static", "paths": ["g.py"]}, {"op": "run", "label": "./g.py"}]
    g = [_PF, {"op": "glob", "pattern": "late*.txt"}]

    def plan2(extra):
        return ([_PF, {"op": "static", "paths": ["g.py"]}, {"op": "step", "label": "mk_late", "out": ["late1.txt"]}]
                + extra + [{"op": "run", "label": "./g.py"}])

    late = e3.Project(sources={"late1.txt": "old\n"},
                      program={"scripts": {"plan.py": plan1, "g.py": g}, "commands": {}})
    waits_step = {"op": "step", "label": "waits", "inp": ["nothere.txt"]}
    return [
        ("clean", base, []),
        ("failing-step", bad, []),
        ("failing-step-keep-going", bad, [{"edits": [], "build": {"keep_going": True}}]),
        ("missing-input", waits, []),
        ("missing-target", base, [{"edits": [], "build": {"targets": ("nowhere.txt",)}}]),
        ("invalid-target", base, [{"edits": [], "build": {"targets": ("a.txt",)}}]),
        ("glob-error-alone", late, [{"edits": [{"op": "script", "path": "plan.py", "actions": plan2([])}], "build": {}}]),
        ("glob-error+pending", late,
         [{"edits": [{"op": "script", "path": "plan.py", "actions": plan2([waits_step])}], "build": {}}]),
        ("glob-error+missing-target", late,
         [{"edits": [{"op": "script", "path": "plan.py", "actions": plan2([])}],
           "build": {"targets": ("late1.txt", "nowhere.txt")}}]),
    ]


def gen_e3_case(rng, k):
    """A generated project and a one-edit history for the exit-status oracle: failing commands, missing inputs,
    a resource requirement above what is available, keep-going or not (a failure without it drains the
    scheduler), and in the judged (second) build: a fixed or newly broken command, valid / unproduced / invalid
    targets."""
    from . import e3
    n = rng.randint(2, 5)
    actions = [_PF, {"op": "static", "paths": ["a.txt", "b.txt"]}]
    commands, outs, labels = {}, [], []
    for j in range(n):
        pool = ["a.txt", "b.txt"] + outs
        inp = sorted(set(rng.sample(pool, k=rng.choice([1, 1, 2]))))
        if rng.random() < 0.15:
            inp.append(f"nothere{j}.txt")
        step = {"op": "step", "label": f"s{j}", "inp": inp, "out": [f"o{j}.txt"]}
        if rng.random() < 0.15:
            step["resources"] = {"tok": 2}
        if rng.random() < 0.15:
            step["optional"] = True
        actions.append(step)
        labels.append(f"s{j}")
        outs.append(f"o{j}.txt")
        if rng.random() < 0.22:
            commands[f"s{j}"] = [{"op": "exit", "rc": 1}]
    project = e3.Project(sources={"a.txt": "x\n", "b.txt": "y\n"},
                         program={"scripts": {"plan.py": actions}, "commands": commands})
    kw = {"keep_going": rng.random() < 0.5, "njob": rng.choice([1, 2]), "resources": "tok:1"}
    edits = []
    r = rng.random()
    if r < 0.3 and commands:
        edits.append({"op": "command", "label": rng.choice(sorted(commands)), "actions": None})
    elif r < 0.5:
        edits.append({"op": "command", "label": rng.choice(labels), "actions": [{"op": "exit", "rc": 1}]})
    elif r < 0.65:
        edits.append({"op": "write", "path": "a.txt", "content": "changed\n"})
    targets = rng.choice([(), (), (rng.choice(outs),), ("nowhere.txt",), (rng.choice(outs), "nowhere.txt"), ("a.txt",)])
    build = dict(kw, keep_going=rng.random() < 0.5)
    if targets:
        build["targets"] = targets
    return f"gen-{k}", project, [{"edits": edits, "build": build}], kw


def e3_watch_scenarios(ctx):
    """Watch mode: the exit status of the director is the one of the LAST phase (C19_exit_status_is_last_phase)."""
    from . import e3
    plan = [_PF, {"op": "static", "paths": ["a.txt"]}, {"op": "step", "label": "mk", "inp": ["a.txt"], "out": ["b.txt"]}]
    fail = [{"op": "exit", "rc": 1}]
    for name, first_cmds, second_cmds in (("watch:fail-then-fix", {"mk": fail}, {}), ("watch:ok-then-break", {}, {"mk": fail})):
        try:
            project = e3.Project(sources={"a.txt": "x\n"}, program={"scripts": {"plan.py": plan}, "commands": dict(first_cmds)})
            with tempfile.TemporaryDirectory(prefix="c19-e3w-") as root:
                project.materialise(root)
                ws = e3.WatchSession(root, project.program)
                with ws:
                    r0 = ws.first()
                    prog = {"scripts": project.program["scripts"], "commands": dict(second_cmds)}
                    ws.program = prog
                    ws.write("a.txt", "changed\n")
                    ws.sync()
                    r1 = ws.rebuild()
                final = ws.returncode
        except Exception as e:  # noqa: BLE001
            ctx.add_failure("oracle", "e3-crash", f"e3:crash:{name}", f"watch scenario {name} raised {type(e).__name__}: {e}")
            continue
        ctx.count(f"e3:{name}:phases={r0.returncode},{r1.returncode}:exit={final}")
        ctx.case(("e3", name, r0.returncode, r1.returncode, final), True)
        wit = {"scenario": name, "phase_codes": [r0.returncode, r1.returncode], "exit": final}
        if final != r1.returncode:
            ctx.add_failure("oracle", "e3", "e3:watch:exit-status-is-not-the-last-phase",
                            f"{name}: phases returned {r0.returncode}, {r1.returncode}; the director exited with {final}",
                            witness=wit)
        broken_first = bool(first_cmds)
        if bool(r0.returncode & 4) != broken_first or bool(r1.returncode & 4) != (not broken_first):
            ctx.add_failure("oracle", "e3", "e3:watch:FAILED-bit-of-a-phase",
                            f"{name}: phase codes {r0.returncode}, {r1.returncode}", witness=wit)
        if broken_first and final != 0:
            ctx.add_failure("oracle", "e3", "e3:watch:bits-of-an-earlier-phase-kept",
                            f"{name}: the failing step was fixed and the last phase succeeded, exit status {final}", witness=wit)


def e3_stop_scenarios(ctx):
    """The stop routes through the REAL director (watch session, in-process): after a first clean phase every
    step is made pending again by an edit, a new phase is started and immediately `drain()` (RPC), `shutdown()`
    (the q key) or `interrupt(SIGINT)` (terminal signal) is called.  The exit status of serve() is judged
    against the states stored when it returned: DRAINED iff the scheduler was draining, no PENDING bit while
    draining, FAILED iff an attached step is FAILED, never zero with a pending required step."""
    import signal
    from . import e3
    plan = [_PF, {"op": "static", "paths": ["a.txt"]}] + [
        {"op": "step", "label": f"s{j}", "inp": ["a.txt"], "out": [f"o{j}.txt"]} for j in range(3)]
    checks, names, wits = [], [], {}
    for kind in ("drain", "shutdown", "interrupt", "shutdown-idle", "shutdown-preempted"):
        name = f"stop:{kind}"
        try:
            project = e3.Project(sources={"a.txt": "x\n"}, program={"scripts": {"plan.py": plan}, "commands": {}})
            with tempfile.TemporaryDirectory(prefix="c19-e3s-") as root:
                project.materialise(root)
                ws = e3.WatchSession(root, project.program)
                with ws:
                    r0 = ws.first()
                    ws.write("a.txt", "changed\n")
                    ws.sync()
                    handler = ws.handler

                    async def go(kind=kind, handler=handler, ws=ws):
                        if kind != "shutdown-idle":
                            await handler.start_build_phase()
                        if kind not in ("shutdown-idle", "shutdown-preempted"):
                            # let Builder.run_once take the resume event: the phase has begun and will be
                            # finalized, whatever the stop route does to the steps that have not started
                            for _ in range(10000):
                                if not handler.builder.resume.is_set():
                                    break
                                await asyncio.sleep(0)
                        if kind == "drain":
                            await handler.drain()
                            await handler.wait_for_idle()
                            await handler.wait_and_shutdown()
                        elif kind in ("shutdown", "shutdown-idle", "shutdown-preempted"):
                            await handler.shutdown()
                        else:
                            handler.interrupt(signal.SIGINT)
                        sres = await asyncio.wait_for(ws._serve_task, 60)
                        async with e3._harness_txn(ws._ctx, handler.db):
                            pr = _e3_probe(handler, handler.db)
                        return int(sres.returncode.value), pr
                    rc, pr = ws._run(go(), name)
        except Exception as e:  # noqa: BLE001
            ctx.add_failure("oracle", "e3-crash", f"e3:crash:{name}", f"stop scenario {name} raised {type(e).__name__}: {e}")
            continue
        nfailed = sum(1 for st, need, det in pr["steps"] if st == 24 and not det)
        npend = sum(1 for st, need, det in pr["steps"] if st == 21 and need > pr["threshold"] and not det)
        ctx.count(f"e3:{name}:first={r0.returncode}:exit={rc}:pending={npend}:draining={pr['draining']}")
        ctx.case(("e3", name, rc, npend), True)
        wit = {"scenario": name, "exit": rc, "probe": pr}
        wits[name] = wit
        if kind in ("shutdown-idle", "shutdown-preempted"):
            # No phase was finalized after the clean first one (the director was watching, or the requested
            # phase was pre-empted before Builder.run_once took the resume event): the exit status is the one of
            # the last finalized phase (C19_exit_status_is_last_phase), by design of watch mode.
            if rc != r0.returncode:
                ctx.add_failure("oracle", "e3", f"e3:stop:{kind}:exit-status-is-not-the-last-finalized-phase",
                                f"first phase returned {r0.returncode}, no later phase was finalized, exit status {rc}", witness=wit)
            continue
        if bool(rc & 32) != bool(pr["draining"]):
            ctx.add_failure("oracle", "e3", f"e3:stop:{kind}:DRAINED-bit", f"exit status {rc}, probe {pr}", witness=wit)
        if bool(rc & 16) != ((not pr["draining"]) and npend > 0):
            ctx.add_failure("oracle", "e3", f"e3:stop:{kind}:PENDING-bit", f"exit status {rc}, probe {pr}", witness=wit)
        if bool(rc & 4) != (nfailed > 0):
            ctx.add_failure("oracle", "e3", f"e3:stop:{kind}:FAILED-bit", f"exit status {rc}, probe {pr}", witness=wit)
        if rc == 0 and (npend or nfailed):
            ctx.add_failure("oracle", "e3", f"e3:stop:{kind}:zero-with-unbuilt-steps", f"probe {pr}", witness=wit)
        if rc & 3:
            ctx.add_failure("oracle", "e3", f"e3:stop:{kind}:foreign-bit", f"exit status {rc}", witness=wit)
        checks.append(f"(serve_rc false (mk_ru {nfailed} {coq_bool(pr['draining'])} {npend} {pr['miss_t']} "
                      f"{pr['miss_d']} {pr['glob_warn']} {pr['glob_err']}) =? {rc})")
        names.append(name)
    bad = common.run_cases(ctx, "e3stop", HEADER, checks) if checks else []
    ctx.traces_validated += len(checks) - len(bad)
    for i in bad:
        ctx.add_failure("correspondence", "e3:" + names[i], "E3:model-vs-serve:returncode:stop-route",
                        f"model exit status differs from serve() in {names[i]}: {checks[i]}", witness=wits[names[i]])


def try_e3(ctx, ngen=None):
    """Real serve() on fixed and generated projects: exit status versus the model and versus the property."""
    try:
        from . import e3
    except Exception as e:  # noqa: BLE001
        ctx.notes.append(f"E3 part skipped: harness/e3.py cannot be imported ({type(e).__name__}: {e})")
        return
    header = HEADER
    checks, names, judged = [], [], []
    cases = [(n_, p_, h_, {}) for n_, p_, h_ in e3_projects()]
    ngen = ctx.scale(24, 250) if ngen is None else ngen
    cases += [gen_e3_case(ctx.rng, k) for k in range(ngen)]
    witnesses = {}
    for name, project, history, kw in cases:
        witnesses[name] = {"project": name, "e3_project": project.to_json(), "history": history, "build0": kw}
        try:
            hist = [dict(h, build=dict(h["build"], probe=_e3_probe)) for h in history]
            if hist:
                res = e3.run_history(project, hist, **kw)[-1]
            else:
                res = e3.from_scratch(project, probe=_e3_probe, **kw)
        except Exception as e:  # noqa: BLE001
            ctx.add_failure("oracle", "e3-crash", f"e3:crash:{name}", f"E3 build {name} raised {type(e).__name__}: {e}")
            continue
        rc = res.returncode
        errors = [d for t, d, _ in res.events if t == "ERROR"]
        invalid = any(d.startswith("Invalid build target") for d in errors)
        ctx.count(f"e3:{name}:rc={rc}")
        ctx.case(("e3", name, rc), True)
        pr = res.probe
        if rc < 0 or (pr is None and not invalid):
            ctx.add_failure("oracle", "e3-error", f"e3:serve-raised:{name}",
                            f"serve() raised in {name}: {getattr(res, 'error', None)}", witness={"project": name})
            continue
        if invalid:
            checks.append(f"(serve_rc true (mk_ru 0 false 0 0 0 0 0) =? {rc})")
            names.append(name)
            if not rc & 4:
                ctx.add_failure("oracle", "e3", "e3:invalid-target-without-FAILED-bit",
                                f"invalid target, serve() returned {rc}", witness=dict(witnesses[name], rc=rc))
            continue
        nfailed = sum(1 for st, need, det in pr["steps"] if st == 24 and not det)
        npend = sum(1 for st, need, det in pr["steps"] if st == 21 and need > pr["threshold"] and not det)
        checks.append(f"(serve_rc false (mk_ru {nfailed} {coq_bool(pr['draining'])} {npend} {pr['miss_t']} "
                      f"{pr['miss_d']} {pr['glob_warn']} {pr['glob_err']}) =? {rc})")
        names.append(name)
        judged.append((name, rc, nfailed, npend, pr))
    bad = common.run_cases(ctx, "e3", header, checks) if checks else []
    ctx.traces_validated += len(checks) - len(bad)
    for i in bad:
        ctx.add_failure("correspondence", "e3:" + names[i], "E3:model-vs-serve:returncode",
                        f"model exit status differs from serve() in {names[i]}: {checks[i]}",
                        witness=dict(witnesses[names[i]], check=checks[i]))
    for name, rc, nfailed, npend, pr in judged:
        failed_bit, pending_bit = bool(rc & 4), bool(rc & 16)
        if pending_bit != ((not pr["draining"]) and npend > 0):
            ctx.add_failure("oracle", "e3", "e3:PENDING-bit", f"{name}: rc={rc} probe={pr}", witness=dict(witnesses[name], rc=rc))
        if failed_bit != (nfailed > 0 or pr["glob_err"] > 0):
            if not failed_bit and nfailed == 0 and pr["glob_err"] > 0 and rc != 0:
                sig = ("report_unbuilt:glob-error-skipped:draining" if pr["draining"]
                       else "report_unbuilt:glob-error-skipped:returncode-already-nonzero")
                ctx.add_failure("oracle", "e3", sig,
                                f"serve() on project {name}: a recorded glob match is a file a step builds, "
                                f"exit status {rc} has no FAILED bit", witness=dict(witnesses[name], rc=rc, probe=pr))
            else:
                ctx.add_failure("oracle", "e3", "e3:FAILED-bit:" + ("set-without-failed-step" if failed_bit else "clear-with-failed-step"),
                                f"{name}: rc={rc} probe={pr}", witness=dict(witnesses[name], rc=rc))
        if bool(rc & 32) != bool(pr["draining"]):
            ctx.add_failure("oracle", "e3", "e3:DRAINED-bit", f"{name}: rc={rc} probe={pr}", witness=dict(witnesses[name], rc=rc))
        if rc == 0 and (nfailed or npend or pr["glob_err"] or pr["glob_warn"] or pr["miss_t"] or pr["miss_d"]
                        or any(st != 23 for st, need, det in pr["steps"] if need > pr["threshold"] and not det)):
            ctx.add_failure("oracle", "e3", "e3:zero-but-something-wrong", f"{name}: probe={pr}", witness=dict(witnesses[name], rc=rc))
    e3_watch_scenarios(ctx)
    e3_stop_scenarios(ctx)
    ctx.notes.append(f"E3 part: {len(checks)} serve() builds compared with the model, 2 watch sessions")


def search(ctx):
    rng = ctx.rng
    plans = [gen_plan(rng, rng.choice([6, 9, 12, 16])) for _ in range(1500)]
    with scratch_cwd():
        results = run(_run_plans(ctx, plans))
    seen = set()
    for plan, obs in results:
        if obs["error"]:
            ctx.add_failure("oracle", "analyze_pending-raises", "analyze_pending:raises:search",
                            obs["error"], witness={"plan": plan})
            break
        for sig, detail in oracle_case(ctx, plan, obs):
            if sig not in seen:
                seen.add(sig)
                ctx.add_failure("oracle", sig.split(":")[0], sig, detail, witness={"plan": plan, "rc": obs["rc_name"]})


def replay(ctx, obj):
    w = obj["failure"].get("witness") or {}
    plan = w.get("plan")
    if "state" in w and not plan:
        refused, listed = probe_file_block(w["state"], w["detached"], w["dynamic"], w["deferred"])
        print(f"replayed clause probe {w}: dispatch refuses={refused}, _INSERT_PEND_FILE_BLOCK lists={listed}")
        return oracle_clauses(ctx)
    if not plan:
        print("no plan in the replay file; running the oracle")
        return oracle(ctx)
    plan["ops"] = [tuple(op) for op in plan["ops"]]
    with scratch_cwd():
        res = run(_run_plans(ctx, [plan]))
    for plan, obs in res:
        print("replayed: rc =", obs["rc_name"], "reports =", obs["reports"])
        if obs["error"]:
            ctx.add_failure("oracle", "analyze_pending-raises", f"analyze_pending:raises:{obs['error'].split(':')[0]}",
                            f"the real end-of-build analysis raised {obs['error']}", witness={"plan": plan})
        for sig, detail in oracle_case(ctx, plan, obs):
            ctx.add_failure("oracle", sig.split(":")[0], sig, detail, witness={"plan": plan, "rc": obs["rc_name"]})
