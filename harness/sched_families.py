"""Scripted plan families for the build histories of C10 / C11 (harness/sched_common.py runs them).

The random plans of `gen_plan` rarely produce the following shapes, each of which exercises a clause of
the scheduling definitions that nothing else reaches.  A family member is an ordinary `Plan` whose
programs and inter-phase edits are scripted (``plan.scripted``); the simulator still interleaves the
scheduler ticks and the actions of the running jobs at random, so one member gives different histories
for different seeds.  Every member is driven through the REAL Workflow + Scheduler and judged by the same
oracles and correspondences as the random histories (nothing here knows what a wrong implementation
would do).

``dir-adjacent``     outputs whose labels are neighbours of a target directory in byte order (``out0`` =
                     the exclusive upper bound of ``out/``, ``out-x``, ``out.x``, ``out/x``, ``Out/x``,
                     ``out/sub/y``), DEFAULT and OPTIONAL producers, a fresh build with directory targets
                     and replanned resumes with other targets.
``res-detached``     a step that holds named resources is detached while its command runs (its creator
                     fails, or is deferred and reruns), and a sibling that needs the same resource becomes
                     ready: the units of a RUNNING step are in use whether or not it is attached.
``deep-chain``       three or more levels of step creation; an OPTIONAL producer (created elsewhere) whose
                     only consumer sits at the bottom; a step in the middle of the chain is dropped by the
                     rerun of its creator.
``detached-dyn-input`` a step amends an output whose producer is being re-created by a rerunning planner:
                     the input is BUILT but detached when the step asks to be deferred, and comes back by a
                     full recycle (no state change, nothing wakes a parked step).
"""
from __future__ import annotations

import copy
import random

from .sched_common import BOOT_LABEL, DEFAULT, OPTIONAL, PLAN, Plan, Sim, with_before

FAMILIES = ("dir-adjacent", "res-detached", "deep-chain", "detached-dyn-input")


def _prog(plan: Plan, label: str, versions, planner=False, **kw) -> dict:
    prog = {
        "label": label, "planner": planner, "actions": copy.deepcopy(versions[0]), "p_fail": 0.0,
        "always_defer": False, "leak_hold": False, "runs": 0, "successes": 0,
        "versions": [list(v) for v in versions], "version": 0,
    }
    prog.update(kw)
    plan.programs[label] = prog
    if label not in plan.order:
        plan.nstep += 1
        plan.order[label] = plan.nstep
    return prog


def _define(label, inp=(), out=(), vol=(), need=DEFAULT, resources=None, duration=None) -> list:
    return ["define", {"label": label, "inp": sorted(inp), "out": sorted(out), "vol": sorted(vol), "need": need,
                       "resources": dict(resources) if resources else None, "duration": duration}]


def _waits(n: int) -> list:
    return [["wait"] for _ in range(n)]


def _new_plan(rng: random.Random) -> Plan:
    plan = Plan(rng)
    plan.scripted = True
    plan.order[BOOT_LABEL] = 0
    return plan


# ---------------------------------------------------------------------------------------------
# dir-adjacent
# ---------------------------------------------------------------------------------------------


def dir_adjacent(rng: random.Random):
    plan = _new_plan(rng)
    d = rng.choice(["out", "a", "b"])
    pool = [f"{d}0", f"{d}-x", f"{d}.x", f"{d}/x", f"{d.capitalize()}/x", f"{d}/sub/y", f"{d}/0", f"{d}00",
            f"{d}/~", f"{d}1"]
    rng.shuffle(pool)
    labels = sorted(set([f"{d}0", f"{d}/x"] + pool[:rng.randint(3, 6)]))
    statics = ["src/s1.txt", "src/s2.txt"]
    plan.statics.extend(statics)
    v0 = [["static", list(statics)]]
    consumers = []
    for n, path in enumerate(labels):
        need = OPTIONAL if rng.random() < (0.1 if path == f"{d}0" else 0.3) else DEFAULT
        step = f"mk{n}"
        _prog(plan, step, [[]])
        v0.append(_define(step, [rng.choice(statics)], [path], need=need))
        plan.outputs[path] = {"label": step, "need": need, "ord": n}
        if rng.random() < 0.35:
            cons = f"use{n}"
            _prog(plan, cons, [[]])
            consumers.append(_define(cons, [path], [f"res/u{n}.txt"], need=DEFAULT if rng.random() < 0.7 else OPTIONAL))
    v0.extend(consumers)
    extra = _define("late", [statics[0]], [f"{d}0.late" if rng.random() < 0.5 else f"{d}/late"], need=DEFAULT)
    _prog(plan, "late", [[]])
    _prog(plan, BOOT_LABEL, [v0, [*v0, extra]], planner=True, statics=list(statics))
    others = [x for x in ("out/", "a/", "b/") if x != d + "/"]
    tsets = [
        {"targets": [], "dirs": [d + "/"]},
        {"targets": [rng.choice(labels)], "dirs": []},
        {"targets": [], "dirs": [d + "/", rng.choice(others)]},
        {"targets": [], "dirs": []},
        {"targets": [f"{d}0"], "dirs": [rng.choice(others)]},
    ]
    first = tsets[0] if rng.random() < 0.7 else rng.choice(tsets)
    plan.phases = []
    replanned = False
    later = [rng.choice(tsets) for _ in range(rng.randint(2, 3))]
    if first is not tsets[0] and tsets[0] not in later:
        later[rng.randrange(len(later))] = tsets[0]      # the directory itself is a target in some phase
    for ts in later:
        ph = dict(ts, restart=True)
        if not replanned and rng.random() < 0.6:
            replanned = True
            ph.update(edits=[("plan.py", True)], edited=[BOOT_LABEL], versions={BOOT_LABEL: 1})
        elif rng.random() < 0.6:
            ph.update(edits=[(rng.choice(statics), True)])
        plan.phases.append(ph)
    config = {"targets": first["targets"], "target_dirs": first["dirs"], "resources": None, "njob": rng.randint(1, 3),
              "defer_cap": 2, "keep_going": True}
    return plan, config


# ---------------------------------------------------------------------------------------------
# res-detached
# ---------------------------------------------------------------------------------------------


def res_detached(rng: random.Random):
    plan = _new_plan(rng)
    how = rng.choice(["fail", "rerun"])
    res, units, pool = rng.choice([("r2", 1, "r1:2,r2:1"), ("r1", 2, "r1:2,r2:1"), ("r1", 1, "r1:1"), ("r2", 2, "r2:3")])
    statics = ["src/s1.txt", "src/q.txt"]
    plan.statics.extend(statics)
    _prog(plan, "slow", [_waits(rng.randint(8, 12))])
    _prog(plan, "child", [_waits(rng.randint(22, 30))])
    _prog(plan, "sib", [_waits(2)])
    child = _define("child", [], ["a/child.txt"], resources={res: units})
    if how == "fail":
        _prog(plan, "q", [[child, *_waits(rng.randint(5, 9))]], planner=True, fail_versions={0})
    else:
        # the child is dispatched while q waits; then q asks for an input that is not there yet, is deferred,
        # woken when `slow` is done, and its rerun detaches the child that is still running
        _prog(plan, "q", [[*_waits(rng.randint(2, 4)), child, *_waits(rng.randint(3, 6)),
                           ["amend", {"inp": ["a/x.txt"], "out": [], "vol": []}]]], planner=True)
    v0 = [["static", list(statics)],
          _define("slow", ["src/s1.txt"], ["a/x.txt"]),
          _define("q", ["src/q.txt"], []),
          _define("sib", ["a/x.txt"], ["a/sib.txt"], resources={res: rng.randint(1, units)})]
    if rng.random() < 0.5:
        _prog(plan, "sib2", [_waits(1)])
        v0.append(_define("sib2", ["a/x.txt", "src/s1.txt"], ["a/sib2.txt"], resources={res: units}))
    _prog(plan, BOOT_LABEL, [v0], planner=True, statics=list(statics))
    plan.phases = []
    config = {"targets": [], "target_dirs": [], "resources": pool, "njob": 4, "defer_cap": 3, "keep_going": True}
    return plan, config


# ---------------------------------------------------------------------------------------------
# deep-chain
# ---------------------------------------------------------------------------------------------


def deep_chain(rng: random.Random):
    plan = _new_plan(rng)
    depth = rng.randint(2, 4)                 # planners below the boot plan: q1 -> q2 -> ... -> consumer
    drop = rng.randint(1, depth - 1) if depth > 1 else 1    # q<drop> stops defining q<drop+1> (or the consumer)
    statics = ["src/s1.txt"] + [f"src/q{i}.txt" for i in range(1, depth + 1)]
    plan.statics.extend(statics)
    dyn = rng.random() < 0.4                  # the consumer amends the optional output instead
    chain2 = rng.random() < 0.4               # a second optional producer feeds the first
    cons_need = DEFAULT if rng.random() < 0.8 else PLAN
    _prog(plan, "opt", [[]])
    _prog(plan, "cons", [[["amend", {"inp": ["a/opt.txt"], "out": [], "vol": []}]] if dyn else []])
    cons = _define("cons", ["src/s1.txt"] if dyn else ["a/opt.txt"], ["a/cons.txt"], need=cons_need)
    below = cons
    for i in range(depth, 0, -1):
        full = [below]
        if rng.random() < 0.4:
            _prog(plan, f"side{i}", [[]])
            full.append(_define(f"side{i}", ["src/s1.txt"], [f"b/side{i}.txt"]))
            rng.shuffle(full)
        versions = [full]
        if i == drop:
            versions.append([a for a in full if a is not below])
        _prog(plan, f"q{i}", versions, planner=True)
        below = _define(f"q{i}", [f"src/q{i}.txt"], [])
    opt_defs = [_define("opt", ["a/opt0.txt"] if chain2 else ["src/s1.txt"], ["a/opt.txt"], need=OPTIONAL)]
    if chain2:
        _prog(plan, "opt0", [[]])
        opt_defs.append(_define("opt0", ["src/s1.txt"], ["a/opt0.txt"], need=OPTIONAL))
    if rng.random() < 0.5:
        # the optional producers belong to another sub-plan
        _prog(plan, "r", [opt_defs], planner=True)
        top = [_define("r", ["src/s1.txt"], [])]
    else:
        top = opt_defs
    v0 = [["static", list(statics)], *top, below]
    if rng.random() < 0.5:
        v0[1:] = reversed(v0[1:])
    _prog(plan, BOOT_LABEL, [v0], planner=True, statics=list(statics))
    plan.phases = [
        {"restart": rng.random() < 0.5, "edits": [(f"src/q{drop}.txt", True)], "edited": [f"q{drop}"],
         "versions": {f"q{drop}": 1}},
        {"restart": rng.random() < 0.5, "edits": [("src/s1.txt", True)]},
    ]
    config = {"targets": [], "target_dirs": [], "resources": None, "njob": rng.randint(1, 3), "defer_cap": 3,
              "keep_going": True}
    return plan, config


# ---------------------------------------------------------------------------------------------
# detached-dyn-input
# ---------------------------------------------------------------------------------------------


def detached_dyn_input(rng: random.Random):
    plan = _new_plan(rng)
    statics = ["src/s1.txt", "src/q.txt", "src/d.txt"]
    plan.statics.extend(statics)
    _prog(plan, "prod", [[]])
    _prog(plan, "user", [[["amend", {"inp": ["a/x.txt"], "out": [], "vol": []}]]])
    prod = _define("prod", ["src/s1.txt"], ["a/x.txt"])
    _prog(plan, "q", [[prod], [*_waits(rng.randint(4, 9)), prod]], planner=True)
    quiet = rng.random() < 0.4
    # quiet: the user's own script is not edited; it becomes PENDING because another input was rebuilt
    user_inp = ["src/d.txt"] + (["a/y.txt"] if quiet else [])
    v0 = [["static", list(statics)], _define("q", ["src/q.txt"], []),
          _define("user", user_inp, ["a/user.txt"] if rng.random() < 0.6 else [])]
    if quiet:
        statics.append("src/y.txt")
        v0[0] = ["static", list(statics)]
        _prog(plan, "mky", [[]])
        v0.append(_define("mky", ["src/y.txt"], ["a/y.txt"]))
    if rng.random() < 0.5:
        v0[1:] = reversed(v0[1:])
    _prog(plan, BOOT_LABEL, [v0], planner=True, statics=list(statics))
    plan.phases = [
        {"restart": rng.random() < 0.5, "edits": [("src/q.txt", True), ("src/y.txt" if quiet else "src/d.txt", True)],
         "edited": ["q", "mky" if quiet else "user"], "versions": {"q": 1}},
        {"restart": rng.random() < 0.5, "edits": [("src/s1.txt", True)]},
    ]
    config = {"targets": [], "target_dirs": [], "resources": None, "njob": 3, "defer_cap": rng.choice([2, 3, 5]),
              "keep_going": True}
    return plan, config


_BUILDERS = {"dir-adjacent": dir_adjacent, "res-detached": res_detached, "deep-chain": deep_chain,
             "detached-dyn-input": detached_dyn_input}


async def family_history(name: str, seed_rng: random.Random, size: int = 160) -> dict:
    """One history of one random member of the family `name`, in the format of p_c10._one_history."""
    rng = random.Random(seed_rng.getrandbits(64))
    plan, config = _BUILDERS[name](rng)
    sim = Sim(rng, targets=config["targets"], target_dirs=config["target_dirs"], resources=config["resources"],
              defer_cap=config["defer_cap"], njob=config["njob"], keep_going=config["keep_going"], plan=plan)
    try:
        await sim.start()
        n = 0
        while n < size and await sim.step_once():
            n += 1
        events = list(with_before(sim.events))
        for i, e in enumerate(events):
            if e["op"] == "reconcile" and "rejected" in e:
                events = events[:i + 1]
                break
    finally:
        sim.close()
    return {"events": events, "stats": dict(sim.stats), "prims": [], "family": name,
            "config": {"family": name, "targets": sim.targets, "target_dirs": sim.target_dirs, "njob": sim.njob,
                       "defer_cap": sim.defer_cap, "resources": config["resources"]}}
