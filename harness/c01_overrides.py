"""C01: environment overrides of step commands (leading ``VAR=value`` words, the ``env_overrides``
argument of ``api.step``) edited by the plan.

``client_step`` turns what the AUTHOR of a plan writes into the ``define_step`` arguments that the
real client sends: for ``run("VX=1 ./w.py")`` the real ``utils.extract_env_overrides`` strips the
prefix (label ``./w.py``, overrides ``{"VX": "1"}``; no prefix = ``None``), for
``step("t", env_overrides={...})`` the argument travels as it is (``None`` when omitted).

``gen_override_case``: one step that READS the overridable variables VX, VY (a plain simulated
command, or a script), in one of three layouts -- declared by plan.py next to the static
declaration of its input (every rerun of the plan re-declares the file and marks the step, so its
hash is checked), declared by a SUB-PLAN while the main plan owns the static files (nothing marks
it), or without inputs -- plus a consumer of its output.  History: 1-3 plan edits that add, change,
remove one or REMOVE ALL overrides of the otherwise identical step (full recycle), optionally a
last phase with a real reason to rerun (source or script changed) or none.  The process
environment may hold a value of the same variable, which shows through when the override goes."""
from __future__ import annotations

import random

from stepup.core.utils import extract_env_overrides

from . import c01_oracle as co
from . import e3

NAMES = ["VX", "VY"]


def client_step(action: dict, overrides: dict | None, form: str) -> dict:
    """``action`` (an E3 step / run op without overrides) as the client would send it when the author
    adds ``overrides`` in the given form ("prefix": leading words of the command; "argument")."""
    a = dict(action)
    a.pop("env_overrides", None)
    if form == "prefix":
        text = "".join(f"{k}={v} " for k, v in (overrides or {}).items()) + a["label"]
        ov, remaining = extract_env_overrides(text)
        a["label"] = remaining
        if ov is not None:
            a["env_overrides"] = ov
    elif overrides is not None:
        a["env_overrides"] = dict(overrides)
    return a


def _program(layout: str, kind: str, form: str, ovr: dict | None, script_v: int) -> dict:
    reads = [{"op": "getenv", "name": n} for n in NAMES]
    scripts, commands = {}, {}
    inp = [] if layout == "no-input" else ["s.txt"]
    if kind == "run":
        scripts["w.py"] = [{"op": "print", "text": f"v{script_v}"}] + reads + [{"op": "auto"}]
        step = client_step({"op": "run", "label": "./w.py", "inp": inp, "out": ["o.txt"]}, ovr, form)
    else:
        commands["t"] = [{"op": "print", "text": f"v{script_v}"}] + reads + [{"op": "auto"}]
        step = client_step({"op": "step", "label": "t", "inp": inp, "out": ["o.txt"]}, ovr, form)
    use = {"op": "step", "label": "use", "inp": ["o.txt"], "out": ["u.txt"]}
    statics = (["s.txt"] if inp else []) + (["w.py"] if kind == "run" else [])
    if layout == "sub-plan":
        main = [{"op": "static", "paths": statics + ["p1.py"]}, {"op": "plan", "label": "./p1.py"}, use]
        scripts["p1.py"] = [step]
    else:
        main = ([{"op": "static", "paths": statics}] if statics else []) + [step, use]
    scripts["plan.py"] = main
    return {"scripts": scripts, "commands": commands}


def gen_override_case(rng: random.Random):
    layout = rng.choice(["same-plan", "sub-plan", "sub-plan", "no-input"])
    kind = rng.choice(["step", "run"])
    form = "prefix" if kind == "run" else rng.choice(["argument", "argument", "prefix"])
    env = {n: f"global-{n.lower()}" for n in NAMES if rng.random() < 0.4}
    fresh = [0]

    def value():
        fresh[0] += 1
        return f"o{fresh[0]}"
    ovr = {n: value() for n in NAMES if rng.random() < 0.7} or {"VX": value()}
    if rng.random() < 0.15:
        ovr = None                                  # starts without overrides, gets some
    script_v = 0
    sources = {} if layout == "no-input" else {"s.txt": "s v0\n"}
    project = e3.Project(sources=dict(sources), env=dict(env), program=_program(layout, kind, form, ovr, script_v))
    history, ops = [], []
    for _ in range(rng.randint(1, 3)):
        cur = dict(ovr or {})
        cands = ["add"] if not cur else ["remove-all", "remove-all", "remove-all", "change", "remove-one", "add"]
        op = rng.choice(cands)
        if op == "add" and len(cur) == len(NAMES):
            op = "change"
        if op == "remove-one" and len(cur) < 2:
            op = "remove-all"
        if op == "remove-all":
            ovr = None
        elif op == "remove-one":
            del cur[rng.choice(sorted(cur))]
            ovr = cur
        elif op == "change":
            cur[rng.choice(sorted(cur))] = value()
            ovr = cur
        else:
            cur[rng.choice([n for n in NAMES if n not in cur])] = value()
            ovr = cur
        ops.append(op)
        history.append({"edits": [{"op": "program", "program": _program(layout, kind, form, ovr, script_v)}]})
    last = rng.choice(["none", "none", "rerun", "noop"])
    if last == "rerun":
        if sources and rng.random() < 0.5:
            history.append({"edits": [{"op": "write", "path": "s.txt", "content": "s v1\n"}]})
        else:
            script_v += 1
            history.append({"edits": [{"op": "program", "program": _program(layout, kind, form, ovr, script_v)}]})
    elif last == "noop":
        history.append({"edits": []})
    flavour = "watch" if rng.random() < 0.25 else "restart"
    desc = {"layout": layout, "kind": kind, "form": form, "ops": ops, "last": last, "global": sorted(env),
            "flavour": flavour}
    return co.case_json(project, history, flavour), desc


def guard_cases() -> dict:
    """Every layout and form with the three edits: overrides removed, changed, added."""
    out = {}
    for layout in ("same-plan", "sub-plan", "no-input"):
        for kind, form in (("step", "argument"), ("run", "prefix")):
            for name, a, b in (("removed", {"VX": "hello"}, None), ("changed", {"VX": "hello"}, {"VX": "bye"}),
                               ("added", None, {"VX": "hello"})):
                sources = {} if layout == "no-input" else {"s.txt": "s v0\n"}
                p = e3.Project(sources=sources, env={}, program=_program(layout, kind, form, a, 0))
                out[f"env-overrides:{layout}:{kind}:{name}"] = co.case_json(
                    p, [{"edits": [{"op": "program", "program": _program(layout, kind, form, b, 0)}]}])
    return out
