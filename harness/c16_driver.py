"""C16: in-process drivers of the real stepup.core.rpc classes.

Everything here runs on in-memory streams: no sockets, no timers, no threads.  All scheduling is
therefore `call_soon` driven and a run is a deterministic function of the event list.  `settle()`
waits for quiescence (nothing left in the ready queue of the loop), it never sleeps for a duration.

Event alphabet (the same as model/Rpc.v):

    ["recv", bytes]            reader.feed_data(bytes)
    ["complete", id, outcome]  release the oldest started handler invocation of call id `id`
                               outcome: "ok" | "usage" | "usage2" | "internal" | "unpicklable" | "cancel_self" |
                               "await_cancelled" | "base_exc" (the last three: a CancelledError / BaseException
                               raised by the handler itself; in the model ORaise false) | "badstr" (impl oracle only)
    ["sent"]                   let one pending writer.drain() finish (one reply leaves)
    ["sentfail"]               let one pending writer.drain() fail with ConnectionResetError
    ["peergone"]               reader.feed_eof()
    ["garbage"]                reader.set_exception(non-connection error): the receive loop fails
    ["stop"]                   connection.stop()
"""
from __future__ import annotations

import asyncio
import pickle

from stepup.core.exceptions import CyclicError, GraphError, RPCError, UsageError
from stepup.core import rpc
from stepup.core.rpc import (RemoteFailure, RPCCall, RPCServerConnection, _encode_body,
                             _encode_message, allow_rpc)

RUN_TIMEOUT = 120.0      # wall-clock guard around a whole batch; never reached on a healthy run
SETTLE_MAX = 20000


async def settle():
    """Run the event loop until no callback is ready (all tasks blocked on a gate / stream)."""
    loop = asyncio.get_running_loop()
    ready = getattr(loop, "_ready", None)
    if ready is None:  # unknown loop implementation: a generous fixed number of turns
        for _ in range(400):
            await asyncio.sleep(0)
        return True
    quiet = 0
    for _ in range(SETTLE_MAX):
        await asyncio.sleep(0)
        # after our own wake-up was consumed, an empty ready queue means nothing else can run
        if len(ready) == 0:
            quiet += 1
            if quiet >= 2:
                return True
        else:
            quiet = 0
    return False


class Unpicklable:
    def __reduce__(self):
        raise TypeError("cannot pickle this")


class OddBaseException(BaseException):
    """Neither an Exception nor one of the BaseExceptions that asyncio lets through a task."""


class BadStrError(Exception):
    """An exception that cannot be rendered: str(exc) raises."""

    def __str__(self):
        raise ValueError("this exception has no str()")


class Handler:
    """RPC handler whose exposed coroutine blocks on a gate that the driver releases."""

    def __init__(self):
        self.started = []      # [(tag, future)] in start order
        self.invoked = []      # procedure names actually invoked
        self.finished = []     # tags whose handler ran to its end (returned or raised)
        self.cancelled = []    # tags whose handler saw a CancelledError

    @allow_rpc
    async def work(self, tag):
        self.invoked.append("work")
        fut = asyncio.get_running_loop().create_future()
        self.started.append((tag, fut))
        try:
            outcome = await fut
        except asyncio.CancelledError:
            self.cancelled.append(tag)
            raise
        self.finished.append(tag)
        if outcome == "await_cancelled":
            # what amend_step sees when the hash job it awaits was cancelled by somebody else: a CancelledError
            # that is not a cancellation of this task, while the connection stays up
            fut = asyncio.get_running_loop().create_future()
            fut.cancel()
            await fut
        return _produce(outcome, tag)

    @allow_rpc
    def quick(self, tag, outcome="ok"):
        self.invoked.append("quick")
        self.finished.append(tag)
        return _produce(outcome, tag)

    def hidden(self, tag):
        self.invoked.append("hidden")
        return ("hidden", tag)

    async def hidden_async(self, tag):
        self.invoked.append("hidden_async")
        return ("hidden", tag)

    not_callable = 5

    def release(self, tag, outcome):
        for i, (t, fut) in enumerate(self.started):
            if t == tag and not fut.done():
                fut.set_result(outcome)
                del self.started[i]
                return True
        return False

    def in_flight(self):
        return [t for t, fut in self.started if not fut.done()]


def _produce(outcome, tag):
    if outcome == "ok":
        return ("ok", tag)
    if outcome == "usage":
        raise CyclicError(f"cyclic {tag}")
    if outcome == "usage2":
        raise GraphError(f"graph {tag}")
    if outcome == "internal":
        raise RuntimeError(f"bug {tag}")
    if outcome == "unpicklable":
        return Unpicklable()
    if outcome == "cancel_self":
        raise asyncio.CancelledError()
    if outcome == "base_exc":
        raise OddBaseException(f"odd {tag}")
    if outcome == "badstr":
        raise BadStrError()
    raise AssertionError(outcome)


class GatedWriter:
    """Writer stub: write() puts bytes on the wire, drain() returns when the driver allows it.

    `written` is everything handed to write() (what a peer will read, in order).  While `gated`,
    a drain() that follows a write() blocks until `permit()`; a drain that is cancelled (the
    send loop being torn down) leaves nothing to wait for.  With `gated=False` drain never blocks.
    """

    def __init__(self, gated=True):
        self.gated = gated
        self.written = b""
        self.dirty = False
        self.waiter = None
        self.closed = False
        self.drains = 0

    def write(self, data):
        self.written += data
        self.dirty = True

    async def drain(self):
        if not self.dirty:
            return
        self.dirty = False
        if self.gated:
            self.waiter = asyncio.get_running_loop().create_future()
            try:
                ok = await self.waiter
            finally:
                self.waiter = None
            if not ok:
                raise ConnectionResetError("peer gone (injected)")
        self.drains += 1

    def draining(self):
        return self.waiter is not None and not self.waiter.done()

    def permit(self, ok=True):
        if self.draining():
            self.waiter.set_result(ok)
            return True
        return False

    def open(self):
        self.gated = False
        self.permit(True)

    def close(self):
        self.closed = True

    async def wait_closed(self):
        return None


def split_messages(data: bytes):
    """Parse a byte string written by the implementation into [(id, body|None)] + leftover."""
    out = []
    pos = 0
    while len(data) - pos >= 16:
        cid = int.from_bytes(data[pos:pos + 8], "big")
        size = int.from_bytes(data[pos + 8:pos + 16], "big")
        if len(data) - pos - 16 < size:
            break
        body = None if size == 0 else data[pos + 16:pos + 16 + size]
        out.append((cid, body))
        pos += 16 + size
    return out, data[pos:]


def reply_kind(body):
    """Classify a reply body the way a client would: ok / usage:<Class> / generic / sentinel."""
    if body is None:
        return "sentinel"
    obj = pickle.loads(body)
    if isinstance(obj, RemoteFailure):
        return "usage" if obj.usage else "generic"
    return "ok"


class ServerRun:
    """One real RPCServerConnection on an in-memory reader and a gated writer."""

    def __init__(self, handler=None, gated=True):
        self.handler = handler or Handler()
        self.reader = asyncio.StreamReader()
        self.writer = GatedWriter(gated)
        self.conn = RPCServerConnection(self.handler, self.reader, self.writer)
        self.task = None

    async def start(self):
        self.task = asyncio.create_task(self.conn.serve(), name="c16-serve")
        return await settle()

    async def apply(self, ev, stream=b""):
        kind = ev[0]
        if kind == "recv":
            data = bytes(ev[1]) if len(ev) == 2 else stream[ev[1]:ev[1] + ev[2]]
            if not self.reader.at_eof() and not self.reader._eof:
                self.reader.feed_data(data)
        elif kind == "complete":
            self.handler.release(ev[1], ev[2])
        elif kind == "sent":
            self.writer.permit(True)
        elif kind == "sentfail":
            self.writer.permit(False)
        elif kind == "peergone":
            if not self.reader._eof:
                self.reader.feed_eof()
        elif kind == "garbage":
            self.reader.set_exception(OSError(5, "injected non-connection error"))
        elif kind == "stop":
            self.conn.stop()
        else:
            raise AssertionError(ev)
        return await settle()

    def observe(self):
        sent, left = split_messages(self.writer.written)
        queued = [(cid, t) for cid, t in list(self.conn._completed._queue)]
        status = "up"
        if self.task.done():
            if self.task.cancelled():
                status = "cancelled"
            elif self.task.exception() is None:
                status = "closed"
            else:
                exc = self.task.exception()
                names = sorted(type(e).__name__ for e in getattr(exc, "exceptions", [exc]))
                status = "failed:" + ",".join(names)
        return {
            "sent": [(cid, reply_kind(b)) for cid, b in sent],
            "draining": self.writer.draining(),
            "queued_ids": [cid for cid, _ in queued],
            "in_flight": self.handler.in_flight(),
            "invoked": list(self.handler.invoked),
            "cancelled": sorted(self.handler.cancelled),
            "finished": list(self.handler.finished),
            "stop": self.conn._stop_event.is_set(),
            "status": status,
            "writer_closed": self.writer.closed,
            "leftover": len(left),
        }

    async def teardown(self):
        """Open every gate, end the stream and wait for serve() to end. True iff it ended."""
        self.writer.open()
        for tag, fut in list(self.handler.started):
            if not fut.done():
                fut.set_result("ok")
        self.handler.started.clear()
        try:
            self.reader.feed_eof()
        except Exception:  # noqa: BLE001
            pass
        await settle()
        if not self.task.done():
            self.conn.stop()
            await settle()
        done = self.task.done()
        if not done:
            self.task.cancel()
            await settle()
        else:
            if not self.task.cancelled():
                self.task.exception()  # retrieve
        return done


def request(call_id, name, *args, **kwargs):
    return _encode_message(call_id, _encode_body(RPCCall(name, args, kwargs)))


async def run_server_events(events, gated=True, stream=b""):
    """Run one event list; returns the list of observations (after start and after each event)."""
    run = ServerRun(gated=gated)
    ok = await run.start()
    obs = [run.observe()]
    for ev in events:
        ok = await run.apply(ev, stream) and ok
        obs.append(run.observe())
    ended = await run.teardown()
    return obs, ended and ok


def run(coro, timeout=RUN_TIMEOUT):
    async def guarded():
        return await asyncio.wait_for(coro, timeout)
    return asyncio.run(guarded())


# ---------------------------------------------------------------------------------------------
# The asynchronous client on in-memory streams
# ---------------------------------------------------------------------------------------------

class ClientRun:
    """A real SocketAsyncRPCClient whose connection is an in-memory reader and a writer stub."""

    def __init__(self):
        from stepup.core.rpc import SocketAsyncRPCClient
        loop = asyncio.get_running_loop()
        self.client = SocketAsyncRPCClient("/nonexistent/c16-socket")
        self.reader = asyncio.StreamReader()
        self.writer = GatedWriter(gated=False)
        self.client._reader = self.reader
        self.client._writer = self.writer
        connected = loop.create_future()
        connected.set_result(None)
        self.client._connect_task = connected
        self.client._recv_task = asyncio.create_task(self.client._recv_loop(), name="c16-client-recv")
        self.calls = {}        # call id -> task
        self.order = []        # (call id, outcome) in the order the callers were resumed
        self.late = []         # outcomes of calls made after the receive loop ended
        self.close_result = None

    async def _caller(self, name, arg):
        return await self.client(name, arg)

    def _finished(self, cid, task):
        if task.cancelled():
            return
        exc = task.exception()
        if exc is None:
            self.order.append((cid, ("value", task.result())))
        else:
            self.order.append((cid, ("exc", type(exc).__name__, str(exc))))

    async def apply(self, ev):
        kind = ev[0]
        if kind == "call":
            before = self.client._counter
            task = asyncio.create_task(self._caller("work", before + 1))
            await settle()
            if self.client._counter == before + 1:
                cid = before + 1
                self.calls[cid] = task
                if task.done():
                    self._finished(cid, task)
                else:
                    task.add_done_callback(lambda t, cid=cid: self._finished(cid, t))
            else:
                exc = task.exception() if task.done() and not task.cancelled() else None
                self.late.append(type(exc).__name__ if exc is not None else "no-exception")
        elif kind == "cancel":
            t = self.calls.get(ev[1])
            if t is not None and not t.done():
                t.cancel()
        elif kind == "recv":
            if not self.reader._eof:
                self.reader.feed_data(bytes(ev[1]))
        elif kind == "peergone":
            if not self.reader._eof:
                self.reader.feed_eof()
        elif kind == "close":
            try:
                await asyncio.wait_for(self.client.close(), 60)
                self.close_result = "ok"
            except Exception as e:  # noqa: BLE001
                self.close_result = type(e).__name__
        else:
            raise AssertionError(ev)
        return await settle()

    def observe(self):
        rt = self.client._recv_task
        alive = not rt.done()
        failed = rt.done() and not rt.cancelled() and rt.exception() is not None
        return {
            "alive": alive, "failed": failed, "counter": self.client._counter,
            "pending": [(cid, not p.future.cancelled()) for cid, p in self.client._pending.items()],
            "done": list(self.order), "late": list(self.late),
            "sent": [cid for cid, _ in split_messages(self.writer.written)[0]],
        }

    async def teardown(self):
        for t in self.calls.values():
            if not t.done():
                t.cancel()
        rt = self.client._recv_task
        if not rt.done():
            rt.cancel()
        await settle()
        if rt.done() and not rt.cancelled():
            rt.exception()
        for t in self.calls.values():
            if t.done() and not t.cancelled():
                t.exception()


async def run_client_events(events):
    run_ = ClientRun()
    ok = await settle()
    obs = [run_.observe()]
    for ev in events:
        ok = await run_.apply(ev) and ok
        obs.append(run_.observe())
    await run_.teardown()
    return obs, ok, run_.close_result


class FragmentSocket:
    """Socket stub whose recv() returns the prepared fragments, then b'' (peer gone)."""

    def __init__(self, frags):
        self.frags = list(frags)

    def recv(self, size):
        if not self.frags:
            return b""
        f = self.frags.pop(0)
        assert len(f) <= size
        return f


def run_sync_recv(frags, expected_ids):
    """Call the real SocketSyncRPCClient._recv_response for each expected id, on one reader."""
    from stepup.core.rpc import SocketSyncRPCClient, _SocketReader
    client = SocketSyncRPCClient("/nonexistent/c16-socket")
    sock = FragmentSocket(frags)
    client._socket = sock
    client._reader = _SocketReader(sock, client.socket_path)
    out = []
    for e in expected_ids:
        try:
            body = client._recv_response(e)
            out.append(("ok", body))
        except ConnectionResetError:
            out.append(("reset",))
            break
        except RPCError as exc:
            msg = str(exc)
            if "exceeds the maximum" in msg:
                out.append(("badframe",))
                break
            m = __import__("re").search(r"response for call id (\d+) while", msg)
            out.append(("mismatch", int(m.group(1))))
    return out
