"""Shared harness code of C06 and C07: graph generation through the real Workflow API, dumps,
Gallina printers, temporary trees, and drivers of the real cleanup code."""
from __future__ import annotations

import argparse
import asyncio
import contextlib
import os
import stat
import tempfile

from path import Path

from . import common
from .common import coq_bool, coq_list, coq_option, coq_str
from .wfutil import WF, fake_hash

KIND = {"root": 0, "file": 1, "step": 2, "st": 3}

HEADER = ("From Coq Require Import List NArith Bool.\nImport ListNotations.\n"
          "From SV Require Import lib.Bytes gen.GenClean model.TrellisDD model.Clean.\n"
          "Open Scope N_scope.\n")


# ---------------------------------------------------------------------------------------------
# Gallina printers
# ---------------------------------------------------------------------------------------------


def coq_key(k):
    return f"({k[0]}, {coq_str(k[1])})"


def coq_node(n):
    return ("(mkNode {key} {cr} {det} {fs} {fh} {sh} {need} {ss})".format(
        key=coq_key(n["key"]), cr=coq_option(n["creator"], coq_key), det=coq_bool(n["det"]),
        fs=n["fstate"], fh=coq_option(n["fhash"], str), sh=coq_bool(n["shash"]),
        need=n["need"], ss=n["sstate"]))


def coq_graph(g):
    return ("(mkGraph " + coq_list([coq_node(n) for n in g["nodes"]]) + " "
            + coq_list([f"({coq_key(a)}, {coq_key(b)})" for a, b in g["deps"]]) + ")")


def coq_qfiles(files):
    return coq_list([f"({coq_str(p)}, {coq_option(h, str)})" for p, h in sorted(files.items())])


def coq_strs(xs):
    return coq_list([coq_str(x) for x in xs])


def coq_queue(files, dirs):
    return f"(mkQ {coq_qfiles(files)} {coq_strs(sorted(dirs))})"


def coq_fsent(e):
    """'dir' | hash identity | ["link", normalised root-relative target]"""
    if e == "dir":
        return "FDir"
    if isinstance(e, (list, tuple)):
        return f"(FLink {coq_str(e[1])})"
    return f"(FFile {e})"


def coq_fs(fs):
    return coq_list([f"({coq_str(p)}, {coq_fsent(e)})" for p, e in sorted(fs.items())])


# ---------------------------------------------------------------------------------------------
# Hash identities
# ---------------------------------------------------------------------------------------------


class HashIds:
    """Abstract identity of what FileHash.__eq__ compares: (digest, mode, size)."""

    def __init__(self):
        self.ids = {}

    def of(self, fh):
        if fh is None or fh.is_unknown:
            return None
        key = (bytes(fh.digest), fh.mode, fh.size)
        if key not in self.ids:
            self.ids[key] = len(self.ids) + 1
        return self.ids[key]


# ---------------------------------------------------------------------------------------------
# Dumps of the real objects
# ---------------------------------------------------------------------------------------------

DUMP_SQL = """
SELECT n.kind, n.label, c.kind, c.label, n.detached, f.state, f.hash,
       EXISTS (SELECT 1 FROM step_hash WHERE step_hash.node = n.i), s._implied_need, s.state, s.need
FROM node AS n LEFT JOIN node AS c ON n.creator = c.i
LEFT JOIN file AS f ON f.node = n.i LEFT JOIN step AS s ON s.node = n.i
ORDER BY n.kind, n.label
"""


def dump_graph(w, hids):
    from stepup.core.hash import FileHash
    nodes = []
    for kind, label, ckind, clabel, det, fstate, fhash, shash, need, sstate, dneed in w.db.execute(DUMP_SQL):
        nodes.append({
            "key": (KIND[kind], label),
            "creator": None if ckind is None else (KIND[ckind], clabel),
            "det": bool(det),
            "fstate": fstate or 0,
            "fhash": hids.of(FileHash.from_json(fhash)) if fhash is not None else None,
            "shash": bool(shash) and kind == "step",
            "need": need or 0,
            "sstate": sstate or 0,
            "dneed": dneed or 0,       # step.need as declared (oracle only; the model reads _implied_need)
        })
    deps = []
    sql = ("SELECT a.kind, a.label, b.kind, b.label FROM dependency JOIN node AS a ON a.i = source "
           "JOIN node AS b ON b.i = sink ORDER BY a.kind, a.label, b.kind, b.label")
    for ak, al, bk, bl in w.db.execute(sql):
        deps.append(((KIND[ak], al), (KIND[bk], bl)))
    return {"nodes": nodes, "deps": deps}


def dump_queue(wf, hids):
    files, dirs = {}, set()
    for p, h in wf.to_be_deleted.items():
        if p.endswith(os.sep):
            dirs.add(str(Path(p).normpath()))
        else:
            files[str(p)] = None if h is None else hids.of(h)
    return files, dirs


def snapshot_fs(root, hids):
    """path -> 'dir' | hash identity, for everything below root (root itself excluded)."""
    from stepup.core.hash import FileHash
    out = {}
    for dirpath, dirnames, filenames in os.walk(root):
        rel = os.path.relpath(dirpath, root)
        for d in dirnames:
            out[os.path.normpath(os.path.join(rel, d))] = "dir"
        for f in filenames:
            p = os.path.normpath(os.path.join(rel, f))
            out[p] = hids.of(FileHash.unknown().refreshed(os.path.join(root, p)))
    return out


def graph_json(g):
    return {"nodes": [{**n, "key": list(n["key"]), "creator": None if n["creator"] is None else list(n["creator"])}
                      for n in g["nodes"]],
            "deps": [[list(a), list(b)] for a, b in g["deps"]]}


# ---------------------------------------------------------------------------------------------
# A reporter that records events
# ---------------------------------------------------------------------------------------------


class RecClient:
    def __init__(self):
        self.reports = []

    @property
    def call(self):
        return self

    async def report(self, tag, description, pages):
        self.reports.append((tag, str(description)))

    def __getattr__(self, name):
        async def noop(*a, **kw):
            return None
        return noop


def make_reporter():
    from stepup.core.reporter import ReporterClient
    client = RecClient()
    return client, ReporterClient(client)


# ---------------------------------------------------------------------------------------------
# Random workflows through the real API
# ---------------------------------------------------------------------------------------------

DIRS = ["", "d1/", "d2/", "d1/s/", "w1/"]
WORKDIRS = [".", ".", "w1/", "w1/sub/", "w2/"]


class Builder:
    """Grows a workflow inside one open transaction of a wfutil.WF, optionally mirrored on disk
    (cwd must then be the project root)."""

    def __init__(self, w, rng, disk=False):
        self.w, self.wf, self.rng, self.disk = w, w.wf, rng, disk
        self.ever_output = set()      # every path ever passed as out_paths / vol_paths of a step
        self.ever_volatile = set()
        self.statics = set()
        self.tree_files = set()
        self.steps = []               # labels in creation order
        self.counter = 0
        self.written = {}             # path -> content StepUp's steps wrote (disk mode)
        self.forgotten = set()        # outputs whose hash StepUp dropped after an EXTERNAL update
        self.log = []                 # operations performed (for witnesses)

    # -- helpers ------------------------------------------------------------------------------
    def new_path(self, prefix):
        self.counter += 1
        return f"{self.rng.choice(DIRS)}{prefix}{self.counter}.txt"

    def write(self, path, content):
        p = Path(path)
        if p.parent != "":
            p.parent.makedirs_p()
        if p.is_dir():
            return False
        p.write_text(content)
        return True

    def hash_of(self, path):
        from stepup.core.hash import FileHash
        if self.disk:
            return FileHash.unknown().refreshed(path)
        return fake_hash(path)

    def attempt(self, fn, what):
        from stepup.core.exceptions import GraphError
        self.w.db.execute("SAVEPOINT cc")
        try:
            fn()
            self.w.db.execute("RELEASE cc")
            self.log.append(what)
            return True
        except GraphError:
            self.w.db.execute("ROLLBACK TO cc")
            self.w.db.execute("RELEASE cc")
            return False

    def find_step(self, label):
        from stepup.core.step import Step
        return self.wf.find(Step, label)

    def file_paths(self):
        from stepup.core.file import File
        return [n.label for n in self.wf.nodes(File, include_detached=True)]

    # -- declarations -------------------------------------------------------------------------
    def add_static(self, creator):
        from stepup.core.enums import HashUpdateCause
        p = self.new_path("s")
        if self.disk:
            self.write(p, "static " + p)

        def go():
            unconfirmed = self.wf.declare_static_files(creator, [p])
            self.wf.update_file_hashes({q: self.hash_of(q) for q in unconfirmed}, cause=HashUpdateCause.CONFIRMED)
        if self.attempt(go, ["static", creator.label, p]):
            self.statics.add(p)

    def add_tree(self, creator):
        self.counter += 1
        t = f"tree{self.counter}/"
        if self.disk:
            Path(t).makedirs_p()
        self.attempt(lambda: self.wf.register_static_tree(creator, t), ["tree", creator.label, t])
        return t

    def tree_labels(self):
        return [r[0] for r in self.w.db.execute("SELECT label FROM node WHERE kind = 'st' AND NOT detached")]

    def add_step(self, creator, cycle=False):
        from stepup.core.enums import HashUpdateCause, Need
        rng = self.rng
        self.counter += 1
        command = f"cmd{self.counter}"
        workdir = rng.choice(WORKDIRS)
        candidates = sorted(set(self.file_paths()) - {"plan.py"})
        inps = rng.sample(candidates, k=min(len(candidates), rng.choice([0, 1, 1, 2])))
        for t in self.tree_labels():
            if rng.random() < 0.4:
                p = f"{t}x{rng.randint(1, 3)}.txt"
                inps.append(p)
        inps = sorted(set(inps))
        outs = [self.new_path("o") for _ in range(rng.choice([0, 1, 1, 2]))]
        vols = [self.new_path("v") for _ in range(rng.choice([0, 0, 1]))]
        need = Need.OPTIONAL if rng.random() < 0.25 else Need.DEFAULT
        if self.disk:
            for p in inps:
                if p.startswith("tree") and not Path(p).exists():
                    self.write(p, "tree file " + p)

        def go():
            to_check = self.wf.define_step(creator, command, inp_paths=inps, out_paths=outs, vol_paths=vols,
                                           workdir=workdir, need=need)
            if to_check:
                self.wf.update_file_hashes({q: self.hash_of(q) for q in to_check}, cause=HashUpdateCause.CONFIRMED)
        if not self.attempt(go, ["step", creator.label, command, workdir, inps, outs, vols, need.name]):
            return None
        self.ever_output.update(outs + vols)
        self.ever_volatile.update(vols)
        label = command if workdir == "." else f"{command}  # wd={workdir}"
        step = self.find_step(label)
        assert step is not None, label
        self.steps.append(label)
        self.tree_files.update(p for p in inps if p.startswith("tree"))
        return step

    def complete(self, step):
        """Record a successful run: outputs BUILT with their hash, volatile outputs written."""
        from stepup.core.enums import FileState, HashUpdateCause, StepState
        from stepup.core.file import File
        from stepup.core.hash import StepHash
        hashes = {}
        for f in step.products(File):
            st = f.get_state()
            if st in (FileState.PLANNED, FileState.OUTDATED):
                if self.disk:
                    if not self.write(f.label, "built " + f.label):
                        continue
                    self.written[f.label] = "built " + f.label
                hashes[f.label] = self.hash_of(f.label)
            elif st == FileState.VOLATILE and self.disk:
                if self.write(f.label, "volatile " + f.label):
                    self.written[f.label] = "volatile " + f.label
        if self.disk and step.command_and_workdir[1] != ".":
            Path(step.command_and_workdir[1]).makedirs_p()
        if hashes:
            self.wf.update_file_hashes(hashes, cause=HashUpdateCause.SUCCEEDED)
        step.set_state(StepState.RUNNING)
        step.mark_completed(StepHash(b"i" + step.label.encode(), None, b"o", None), False)
        self.log.append(["complete", step.label])

    def amend_input(self, step, path):
        ok = self.attempt(lambda: self.wf.amend_step(step, inp_paths=[path], ran_concurrently=lambda a, b: False),
                          ["amend-inp", step.label, path])
        return ok

    def amend_output(self, step):
        p = self.new_path("ao")
        vol = self.rng.random() < 0.3
        kw = {"vol_paths": [p]} if vol else {"out_paths": [p]}
        if self.attempt(lambda: self.wf.amend_step(step, ran_concurrently=lambda a, b: False, **kw),
                        ["amend-out", step.label, p, vol]):
            self.ever_output.add(p)
            if vol:
                self.ever_volatile.add(p)

    def meta(self):
        """What the scheduler does before it picks the next job: recompute the flagged metadata
        (_safe, _implied_need / _tail_time, _ready).  Called wherever a build would have run."""
        s = self.w.sched
        s._update_meta_safe()
        s._update_meta_after()
        s._update_meta_ready()
        self.log.append(["scheduler-meta-update"])

    def product_info(self, creator):
        """(static paths, [(StepInfo, need)]) of what `creator` currently declares."""
        from stepup.core.file import File
        from stepup.core.step import Step
        statics = sorted(f.label for f in creator.products(File) if f.get_state().value in STATIC_STATES)
        steps = []
        for st in creator.products(Step):
            need = self.w.db.execute("SELECT need FROM step WHERE node = ?", (st.i,)).fetchone()[0]
            steps.append((st.get_info(), need))
        return statics, steps

    def declare_static(self, creator, p):
        from stepup.core.enums import HashUpdateCause

        def go():
            unconfirmed = self.wf.declare_static_files(creator, [p])
            self.wf.update_file_hashes({q: self.hash_of(q) for q in unconfirmed}, cause=HashUpdateCause.CONFIRMED)
        ok = self.attempt(go, ["static", creator.label, p])
        if ok:
            self.statics.add(p)
        return ok

    def define(self, creator, command, inp=(), out=(), vol=(), need=None, workdir="."):
        from stepup.core.enums import HashUpdateCause, Need
        need = Need.DEFAULT if need is None else Need(need)

        def go():
            to_check = self.wf.define_step(creator, command, inp_paths=list(inp), out_paths=list(out),
                                           vol_paths=list(vol), workdir=workdir, need=need)
            if to_check:
                self.wf.update_file_hashes({q: self.hash_of(q) for q in to_check}, cause=HashUpdateCause.CONFIRMED)
        if not self.attempt(go, ["step", creator.label, command, workdir, list(inp), list(out), list(vol), need.name]):
            return None
        self.ever_output.update(list(out) + list(vol))
        self.ever_volatile.update(vol)
        label = command if workdir == "." else f"{command}  # wd={workdir}"
        if label not in self.steps:
            self.steps.append(label)
        return self.find_step(label)

    def rerun(self, creator, keep_static=lambda p: True, keep_step=lambda inf: True, change=lambda inf: inf):
        """The script of `creator` was edited and runs again: reset_for_rerun, then it declares again what
        the new script still declares (`change` may alter a kept step: a dict of define() keywords)."""
        statics, steps = self.product_info(creator)
        creator.reset_for_rerun()
        self.log.append(["reset_for_rerun", creator.label])
        for p in statics:
            if keep_static(p):
                self.declare_static(creator, p)
        for inf, need in steps:
            if not keep_step(inf):
                continue
            kw = {"command": inf.command, "inp": [str(x) for x in inf.inp], "out": [str(x) for x in inf.out],
                  "vol": [str(x) for x in inf.vol], "need": need, "workdir": str(inf.workdir)}
            kw = change(kw)
            self.define(creator, **kw)
        if creator.i != self.w.plan.i:
            self.complete(creator)

    # -- whole scenarios ----------------------------------------------------------------------
    def evolve(self, made, rounds=None):
        """Several rounds of plan edits.  Between two rounds a build usually happens: the scheduler
        recomputes its metadata and (often) the steps that are attached and pending run."""
        from stepup.core.enums import StepState
        from stepup.core.step import Step
        rng = self.rng
        rounds = rng.choice([1, 1, 2, 3]) if rounds is None else rounds
        for r in range(rounds):
            if r > 0:
                if rng.random() < 0.8:
                    self.meta()
                if rng.random() < 0.7:
                    for st in list(self.wf.nodes(Step)):
                        if st.i != self.w.plan.i and st.get_state() != StepState.SUCCEEDED and rng.random() < 0.8:
                            self.complete(st)
                self.log.append(["next-round-of-plan-edits", r + 1])
            self.drop_random(made)

    def grow(self, nsteps):
        rng = self.rng
        plan = self.w.plan
        for _ in range(rng.choice([0, 1, 2])):
            self.add_static(plan)
        if rng.random() < 0.5:
            self.add_tree(plan)
        made = []
        for _ in range(nsteps):
            creator = plan
            if made and rng.random() < 0.3:
                creator = self.find_step(rng.choice(made))
            st = self.add_step(creator)
            if st is None:
                continue
            made.append(st.label)
            r = rng.random()
            if r < 0.25:
                self.add_static(st)
            elif r < 0.35:
                self.add_tree(st)
            if rng.random() < 0.3:
                self.amend_output(st)
        # amended inputs: attached sinks on (later possibly detached) files
        files = [p for p in self.file_paths() if p != "plan.py"]
        for label in made:
            if files and rng.random() < 0.4:
                self.amend_input(self.find_step(label), rng.choice(files))
        # a creator / dependency cycle: S creates T, T builds o, S amends o as input
        if made and rng.random() < 0.4:
            s = self.find_step(rng.choice(made))
            t = self.add_step(s)
            if t is not None:
                from stepup.core.file import File
                outs = [f.label for f in t.products(File)]
                if outs:
                    self.amend_input(s, rng.choice(outs))
                made.append(t.label)
        return made

    def complete_all(self, labels, fraction=1.0):
        for label in labels:
            st = self.find_step(label)
            if st is not None and self.rng.random() < fraction:
                self.complete(st)

    def outdate_some(self, labels, prob=0.35):
        """Leave outputs OUTDATED (or PLANNED with the file still on disk) at rest, the way an upstream
        failure, a build restricted to targets, an interrupted build or an external change does."""
        from stepup.core.enums import FileState, HashUpdateCause, StepState
        from stepup.core.file import File
        rng = self.rng
        for label in labels:
            st = self.find_step(label)
            if st is None or st.get_state() != StepState.SUCCEEDED or rng.random() >= prob:
                continue
            how = rng.choice(["pending", "pending", "failed", "external"])
            if how == "pending":
                # an input changed / an upstream step will rerun: SUCCEEDED -> PENDING, BUILT -> OUTDATED
                self.wf.mark_step_pending(st)
            elif how == "failed":
                # the step ran again and failed (or was interrupted): BUILT -> OUTDATED, hash kept
                st.set_state(StepState.RUNNING)
                st.mark_completed(None, False)
            else:
                # StepUp noticed an external change of one output: BUILT -> PLANNED, hash dropped
                outs = [f for f in st.products(File) if f.get_state() == FileState.BUILT]
                if outs:
                    f = rng.choice(outs)
                    self.wf.update_file_hashes({f.label: self.hash_of(f.label)}, cause=HashUpdateCause.EXTERNAL)
                    self.forgotten.add(f.label)
            self.log.append(["outdate", how, label])

    def drop_random(self, labels):
        """Detach a random subset of declarations, the way a rerun of their creator drops them."""
        from stepup.core.file import File
        from stepup.core.static_tree import StaticTree
        from stepup.core.step import Step
        rng = self.rng
        mode = rng.choice(["detach", "detach", "rerun"])
        if mode == "detach":
            for label in labels:
                if rng.random() < 0.45:
                    st = self.find_step(label)
                    if st is not None:
                        st.detach()
                        self.log.append(["detach-step", label])
            for p in sorted(self.statics):
                if rng.random() < 0.3:
                    f = self.wf.find(File, p)
                    if f is not None:
                        f.detach()
                        self.log.append(["detach-static", p])
            for t in self.tree_labels():
                if rng.random() < 0.3:
                    self.wf.find(StaticTree, t).detach()
                    self.log.append(["detach-tree", t])
        else:
            creators = [self.w.plan] + [self.find_step(label) for label in labels if rng.random() < 0.2]
            for c in creators:
                if c is None:
                    continue
                statics, info = self.product_info(c)
                c.reset_for_rerun()
                self.log.append(["reset_for_rerun", c.label])
                from stepup.core.enums import Need
                for p in statics:
                    # the static() line survives the edit of the script, or it does not (the file stays on disk)
                    if p != "plan.py" and rng.random() < 0.5:
                        self.declare_static(c, p)
                for inf, need in info:
                    if rng.random() < 0.5:
                        self.attempt(lambda inf=inf, need=need: self.wf.define_step(
                            c, inf.command, inp_paths=[str(x) for x in inf.inp], env_deps=inf.env,
                            out_paths=[str(x) for x in inf.out], vol_paths=[str(x) for x in inf.vol],
                            workdir=str(inf.workdir), need=Need(need)),
                            ["redefine", c.label, inf.command])


# ---------------------------------------------------------------------------------------------
# Driving the real cleanup
# ---------------------------------------------------------------------------------------------


async def update_meta(w):
    await w.sched.initialize(None)
    async with w.db:
        w.sched._update_meta_safe()
        w.sched._update_meta_after()
        w.sched._update_meta_ready()


def finalize_contexts():
    """Which of the cleanup calls Builder.finalize makes inside `async with self.db` (read from the source of
    builder.py, independently of the translator): name -> bool.  The harness calls them the same way."""
    import ast

    from . import common
    tree = ast.parse((common.REPO / "stepup/core/builder.py").read_text())
    out = {}
    for cls in [n for n in ast.walk(tree) if isinstance(n, ast.ClassDef) and n.name == "Builder"]:
        for fn in [n for n in cls.body if isinstance(n, ast.AsyncFunctionDef) and n.name == "finalize"]:
            def visit(node, inside):
                for child in ast.iter_child_nodes(node):
                    ins = inside
                    if isinstance(child, ast.AsyncWith) and any(ast.unparse(i.context_expr) == "self.db" for i in child.items):
                        ins = True
                    if isinstance(child, ast.Call):
                        name = child.func.attr if isinstance(child.func, ast.Attribute) else getattr(child.func, "id", None)
                        if name in ("revert_optional_steps", "delete_detached", "remove_deletable_files"):
                            out[name] = ins
                    visit(child, ins)
            visit(fn, False)
    return out


async def call_cleanup(w, name, fn):
    """Call one cleanup function of the code under test in the transactional context Builder.finalize uses for it.
    Returns None or "ExcClass: message" when an exception escaped (recorded as the outcome of the case)."""
    inside = finalize_contexts().get(name, False)
    try:
        if inside:
            async with w.db:
                r = fn()
                if asyncio.iscoroutine(r):
                    await r
        else:
            r = fn()
            if asyncio.iscoroutine(r):
                await r
    except Exception as e:  # noqa: BLE001 - whatever the code under test raises is this case's outcome
        return f"{type(e).__name__}: {e}"
    return None


def make_builder(w, reporter, do_remove_outdated=True):
    from stepup.core.builder import Builder as RealBuilder
    from stepup.core.executor import Executor
    executor = Executor(scheduler=None, workflow=None, db=None, reporter=None, explain_rerun=False,
                        keep_going=False, live_progress=False, write_joblog=False, infra_env={})
    return RealBuilder(njob=1, scheduler=w.sched, workflow=w.wf, db=w.db, reporter=reporter,
                       live_progress=False, executor=executor, do_remove_outdated=do_remove_outdated)


@contextlib.contextmanager
def project_dir():
    with tempfile.TemporaryDirectory(prefix="verif-clean-") as d:
        old_root = os.environ.get("STEPUP_ROOT")
        os.environ["STEPUP_ROOT"] = d
        try:
            with contextlib.chdir(d):
                yield Path(d)
        finally:
            if old_root is None:
                os.environ.pop("STEPUP_ROOT", None)
            else:
                os.environ["STEPUP_ROOT"] = old_root


def clean_namespace(all_, safe, commit):
    return argparse.Namespace(all=all_, safe=safe, commit=commit)


def run(coro, timeout=600):
    async def guarded():
        return await asyncio.wait_for(coro, timeout)
    return asyncio.run(guarded())


# ---------------------------------------------------------------------------------------------
# Disk scenarios: a project on a real temporary tree, user edits, the real Builder.finalize
# ---------------------------------------------------------------------------------------------

EDITS = ["overwrite", "rewrite-same", "to-dir", "to-dir-nonempty", "delete", "neighbour", "adopt-static", "none", "none"]


def user_edits(b, rng, made):
    """Apply user edits to files StepUp wrote.  Returns {path: edit}."""
    from stepup.core.enums import HashUpdateCause
    from stepup.core.file import File
    edits = {}
    for p in sorted(b.written):
        e = rng.choice(EDITS) if rng.random() < 0.5 else "none"
        path = Path(p)
        if e == "none" or not path.is_file():
            continue
        if e == "overwrite":
            path.write_text("user data, longer than before: " + p * 2)
        elif e == "rewrite-same":
            content = path.read_text()
            path.remove()
            path.write_text(content)
        elif e == "to-dir":
            path.remove()
            path.mkdir()
        elif e == "to-dir-nonempty":
            path.remove()
            path.mkdir()
            (path / "keep.txt").write_text("user file")
        elif e == "delete":
            path.remove()
        elif e == "neighbour":
            (path.parent / f"user{len(edits)}.dat").write_text("user neighbour")
        elif e == "adopt-static":
            f, det = b.wf.find_and_detached(File, p)
            if f is None or not det:
                continue
            path.write_text("adopted by the user " + p)

            def go(p=p):
                unconfirmed = b.wf.declare_static_files(b.w.plan, [p])
                b.wf.update_file_hashes({q: b.hash_of(q) for q in unconfirmed}, cause=HashUpdateCause.CONFIRMED)
            if not b.attempt(go, ["adopt-static", p]):
                continue
            b.statics.add(p)
        edits[p] = e
    b.log.append(["user-edits", edits])
    return edits


async def disk_case(rng, guard, hids, witness=None, quiet=False):
    """One complete scenario on a real tree.  guard in {"none", "targets", "incomplete", "no-clean"}.
    `witness(b)` builds the project instead of the random generator; `quiet` skips the random user edits."""
    from stepup.core.enums import FileState, StepState
    from stepup.core.file import File
    from stepup.core.hash import StepHash
    from stepup.core.step import Step
    wfkw = {}
    if guard == "targets":
        wfkw = {"targets": frozenset({Path("o1.txt")})}
    elif guard == "target_dirs":
        wfkw = {"target_dirs": frozenset({Path("d1/")})}
    res = {"guard": guard}
    async with WF(**wfkw) as w:
        Path("plan.py").write_text("#!/usr/bin/env python3\n")
        async with w.db:
            b = Builder(w, rng, disk=True)
            if witness is not None:
                made = witness(b)
            else:
                made = b.grow(rng.randint(2, 6))
                b.complete_all(made)
                b.meta()
                b.outdate_some(made, prob=0.25)
                b.evolve(made)
            edits = {} if quiet else user_edits(b, rng, made)
            # everything still attached must have run, otherwise the build is incomplete
            leave_pending = guard == "incomplete"
            skipped = False
            for st in list(w.wf.nodes(Step)):
                if st.label == "./plan.py":
                    continue
                if st.get_state() != StepState.SUCCEEDED:
                    if leave_pending and not skipped:
                        need = w.db.execute("SELECT need FROM step WHERE node = ?", (st.i,)).fetchone()[0]
                        if need != 31:
                            skipped = True
                            continue
                    b.complete(st)
            w.plan.mark_completed(StepHash(b"plan", None, b"plan", None), False)
        await update_meta(w)
        async with w.db:
            res["before_graph"] = dump_graph(w, hids)
        res["before_fs"] = snapshot_fs(".", hids)
        res["contents_before"] = {p: Path(p).read_text() for p, e in res["before_fs"].items() if e != "dir"}
        client, reporter = make_reporter()
        builder = make_builder(w, reporter, do_remove_outdated=(guard != "no-clean"))
        err = None
        try:
            await builder.finalize()
        except Exception as e:   # noqa: BLE001 - AssertionError: after_lost_product on a file/root; anything else: outcome too
            err = f"{type(e).__name__}: {e}"
        res["error"] = err
        res["returncode"] = int(builder.returncode.value) if builder.returncode is not None else 0
        res["has_targets"] = bool(w.wf.targets) or bool(w.wf.target_dirs)
        res["clean"] = guard != "no-clean"
        res["events"] = client.reports
        res["removed_events"] = [d for t, d in client.reports if t == "REMOVE"]
        res["queue_left"] = {str(k): str(v) for k, v in w.wf.to_be_deleted.items()}
        res["queue_after"] = dump_queue(w.wf, hids)
        async with w.db:
            res["after_graph"] = dump_graph(w, hids)
        res["after_fs"] = snapshot_fs(".", hids)
        res["contents_after"] = {p: Path(p).read_text() for p, e in res["after_fs"].items() if e != "dir"}
        res["ever_output"] = sorted(b.ever_output)
        res["written"] = dict(b.written)
        res["forgotten"] = sorted(b.forgotten)
        res["edits"] = edits
        res["log"] = b.log
    return res


def guarded(res):
    return res["has_targets"] or (res["returncode"] & ~8) != 0 or not res["clean"]


def coq_ctx(res):
    return f"(mkCtx {coq_bool(res['has_targets'])} {res['returncode']} {coq_bool(res['clean'])})"


def finalize_check(res):
    """Gallina bool: the model's finalize on (graph, tree) before equals what the real one left."""
    g, f = coq_graph(res["before_graph"]), coq_fs(res["before_fs"])
    files = [d for d in res["removed_events"] if res["before_fs"].get(d) != "dir"]
    dirs = [d for d in res["removed_events"] if res["before_fs"].get(d) == "dir"]
    return (f"let r := finalize {coq_ctx(res)} (init_state {g} {f}) in "
            f"fs_match {coq_fs(res['after_fs'])} (s_fs r) && strs_eqb {coq_strs(files)} (s_files r) && "
            f"strs_eqb {coq_strs(dirs)} (s_dirs r) && graph_match {coq_graph(res['after_graph'])} (s_g r) && "
            f"Bool.eqb (s_err r) {coq_bool(res['error'] is not None)}"
            + (f" && queue_match {coq_qfiles(res['queue_after'][0])} {coq_strs(sorted(res['queue_after'][1]))} (s_q r)"
               if "queue_after" in res else ""))


# ---------------------------------------------------------------------------------------------
# Property oracles on the result of a real finalize (no model involved)
# ---------------------------------------------------------------------------------------------

STATIC_STATES = {12, 13, 14}
OUTPUT_STATES = {15, 16, 17}
VOLATILE = 18


def _nodes_by_path(graph):
    return {n["key"][1]: n for n in graph["nodes"] if n["key"][0] == KIND["file"]}


def oracle_c06(res):
    """Violations of C06 visible in one finalize: list of (signature, detail)."""
    out = []
    before, after = res["before_fs"], res["after_fs"]
    files_before = _nodes_by_path(res["before_graph"])
    removed = sorted(p for p in before if p not in after)
    created = sorted(p for p in after if p not in before)
    altered = sorted(p for p in before if p in after and before[p] != after[p])
    altered += sorted(p for p in res["contents_before"] if p in res["contents_after"]
                      and res["contents_before"][p] != res["contents_after"][p])
    if created or altered:
        out.append(("finalize:creates-or-alters-files", f"created {created} altered {altered}"))
    if guarded(res):
        if removed:
            why = ("targets" if res["has_targets"] else
                   "returncode" if (res["returncode"] & ~8) else "no-clean")
            out.append((f"finalize:guard-ignored:{why}", f"guarded finalize (rc={res['returncode']}) removed {removed}"))
        if res["queue_left"]:
            out.append(("finalize:queue-left-after-guard", f"to_be_deleted not empty: {res['queue_left']}"))
        return out
    ever = set(res["ever_output"])
    trees_after = [n["key"][1] for n in res["after_graph"]["nodes"] if n["key"][0] == KIND["st"] and not n["det"]]
    for p in removed:
        if before[p] == "dir":
            inside = [t for t in trees_after if (p + "/").startswith(t)]
            if inside:
                out.append(("finalize:removed-dir:attached-static-tree",
                            f"directory {p} is the root of / inside the attached static tree {inside[0]} and was removed"))
            continue
        node = files_before.get(p)
        if p not in ever:
            out.append(("finalize:removed-file:never-declared-output", f"{p} was removed; no step ever declared it"))
            continue
        if node is not None and not node["det"] and node["fstate"] in STATIC_STATES:
            out.append(("finalize:removed-file:static", f"{p} is an attached static file and was removed"))
            continue
        if res["edits"].get(p) == "adopt-static":
            out.append(("finalize:removed-file:adopted-static", f"{p} was adopted as static and removed"))
            continue
        if node is not None and node["fstate"] == VOLATILE:
            continue
        if res["contents_before"].get(p) != res["written"].get(p):
            out.append(("finalize:removed-file:modified-output",
                        f"{p} was modified by the user after StepUp recorded it and was removed"))
    # a directory that is gone had nothing left in it by construction of the file system; what is
    # checked here is that its former content was only legitimately removed files (done above) and
    # that no user file vanished with it
    if res["queue_left"]:
        out.append(("finalize:queue-left", f"to_be_deleted not empty after cleanup: {res['queue_left']}"))
    return out


def _successors(graph):
    succ = {}
    for n in graph["nodes"]:
        succ.setdefault(n["key"], set())
        if n["creator"] is not None and n["creator"] != n["key"]:
            succ.setdefault(n["creator"], set()).add(n["key"])
    for a, b in graph["deps"]:
        succ.setdefault(a, set()).add(b)
    return succ


def held_nodes(graph):
    """Nodes from which an attached node or a cycle is reachable along product and sink edges
    (search formulation, independent of the deletion loop)."""
    succ = _successors(graph)
    attached = {n["key"] for n in graph["nodes"] if not n["det"]}

    def reach_from(srcs):
        seen, todo = set(srcs), list(srcs)
        while todo:
            x = todo.pop()
            for y in succ.get(x, ()):
                if y not in seen:
                    seen.add(y)
                    todo.append(y)
        return seen
    on_cycle = {k for k in succ if k in reach_from(succ.get(k, ()))}
    anchors = attached | on_cycle
    return {k for k in succ if k in anchors or reach_from([k]) & anchors}


def unneeded_steps(graph):
    """Attached steps declared OPTIONAL that no needed attached step consumes, directly or through other
    optional steps (a step is needed when its declared need is above OPTIONAL or a needed attached step has one of
    its outputs as input).  Only meaningful for builds without targets."""
    steps = {n["key"]: n for n in graph["nodes"] if n["key"][0] == KIND["step"] and not n["det"]}
    outs, cons = {}, {}
    for a, b in graph["deps"]:
        if a in steps and b[0] == KIND["file"]:
            outs.setdefault(a, set()).add(b)
        if b in steps and a[0] == KIND["file"]:
            cons.setdefault(a, set()).add(b)
    needed = {k for k, n in steps.items() if n.get("dneed", n["need"]) != 31}
    changed = True
    while changed:
        changed = False
        for k in steps:
            if k not in needed and any(t in needed for f in outs.get(k, ()) for t in cons.get(f, ())):
                needed.add(k)
                changed = True
    return set(steps) - needed


def oracle_c07(res):
    """Violations of C07 visible in one successful unrestricted finalize with cleaning."""
    out = []
    if guarded(res) or res["error"]:
        return out
    before, after = res["before_fs"], res["after_fs"]
    g0 = res["before_graph"]
    # the Workflow pre-step detaches unused files of attached trees; they are static, not outputs
    held = held_nodes(g0)
    after_keys = {n["key"] for n in res["after_graph"]["nodes"]}
    after_nodes = _nodes_by_path(res["after_graph"])
    # which optional steps are not needed is decided here from the DECLARED need and the edges, not from the
    # scheduler's step._implied_need (which the code under test maintains incrementally)
    optional = unneeded_steps(g0)
    # the cached column itself, when finalize starts (the scheduler's metadata update has run): an attached step has
    # _implied_need = OPTIONAL exactly when the oracle's own computation from the declared need and the edges finds it
    # unneeded (builds without targets only: no elevation)
    if not res.get("has_targets"):
        for n in g0["nodes"]:
            if n["key"][0] == KIND["step"] and not n["det"] and n["key"][1] != "./plan.py":
                cached_optional = n["need"] == 31
                if cached_optional != (n["key"] in optional):
                    out.append(("finalize:implied-need-stale:" + ("optional-but-needed" if cached_optional else "needed-but-unneeded"),
                                f"step {n['key'][1]!r}: step._implied_need = {n['need']} (declared need {n.get('dneed')}) when finalize "
                                f"starts, but from the declared needs and the edges it is "
                                f"{'needed' if cached_optional else 'an optional step that no needed step consumes'}"))
    reverted = {b for a, b in g0["deps"] if a in optional}
    for n in g0["nodes"]:
        if n["key"][0] != KIND["file"] or n["fstate"] not in (16, 17, 18):
            continue
        p = n["key"][1]
        unmodified = (n["fstate"] == VOLATILE and before.get(p) not in (None, "dir")) or \
                     (before.get(p) not in (None, "dir") and n["fhash"] is not None and before.get(p) == n["fhash"])
        if n["det"] and n["key"] not in held:
            if n["key"] in after_keys:
                out.append(("finalize:orphan-node-kept", f"detached output {p} is held by nothing but is still in the graph"))
            if unmodified and p in after:
                out.append(("finalize:orphan-file-kept", f"unmodified output {p} of a dropped step is still on disk"))
        elif n["key"] in reverted:
            if unmodified and p in after:
                out.append(("finalize:optional-output-kept", f"unmodified output {p} of an unneeded optional step is still on disk"))
            an = after_nodes.get(p)
            if an is not None and n["fstate"] != VOLATILE and an["fstate"] != 15:
                out.append(("finalize:optional-output-not-reset", f"{p} is {an['fstate']} after revert"))
    # history view: whatever an earlier build wrote, that the user did not touch, whose node is detached and
    # held by nothing, must be gone -- whatever state the node passed through in between
    files_before = _nodes_by_path(g0)
    for p, content in res["written"].items():
        n = files_before.get(p)
        if n is None or not n["det"] or n["key"] in held or p in res.get("forgotten", ()):
            continue
        if res["edits"].get(p) or res["contents_before"].get(p) != content:
            continue
        if p in after:
            out.append(("finalize:orphan-file-kept",
                        f"{p} was written by an earlier build, is unmodified, its node (state {n['fstate']}) is detached and "
                        f"held by nothing, and it is still on disk"))
    # emptied directories
    removed_files = [p for p in before if before[p] != "dir" and p not in after]
    for p in removed_files:
        d = os.path.dirname(p)
        if d and d in after and not any(q.startswith(d + "/") for q in after):
            out.append(("finalize:empty-dir-kept", f"{d} became empty by removing {p} and is still there"))
    return out


# ---------------------------------------------------------------------------------------------
# E3 part: generated histories through the real serve(); what disappears from disk per build
# ---------------------------------------------------------------------------------------------

OUTPUT_STATE_NAMES = {"PLANNED", "BUILT", "OUTDATED", "VOLATILE"}


def e3_available():
    try:
        from . import e3, e3_gen  # noqa: F401
        return True
    except Exception:  # noqa: BLE001
        return False


def e3_run_case(project, history, seed, family="e3_gen", info=None, vary=True):
    """Run one history phase by phase through the real serve(); one record per build for the oracles.

    Between builds the *user* sometimes overwrites files StepUp wrote (never through the project
    description), and builds are sometimes run with --no-clean or restricted to a target (`vary`).
    All of that is drawn from random.Random(seed), so a record is reproducible from (family, seed) --
    or from the project/history stored in the witness -- alone.  Directories that commands create
    for their outputs (`mkdir -p` inside the command) are made before each build."""
    import random

    from . import clean_e3gen, e3
    trng = random.Random(1000003 * seed + 17)
    records = []
    project = project.clone()
    project0 = project.to_json()
    with tempfile.TemporaryDirectory(prefix="verif-clean-e3-") as root:
        project.materialise(root)
        owned = {}            # path -> digest of what a step command last wrote
        vol_written = set()   # paths whose file on disk was last written while the path was a VOLATILE output
        prev_graph = {}
        trace = []
        phases = [{"edits": []}] + history
        for i, phase in enumerate(phases):
            for edit in phase.get("edits", []):
                e3.apply_edit(project, root, edit)
            for d in sorted(clean_e3gen.out_dirs(project.program)):
                os.makedirs(os.path.join(root, d), exist_ok=True)
            tampered = []
            if vary:
                for p in sorted(owned):
                    full = os.path.join(root, p)
                    if os.path.isfile(full) and not os.path.islink(full) and trng.random() < 0.12:
                        if trng.random() < 0.4:
                            # the user puts a symbolic link to a file of their own in place of the output
                            e3.write_file(full + ".mine", "the user's own version of " + p)
                            os.remove(full)
                            os.symlink(os.path.basename(full) + ".mine", full)
                            tampered.append(p + " (replaced by a symbolic link)")
                        else:
                            e3.write_file(full, "user tampered " + p)
                            tampered.append(p)
            before_files, _, before_dirs = e3.snapshot_tree(root)
            kw = {"clean": True}
            if vary:
                r = trng.random()
                kw = {"clean": r >= 0.12}
                if 0.12 <= r < 0.22 and owned:
                    kw["targets"] = [sorted(owned)[0]]
            trace.append({"edits": _brief_edits(phase.get("edits", [])), "tampered": tampered, "build": kw})
            try:
                res = e3.build(root, project.program, env=dict(project.env), resources="tok:2", timeout=120, **kw)
            except e3.E3Error as exc:
                records.append({"seed": seed, "family": family, "phase": i, "error": str(exc)[:300]})
                break
            graph = e3.parse_graph(res.graph)
            owned_after = dict(owned)
            vol_before = sorted(vol_written)
            for c in res.commands:
                for path, digest, _ in c["writes"]:
                    owned_after[path] = digest
                    if _gstate(graph, path)[0] == "VOLATILE":
                        vol_written.add(path)
                    else:
                        vol_written.discard(path)
            vol_written &= set(res.files)
            trace[-1]["rc"] = res.returncode
            trace[-1]["executed"] = [c["label"] for c in res.commands]
            trace[-1]["removed"] = [e[1] for e in res.events if e[0] == "REMOVE"]
            records.append({"seed": seed, "family": family, "info": info, "phase": i, "kw": kw, "rc": res.returncode,
                            "tampered": tampered, "written_as_volatile": vol_before,
                            "before_files": before_files, "before_dirs": before_dirs,
                            "after_files": res.files, "after_dirs": res.dirs, "owned": dict(owned),
                            "owned_after": owned_after,
                            "sources": sorted(project.sources), "scripts": sorted(project.program.get("scripts", {})),
                            "graph": graph, "prev_graph": prev_graph,
                            "edits": phase.get("edits", []), "trace": [dict(t) for t in trace],
                            "project0": project0 if family != "e3_gen" else None,
                            "history": history if family != "e3_gen" else None,
                            "removed_events": [e[1] for e in res.events if e[0] == "REMOVE"]})
            owned = owned_after
            prev_graph = graph
    return records


def _brief_edits(edits):
    out = []
    for e in edits:
        if e.get("op") == "program":
            out.append({"op": "program", "scripts": sorted(e["program"].get("scripts", {}))})
        else:
            out.append(e)
    return out


def e3_histories(rng, n, seed_base, family="e3_gen", stats=None):
    """Run n generated histories of one family; per build a record for the oracles.
    family "e3_gen": harness/e3_gen.py (one level of sub-plans, globs, scripts, amends, env);
    family "nested": harness/clean_e3gen.py (plan trees of depth <= 4, see there)."""
    from . import clean_e3gen, e3_gen
    records = []
    for k in range(n):
        seed = seed_base + k
        if family == "e3_gen":
            project, history = e3_gen.gen_case(seed, max_phases=4)
        else:
            project, history = clean_e3gen.gen_case(seed, max_phases=5, stats=stats)
        records.extend(e3_run_case(project, history, seed, family))
    return records


def e3_directed(family, shift, max_depth, full=False):
    """One directed family of clean_e3gen ("nested-drop" | "static-undeclared"): every shape up to max_depth,
    variants rotated by `shift`."""
    from . import clean_e3gen
    gen = {"nested-drop": clean_e3gen.nested_drop_cases, "static-undeclared": clean_e3gen.undeclare_cases}[family]
    records = []
    kw = {"full": True} if full and family == "static-undeclared" else {}
    for j, (project, history, info) in enumerate(gen(shift, max_depth, **kw)):
        records.extend(e3_run_case(project, history, j, family, info=info, vary=False))
    return records


def _gstate(graph, p):
    for key in (f"file:{p}", f"(file:{p})"):
        if key in graph:
            st = graph[key]["props"].get("state", [None])[0]
            return st, key.startswith("(")
    return None, None


def _e3_through(files, p, hops=8):
    """Content read through p in an e3 snapshot (symbolic links are stored as 'SYMLINK->target'); None when the
    chain leaves the snapshot."""
    c = files.get(p)
    while isinstance(c, str) and c.startswith("SYMLINK->") and hops > 0:
        p = os.path.normpath(os.path.join(os.path.dirname(p), c[len("SYMLINK->"):]))
        c = files.get(p)
        hops -= 1
    return c


def e3_oracle_c06(rec):
    from . import e3
    out = []
    if "error" in rec:
        return out
    bf, af = rec["before_files"], rec["after_files"]
    removed = sorted(p for p in bf if p not in af)
    removed_dirs = sorted(d for d in rec["before_dirs"] if d not in rec["after_dirs"])
    is_guarded = bool(rec["kw"].get("targets")) or not rec["kw"].get("clean", True) or (rec["rc"] & ~8) != 0
    if is_guarded and (removed or removed_dirs):
        why = "targets" if rec["kw"].get("targets") else ("no-clean" if not rec["kw"].get("clean", True) else "returncode")
        out.append((f"oracle:e3:guard-ignored:{why}", f"guarded build (rc={rec['rc']}, {rec['kw']}) removed {removed} {removed_dirs}"))
        return out
    srcs = set(rec["sources"]) | set(rec.get("scripts", ()))
    owned_after = rec.get("owned_after", rec["owned"])
    where = f"({rec.get('family', 'e3_gen')} seed {rec['seed']} phase {rec['phase']})"
    for p in removed:
        if p in srcs:
            out.append(("oracle:e3:removed-file:source",
                        f"{p} is a user-provided file of the project (never an output of any step) and was removed {where}"))
        elif p not in owned_after:
            out.append(("oracle:e3:removed-file:never-written-by-a-step", f"{p} was removed; no step of any build wrote it {where}"))
        elif p not in rec["owned"] or owned_after[p] != rec["owned"][p]:
            continue      # a step (re)wrote it during this very build; its content at removal time is not observed
        elif e3._digest(_e3_through(bf, p)) != rec["owned"][p]:
            st, _ = _gstate(rec["prev_graph"], p)
            if st != "VOLATILE":
                kind = "symlink" if str(bf[p]).startswith("SYMLINK->") else "regular"
                out.append((f"oracle:e3:removed-file:modified-output:{kind}",
                            f"{p} ({kind}: {str(bf[p])[:60]!r}) no longer held what StepUp wrote (state {st}) and was removed"))
    for d in removed_dirs:
        if f"st:{d}" in rec["graph"]:
            out.append(("oracle:finalize:removed-dir:attached-static-tree",
                        f"directory {d} is still declared as a static tree and was removed (E3 seed {rec['seed']} phase {rec['phase']})"))
        elif d in srcs and any(s.startswith(d) and s != d for s in srcs):
            out.append(("oracle:e3:removed-dir:holds-sources", f"{d} still holds source files and was removed"))
    return out


def _e3_unparen(key):
    return key[1:-1] if key.startswith("(") and key.endswith(")") else key


def _e3_node(graph, ref):
    k = _e3_unparen(ref)
    return graph.get(k) or graph.get(f"({k})")


def e3_needed_steps(graph):
    """(attached steps, needed ones) of a parsed canonical graph, from the DECLARED need only: a step is
    needed when it is not optional or when an attached needed step has one of its outputs as input.
    Independent of step._implied_need, which the graph text does not show."""
    steps = {k: v for k, v in graph.items() if k.startswith("step:")}
    needed = {k for k, v in steps.items() if v["props"].get("need", ["DEFAULT"])[0] != "OPTIONAL"}
    changed = True
    while changed:
        changed = False
        for k, v in steps.items():
            if k in needed:
                continue
            for f in v["rel"].get("sink", []):
                fnode = _e3_node(graph, f)
                if fnode is not None and any(t in needed for t in fnode["rel"].get("sink", [])):
                    needed.add(k)
                    changed = True
                    break
    return steps, needed


def e3_held(graph):
    """Keys (without parentheses) from which an attached node or a cycle is reachable along product and
    sink edges of the parsed graph."""
    succ = {}
    for k, v in graph.items():
        succ[_e3_unparen(k)] = {_e3_unparen(x) for x in v["rel"].get("product", []) + v["rel"].get("sink", [])}
    attached = {k for k in graph if not k.startswith("(")}

    def reach_from(srcs):
        seen, todo = set(srcs), list(srcs)
        while todo:
            x = todo.pop()
            for y in succ.get(x, ()):
                if y not in seen:
                    seen.add(y)
                    todo.append(y)
        return seen
    on_cycle = {k for k in succ if k in reach_from(succ.get(k, ()))}
    anchors = attached | on_cycle
    return {k for k in succ if k in anchors or reach_from([k]) & anchors}


def e3_oracle_c07(rec):
    """C07 on one build through serve(): after a successful unrestricted build with cleaning, every file that
    a step command wrote, that the user did not touch since, and that is (1) no longer a node, (2) a detached
    output node held by nothing, or (3) an output of an attached optional step that no needed step consumes,
    is gone from disk; in (2) the node is gone, in (3) it is back to PLANNED; directories emptied by the
    removals are gone."""
    from . import e3
    out = []
    if "error" in rec:
        return out
    if rec["kw"].get("targets") or not rec["kw"].get("clean", True) or (rec["rc"] & ~8) != 0:
        return out
    where = f"({rec.get('family', 'e3_gen')} seed {rec['seed']} phase {rec['phase']})"
    srcs = set(rec["sources"]) | set(rec.get("scripts", ()))
    graph = rec["graph"]
    owned_after = rec.get("owned_after", rec["owned"])
    steps, needed = e3_needed_steps(graph)
    held = e3_held(graph)
    unneeded_out = {}
    for k, v in steps.items():
        if k not in needed:
            for f in v["rel"].get("sink", []):
                unneeded_out[_e3_unparen(f)] = k
    for p, content in rec["after_files"].items():
        if p in srcs or p not in owned_after:
            continue      # a user file
        if e3._digest(content) != owned_after[p]:
            continue      # modified by the user after the last step wrote it: must stay
        if p in rec["before_files"] and p in rec["owned"] and e3._digest(rec["before_files"][p]) != rec["owned"][p] \
                and owned_after[p] == rec["owned"][p]:
            continue      # was modified when the build started and no step rewrote it
        st, det = _gstate(graph, p)
        if st is None:
            pst, _ = _gstate(rec["prev_graph"], p)
            if pst in ("BUILT", "OUTDATED", "VOLATILE"):
                out.append(("oracle:e3:orphan-file-kept",
                            f"{p} (was {pst}) is unmodified, no longer in the graph, and still on disk {where}"))
        elif det:
            if st in ("BUILT", "OUTDATED", "VOLATILE") and f"file:{p}" not in held:
                out.append(("oracle:e3:orphan-node-kept",
                            f"{p} ({st}) is a detached output that nothing holds; node and unmodified file are still there {where}"))
        elif f"file:{p}" in unneeded_out:
            step = unneeded_out[f"file:{p}"]
            pst, _ = _gstate(rec["prev_graph"], p)
            if st == "PLANNED" and (pst == "VOLATILE" or p in rec.get("written_as_volatile", ())):
                # the path was a VOLATILE output when the file was written and was declared again as a regular output
                # since: File.initialize_row(PLANNED) over a VOLATILE row gives PLANNED, which nothing queues
                out.append(("oracle:e3:unneeded-optional-output-kept:was-volatile-now-planned",
                            f"{p} was written as a VOLATILE output of {step}; the plan now declares it as a regular output "
                            f"(node PLANNED), the optional step is not needed and does not run, and the old file is still on "
                            f"disk after the successful unrestricted build: nothing remembers it {where}"))
                continue
            out.append(("oracle:e3:unneeded-optional-output-kept",
                        f"{p} ({st}) is an unmodified output of the optional {step}, which no needed step consumes "
                        f"(directly or through other optional steps), and it is still on disk {where}"))
            if st in ("BUILT", "OUTDATED"):
                out.append(("oracle:e3:unneeded-optional-output-not-reset",
                            f"{p} is {st} although its optional producer {step} is not needed {where}"))
    # directories emptied by this build's removals
    trees = [k[3:] for k in graph if k.startswith("st:")]
    removed = [p for p in rec["before_files"] if p not in rec["after_files"]]
    after_dirs = {d.rstrip("/") for d in rec["after_dirs"]}
    for p in removed:
        d = os.path.dirname(p)
        if d and d in after_dirs and not any(q.startswith(d + "/") for q in rec["after_files"]) \
                and not any(x.startswith(d + "/") for x in after_dirs) \
                and not any((d + "/").startswith(t) for t in trees):
            out.append(("oracle:e3:empty-dir-kept", f"{d} became empty by removing {p} and is still there {where}"))
    return out


def e3_witness(rec):
    w = {"family": rec.get("family", "e3_gen"), "e3_seed": rec["seed"], "phase": rec["phase"], "build": rec.get("kw"),
         "rc": rec.get("rc"), "info": rec.get("info"), "trace": rec.get("trace"),
         "removed_events": rec.get("removed_events"),
         "how": ("harness.e3_gen.gen_case(seed, max_phases=4)" if rec.get("family", "e3_gen") == "e3_gen" else
                 "project0 + history below (harness.clean_e3gen)") +
                " replayed phase by phase by harness.clean_common.e3_run_case (harness.e3.build after each phase)"}
    if rec.get("project0") is not None:
        w["project0"] = rec["project0"]
        w["history"] = rec["history"][:rec["phase"]]
    return w


# ---------------------------------------------------------------------------------------------
# Three builds: a step keeps its command but renames its output while a new step still reads the old one
# ---------------------------------------------------------------------------------------------


def rename_witness(rng, volatile=None, third=None, tamper=None):
    """Returns a witness function for disk_case.  Build 1: A -> old.  Build 2: A -> new, new step B reads old
    (old is re-created creator-less through File.initialize_row's keep rule; B cannot run: incomplete, no
    cleanup).  Build 3: B is gone (or reads new); the build succeeds and must remove the unmodified old."""
    d = rng.choice(["", "", "d1/", "d1/s/"])
    r1, r2, r3 = rng.random() < 0.25, rng.choice(["drop-b", "drop-b", "b-reads-new"]), rng.random() < 0.2
    volatile = r1 if volatile is None else volatile
    third = r2 if third is None else third
    tamper = r3 if tamper is None else tamper
    old, new, bout, src = f"{d}old.txt", f"{d}new.txt", "b.txt", "src.txt"

    def witness(b):
        from stepup.core.enums import HashUpdateCause
        plan, wf = b.w.plan, b.wf

        def static():
            unconfirmed = wf.declare_static_files(plan, [src])
            wf.update_file_hashes({q: b.hash_of(q) for q in unconfirmed}, cause=HashUpdateCause.CONFIRMED)

        def define(cmd, inp, out, vol=()):
            to_check = wf.define_step(plan, cmd, inp_paths=inp, out_paths=list(out), vol_paths=list(vol))
            if to_check:
                wf.update_file_hashes({q: b.hash_of(q) for q in to_check}, cause=HashUpdateCause.CONFIRMED)
            b.ever_output.update(out)
            b.ever_output.update(vol)
            b.ever_volatile.update(vol)
        b.write(src, "source")
        # build 1
        static()
        define("cmdA", [src], [] if volatile else [old], [old] if volatile else [])
        b.complete(b.find_step("cmdA"))
        b.log.append(["build-1", "cmdA ->", old, "volatile" if volatile else "regular"])
        # build 2: the plan reruns
        plan.reset_for_rerun()
        static()
        define("cmdA", [src], [new])
        define("cmdB", [old], [bout])
        b.complete(b.find_step("cmdA"))
        b.log.append(["build-2 (incomplete: cmdB waits for the detached", old, ")"])
        if tamper:
            Path(old).write_text("the user edited the old output " + old)
            b.log.append(["user-edit", old])
        # build 3
        plan.reset_for_rerun()
        static()
        define("cmdA", [src], [new])
        if third == "b-reads-new":
            define("cmdB", [new], [bout])
        b.log.append(["build-3", third])
        return ["cmdA", "cmdB"]
    witness.info = {"old": old, "new": new, "volatile": volatile, "third": third, "tamper": tamper}
    return witness


# ---------------------------------------------------------------------------------------------
# Directed families at the Workflow level (witness functions for disk_case): a chain of creators
# plan -> mk1 -> mk2 -> ... (steps creating steps, the way plan scripts call sub-plans)
# ---------------------------------------------------------------------------------------------


def _creator_chain(b, depth):
    chain = [b.w.plan]
    for lvl in range(1, depth + 1):
        st = b.define(chain[-1], f"mk{lvl}", inp=["src.txt"])
        chain.append(st)
    return chain


def nested_drop_shapes(max_depth=3):
    for depth in range(1, max_depth + 1):
        for lp in range(0, depth):
            for lc in range(lp + 1, depth + 1):
                for ld in range(lp + 1, lc + 1):
                    yield depth, lp, lc, ld


def nested_drop_witness(depth, lp, lc, ld, k):
    """A producer declared by creator lp of the chain, its only consumer declared by creator lc > lp, every
    creator also declares a mandatory bystander; everything is built.  Then creator ld-1 runs again and no longer
    declares creator ld (lp < ld <= lc): the consumer disappears as a product (lc - ld + 1 levels below the dropped
    step).  Variants by k: producer optional / mandatory, regular / volatile output, directory, a chain of two
    optional producers."""
    optional, volatile, d, two = k % 5 != 4, k % 4 == 3, ["", "d1/", "d1/s/"][k % 3], k % 7 == 5

    def witness(b):
        b.write("src.txt", "source")
        b.declare_static(b.w.plan, "src.txt")
        chain = _creator_chain(b, depth)
        o = f"{d}o.txt"
        outs, vols = ([f"{d}o_reg.txt"], [o]) if volatile else ([o], [])
        b.define(chain[lp], "prod", inp=["src.txt"], out=outs, vol=vols, need=31 if optional else 32)
        feed = outs[0]
        if two:
            b.define(chain[min(lp + 1, lc)], "mid", inp=[feed], out=[f"{d}m.txt"], need=31)
            feed = f"{d}m.txt"
        b.define(chain[lc], "cons", inp=[feed], out=["u.txt"])
        for lvl, c in enumerate(chain):
            b.define(c, f"by{lvl}", inp=["src.txt"], out=[f"by{lvl}.txt"])
        labels = [x for x in b.steps]
        b.complete_all(labels)
        b.meta()
        b.log.append(["build-1 complete"])
        dropped = chain[ld].label
        b.rerun(chain[ld - 1], keep_step=lambda inf: str(inf.command) != dropped)
        b.log.append([f"build-2: {chain[ld - 1].label} ran again and no longer creates", dropped])
        return labels
    witness.info = {"family": "nested-drop", "depth": depth, "producer_level": lp, "consumer_level": lc,
                    "dropped_level": ld, "optional": optional, "volatile": volatile, "dir": d, "two_optional": two}
    return witness


def undeclared_shapes(max_depth=2):
    for depth in range(0, max_depth + 1):
        for ls in range(0, depth + 1):
            for lc in range(0, depth + 1):
                yield depth, ls, lc


def undeclared_witness(depth, ls, lc, k):
    """Build 1: creator ls declares the user's file F static, a step declared by creator lc reads it.  Build 2:
    creator ls runs again without the static() line while the consumer is declared again (same command, a new
    command, or with one more input): F becomes UNDECLARED and keeps the hash recorded while CONFIRMED; the build
    cannot complete.  Build 3: the consumer is dropped or stops using F; nothing declares or uses F any more."""
    second = ["same", "new-step", "redefined"][k % 3]
    third = ["drop-consumer", "stop-using"][(k // 3) % 2]
    where = ["inp.txt", "d1/inp.txt"][k % 2]

    def witness(b):
        b.write("src.txt", "source")
        b.write(where, "user data " + where)
        b.declare_static(b.w.plan, "src.txt")
        chain = _creator_chain(b, depth)
        b.declare_static(chain[ls], where)
        b.define(chain[lc], "cons", inp=[where], out=["y.txt"])
        for lvl, c in enumerate(chain):
            b.define(c, f"by{lvl}", inp=["src.txt"], out=[f"by{lvl}.txt"])
        labels = [x for x in b.steps]
        b.complete_all(labels)
        b.meta()
        b.log.append(["build-1 complete"])
        # build 2
        name = {"same": "cons", "new-step": "cons2", "redefined": "cons"}[second]

        def change2(kw):
            if kw["command"] == "cons":
                kw = dict(kw, command=name)
                if second == "redefined":
                    kw["inp"] = sorted(set(kw["inp"]) | {"src.txt"})
            return kw
        for lvl in sorted({ls, lc}):
            b.rerun(chain[lvl], keep_static=lambda p: p != where, change=change2 if lvl == lc else (lambda kw: kw))
        b.meta()
        b.log.append(["build-2 (incomplete):", where, "lost its static() line;", name, "still names it as input"])
        # build 3

        def change3(kw):
            if kw["command"] == name:
                kw = dict(kw, inp=[x for x in kw["inp"] if x != where] or ["src.txt"])
            return kw
        b.rerun(chain[lc], keep_step=(lambda inf: str(inf.command) != name) if third == "drop-consumer" else (lambda inf: True),
                change=change3 if third == "stop-using" else (lambda kw: kw))
        b.log.append(["build-3:", third])
        return labels + [name]
    witness.info = {"family": "static-undeclared", "depth": depth, "declared_level": ls, "consumer_level": lc,
                    "second_build": second, "third_build": third, "file": where}
    return witness


def e3_revol_history(optional_from_start=False):
    """Directed (finding volatile-redeclared-regular): build 1: step mk writes the VOLATILE output v.log.  Build 2: the plan
    declares the same path as a REGULAR output of mk and makes mk optional; nothing needs it, so it does not run.
    The build is successful and unrestricted; the old v.log must be gone."""
    from . import e3

    def plan(second):
        mk = {"op": "step", "label": "mk", "inp": ["src.txt"]}
        if second:
            mk["out"] = ["v.log"]
            mk["need"] = "OPTIONAL"
        else:
            mk["vol"] = ["v.log"]
        return [{"op": "static", "paths": ["src.txt"]}, mk,
                {"op": "step", "label": "other", "inp": ["src.txt"], "out": ["other.txt"]}]
    project = e3.Project(sources={"src.txt": "source"}, program={"scripts": {"plan.py": plan(False)}, "commands": {}}, env={})
    return project, [{"edits": [{"op": "script", "path": "plan.py", "actions": plan(True)}]}]


def e3_rename_history(rng, volatile=None, third=None, tamper=None):
    """The same three builds through the real serve().  Returns (project, history, info)."""
    from . import e3
    d = rng.choice(["", "", "d1/", "d1/s/"])
    r2, r3, r1 = rng.choice(["drop-b", "drop-b", "b-reads-new"]), rng.random() < 0.2, rng.random() < 0.25
    volatile = r1 if volatile is None else volatile
    third = r2 if third is None else third
    tamper = r3 if tamper is None else tamper
    old, new = f"{d}old.txt", f"{d}new.txt"

    def plan(aout, b_inp):
        acts = [{"op": "static", "paths": ["src.txt"]}]
        a = {"op": "step", "label": "mkA", "inp": ["src.txt"]}
        if volatile and aout == old:
            a["vol"] = [aout]
        else:
            a["out"] = [aout]
        acts.append(a)
        if b_inp is not None:
            acts.append({"op": "step", "label": "useB", "inp": [b_inp], "out": ["b.txt"]})
        return acts
    project = e3.Project(sources={"src.txt": "source"}, program={"scripts": {"plan.py": plan(old, None)}, "commands": {}}, env={})
    h2 = [{"op": "script", "path": "plan.py", "actions": plan(new, old)}]
    h3 = [{"op": "script", "path": "plan.py", "actions": plan(new, new if third == "b-reads-new" else None)}]
    info = {"old": old, "new": new, "third": third, "tamper": tamper, "volatile": volatile}
    return project, [{"edits": h2}, {"edits": h3}], info


def e3_rename_case(rng, **variant):
    """Run it; returns (violations, record)."""
    from . import e3
    project, history, info = e3_rename_history(rng, **variant)
    project = project.clone()
    out = []
    with tempfile.TemporaryDirectory(prefix="verif-clean-e3r-") as root:
        project.materialise(root)
        results = []
        for i, phase in enumerate([{"edits": []}] + history):
            for edit in phase["edits"]:
                e3.apply_edit(project, root, edit)
            if i == 2 and info["tamper"]:
                e3.write_file(os.path.join(root, info["old"]), "the user edited the old output")
            results.append(e3.build(root, project.program, env={}, timeout=120))
    r1, r2, r3 = results
    old = info["old"]
    rec = {"info": info, "rc": [r.returncode for r in results], "files": [sorted(r.files) for r in results],
           "removed_events": [[e[1] for e in r.events if e[0] == "REMOVE"] for r in results],
           "old_node_after_build2": _gstate(e3.parse_graph(r2.graph), old),
           "how": "harness.clean_common.e3_rename_history: plan.py edited twice, harness.e3.build after each edit"}
    if old not in r1.files:
        return out, rec          # nothing was produced: not the scenario
    if (r2.returncode & ~8) != 0 and old not in r2.files:
        out.append(("oracle:e3:guard-ignored:returncode", f"incomplete middle build (rc={r2.returncode}) removed {old}"))
    if (r3.returncode & ~8) == 0:
        g3 = e3.parse_graph(r3.graph)
        st, _ = _gstate(g3, old)
        if info["tamper"]:
            # C07 asks nothing about modified files; C06: a modified regular output must stay
            if not info["volatile"] and old not in r3.files and old in r2.files:
                out.append(("oracle:e3:removed-file:modified-output", f"{old} was edited by the user and removed by build 3"))
        else:
            if old in r3.files:
                sig = "oracle:rename:volatile-output-forgotten" if info["volatile"] else "oracle:e3:orphan-file-kept"
                out.append((sig, f"{old} ({'volatile ' if info['volatile'] else ''}output of mkA before the rename) is unmodified, no longer "
                                 f"in the graph and still on disk after the successful third build"))
            if st is not None:
                out.append(("oracle:e3:orphan-node-kept", f"{old} is still a node ({st}) after the successful third build"))
    return out, rec
