"""Shared harness code of C06 and C07: graph generation through the real Workflow API, dumps,
Gallina printers, temporary trees, and drivers of the real cleanup code."""
from __future__ import annotations

import argparse
import asyncio
import contextlib
import os
import stat
import tempfile

from path import Path

from . import common
from .common import coq_bool, coq_list, coq_option, coq_str
from .wfutil import WF, fake_hash

KIND = {"root": 0, "file": 1, "step": 2, "st": 3}

HEADER = ("From Coq Require Import List NArith Bool.\nImport ListNotations.\n"
          "From SV Require Import lib.Bytes gen.GenClean model.TrellisDD model.Clean.\n"
          "Open Scope N_scope.\n")


# ---------------------------------------------------------------------------------------------
# Gallina printers
# ---------------------------------------------------------------------------------------------


def coq_key(k):
    return f"({k[0]}, {coq_str(k[1])})"


def coq_node(n):
    return ("(mkNode {key} {cr} {det} {fs} {fh} {sh} {need} {ss})".format(
        key=coq_key(n["key"]), cr=coq_option(n["creator"], coq_key), det=coq_bool(n["det"]),
        fs=n["fstate"], fh=coq_option(n["fhash"], str), sh=coq_bool(n["shash"]),
        need=n["need"], ss=n["sstate"]))


def coq_graph(g):
    return ("(mkGraph " + coq_list([coq_node(n) for n in g["nodes"]]) + " "
            + coq_list([f"({coq_key(a)}, {coq_key(b)})" for a, b in g["deps"]]) + ")")


def coq_qfiles(files):
    return coq_list([f"({coq_str(p)}, {coq_option(h, str)})" for p, h in sorted(files.items())])


def coq_strs(xs):
    return coq_list([coq_str(x) for x in xs])


def coq_queue(files, dirs):
    return f"(mkQ {coq_qfiles(files)} {coq_strs(sorted(dirs))})"


def coq_fs(fs):
    return coq_list([f"({coq_str(p)}, {'FDir' if e == 'dir' else f'(FFile {e})'})" for p, e in sorted(fs.items())])


# ---------------------------------------------------------------------------------------------
# Hash identities
# ---------------------------------------------------------------------------------------------


class HashIds:
    """Abstract identity of what FileHash.__eq__ compares: (digest, mode, size)."""

    def __init__(self):
        self.ids = {}

    def of(self, fh):
        if fh is None or fh.is_unknown:
            return None
        key = (bytes(fh.digest), fh.mode, fh.size)
        if key not in self.ids:
            self.ids[key] = len(self.ids) + 1
        return self.ids[key]


# ---------------------------------------------------------------------------------------------
# Dumps of the real objects
# ---------------------------------------------------------------------------------------------

DUMP_SQL = """
SELECT n.kind, n.label, c.kind, c.label, n.detached, f.state, f.hash,
       EXISTS (SELECT 1 FROM step_hash WHERE step_hash.node = n.i), s._implied_need, s.state
FROM node AS n LEFT JOIN node AS c ON n.creator = c.i
LEFT JOIN file AS f ON f.node = n.i LEFT JOIN step AS s ON s.node = n.i
ORDER BY n.kind, n.label
"""


def dump_graph(w, hids):
    from stepup.core.hash import FileHash
    nodes = []
    for kind, label, ckind, clabel, det, fstate, fhash, shash, need, sstate in w.db.execute(DUMP_SQL):
        nodes.append({
            "key": (KIND[kind], label),
            "creator": None if ckind is None else (KIND[ckind], clabel),
            "det": bool(det),
            "fstate": fstate or 0,
            "fhash": hids.of(FileHash.from_json(fhash)) if fhash is not None else None,
            "shash": bool(shash) and kind == "step",
            "need": need or 0,
            "sstate": sstate or 0,
        })
    deps = []
    sql = ("SELECT a.kind, a.label, b.kind, b.label FROM dependency JOIN node AS a ON a.i = source "
           "JOIN node AS b ON b.i = sink ORDER BY a.kind, a.label, b.kind, b.label")
    for ak, al, bk, bl in w.db.execute(sql):
        deps.append(((KIND[ak], al), (KIND[bk], bl)))
    return {"nodes": nodes, "deps": deps}


def dump_queue(wf, hids):
    files, dirs = {}, set()
    for p, h in wf.to_be_deleted.items():
        if p.endswith(os.sep):
            dirs.add(str(Path(p).normpath()))
        else:
            files[str(p)] = None if h is None else hids.of(h)
    return files, dirs


def snapshot_fs(root, hids):
    """path -> 'dir' | hash identity, for everything below root (root itself excluded)."""
    from stepup.core.hash import FileHash
    out = {}
    for dirpath, dirnames, filenames in os.walk(root):
        rel = os.path.relpath(dirpath, root)
        for d in dirnames:
            out[os.path.normpath(os.path.join(rel, d))] = "dir"
        for f in filenames:
            p = os.path.normpath(os.path.join(rel, f))
            out[p] = hids.of(FileHash.unknown().refreshed(os.path.join(root, p)))
    return out


def graph_json(g):
    return {"nodes": [{**n, "key": list(n["key"]), "creator": None if n["creator"] is None else list(n["creator"])}
                      for n in g["nodes"]],
            "deps": [[list(a), list(b)] for a, b in g["deps"]]}


# ---------------------------------------------------------------------------------------------
# A reporter that records events
# ---------------------------------------------------------------------------------------------


class RecClient:
    def __init__(self):
        self.reports = []

    @property
    def call(self):
        return self

    async def report(self, tag, description, pages):
        self.reports.append((tag, str(description)))


def make_reporter():
    from stepup.core.reporter import ReporterClient
    client = RecClient()
    return client, ReporterClient(client)


# ---------------------------------------------------------------------------------------------
# Random workflows through the real API
# ---------------------------------------------------------------------------------------------

DIRS = ["", "d1/", "d2/", "d1/s/", "w1/"]
WORKDIRS = [".", ".", "w1/", "w1/sub/", "w2/"]


class Builder:
    """Grows a workflow inside one open transaction of a wfutil.WF, optionally mirrored on disk
    (cwd must then be the project root)."""

    def __init__(self, w, rng, disk=False):
        self.w, self.wf, self.rng, self.disk = w, w.wf, rng, disk
        self.ever_output = set()      # every path ever passed as out_paths / vol_paths of a step
        self.ever_volatile = set()
        self.statics = set()
        self.tree_files = set()
        self.steps = []               # labels in creation order
        self.counter = 0
        self.written = {}             # path -> content StepUp's steps wrote (disk mode)
        self.log = []                 # operations performed (for witnesses)

    # -- helpers ------------------------------------------------------------------------------
    def new_path(self, prefix):
        self.counter += 1
        return f"{self.rng.choice(DIRS)}{prefix}{self.counter}.txt"

    def write(self, path, content):
        p = Path(path)
        if p.parent != "":
            p.parent.makedirs_p()
        if p.is_dir():
            return False
        p.write_text(content)
        return True

    def hash_of(self, path):
        from stepup.core.hash import FileHash
        if self.disk:
            return FileHash.unknown().refreshed(path)
        return fake_hash(path)

    def attempt(self, fn, what):
        from stepup.core.exceptions import GraphError
        self.w.db.execute("SAVEPOINT cc")
        try:
            fn()
            self.w.db.execute("RELEASE cc")
            self.log.append(what)
            return True
        except GraphError:
            self.w.db.execute("ROLLBACK TO cc")
            self.w.db.execute("RELEASE cc")
            return False

    def find_step(self, label):
        from stepup.core.step import Step
        return self.wf.find(Step, label)

    def file_paths(self):
        from stepup.core.file import File
        return [n.label for n in self.wf.nodes(File, include_detached=True)]

    # -- declarations -------------------------------------------------------------------------
    def add_static(self, creator):
        from stepup.core.enums import HashUpdateCause
        p = self.new_path("s")
        if self.disk:
            self.write(p, "static " + p)

        def go():
            unconfirmed = self.wf.declare_static_files(creator, [p])
            self.wf.update_file_hashes({q: self.hash_of(q) for q in unconfirmed}, cause=HashUpdateCause.CONFIRMED)
        if self.attempt(go, ["static", creator.label, p]):
            self.statics.add(p)

    def add_tree(self, creator):
        self.counter += 1
        t = f"tree{self.counter}/"
        if self.disk:
            Path(t).makedirs_p()
        self.attempt(lambda: self.wf.register_static_tree(creator, t), ["tree", creator.label, t])
        return t

    def tree_labels(self):
        return [r[0] for r in self.w.db.execute("SELECT label FROM node WHERE kind = 'st' AND NOT detached")]

    def add_step(self, creator, cycle=False):
        from stepup.core.enums import HashUpdateCause, Need
        rng = self.rng
        self.counter += 1
        command = f"cmd{self.counter}"
        workdir = rng.choice(WORKDIRS)
        candidates = sorted(set(self.file_paths()) - {"plan.py"})
        inps = rng.sample(candidates, k=min(len(candidates), rng.choice([0, 1, 1, 2])))
        for t in self.tree_labels():
            if rng.random() < 0.4:
                p = f"{t}x{rng.randint(1, 3)}.txt"
                inps.append(p)
        inps = sorted(set(inps))
        outs = [self.new_path("o") for _ in range(rng.choice([0, 1, 1, 2]))]
        vols = [self.new_path("v") for _ in range(rng.choice([0, 0, 1]))]
        need = Need.OPTIONAL if rng.random() < 0.25 else Need.DEFAULT
        if self.disk:
            for p in inps:
                if p.startswith("tree") and not Path(p).exists():
                    self.write(p, "tree file " + p)

        def go():
            to_check = self.wf.define_step(creator, command, inp_paths=inps, out_paths=outs, vol_paths=vols,
                                           workdir=workdir, need=need)
            if to_check:
                self.wf.update_file_hashes({q: self.hash_of(q) for q in to_check}, cause=HashUpdateCause.CONFIRMED)
        if not self.attempt(go, ["step", creator.label, command, workdir, inps, outs, vols, need.name]):
            return None
        self.ever_output.update(outs + vols)
        self.ever_volatile.update(vols)
        label = command if workdir == "." else f"{command}  # wd={workdir}"
        step = self.find_step(label)
        assert step is not None, label
        self.steps.append(label)
        self.tree_files.update(p for p in inps if p.startswith("tree"))
        return step

    def complete(self, step):
        """Record a successful run: outputs BUILT with their hash, volatile outputs written."""
        from stepup.core.enums import FileState, HashUpdateCause, StepState
        from stepup.core.file import File
        from stepup.core.hash import StepHash
        hashes = {}
        for f in step.products(File):
            st = f.get_state()
            if st in (FileState.PLANNED, FileState.OUTDATED):
                if self.disk:
                    if not self.write(f.label, "built " + f.label):
                        continue
                    self.written[f.label] = "built " + f.label
                hashes[f.label] = self.hash_of(f.label)
            elif st == FileState.VOLATILE and self.disk:
                if self.write(f.label, "volatile " + f.label):
                    self.written[f.label] = "volatile " + f.label
        if self.disk and step.command_and_workdir[1] != ".":
            Path(step.command_and_workdir[1]).makedirs_p()
        if hashes:
            self.wf.update_file_hashes(hashes, cause=HashUpdateCause.SUCCEEDED)
        step.set_state(StepState.RUNNING)
        step.mark_completed(StepHash(b"i" + step.label.encode(), None, b"o", None), False)
        self.log.append(["complete", step.label])

    def amend_input(self, step, path):
        ok = self.attempt(lambda: self.wf.amend_step(step, inp_paths=[path], ran_concurrently=lambda a, b: False),
                          ["amend-inp", step.label, path])
        return ok

    def amend_output(self, step):
        p = self.new_path("ao")
        vol = self.rng.random() < 0.3
        kw = {"vol_paths": [p]} if vol else {"out_paths": [p]}
        if self.attempt(lambda: self.wf.amend_step(step, ran_concurrently=lambda a, b: False, **kw),
                        ["amend-out", step.label, p, vol]):
            self.ever_output.add(p)
            if vol:
                self.ever_volatile.add(p)

    # -- whole scenarios ----------------------------------------------------------------------
    def grow(self, nsteps):
        rng = self.rng
        plan = self.w.plan
        for _ in range(rng.choice([0, 1, 2])):
            self.add_static(plan)
        if rng.random() < 0.5:
            self.add_tree(plan)
        made = []
        for _ in range(nsteps):
            creator = plan
            if made and rng.random() < 0.3:
                creator = self.find_step(rng.choice(made))
            st = self.add_step(creator)
            if st is None:
                continue
            made.append(st.label)
            r = rng.random()
            if r < 0.25:
                self.add_static(st)
            elif r < 0.35:
                self.add_tree(st)
            if rng.random() < 0.3:
                self.amend_output(st)
        # amended inputs: attached sinks on (later possibly detached) files
        files = [p for p in self.file_paths() if p != "plan.py"]
        for label in made:
            if files and rng.random() < 0.4:
                self.amend_input(self.find_step(label), rng.choice(files))
        # a creator / dependency cycle: S creates T, T builds o, S amends o as input
        if made and rng.random() < 0.4:
            s = self.find_step(rng.choice(made))
            t = self.add_step(s)
            if t is not None:
                from stepup.core.file import File
                outs = [f.label for f in t.products(File)]
                if outs:
                    self.amend_input(s, rng.choice(outs))
                made.append(t.label)
        return made

    def complete_all(self, labels, fraction=1.0):
        for label in labels:
            st = self.find_step(label)
            if st is not None and self.rng.random() < fraction:
                self.complete(st)

    def drop_random(self, labels):
        """Detach a random subset of declarations, the way a rerun of their creator drops them."""
        from stepup.core.file import File
        from stepup.core.static_tree import StaticTree
        from stepup.core.step import Step
        rng = self.rng
        mode = rng.choice(["detach", "detach", "rerun"])
        if mode == "detach":
            for label in labels:
                if rng.random() < 0.45:
                    st = self.find_step(label)
                    if st is not None:
                        st.detach()
                        self.log.append(["detach-step", label])
            for p in sorted(self.statics):
                if rng.random() < 0.3:
                    f = self.wf.find(File, p)
                    if f is not None:
                        f.detach()
                        self.log.append(["detach-static", p])
            for t in self.tree_labels():
                if rng.random() < 0.3:
                    self.wf.find(StaticTree, t).detach()
                    self.log.append(["detach-tree", t])
        else:
            creators = [self.w.plan] + [self.find_step(label) for label in labels if rng.random() < 0.2]
            for c in creators:
                if c is None:
                    continue
                info = []
                for st in c.products(Step):
                    inf = st.get_info()
                    need = self.w.db.execute("SELECT need FROM step WHERE node = ?", (st.i,)).fetchone()[0]
                    info.append((inf, need))
                c.reset_for_rerun()
                self.log.append(["reset_for_rerun", c.label])
                from stepup.core.enums import Need
                for inf, need in info:
                    if rng.random() < 0.5:
                        self.attempt(lambda inf=inf, need=need: self.wf.define_step(
                            c, inf.command, inp_paths=[str(x) for x in inf.inp], env_deps=inf.env,
                            out_paths=[str(x) for x in inf.out], vol_paths=[str(x) for x in inf.vol],
                            workdir=str(inf.workdir), need=Need(need)),
                            ["redefine", c.label, inf.command])


# ---------------------------------------------------------------------------------------------
# Driving the real cleanup
# ---------------------------------------------------------------------------------------------


async def update_meta(w):
    await w.sched.initialize(None)
    async with w.db:
        w.sched._update_meta_safe()
        w.sched._update_meta_after()
        w.sched._update_meta_ready()


def make_builder(w, reporter, do_remove_outdated=True):
    from stepup.core.builder import Builder as RealBuilder
    from stepup.core.executor import Executor
    executor = Executor(scheduler=None, workflow=None, db=None, reporter=None, explain_rerun=False,
                        keep_going=False, live_progress=False, write_joblog=False, infra_env={})
    return RealBuilder(njob=1, scheduler=w.sched, workflow=w.wf, db=w.db, reporter=reporter,
                       live_progress=False, executor=executor, do_remove_outdated=do_remove_outdated)


@contextlib.contextmanager
def project_dir():
    with tempfile.TemporaryDirectory(prefix="verif-clean-") as d:
        old_root = os.environ.get("STEPUP_ROOT")
        os.environ["STEPUP_ROOT"] = d
        try:
            with contextlib.chdir(d):
                yield Path(d)
        finally:
            if old_root is None:
                os.environ.pop("STEPUP_ROOT", None)
            else:
                os.environ["STEPUP_ROOT"] = old_root


def clean_namespace(all_, safe, commit):
    return argparse.Namespace(all=all_, safe=safe, commit=commit)


def run(coro, timeout=600):
    async def guarded():
        return await asyncio.wait_for(coro, timeout)
    return asyncio.run(guarded())
