"""D39 at system level (engine E3: the real serve(), real digests, one .stepup/graph.db).

A step that `Executor.validate_dynamic_job` parked (PENDING, deferred; repo d760e3e) stays parked
when the detached dynamic input it waits for comes back UNCHANGED by a full recycle.

    /venv/bin/python -m harness.d39_sys [--race] [--json]        (VERIF_REPO selects the tree)

Project: plan.py declares the static files and defines
    g       (out late.txt)
    ./q.py  (sub-plan, inp q.py qsrc.txt): defines prod (inp s1.txt, out x.txt), then amends late.txt
    mky     (inp d.txt, out y.txt)
    ./u.py  (inp u.py y.txt, out user.txt): amends x.txt, reads x.txt y.txt, writes user.txt
    z, z2   (zsrc.txt -> z.txt -> z2.txt; only used by --race to keep a worker busy)

Build 1 (njob 4, explicit gate order).  q defines prod and is DEFERRED (late.txt is not built yet);
prod builds x.txt; u starts after prod stopped, its amend of x.txt is accepted.  g builds late.txt, q
is executed again: `reset_for_rerun` detaches prod and x.txt (x.txt stays BUILT).  u finishes in that
window: `_compute_full_step_hash` and `_flag_inputs_not_final` only look at attached inputs, so u is
SUCCEEDED with a stored hash that does not list x.txt, while the amended edge u <- x.txt stays.  q then
re-defines prod identically (full recycle).  Return code 0, everything SUCCEEDED.

Build 2 (njob 1, no schedule: the order follows from SELECT_NEXT_STEP).  The user edited qsrc.txt and
deleted user.txt.  q: hash check, digest changed -> `_reset_step_to_pending` detaches prod and x.txt.
u: stored hash + a detached dynamic input -> ValidateDynamicJob; the digest of the inputs that are left
equals the stored one ("unchanged") -> PENDING, deferred.  q runs: prod is recycled, x.txt is attached
again, BUILT as before: no state changes, nothing calls mark_step_pending.  The phase ends:
"1 step(s) remained pending ... are deferred, yet none of their inputs is unavailable, e.g. ./u.py",
return code 16 (PENDING), user.txt does not exist.  Build 3 (nothing changed): the same.  A build
from scratch of the same sources: return code 0 and user.txt is built.

--race: build 2 with njob 2 (zsrc.txt is edited too).  Two hash threads are slow, as they are for big
files: the input hashing of z's check lasts until u is CHECKING (so the second worker is busy while q's
check resets q, and the freed worker takes u: a ValidateDynamicJob), and the input hashing of u's
validation lasts until q has been executed again and recorded (prod re-attached).  The outcome of the
validation is committed afterwards: a repair that only reacts to the re-attachment (a trigger) comes
too early for it.
"""
from __future__ import annotations

import contextlib
import json
import os
import sqlite3
import sys
import tempfile
import time


def project(e3):
    plan = [
        {"op": "static", "paths": ["qsrc.txt", "s1.txt", "d.txt", "zsrc.txt", "q.py", "u.py"]},
        {"op": "step", "label": "z", "inp": ["zsrc.txt"], "out": ["z.txt"]},
        {"op": "step", "label": "z2", "inp": ["z.txt"], "out": ["z2.txt"]},
        {"op": "step", "label": "g", "inp": [], "out": ["late.txt"]},
        {"op": "plan", "label": "./q.py", "inp": ["qsrc.txt"]},
        {"op": "step", "label": "mky", "inp": ["d.txt"], "out": ["y.txt"]},
        {"op": "step", "label": "./u.py", "inp": ["u.py", "y.txt"], "out": ["user.txt"]},
    ]
    q = [
        {"op": "gate", "name": "q_def"},
        {"op": "step", "label": "prod", "inp": ["s1.txt"], "out": ["x.txt"]},
        {"op": "gate", "name": "q_amend"},
        {"op": "amend", "inp": ["late.txt"]},
    ]
    u = [
        {"op": "amend", "inp": ["x.txt"]},
        {"op": "read", "paths": ["x.txt", "y.txt"], "required": True},
        {"op": "gate", "name": "u_mid"},
        {"op": "write", "path": "user.txt"},
    ]
    prog = {"scripts": {"plan.py": plan, "q.py": q, "u.py": u},
            "commands": {"g": [{"op": "gate", "name": "g_go"}, {"op": "write", "path": "late.txt", "content": "late"}],
                         "prod": [{"op": "auto"}], "mky": [{"op": "auto"}], "z": [{"op": "auto"}], "z2": [{"op": "auto"}]}}
    return e3.Project(sources={"qsrc.txt": "q0", "s1.txt": "s1", "d.txt": "d", "zsrc.txt": "z0"}, program=prog)


# build 1: u ends between the second start of q (prod detached) and q's re-definition of prod
ORDER1 = ["start:./plan.py", "end:./plan.py", "start:z", "end:z", "start:z2", "end:z2", "start:./q.py", "q_def", "start:prod", "end:prod", "start:mky", "end:mky",
          "start:./u.py", "q_amend", "end:./q.py", "start:g", "g_go", "end:g",
          "start:./q.py", "u_mid", "end:./u.py", "q_def", "q_amend", "end:./q.py"]

TAGS = ("START", "SUCCESS", "FAIL", "DEFERRED", "SKIP", "NOSKIP", "DROPAMEND", "WARNING")


def _probe(handler, db):
    row = db.execute("SELECT step.state, step.deferred, step_hash.hash FROM step JOIN node ON node.i = step.node "
                     "LEFT JOIN step_hash ON step_hash.node = step.node WHERE node.label = './u.py'").fetchone()
    xrow = db.execute("SELECT file.state, node.detached FROM file JOIN node ON node.i = file.node "
                      "WHERE node.label = 'x.txt'").fetchone()
    listed = None
    if row is not None and row[2] is not None:
        info = json.loads(row[2]).get("inp_info") or {}
        listed = sorted((info.get("inp_hashes") or {}).keys())
    return {"u_state": row and row[0], "u_deferred": row and row[1], "u_hash_lists": listed,
            "x_state": xrow and xrow[0], "x_detached": xrow and xrow[1]}


def _poll(root, label, accept, rounds=6000):
    for _ in range(rounds):
        con = sqlite3.connect(os.path.join(root, ".stepup/graph.db"))
        try:
            row = con.execute("SELECT step.state, step._has_hash FROM step JOIN node ON node.i = step.node "
                              "WHERE node.label = ?", (label,)).fetchone()
        finally:
            con.close()
        if row is not None and accept(row):
            return True
        time.sleep(0.005)
    return False


@contextlib.contextmanager
def _slow_hashes(root):
    """--race: see the module docstring.  Only the duration of two hash computations is chosen."""
    import stepup.core.executor as ex
    from stepup.core.enums import StepState
    orig = ex.compute_inp_hashes
    state = {"z": False, "u": False}

    def slow(inp_hashes, cancel_event):
        if not state["z"] and "zsrc.txt" in inp_hashes:
            state["z"] = True
            _poll(root, "./u.py", lambda row: row[0] == StepState.CHECKING.value)
        elif not state["u"] and "u.py" in inp_hashes and "x.txt" not in inp_hashes:
            # the validation job of u (x.txt is detached, so q has lost its hash): wait until q ran again
            state["u"] = True
            _poll(root, "./q.py", lambda row: row[0] == StepState.SUCCEEDED.value and row[1] == 1)
        return orig(inp_hashes, cancel_event)

    ex.compute_inp_hashes = slow
    try:
        yield state
    finally:
        ex.compute_inp_hashes = orig


def d39_system(race: bool = False) -> dict:
    """Deterministic.  Returns the observations of builds 1-3 and of the build from scratch."""
    from . import e3
    p = project(e3)
    out = {"race": race}
    with tempfile.TemporaryDirectory(prefix="verif-d39sys-") as d:
        p.materialise(d)
        r1 = e3.build(d, p.program, njob=4, schedule={"order": ORDER1, "points": ["start", "end"]}, timeout=60,
                      explain=True, probe=_probe)
        out["build1"] = {"rc": r1.returncode, "events": r1.tags(*TAGS), "probe": r1.probe,
                         "released": [t[0] for t in r1.schedule_trace]}
        e3.apply_edit(p, d, {"op": "write", "path": "qsrc.txt", "content": "q1"})
        e3.apply_edit(p, d, {"op": "delete", "path": "user.txt"})
        if race:
            e3.apply_edit(p, d, {"op": "write", "path": "zsrc.txt", "content": "z1"})
            with _slow_hashes(d) as st:
                r2 = e3.build(d, p.program, njob=2, timeout=90, explain=True, probe=_probe)
            out["validation_held"] = bool(st["u"])
        else:
            r2 = e3.build(d, p.program, njob=1, timeout=60, explain=True, probe=_probe)
        out["build2"] = {"rc": r2.returncode, "events": r2.tags(*TAGS), "probe": r2.probe,
                         "user_txt": r2.files.get("user.txt"),
                         "warning": [pg for e in r2.events if e[0] == "WARNING" for pg in e[2]]}
        r3 = e3.build(d, p.program, njob=1, timeout=60, probe=_probe)
        out["build3"] = {"rc": r3.returncode, "events": r3.tags(*TAGS), "probe": r3.probe,
                         "user_txt": r3.files.get("user.txt")}
    rs = e3.from_scratch(e3.final_project(p, []), njob=1, timeout=60)
    out["scratch"] = {"rc": rs.returncode, "user_txt": rs.files.get("user.txt")}
    # the precondition (stored hash of u without x.txt while the edge exists) and the verdict
    out["precondition"] = bool(out["build1"]["rc"] == 0 and out["build1"]["probe"]
                               and out["build1"]["probe"]["u_hash_lists"] == ["u.py", "y.txt"])
    b2, sc = out["build2"], out["scratch"]
    from stepup.core.enums import FileState, StepState
    parked = bool(b2["probe"] and b2["probe"]["u_state"] == StepState.PENDING.value and b2["probe"]["u_deferred"] == 1
                  and b2["probe"]["x_state"] == FileState.BUILT.value and b2["probe"]["x_detached"] == 0)
    out["parked"] = parked
    out["differs_from_scratch"] = (e3.rc_class(b2["rc"]) != e3.rc_class(sc["rc"])) or (b2["user_txt"] != sc["user_txt"])
    return out


def main(argv):
    repo = os.environ.get("VERIF_REPO", "/repo")
    if repo not in sys.path:
        sys.path.insert(0, repo)
    res = d39_system(race="--race" in argv)
    if "--json" in argv:
        print(json.dumps(res, indent=1))
    else:
        print(f"repository {repo}; race={res['race']}; precondition (u's stored hash lacks x.txt): {res['precondition']}")
        for b in ("build1", "build2", "build3"):
            print(f"{b}: rc {res[b]['rc']}  events {res[b]['events']}")
        print(f"build2 probe {res['build2']['probe']}  user.txt {'present' if res['build2']['user_txt'] is not None else 'MISSING'}")
        print(f"scratch: rc {res['scratch']['rc']}  user.txt {'present' if res['scratch']['user_txt'] is not None else 'MISSING'}")
    if res["parked"] or res["differs_from_scratch"]:
        print("D39 REPRODUCED at system level: ./u.py is PENDING and deferred although x.txt is BUILT and attached; "
              "the incremental build differs from the build from scratch")
        return 1
    print("D39 not reproduced: the incremental build agrees with the build from scratch")
    return 0


if __name__ == "__main__":
    sys.exit(main(sys.argv[1:]))
