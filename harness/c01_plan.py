"""C01: correspondence of coq/model/EnginePlan.v (steps defined by steps while the build runs) with
the real system.

Generated projects: plan.py and 1-3 sub-plans (possibly nested), every plan script with 2-3
VERSIONS that define different subsets of a fixed pool of children (plain steps and sub-plans, one
definition per label); steps consume sources and outputs of earlier steps (also across plans);
some sub-plans have an extra input below a static tree.  Histories: change / delete / restore a
source or such a plan input, switch a plan script to another version (children dropped, added,
re-added: recycle), no-op.  Compared per build with the model run inside Coq: the set of steps
(plans included) whose command ran, the set skipped, for every definition of the universe whether
it is attached and whether it is attached and SUCCEEDED, which outputs changed; and the final
sources built FROM SCRATCH by the real system versus the model's build on nothing (attached and
SUCCEEDED sets); the hypotheses of the theorems (wf_u, ustat_later_b) hold for every universe."""
from __future__ import annotations

import random

from . import c01_oracle as co
from . import common, e3

HEADER = ("From Coq Require Import List NArith Bool.\nImport ListNotations.\n"
          "From SV Require Import model.Engine model.EnginePlan model.EnginePlanCheck.\nOpen Scope N_scope.\n")


TREE_FILES_MARKED = True


def gen_plan_case(rng: random.Random, directed: str | None = None):
    nsrc = rng.randint(2, 3)
    # literal static files (never deleted: api.static() of a missing literal path fails in the plan,
    # D26) and files below the static tree data/ (may be deleted and restored)
    sources = [f"s{i}.txt" if i == 0 or rng.random() < 0.5 else f"data/s{i}.txt" for i in range(nsrc)]
    pid = {p: i + 1 for i, p in enumerate(sources)}

    def newpath(p):
        pid[p] = 100 + len(pid)
        return p
    newpath("plan.py")
    # universe entries in schedule order
    ents = [{"label": "./plan.py", "id": 1000, "script": "plan.py", "inp": ["plan.py"], "decl": [], "out": [],
             "cr": None, "kids": []}]
    avail = list(sources)
    cfgs = []
    nplans = 0
    for i in range(1, rng.randint(4, 9)):
        plans = [e for e in ents if e["script"]]
        cr = rng.choice(plans)
        if nplans < 3 and rng.random() < (0.45 if nplans == 0 else 0.25):
            path = newpath(f"p{i}.py")
            decl = []
            if rng.random() < 0.5:
                cfg = newpath(f"data/c{i}.txt")
                cfgs.append(cfg)
                decl = [cfg]
            e = {"label": f"./{path}", "id": 1000 + i, "script": path, "inp": [path] + decl, "decl": decl,
                 "out": [], "cr": cr, "kids": []}
            nplans += 1
        else:
            inp = sorted(rng.sample(avail, rng.randint(1, min(2, len(avail)))))
            out = newpath(f"o{i}.txt")
            e = {"label": f"t{i}", "id": 1000 + i, "script": None, "inp": inp, "decl": inp, "out": [out],
                 "cr": cr, "kids": []}
            avail.append(out)
        cr["kids"].append(e)
        ents.append(e)
    # versions of every plan script: the subset of its children that it defines
    versions = {}
    for e in ents:
        if e["script"]:
            vs = {0: list(e["kids"])}
            for v in range(1, rng.randint(2, 3)):
                vs[v] = [k for k in e["kids"] if rng.random() < 0.6]
            versions[e["script"]] = vs
    literal = [p for p in sources if not p.startswith("data/")]
    statics = literal + sorted(p for p in versions if p != "plan.py") + ["data/"]
    # what plan.py declares static, for the model: the files; a path below the tree data/ becomes a
    # file node (owned by the tree) when a step names it as an input
    ents[0]["statics"] = (TREE_FILES_MARKED and sources + cfgs or literal) + sorted(p for p in versions if p != "plan.py")

    def body(path, v):
        acts = [{"op": "print", "text": f"version {v}"}]
        if path == "plan.py":
            acts.append({"op": "static", "paths": statics})
        for k in versions[path][v]:
            if k["script"]:
                acts.append({"op": "plan", "label": k["label"], "inp": k["decl"]})
            else:
                acts.append({"op": "step", "label": k["label"], "inp": k["decl"], "out": k["out"]})
        return acts
    cur_ver = {p: 0 for p in versions}
    files = sources + cfgs
    version = {p: 0 for p in files}
    content_id = {}

    def cid(key):
        return content_id.setdefault(key, len(content_id) + 1)

    def text(p):
        return f"{p} version {version[p]}\n"
    srcs = {p: text(p) for p in files}
    srcs["data/keep.txt"] = "keep\n"
    project = e3.Project(sources=srcs, program={"scripts": {p: body(p, 0) for p in versions}, "commands": {}})
    present = set(files)

    def world():
        src = [(pid[p], cid(text(p))) for p in files if p in present]
        src += [(pid[p], cid(("script", p, cur_ver[p]))) for p in sorted(versions)]
        return src, []
    history, worlds = [], [world()]
    # directed histories for the mechanisms that random edits combine rarely:
    #   blocked  a sub-plan loses its tree-owned input (it cannot rerun) while its creator reruns
    #            with the same definitions (static files re-declared: its products are marked and
    #            must NOT be dispatched: not safe); a source changes; the input comes back
    #   readd    a plan drops one child and defines it again (recycle with state and subtree)
    script_plan = None
    blocked = [e for e in ents if e["script"] and e["decl"] and e["cr"] is not None]
    parents = [e for e in ents if e["script"] and e["kids"]]
    if directed == "blocked" and blocked:
        e = rng.choice(blocked)
        cr = e["cr"]["script"]
        versions[cr][9] = list(versions[cr][0])
        script_plan = [[("delete", e["decl"][0]), ("script", cr, 9)], [("change", rng.choice(sources))],
                       [("restore", e["decl"][0])], [("script", cr, 0)]]
    elif directed == "readd" and parents:
        e = rng.choice(parents)
        k = rng.choice(e["kids"])
        versions[e["script"]][8] = [x for x in e["kids"] if x is not k]
        script_plan = [[("script", e["script"], 8)], [("script", e["script"], 0)], [("change", rng.choice(sources))]]
    for step_i in range(len(script_plan) if script_plan else rng.randint(1, 5)):
        edits = []
        todo = script_plan[step_i] if script_plan else [None] * rng.randint(1, 2)
        for item in todo:
            kind = item[0] if item else rng.choice(
                ["change", "delete", "restore", "restore", "script", "script", "script", "noop"])
            if item and kind == "change":
                p = item[1]
                version[p] += 1
                present.add(p)
                edits.append({"op": "write", "path": p, "content": text(p)})
            elif item and kind == "delete":
                present.discard(item[1])
                edits.append({"op": "delete", "path": item[1]})
            elif item and kind == "restore":
                present.add(item[1])
                edits.append({"op": "write", "path": item[1], "content": text(item[1])})
            elif item and kind == "script":
                cur_ver[item[1]] = item[2]
                edits.append({"op": "script", "path": item[1], "actions": body(item[1], item[2])})
            elif kind == "change":
                p = rng.choice(files)
                version[p] += 1
                present.add(p)
                edits.append({"op": "write", "path": p, "content": text(p)})
            elif kind == "delete" and any(p.startswith("data/") for p in present):
                p = rng.choice(sorted(p for p in present if p.startswith("data/")))
                present.discard(p)
                edits.append({"op": "delete", "path": p})
            elif kind == "restore":
                gone = sorted(set(files) - present)
                if gone:
                    p = rng.choice(gone)
                    present.add(p)
                    edits.append({"op": "write", "path": p, "content": text(p)})
            elif kind == "script":
                p = rng.choice(sorted(versions))
                cur_ver[p] = rng.choice([v for v in versions[p] if v != cur_ver[p]])
                edits.append({"op": "script", "path": p, "actions": body(p, cur_ver[p])})
        history.append({"edits": edits})
        worlds.append(world())
    tab = [(e["id"], cid(("script", e["script"], v)), [k["id"] for k in ks])
           for e in ents if e["script"] for v, ks in versions[e["script"]].items()]
    return project, history, ents, pid, worlds, tab


def _attached(graph_nodes: dict, label: str):
    n = graph_nodes.get("step:" + label)
    return n is not None, ((n or {"props": {}})["props"].get("state") or ["?"])[0]


def correspondence_plan(ctx):
    n = ctx.scale(12, 120)
    checks, meta, fin_terms, fin_meta = [], [], [], []
    for i in range(n):
        rng = random.Random(f"c01-plan-{ctx.seed}-{ctx.tier}-{i}")
        directed = {0: "blocked", 1: "readd", 2: "blocked"}.get(i)
        project, history, ents, pid, worlds, tab = gen_plan_case(rng, directed)
        ctx.count("plan_directed:" + str(directed))
        results = e3.run_history(project, history, timeout=40)
        labels = {e["label"]: e["id"] for e in ents}
        phases = []
        ran_any = dropped_any = readded_any = kept_any = False
        ever, prev_att, prev_succ = set(), set(), set()
        for k, res in enumerate(results):
            ran = {c["label"] for c in res.commands if c["label"] in labels}
            skipped = {e[1] for e in res.events if e[0] == "SKIP" and e[1] in labels}
            nodes = e3.parse_graph(res.graph)
            att = {l for l in labels if _attached(nodes, l)[0]}
            succ = {l for l in att if _attached(nodes, l)[1] == "SUCCEEDED"}
            ran_any |= bool(ran) and k > 0
            kept_any |= k > 0 and len(ran) < len(att)
            dropped_any |= bool(prev_att - att)
            readded_any |= bool((att - prev_att) & ever)
            ever |= att
            log = [f"({labels[l]}, true)" for l in sorted(ran)] + [f"({labels[l]}, false)" for l in sorted(skipped - ran)]
            eatt = [f"({labels[l]}, {common.coq_bool(l in att)})" for l in sorted(labels)]
            est = [f"({labels[l]}, {common.coq_bool(l in succ)})" for l in sorted(labels)]
            src, env = worlds[k]
            prev = results[k - 1].files if k > 0 else {}
            # outputs of the steps attached and SUCCEEDED after this build and after the previous one
            # (the files of a detached step are removed by the cleanup pass and a step that came back
            # PENDING has none, while the model keeps the old bytes out of sight)
            outs = sorted(p for e in ents for p in e["out"] if e["label"] in succ and e["label"] in prev_succ)
            chg = [f"({pid[p]}, {common.coq_bool(res.files.get(p) != prev.get(p))})" for p in outs]
            phases.append(f"(({common.coq_list([f'({a}, {b})' for a, b in src])}, [], "
                          f"{common.coq_list(log)}, {common.coq_list(est)}, {common.coq_list(chg)}), "
                          f"{common.coq_list(eatt)})")
            prev_att, prev_succ = att, succ
            ctx.count("plan_builds")
            ctx.count("plan_steps_run", len(ran))
        uni = common.coq_list([
            f"mkU (mkStep {e['id']} {common.coq_list([str(pid[p]) for p in e['inp']])} [] "
            f"{common.coq_list([str(pid[p]) for p in e['out']])}) {e['cr']['id'] if e['cr'] else 0} "
            f"{common.coq_list([str(pid[p]) for p in e.get('statics', [])])}" for e in ents])
        tabt = common.coq_list([f"({a}, {b}, {common.coq_list([str(x) for x in c])})" for a, b, c in tab])
        # the final sources built from scratch by the real system, and by the model on nothing
        scr = e3.scratch_of_history(project, history, timeout=40)
        snodes = e3.parse_graph(scr.graph)
        satt = {l for l in labels if _attached(snodes, l)[0]}
        ssucc = {l for l in satt if _attached(snodes, l)[1] == "SUCCEEDED"}
        src, _ = worlds[-1]
        scratch = (f"check_scratch_p {tabt} U {common.coq_list([f'({a}, {b})' for a, b in src])} [] "
                   f"{common.coq_list([f'({labels[l]}, {common.coq_bool(l in satt)})' for l in sorted(labels)])} "
                   f"{common.coq_list([f'({labels[l]}, {common.coq_bool(l in ssucc)})' for l in sorted(labels)])}")
        ctx.count("plan_scratch_builds")
        term = (f"let U := {uni} in wf_u U && ustat_later_b U && "
                f"check_hist_p {tabt} U (p_empty U) {common.coq_list(phases)} && {scratch}")
        checks.append(term)
        # is the model's final state FINISHED (hypothesis of C01_plan_checked_history_equals_scratch)?
        wl = common.coq_list([common.coq_list([f"({a}, {b})" for a, b in ws]) for ws, _ in worlds])
        fin_terms.append(f"let U := {uni} in final_finished_p {tabt} U {wl}")
        # same_result_p speaks of the TRUSTED region: attached, every creator above SUCCEEDED
        def region(nodes_):
            memo = {}

            def tr(e):
                if e["label"] not in memo:
                    a, _ = _attached(nodes_, e["label"])
                    c = e["cr"]
                    memo[e["label"]] = a and (c is None or (tr(c) and _attached(nodes_, c["label"])[1] == "SUCCEEDED"))
                return memo[e["label"]]
            t = {e["label"] for e in ents if tr(e)}
            return t, {l for l in t if _attached(nodes_, l)[1] == "SUCCEEDED"}
        rt_inc, rs_inc = region(e3.parse_graph(results[-1].graph))
        rt_scr, rs_scr = region(snodes)
        fin_meta.append((rt_inc == rt_scr and rs_inc == rs_scr, [sorted(rt_inc ^ rt_scr), sorted(rs_inc ^ rs_scr)]))
        meta.append((project, history, term))
        ctx.case(("engine-plan", i, term), nontrivial=ran_any and kept_any)
        for flag, name in ((dropped_any, "dropped_children"), (readded_any, "readded_children")):
            if flag:
                ctx.count("plan_histories_with_" + name)
    bad = common.run_cases(ctx, "plan", HEADER, checks, chunk=10)
    ctx.traces_validated += len(checks) - len(bad)
    # the theorem's hypothesis evaluated: when the model's final state is finished, the real
    # incremental result must have the attached and SUCCEEDED sets of the real build from scratch
    fins = common.eval_terms(ctx, "planfin", HEADER, fin_terms)
    for i, val in enumerate(fins):
        same, diff = fin_meta[i]
        if i in bad or val not in ("true", "false"):
            ctx.count("plan_final_state_unknown")
            continue
        ctx.count("plan_final_state_finished" if val == "true" else "plan_final_state_not_finished")
        if val == "false":
            ctx.count("plan_not_finished_and_real_differs" if not same else "plan_not_finished_but_real_equal")
        elif not same:
            project, history, term = meta[i]
            ctx.add_failure("correspondence", "E3:EnginePlan:finished", "E3:EnginePlan:finished-state-but-real-result-differs-from-scratch",
                            "the model's final state satisfies the defining equations (finished_pb), so by "
                            "C01_plan_checked_history_equals_scratch the result equals a build from scratch, but the "
                            f"real incremental and from-scratch builds differ in (attached, SUCCEEDED): {diff}",
                            witness={"case": co.case_json(project, history), "model_term": fin_terms[i]})
    for b in bad[:3]:
        project, history, term = meta[b]
        t2 = term.split(" && check_scratch_p")[0].replace("wf_u U && ustat_later_b U && check_hist_p", "trace_hist_p")
        got = common.eval_terms(ctx, "plandiag", HEADER, [t2])
        ctx.add_failure("correspondence", "E3:EnginePlan", "E3:EnginePlan:executed-skipped-attached-set",
                        "model/EnginePlan.v and the real system disagree on which steps ran, were skipped, "
                        "are attached, ended SUCCEEDED or which outputs changed; model did (log, attached, "
                        f"succeeded, changes) per build: {(got[0] or '')[:1500]}",
                        witness={"case": co.case_json(project, history), "model_term": term})
