"""C04: Rebuilding with nothing changed does nothing; edits rerun only their cone."""
from __future__ import annotations

import json
import random
import re
import time

from . import c04_e2, c04_e3, common, e3

PID = "C04"
PROPS_FILE = "props/C04.v"
MODEL_TARGETS = ["model/Noop.vo", "model/NoopExec.vo"]
RULE = ("E2 (correspondence): the shared online generator of harness/e2.py drives the real Workflow + "
        "Scheduler through a random prefix of transactions; every job in flight is then completed "
        "successfully until the real Scheduler.pop_next_job has nothing left; when the phase is successful "
        "(no attached FAILED step, empty pending universe) the real revert_optional_steps and delete_detached "
        "run (state q), then the real startup reset, the real dispatch and a second finalize with nothing "
        "changed. Inside Coq: the model reproduces every outcome and dump of the whole trace (revert_optional "
        "included), quiescent_success_b q = true (the bridge the theorems start from), dispatchable q = [], "
        "the no-change restart cycle of the model has the same dump, and dispatch_guard holds in the "
        "pre-state of every step the real scheduler dispatched. After the edit the rebuild continues with the "
        "real scheduler and the transactions of executor and director (checks that skip or not, reruns, "
        "declare_static / define_step (new, changed, recycled) / amend_step by running steps, successes, failures, "
        "deferrals, confirmations): inside Coq the whole rebuild satisfies the hypotheses of "
        "C04_cone_invariant_partial2 (cone_ops2_first_bad = None; the two delimiting clauses are counted when "
        "they fail, a protocol clause that fails is a failure); on the real dumps every dispatched step, every "
        "step whose state changed and every newly attached node is in the cone computed independently in "
        "Python. A case is non-trivial when it reaches q; distinct by the dump of q. "
        "E3 (oracle, the property itself): generated projects and histories (harness/e3_gen.py) on the real "
        "serve() with simulated commands, restart and watch flavour; after every build with return code 0: a "
        "rebuild with nothing changed and one after same-content rewrites of sources must execute no command, "
        "leave content, mtime and inode of every file and the canonical graph text (with digests) unchanged; "
        "after the last build a random subset of sources is edited (content, deletion, re-creation, a new "
        "file matching a registered pattern) and every executed command of the rebuild must be justified by a "
        "clause of the property read from the graph before/after. A cone case is non-trivial when a command "
        "was executed; distinct by (executed set, edited set). 4 of 7 E3 cases additionally register one "
        "pattern string several times with different sub-patterns for its named wildcard (in one plan, as "
        "static(pattern) next to glob(pattern, sub), and in two different plan steps) over files that the "
        "sub-patterns really separate, with additions and deletions of such files in the history. In the "
        "restart flavour a tracked environment variable additionally goes A -> B -> A over two restarts and "
        "the outputs must be those built with A. Directed restart cases for several tracked variables: steps "
        "that track 2-4 variables (declared, and amended by a script step), a history of environments in which "
        "2-3 variables change at once and then a proper subset goes back to its earlier value while the others "
        "keep the new one; after every start: return code 0, every file equal to a from-scratch build in that "
        "environment; a rebuild with nothing changed (always after the last environment, sometimes in between) "
        "executes nothing, changes nothing and reports no changed variable. The skip rule on every cone rebuild "
        "with return code 0: an executed step that was declared as before, consumes no edited path and whose "
        "input files all have the same content after the rebuild as before it is a failure (a step whose inputs "
        "did not change is skipped, not executed). Directed cases for it (both flavours): absorber steps that "
        "reproduce a constant output from an edited source, chains of 1-3 steps behind them that track 0-2 "
        "variables among SOURCE_DATE_EPOCH, STEPUP_ROOT, STEPUP_BUILD_LOG_LEVEL (injected or overridden by the "
        "director, so Executor.base_env differs from os.environ for them) and VA, next to steps whose input "
        "really changes; and the same steps declared by a nested sub-plan that is recycled when a byte is "
        "appended to plan.py. Direct glob oracle on the real Workflow: 2-4 registrations "
        "of one pattern with sub-patterns {none,[0-9],[a-z],[A-Z]} owned by the plan and two other steps; "
        "startup.rescan_nglobs and process_nglob_changes with nothing changed must leave steps, stored hashes "
        "and recorded matches alone; after one file appears or disappears exactly the owners whose match set "
        "changes (independent matcher) are PENDING without hash and the recorded matches equal a fresh scan. "
        "Since session 4: in the restart flavour a tracked variable may change together with the sources (clause: "
        "tracks an edited variable); steps with amended inputs are inside the skip rule when none of their amended "
        "inputs can become unavailable during the rebuild; the absorbed family carries the features amend (a script "
        "step amending the absorber's output), glob (absorbers per match; a match changes and/or a new one appears: "
        "the owner is rerun and recycles), optional (an OPTIONAL step a mandatory one needs), envedit; for the shapes "
        "the engine model/Engine.v expresses (3/4 of them) the model (static engine with retarget, or the gated amend "
        "engine), evaluated inside Coq on the two worlds, must execute exactly the steps the director executed, skip "
        "only steps the director skipped and change exactly the outputs that changed; with probability 0.15 a plan script "
        "gets one more step that consumes an existing output (of an OPTIONAL step half of the time): re-planning that "
        "changes declarations; the shapes of the graphs the "
        "cone rebuilds start from, of the edits and of the executed / skipped steps are counted (e3:cone:*)")
TRUSTED_BASE = [
    "Coq 8.16.1 kernel; vm_compute in Examples, tie lemmas and in the correspondence evaluation; no native_compute",
    "Print Assumptions: Closed under the global context for every C04 theorem",
    "hand-written models coq/model/Graph.v (owned by C09, tied by the shared E2 correspondence) and "
    "coq/model/Noop.v (dispatch guard, required as a closure, revert_optional, end_of_phase_b, quiescent_success_b, "
    "startup_ops, watch_ops, cone, tcone / cone_op2 and their executable versions)",
    "coq/model/Engine.v (owned by C01: digests as traces, skip check, pending propagation, retarget, amended inputs; tied "
    "by C01's correspondence and by check_cone_dyn / check_cone_amend on C04's absorbed cases) and coq/model/NoopExec.v "
    "(ran, exec_cause, exec_cause_a: what the executed-cone theorems state)",
    "C09's invariant inv_core_b and the lemmas of coq/proofs/Graph*.v that NoopBridge.v / NoopCone2.v import "
    "(closed under the global context as well)",
    "translator/gen_noop.py: AST/SQL fingerprints of the modelled functions, the apply rule of _run_hash_job, "
    "the states excluded by rescan_files, the _HASH_TRANSITIONS table, the list of call sites that make a step PENDING",
    "harness/e2.py + c04_e2.py (transaction bodies re-composed from the same Workflow/Step calls; canonical dump)",
    "harness/e3.py, e3_gen.py (real serve() in-process, simulated commands, canonical graph text) + c04_e3.py "
    "(cone computed from the printed graph; NamedGlob regex for the glob clause)",
    "no extraction: the model is evaluated inside Coq",
]
ASSUMPTIONS = [
    "SQLite executes triggers, CHECK constraints and transactions as documented",
    "equal (digest, mode, size) means unchanged content (FileHash equality; C13); mtime/inode are not compared",
    "not modelled in Graph.st: glob registrations (abstract set G in the cone), resources, targets, static trees, "
    "the cached scheduling columns (_implied_need is modelled by its specification `required`)",
    "the end-of-phase predicate end_of_phase_b of the bridge theorem (C04_bridge) agrees with what the real database "
    "says at the end of every drained E2 phase (validated on every run, both verdicts); the bridge itself is proved",
    "E3 commands are simulated; their behaviour is a function of label, declared inputs and environment",
    "C04_cone_invariant_partial2 holds under the protocol clauses of cone_op2 (requesters RUNNING, completed jobs in "
    "flight, hash-update paths of a completion in the cone, no idle optional step outside the cone dispatched, no "
    "orphaned BUILT input adopted): evaluated on every real E2 rebuild trace, not derived from a model of the executor",
    "on Graph.st the cone is closed under cone membership (an over-approximation of the property's clauses about executed "
    "steps); the statement about EXECUTED steps with absorption by identical rebuilds is proved on the engine model "
    "(C04_exec_cone_*), which has no optional steps and no plan steps (re-planning is the abstract P -> P')",
    "the amend theorems (C04_exec_cone_amend_full: all histories of worlds, fixed plan) speak of one pass in project order; "
    "schedules (C04_exec_cone_all_schedules) are sequential lists of atomic dispatch decisions",
]

SETTINGS = {
    # tier: (E2 cases, E3 restart cases, E3 watch cases, max_phases, processes); ENV_MULTI_CASES below
    "quick": (22, 60, 60, 3, 6),
    "thorough": (120, 1000, 1000, 5, 8),
}
NGLOB_CASES = {"quick": 40, "thorough": 600}
# directed E3 restart cases: steps tracking 2-4 environment variables, several changed at once, a subset reverted
ENV_MULTI_CASES = {"quick": 24, "thorough": 300}
# directed E3 cases (per flavour): an edit absorbed by an identically rebuilt output, downstream steps that track
# variables the director injects; a plan rerun that recycles a nested sub-plan
ABSORBED_CASES = {"quick": 12, "thorough": 160}
# 4 of 7 E3 cases carry several glob registrations that share one pattern string (c04_e3.add_shared_globs)
SHARED_GLOBS = [None, "one_plan", None, "static_and_glob", "two_steps", None, "one_plan+static_and_glob"]


def generate(ctx):
    from translator import gen_noop
    text, facts = gen_noop.generate()
    ctx.write_gen("GenNoop.v", text)
    ctx.stats["pending_call_sites"] = len(facts["pending_sites"])
    ctx.stats["hash_job_rule"] = facts["rule"]


# ---------------------------------------------------------------------------------------------
# Coq evaluation with a retry (other checks rebuild shared .vo files concurrently)
# ---------------------------------------------------------------------------------------------


def _run_cases(ctx, name, header, checks, chunk):
    last = None
    for attempt in range(3):
        try:
            return common.run_cases(ctx, name, header, checks, chunk=chunk)
        except RuntimeError as exc:
            last = exc
            if "inconsistent assumptions" not in str(exc) and "Compiled library" not in str(exc):
                raise
            with common.CoqLock():
                common.coq_make(list(MODEL_TARGETS))
    raise last


# ---------------------------------------------------------------------------------------------
# E2 correspondence
# ---------------------------------------------------------------------------------------------


def _rehash_of_dump(d):
    """Re-hash results of an unchanged file system for the attached files startup would re-hash."""
    det = {k: dt for k, _, dt in d["nodes"]}
    out = []
    for label, state, h in d["files"]:
        if det.get(("file", label), True) or state in (15, 18):
            continue
        out.append((label, None if h is None else (0 if h == "U" else h)))
    return out


def _e2_cases(ctx, n):
    cases = []
    for i in range(n):
        rng = random.Random(f"c04-e2-{ctx.seed}-{ctx.tier}-{i}")
        length = rng.choice([12, 25, 40, 60, 90] if not ctx.thorough() else [12, 25, 40, 60, 90, 130])
        cases.append((i, length, c04_e2.gen_case_sync(rng, length)))
    return cases


def _cone_of_dump(d, edited):
    """Keys reachable from the edited files along dependency rows and creator -> product links
    that start at a step (the `down` relation of model/Noop.v), computed from a canonical dump."""
    succ = {}
    for a, b, _dy in d["deps"]:
        succ.setdefault(tuple(a), set()).add(tuple(b))
    for k, c, _det in d["nodes"]:
        if c is not None and c[0] == "step":
            succ.setdefault(tuple(c), set()).add(tuple(k))
    seen = {("file", p) for p in edited}
    todo = list(seen)
    while todo:
        k = todo.pop()
        for n in succ.get(k, ()):
            if n not in seen:
                seen.add(n)
                todo.append(n)
    return seen


def _check_e2_edit(ctx, i, trace, marks):
    if "edit" not in marks:
        return
    hs, pre, post, outcome = marks["edit"]
    ctx.count("e2:edits")
    if outcome != "ok":
        ctx.add_failure("oracle", "E2:cone", f"oracle:e2:cone:external-update-{outcome}",
                        f"update_file_hashes EXTERNAL {hs} was rejected on a quiescent state",
                        witness={"ops": [list(map(str, t[:2])) for t in trace]})
        return
    cone = _cone_of_dump(pre, [p for p, _ in hs])
    before = {r[0]: r[1] for r in pre["steps"]}
    changed = sorted(r[0] for r in post["steps"] if before.get(r[0]) != r[1])
    ctx.case(("e2cone", i, tuple(changed)), nontrivial=bool(changed))
    ctx.count("e2:edit_steps_made_pending", len(changed))
    outside = [l for l in changed if ("step", l) not in cone]
    notpending = [r[0] for r in post["steps"] if r[0] in changed and r[1] != 21]
    if pre["nodes"] != post["nodes"] or pre["deps"] != post["deps"]:
        ctx.add_failure("oracle", "E2:cone", "oracle:e2:cone:external-update-changed-nodes-or-edges",
                        f"update_file_hashes EXTERNAL {hs} changed node or dependency rows",
                        witness={"ops": [list(map(str, t[:2])) for t in trace]})
    if outside or notpending:
        ctx.add_failure("oracle", "E2:cone", "oracle:e2:cone:step-outside-cone-changed",
                        f"after EXTERNAL {hs}: steps outside the cone changed state: {outside}; "
                        f"changed to something else than PENDING: {notpending}",
                        witness={"ops": [list(map(str, t[:2])) for t in trace], "edited": [p for p, _ in hs]})


CONE2_REASONS = {1: "transaction-outside-the-covered-alphabet", 2: "external-paths-not-edited-static-sources",
                 3: "hash-update-path-or-its-creator-outside-the-cone", 4: "step-outside-the-cone-marked-pending",
                 5: "dispatch-guard-false", 6: "idle-optional-step-outside-the-cone-dispatched",
                 7: "job-not-in-flight", 8: "requesting-step-not-running",
                 9: "orphaned-built-input-outside-the-cone-adopted"}
# clauses that delimit the theorem (C04_cone_idle_optional_clause_needed; design.d/C04.md), as opposed to
# protocol facts of the executor / director
CONE2_EXCUSED = (6, 9)


def _rebuild_parts(trace, marks):
    n_edit, n_end = marks["rebuild"]
    pre = [t for t in trace[:n_edit] if t[0][0] != "dispatch_error"]
    ops = [t for t in trace[n_edit:n_end] if t[0][0] != "dispatch_error"]
    edited = [p for p, _ in marks["edit"][0]]
    return pre, ops, edited


def _rebuild_term(trace, marks):
    pre, ops, edited = _rebuild_parts(trace, marks)
    opl = common.coq_list([c04_e2.cq_base_op(t[0]) for t in ops])
    return (f"(let q := run_xops2 {c04_e2.cq_xops(pre)} (init_st 3) in "
            f"cone_ops2_first_bad2 q {c04_e2.cq_strs(edited)} [] 0 [] q {opl})")


def _py_cone_edges(dump, op):
    """Edges the cone is closed under in one visited state (dump before the transaction) and for the
    transaction itself: dependency rows, creator links, declarations."""
    edges = set()
    for a, b, _dy in dump["deps"]:
        edges.add((tuple(a), tuple(b)))
    for k, c, _det in dump["nodes"]:
        if c is not None:
            edges.add((tuple(c), tuple(k)))
    n = op[0]
    if n == "define_step":
        _, c, l, _i, _e, o, v, _nd = op
        edges.add((tuple(c), ("step", l)))
        for f in tuple(o) + tuple(v):
            edges.add((tuple(c), ("file", f)))
    elif n == "declare_static":
        for f in op[2]:
            edges.add((tuple(op[1]), ("file", f)))
    elif n == "amend_step":
        _, l, _i, _e, o, v = op
        for f in tuple(o) + tuple(v):
            edges.add((("step", l), ("file", f)))
    return edges


def _py_closure(seeds, edges):
    succ = {}
    for a, b in edges:
        succ.setdefault(a, set()).add(b)
    seen, todo = set(seeds), list(seeds)
    while todo:
        k = todo.pop()
        for x in succ.get(k, ()):
            if x not in seen:
                seen.add(x)
                todo.append(x)
    return seen


def _check_e2_rebuild_oracle(ctx, i, trace, marks):
    """On the REAL dumps of a rebuild whose transactions satisfy the hypotheses of C04_cone_invariant_partial2:
    every dispatched step is in the cone of the history up to its dispatch; at the end every step whose state
    differs from the quiescent state and every node that is attached now but was not is in the cone."""
    n_edit, n_end = marks["rebuild"]
    q = marks["edit"][1]
    edited = [("file", p) for p, _ in marks["edit"][0]]
    edges = set()
    before = q
    wit = {"case": i, "edited": [p for _, p in edited],
           "ops": [list(map(str, t[:2])) for t in trace[:n_end] if t[0][0] != "dispatch_error"]}
    ndisp = 0
    for k in range(n_edit, n_end):
        op, _oc, _detail, after = trace[k]
        if op[0] == "dispatch_error":
            continue
        edges |= _py_cone_edges(before, op)
        if op[0] == "dispatch":
            ndisp += 1
            cone = _py_closure(edited, edges)
            if ("step", op[1]) not in cone:
                ctx.add_failure("oracle", "E2:cone2", "oracle:e2:cone2:dispatched-outside-the-cone",
                                f"case {i}: the real scheduler dispatched {op[1]!r} at transaction {k}, which is outside "
                                f"the cone of {wit['edited']} over the history so far", witness=wit)
                return
        before = after
    cone = _py_closure(edited, edges)
    q_state = {r[0]: r[1] for r in q["steps"]}
    q_att = {tuple(k): not det for k, _c, det in q["nodes"]}
    end = before
    changed = sorted(r[0] for r in end["steps"] if q_state.get(r[0]) != r[1] and ("step", r[0]) not in cone)
    newly = sorted(tuple(k) for k, _c, det in end["nodes"]
                   if not det and not q_att.get(tuple(k), False) and tuple(k) not in cone)
    ctx.count("e2:rebuild_dispatches_in_cone", ndisp)
    ctx.case(("e2cone2", i, ndisp, len(cone)), nontrivial=ndisp > 0)
    if changed or newly:
        ctx.add_failure("oracle", "E2:cone2", "oracle:e2:cone2:state-or-attachment-changed-outside-the-cone",
                        f"case {i}: after the rebuild, steps outside the cone changed state: {changed}; nodes outside "
                        f"the cone became attached: {newly}", witness=wit)


def correspondence(ctx):
    n = SETTINGS[ctx.tier][0]
    t0 = time.time()
    cases = _e2_cases(ctx, n)
    ctx.stats["e2_gen_s"] = round(time.time() - t0, 1)
    checks, names = [], []
    for i, length, (trace, marks, disp, opc, ok) in cases:
        for k, v in opc.items():
            ctx.count("e2:" + k, v)
        tr = [t for t in trace if t[0][0] != "dispatch_error"]
        items = c04_e2.cq_xtrace_items(tr)
        checks.append(f"check_trace_x2 3 {common.coq_list(items)}")
        names.append((i, "trace", None))
        ctx.count("e2:cases")
        ctx.count("e2:reached_q", int(ok))
        failed, pending, busy, done = marks["verdict"]
        if done:
            # the end-of-phase predicate of the bridge theorem, evaluated on the model state at the end of
            # the drained phase, must say what the real database says (no attached FAILED step, empty
            # pending universe by the real _implied_need column, no job in flight)
            drained = [t for t in trace[:marks["drained"]] if t[0][0] != "dispatch_error"]
            real_ok = not (failed or pending or busy)
            checks.append(f"Bool.eqb (end_of_phase_b (run_xops2 {c04_e2.cq_xops(drained)} (init_st 3))) "
                          f"{common.coq_bool(real_ok)}")
            names.append((i, "eop", (failed, pending, busy)))
            ctx.count(f"e2:end_of_phase_checks:real_ok={real_ok}")
        if not ok:
            ctx.count(f"e2:not_successful:failed={marks['verdict'][0] > 0},pending={marks['verdict'][1] > 0}")
            ctx.case(("e2", i, "noq"), nontrivial=False)
            continue
        q, after_startup, after_dispatch, after_finalize = marks["dumps"]
        ctx.case(("e2", repr(q)), nontrivial=True)
        # real implementation: the no-change restart is the identity
        if after_startup != q:
            ctx.add_failure("oracle", "E2:restart", "oracle:e2:restart:startup-changed-the-graph",
                            "reset_interrupted_steps changed the stored workflow of a successfully finalized build",
                            witness={"ops": [list(map(str, t[:2])) for t in trace[:marks['q'] + 1]]})
        if marks["restart_dispatch"] is not None or after_dispatch != q:
            ctx.add_failure("oracle", "E2:restart", "oracle:e2:restart:step-dispatched",
                            f"pop_next_job returned {marks['restart_dispatch']} after a no-change restart",
                            witness={"ops": [list(map(str, t[:2])) for t in trace[:marks['q'] + 1]]})
        if after_finalize != q:
            ctx.add_failure("oracle", "E2:restart", "oracle:e2:restart:finalize-changed-the-graph",
                            "revert_optional_steps + delete_detached changed the stored workflow on a no-change rebuild",
                            witness={"ops": [list(map(str, t[:2])) for t in trace[:marks['q'] + 1]]})
        _check_e2_edit(ctx, i, trace, marks)
        if "rebuild" in marks:
            # the rebuild after the edit satisfies the hypotheses of C04_cone_invariant_partial2
            checks.append(f"match {_rebuild_term(trace, marks)} with None => true | Some _ => false end")
            names.append((i, "cone2", None))
            ctx.count("e2:rebuilds")
            ctx.count("e2:rebuild_transactions", marks["rebuild"][1] - marks["rebuild"][0])
        pre = [t for t in trace[:marks["q"]] if t[0][0] != "dispatch_error"]
        ops = c04_e2.cq_xops(pre)
        qterm = f"(run_xops2 {ops} (init_st 3))"
        rehash = c04_e2.cq_hs(_rehash_of_dump(q))
        checks.append(f"quiescent_success_b {qterm}")
        names.append((i, "bridge", None))
        checks.append(f"match dispatchable {qterm} with [] => true | _ => false end")
        names.append((i, "nodispatch", None))
        checks.append(f"let q := {qterm} in unchanged_b q {rehash} && "
                      f"dump_eqb (dump_of (run_xops2 (map XOp (startup_ops q [] {rehash}) ++ "
                      f"[XRevert; XOp OpDeleteDetached]) q)) (dump_of q) && "
                      f"match watch_ops q {rehash} with [] => true | _ => false end")
        names.append((i, "cycle", None))
        if any(s[1] == 21 for s in q["steps"]):
            ctx.count("e2:q_with_reverted_optional_step")
        if any(nd[2] for nd in q["nodes"]):
            ctx.count("e2:q_with_surviving_detached_node")
        # dispatch guard: sound for what the real scheduler dispatched (sample to bound the cost)
        for k, label in disp[:: max(1, len(disp) // 5)][:5]:
            pre_d = [t for t in trace[: k + 1] if t[0][0] != "dispatch_error"]
            checks.append(f"dispatch_guard {common.coq_str(label)} (run_xops2 {c04_e2.cq_xops(pre_d)} (init_st 3))")
            names.append((i, "guard", (k, label)))
            ctx.count("e2:guard_checks")
    ctx.sample({"e2_trace_prefix": [list(map(str, t[:2])) for t in cases[0][2][0][:8]]})
    t0 = time.time()
    bad = _run_cases(ctx, "e2", c04_e2.HEADER, checks, chunk=10)
    ctx.stats["e2_coq_s"] = round(time.time() - t0, 1)
    ctx.traces_validated += sum(1 for nm in names if nm[1] == "trace") - sum(1 for b in bad if names[b][1] == "trace")
    by_case = {i: c for i, _, c in cases}
    # rebuilds: which hypothesis fails first (if any); the oracle on the real dumps for the others
    bad_cone2 = [b for b in bad if names[b][1] == "cone2"]
    bad = [b for b in bad if names[b][1] != "cone2"]
    excused = set()
    if bad_cone2:
        vals = common.eval_terms(ctx, "e2cone2", c04_e2.HEADER,
                                 [_rebuild_term(by_case[names[b][0]][0], by_case[names[b][0]][1]) for b in bad_cone2])
        for b, v in zip(bad_cone2, vals):
            i = names[b][0]
            trace, marks = by_case[i][0], by_case[i][1]
            m = re.search(r"Some\s*\((\d+)%?n?a?t?,\s*(\d+)", v or "")
            idx, code = (int(m.group(1)), int(m.group(2))) if m else (None, None)
            pre, ops, edited = _rebuild_parts(trace, marks)
            if code in CONE2_EXCUSED:
                excused.add(i)
                ctx.count(f"e2:rebuild_outside_the_hypotheses:{CONE2_REASONS[code]}")
                continue
            opname = ops[idx][0][0] if idx is not None and idx < len(ops) else "?"
            ctx.add_failure("correspondence", "E2:cone2",
                            f"E2:cone2:protocol-clause-violated:{CONE2_REASONS.get(code, 'unparsed')}",
                            f"case {i}: transaction {idx} ({opname}) of the rebuild after editing {edited} does not satisfy "
                            f"its clause of cone_op2: {v}",
                            witness={"case": i, "edited": edited, "index": idx,
                                     "ops": [list(map(str, t[:2])) for t in pre + ops[: (idx or 0) + 1]]})
            excused.add(i)
    for i, _, (trace, marks, _disp, _opc, ok) in cases:
        if ok and "rebuild" in marks and i not in excused:
            ctx.count("e2:rebuilds_satisfying_the_hypotheses")
            _check_e2_rebuild_oracle(ctx, i, trace, marks)
    for b in bad[:4]:
        i, what, extra = names[b]
        trace, marks = by_case[i][0], by_case[i][1]
        tr = [t for t in trace if t[0][0] != "dispatch_error"]
        wit = {"case": i, "ops": [list(map(str, t[:2])) for t in tr]}
        if what == "trace":
            items = c04_e2.cq_xtrace_items(tr)
            v = common.eval_terms(ctx, "e2diag", c04_e2.HEADER, [f"first_bad_x2 0 (init_st 3) {common.coq_list(items)}"])
            m = re.search(r"Some (\d+)", v[0] or "")
            k = int(m.group(1)) if m else None
            opname = tr[k][0][0] if k is not None else "?"
            wit["ops"] = wit["ops"][: (k or 0) + 1]
            wit["implementation_dump"] = tr[k][3] if k is not None else None
            ctx.add_failure("correspondence", "E2:noop-trace", f"E2:noop:{opname}",
                            f"model and implementation disagree at transaction {k} ({opname}) of case {i}", witness=wit)
        elif what == "bridge":
            ctx.add_failure("correspondence", "E2:bridge", "E2:bridge:quiescent_success_b-false-after-successful-finalize",
                            f"quiescent_success_b is false on the state a successful finalize left (case {i})", witness=wit)
        elif what == "eop":
            ctx.add_failure("correspondence", "E2:bridge", "E2:bridge:end_of_phase_b-disagrees-with-the-real-verdict",
                            f"end_of_phase_b on the model state at the end of the drained phase disagrees with the real "
                            f"database (attached FAILED steps, PENDING steps with _implied_need > OPTIONAL, jobs in "
                            f"flight) = {extra} (case {i})", witness=wit)
        elif what == "nodispatch":
            ctx.add_failure("correspondence", "E2:nodispatch", "E2:dispatch-guard-nonempty-on-quiescent-state",
                            f"the model's dispatch guard selects a step on a quiescent state (case {i})", witness=wit)
        elif what == "cycle":
            ctx.add_failure("correspondence", "E2:cycle", "E2:model-restart-cycle-not-identity",
                            f"the model's no-change restart cycle changes the dump (case {i})", witness=wit)
        else:
            ctx.add_failure("correspondence", "E2:guard", "E2:dispatch-guard-unsound",
                            f"the real scheduler dispatched {extra[1]} but dispatch_guard is false in the model (case {i})",
                            witness=wit)


# ---------------------------------------------------------------------------------------------
# E3 oracle
# ---------------------------------------------------------------------------------------------


def _e3_items(ctx, scale=1):
    _, nres, nwatch, max_phases, _ = SETTINGS[ctx.tier]
    base = 100000 * (ctx.seed + 1) + (50000 if ctx.thorough() else 0)
    items = []
    for k in range(nres * scale):
        items.append({"seed": base + k, "flavour": "restart", "max_phases": max_phases, "njob": 1 + k % 3,
                      "shared_globs": SHARED_GLOBS[k % 7]})
    for k in range(nwatch * scale):
        items.append({"seed": base + 20000 + k, "flavour": "watch", "max_phases": max_phases, "njob": 1 + k % 3,
                      "shared_globs": SHARED_GLOBS[k % 7]})
    for k in range(ENV_MULTI_CASES[ctx.tier] * scale):
        items.append({"seed": base + 40000 + k, "flavour": "restart", "kind": "env_multi", "njob": 1 + k % 2})
    for k in range(ABSORBED_CASES[ctx.tier] * scale):
        for flavour in ("restart", "watch"):
            items.append({"seed": base + 60000 + k, "flavour": flavour, "kind": "absorbed", "njob": 1 + k % 2})
    # directed: a skip check that is overtaken (an input record replaced by an identical one while the step is CHECKING)
    items.append({"seed": base + 80000, "flavour": "restart", "kind": "overtaken", "variant": "declarer"})
    return items


def _registered(sig):
    return any(k.get("property") == PID and sig in (k.get("signatures") or [k.get("signature")])
               for k in common.load_known())


def _report_e3(ctx, item, rep, minimise=True):
    seen = set()
    for f in rep["failures"]:
        sig = f["signature"]
        if sig in seen:
            continue
        seen.add(sig)
        if sig == c04_e3.INCOMPLETE_HASH_SIGNATURE and not _registered(sig):
            # finding C04-incomplete-stored-hash (findings.d), timing dependent; allowed by the property text
            # ("declared by an executed step"); reported under its own signature once registered
            ctx.count("e3:finding:incomplete-stored-hash:observed-in-a-random-case")
            ctx.notes.append(f"finding C04-incomplete-stored-hash observed (seed {item.get('seed')} "
                             f"{item.get('flavour')}): {f['detail'][:300]}")
            continue
        if sig == c04_e3.AMENDED_STATIC_SIGNATURE and not _registered(sig):
            # finding C04-amended-static-redeclared (findings.d), schedule dependent; reported under its own signature
            # once the coordinator has registered it, until then recorded in the evidence only (as D38 was)
            ctx.count("e3:finding:amended-static-redeclared:observed-in-a-random-case")
            ctx.notes.append(f"finding C04-amended-static-redeclared observed (seed {item.get('seed')} "
                             f"{item.get('flavour')}): {f['detail'][:300]}")
            continue
        wit_item, wit_rep = item, rep
        if item.get("kind") == "overtaken":
            ctx.add_failure("oracle", "E3:" + sig.split(":")[1], sig,
                            f"seed {item['seed']} (overtaken skip check, {rep.get('variant')}): {f['detail'][:600]}",
                            witness={"item": dict(item), "project": rep["project"], "history": [],
                                     "cone_edits": rep.get("cone_edits"), "cone_schedule": None,
                                     "forced_interleaving": rep.get("cone_log", {}).get("reached"),
                                     "failure": {k: v for k, v in f.items() if k != "detail"}})
            continue
        if item.get("kind") == "env_multi":
            f2 = f
            witness = {"item": dict(item, project=rep["project"], envs=rep["envs"]),
                       "failure": {k: v for k, v in f2.items() if k != "detail"}}
            ctx.add_failure("oracle", "E3:" + sig.split(":")[1], sig,
                            f"seed {item['seed']} (several tracked variables): {f2['detail'][:500]}", witness=witness)
            continue
        if minimise:
            try:
                wit_item, wit_rep = c04_e3.minimise(item, rep, sig)
            except Exception as exc:  # noqa: BLE001  minimisation is best effort
                ctx.notes.append(f"minimise crashed: {type(exc).__name__}: {exc}")
        f2 = next((x for x in wit_rep["failures"] if x["signature"] == sig), f)
        witness = {"item": {k: v for k, v in wit_item.items()},
                   "project": wit_rep["project"], "history": wit_rep["history"],
                   "cone_edits": wit_rep.get("cone_edits"), "cone_schedule": wit_rep.get("cone_schedule"),
                   "failure": {k: v for k, v in f2.items() if k != "detail"}}
        ctx.add_failure("oracle", "E3:" + sig.split(":")[1], sig,
                        f"seed {item['seed']} ({item['flavour']}): {f2['detail'][:500]}", witness=witness)


def _run_e3(ctx, items):
    nproc = SETTINGS[ctx.tier][4]
    t0 = time.time()
    reports = e3.pool_map(c04_e3.run_case, items, nproc=nproc)
    # A build that did not finish in time on a loaded machine is not a verdict about C04: the case
    # is run again alone with a generous timeout; what still times out is recorded, not reported.
    for k, rep in enumerate(reports):
        if rep.get("timeout"):
            ctx.count("e3:timeouts_retried")
            reports[k] = c04_e3.run_case(dict(items[k], timeout=300))
            if reports[k].get("timeout"):
                ctx.count("e3:timeouts_unresolved")
                ctx.notes.append(f"E3 case seed={items[k]['seed']} {items[k]['flavour']} timed out twice: "
                                 f"{reports[k]['timeout'][:300]}")
    ctx.stats["e3_s"] = round(ctx.stats.get("e3_s", 0) + time.time() - t0, 1)
    nbuilds = 0
    for item, rep in zip(items, reports):
        nbuilds += rep["nbuilds"]
        for k, v in rep["stats"].items():
            ctx.count("e3:" + k, v)
            if k.startswith("noop:"):
                for j in range(v):
                    ctx.case(("e3", item["seed"], item["flavour"], k, j), nontrivial=True)
        if item.get("kind") == "env_multi":
            ctx.count("e3:env_multi_cases")
        if item.get("kind") == "overtaken":
            ctx.count("e3:overtaken_cases")
            ctx.case(("e3overtaken", item["seed"]), nontrivial=any("reached=True" in k for k in rep["stats"]))
        if item.get("kind") == "absorbed":
            ctx.count("e3:absorbed_cases")
            if rep.get("engine_term"):
                ctx.engine_terms = getattr(ctx, "engine_terms", []) + [(item, rep)]
        if item.get("shared_globs"):
            ctx.count("e3:cases_with_shared_pattern_registrations")
            ctx.count("e3:noop_rebuilds_on_shared_pattern_projects",
                      sum(v for k, v in rep["stats"].items() if k.startswith("noop:")))
        for key in rep.get("cone_keys", []):
            ctx.case(("e3cone", repr(key)), nontrivial=bool(key[0]))
        if rep["failures"]:
            _report_e3(ctx, item, rep)
    ctx.count("e3:builds", nbuilds)
    ctx.count("e3:cases", len(items))
    if reports:
        r0 = reports[0]
        ctx.sample({"e3_case": {"seed": r0["seed"], "flavour": r0["flavour"], "phases": len(r0["history"]),
                                "stats": r0["stats"], "cone_edits": r0.get("cone_edits")}})


def _run_nglob(ctx, n, tag="ng"):
    """Direct oracle on the real Workflow: startup.rescan_nglobs / process_nglob_changes with several
    registrations sharing one pattern string (c04_e2._nglob_case)."""
    t0 = time.time()
    for i in range(n):
        rng = random.Random(f"c04-{tag}-{ctx.seed}-{ctx.tier}-{i}")
        rep = c04_e2.nglob_case_sync(rng)
        for k, v in rep["stats"].items():
            ctx.count("e2:" + k, v)
        ctx.case(("nglob", tag, i), nontrivial=bool(rep["stats"].get("nglob:nochange")))
        for sig, detail, witness in rep["failures"][:1]:
            ctx.add_failure("oracle", "E2:nglob", sig, detail[:700], witness=witness)
    ctx.stats["nglob_s"] = round(ctx.stats.get("nglob_s", 0) + time.time() - t0, 1)


def _run_fixed_witnesses(ctx):
    """Finding C04-optional-upstream (Coq: C04_full_refuted): replayed on the real director on every run, both
    flavours.  The failure is reported under its own precise signature once the coordinator has registered it
    (KNOWN_FINDINGS.json); until then the outcome of the replay is recorded in the evidence only."""
    sig = c04_e3.OPTIONAL_UPSTREAM_SIGNATURE
    registered = any(k.get("property") == PID and sig in (k.get("signatures") or [k.get("signature")])
                     for k in common.load_known())
    for flavour in ("restart", "watch"):
        res = c04_e3.run_optional_upstream(flavour)
        ctx.count(f"e3:witness:optional-upstream:{flavour}:reproduced={res['reproduced']}")
        ctx.case(("e3witness", "optional-upstream", flavour), nontrivial=True)
        rep = res["report"]
        for name in res.get("too_wide", [])[:1]:
            ctx.add_failure("oracle", "E3:witness", f"oracle:cone:d38-signature-not-specific:{name}",
                            f"the classifier of the known finding D38 (c04_e3.optional_upstream_shape) accepts the "
                            f"witness with one fact changed ({name}): its signature would swallow another violation",
                            witness={"item": c04_e3.optional_upstream_item(flavour), "variant": name})
        ctx.count(f"e3:witness:optional-upstream:{flavour}:signature-specific={not res.get('too_wide')}")
        for f in res["other"][:1]:
            ctx.add_failure("oracle", "E3:witness", f["signature"], f"fixed witness optional-upstream ({flavour}): "
                            + f["detail"][:400], witness={"item": c04_e3.optional_upstream_item(flavour)})
        if rep.get("timeout"):
            ctx.notes.append(f"fixed witness optional-upstream ({flavour}) timed out: {rep['timeout'][:200]}")
        elif res["reproduced"] and registered:
            ctx.add_failure("oracle", "E3:witness", sig,
                            f"({flavour}) an idle OPTIONAL step declared by plan.py is executed after editing the script "
                            f"of another plan that now consumes its output; no clause of the property justifies it",
                            witness={"item": c04_e3.optional_upstream_item(flavour),
                                     "project": rep["project"], "history": rep["history"],
                                     "cone_edits": rep.get("cone_edits"), "cone_schedule": None,
                                     "failure": {"signature": sig}})
        elif res["reproduced"]:
            ctx.notes.append(f"finding C04-optional-upstream reproduces on the real director ({flavour}); not yet "
                             f"registered in KNOWN_FINDINGS.json under {sig}")
        else:
            ctx.notes.append(f"finding C04-optional-upstream does NOT reproduce any more ({flavour}): the code or the "
                             f"property changed; C04_full_refuted and design.d/C04.md need a revision")


ENGINE_HEADER = ("From Coq Require Import List NArith Bool.\nImport ListNotations.\n"
                 "From SV Require Import model.Engine model.NoopExec.\nOpen Scope N_scope.\n")


def _check_engine_terms(ctx):
    """The engine model of the executed-cone theorems (model/Engine.v + model/NoopExec.v) against the real director
    on the fixed-plan absorbed cases: inside Coq the model, run on the two worlds of the case, executes exactly
    the steps the director executed, checks and skips only steps the director skipped, and changes exactly the
    outputs that changed."""
    pairs = getattr(ctx, "engine_terms", [])
    ctx.engine_terms = []
    if not pairs:
        return
    t0 = time.time()
    try:
        bad = _run_cases(ctx, "c04engine", ENGINE_HEADER, [rep["engine_term"] for _, rep in pairs], chunk=12)
    except Exception as exc:  # noqa: BLE001  the implementation-only oracles above do not depend on this evaluation
        ctx.notes.append(f"engine-model evaluation not possible ({type(exc).__name__}: {str(exc)[:200]})")
        return
    ctx.stats["engine_coq_s"] = round(ctx.stats.get("engine_coq_s", 0) + time.time() - t0, 1)
    ctx.count("e3:engine_model_cases", len(pairs))
    ctx.count("e3:engine_model_agrees", len(pairs) - len(bad))
    ctx.traces_validated += len(pairs) - len(bad)
    for (item, rep) in pairs:
        ctx.case(("engine", item["seed"], item["flavour"]), nontrivial=bool(rep["cone_log"]["skipped"]))
    for b in bad[:2]:
        item, rep = pairs[b]
        term = rep["engine_term"].replace("check_cone_dyn_opt", "trace_cone_dyn_opt", 1).replace("check_cone_dyn (", "trace_cone_dyn (", 1).replace("check_cone_amend", "trace_cone_amend", 1).replace("trace_cone_dyn_opt", "trace_cone_dyn_opt")
        got = common.eval_terms(ctx, "c04enginediag", ENGINE_HEADER, [term])
        ctx.add_failure("correspondence", "E3:Engine", f"E3:engine:{item['flavour']}:executed-or-skipped-set-differs",
                        f"seed {item['seed']} ({rep.get('variant')}): model/Engine.v and the real director disagree on "
                        f"which steps the rebuild executed / skipped or which outputs changed; observed "
                        f"{rep['cone_log']}; model (log, changes) per build: {(got[0] or '')[:900]}",
                        witness={"item": {k: v for k, v in item.items()}, "project": rep["project"],
                                 "history": rep["history"], "cone_edits": rep.get("cone_edits"), "cone_schedule": None,
                                 "failure": {"signature": "engine", "cone_log": rep["cone_log"]},
                                 "model_term": rep["engine_term"]})


def _run_amended_static_witness(ctx):
    """Finding C04-amended-static-redeclared: the deterministic witness (confirmation of one amended static input held
    until the validation job has ended) replayed on the real director on every run."""
    sig = c04_e3.AMENDED_STATIC_SIGNATURE
    item = c04_e3.amended_static_item()
    rep = c04_e3.run_case(item)
    hit = [f for f in rep["failures"] if f["signature"] == sig and f.get("unjustified") == ["./w.py"]]
    other = [f for f in rep["failures"] if f not in hit]
    ctx.count(f"e3:witness:amended-static-redeclared:reproduced={bool(hit)}")
    ctx.case(("e3witness", "amended-static-redeclared"), nontrivial=True)
    for f in other[:1]:
        ctx.add_failure("oracle", "E3:witness", f["signature"], "fixed witness amended-static-redeclared: "
                        + f["detail"][:400], witness={"item": item})
    if rep.get("timeout"):
        ctx.notes.append(f"fixed witness amended-static-redeclared timed out: {rep['timeout'][:200]}")
    elif hit and _registered(sig):
        ctx.add_failure("oracle", "E3:witness", sig,
                        "a step that amends static files declared by a plan is executed after a byte was appended to that "
                        "plan: it is handed out for validation after the first file was confirmed anew and before the "
                        "second one; no clause of the property justifies it: " + hit[0]["detail"][:300],
                        witness={"item": item, "forced_interleaving": rep.get("cone_log"),
                                 "failure": {"signature": sig}})
    elif hit:
        ctx.notes.append(f"finding C04-amended-static-redeclared reproduces on the real director; not yet registered in "
                         f"KNOWN_FINDINGS.json under {sig}")
    else:
        ctx.notes.append("finding C04-amended-static-redeclared does NOT reproduce any more: the code changed; "
                         "findings.d/C04-amended-static-redeclared.json and design.d/C04.md need a revision")


def oracle(ctx):
    _run_nglob(ctx, NGLOB_CASES[ctx.tier])
    _run_fixed_witnesses(ctx)
    _run_amended_static_witness(ctx)
    _run_e3(ctx, _e3_items(ctx))
    _check_engine_terms(ctx)


def search(ctx):
    """An obligation or the translator broke and nothing above produced a witness: a deeper E3 run."""
    items = _e3_items(ctx, scale=4)
    for it in items:
        it["seed"] += 7000000                      # other seeds than the oracle's
        it["max_phases"] = max(it["max_phases"], 4)
    _run_e3(ctx, items)
    _check_engine_terms(ctx)
    _run_nglob(ctx, 4 * NGLOB_CASES[ctx.tier], tag="ngsearch")


def replay(ctx, obj):
    w = obj["failure"].get("witness") or {}
    if "item" in w:
        item = dict(w["item"])
        if item.get("kind") not in ("env_multi", "overtaken", "amended_static"):
            item.setdefault("project", w.get("project"))
            item.setdefault("history", w.get("history"))
        if w.get("cone_edits") is not None:
            item["cone_edits"] = w["cone_edits"]
            item["cone_schedule"] = w.get("cone_schedule")
        rep = c04_e3.run_case(item)
        print("replayed E3 case:", json.dumps([f["signature"] for f in rep["failures"]]))
        if rep["failures"]:
            _report_e3(ctx, item, rep, minimise=False)
    elif "registrations" in w:
        print("replaying the glob oracle (the witness names files, pattern and registrations):", json.dumps(w)[:400])
        _run_nglob(ctx, NGLOB_CASES[ctx.tier])
    else:
        correspondence(ctx)
        oracle(ctx)
