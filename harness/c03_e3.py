"""C03 on the system-level engine E3 (real serve(), simulated steps, replayable gate schedules).

OBSERVE of the property: the per-command read log versus the digests at the end of the build.
For every step that is SUCCEEDED in the final graph, the last execution of its command must have
read, for every file that the final graph lists as its input, exactly the content the file has at
the end of the build.

* fixed race windows with explicit schedules: producer finishes between a consumer's read and its
  amend (must be DEFERRED and run again); input under a static tree confirmed between define and
  dispatch; a file modified by an undeclared writer during a command (must FAIL, build drained);
  the producer-rerun scenario of findings.d/C03-rerun.json;
* generated projects and histories of e3_gen under seeded random schedules.
"""
from __future__ import annotations

import tempfile

from .p_c03_sigs import SIG_OTHER, SIG_RERUN


def _final_digests(e3, res):
    return {p: e3.content_digest(c) for p, c in res.files.items()}


def readlog_oracle(e3, res, where):
    """Failures (signature, detail, witness) for one BuildResult."""
    fails = []
    if res.returncode == -1:
        return fails
    nodes = res.nodes()
    final = _final_digests(e3, res)
    last = {}
    for c in res.commands:
        last[c["label"]] = c
    for key, node in nodes.items():
        if not key.startswith("step:"):
            continue
        label = key[5:]
        if node["props"].get("state") != ["SUCCEEDED"] or label not in last:
            continue
        cmd = last[label]
        if cmd["rc"] != 0:
            continue
        inputs = {s[5:] for s in node["rel"].get("source", []) if s.startswith("file:")}
        for path, digest, stamp in cmd["reads"]:
            if path not in inputs or path not in final:
                continue
            if digest != final[path]:
                writers = [o["label"] for o in res.commands if o is not cmd
                           for w in o["writes"] if w[0] == path and cmd["start"] < w[2] < cmd["stop"]]
                sig = SIG_RERUN if writers else SIG_OTHER
                fails.append((sig,
                              f"E3 {where}: step {label!r} is SUCCEEDED, its last command read {path} with digest "
                              f"{digest} but the file ends the build with {final[path]}"
                              + (f" (rewritten during the command by {writers})" if writers else ""),
                              {"e3": where, "label": label, "path": path, "read": digest, "final": final[path],
                               "events": res.tags("START", "SUCCESS", "FAIL", "DEFERRED", "SKIP"),
                               "schedule": [t[0] for t in res.schedule_trace]}))
    return fails


def _project_rerun(e3):
    plan = [
        {"op": "static", "paths": ["src.txt"]},
        {"op": "step", "label": "g", "inp": [], "out": ["gen.txt"]},
        {"op": "if_exists", "path": "gen.txt",
         "then": [{"op": "step", "label": "p", "inp": ["gen.txt", "src.txt"], "out": ["f.txt"]}],
         "else": [{"op": "step", "label": "p", "inp": ["src.txt"], "out": ["f.txt"]}]},
        {"op": "step", "label": "c", "inp": ["f.txt"], "out": ["o.txt"]},
        {"op": "gate", "name": "plan_amend"},
        {"op": "amend", "inp": ["gen.txt"]},
    ]
    prog = {"scripts": {"plan.py": plan},
            "commands": {"g": [{"op": "gate", "name": "g_go"}, {"op": "write", "path": "gen.txt", "content": "gen"}],
                         "p": [{"op": "auto"}],
                         "c": [{"op": "read", "paths": ["f.txt"], "required": True}, {"op": "gate", "name": "c_mid"},
                               {"op": "write", "path": "o.txt"}]}}
    order = ["start:./plan.py", "start:g", "start:p", "end:p", "start:c", "plan_amend", "end:./plan.py", "g_go", "end:g",
             "start:./plan.py", "plan_amend", "end:./plan.py", "start:p", "end:p", "c_mid", "end:c"]
    return e3.Project(sources={"src.txt": "hello"}, program=prog), order


def _project_read_then_amend(e3, producer_first):
    plan = [
        {"op": "static", "paths": ["src.txt", "w.py"]},
        {"op": "step", "label": "p", "inp": ["src.txt"], "out": ["f.txt"]},
        {"op": "step", "label": "./w.py", "inp": ["w.py"], "out": ["o.txt"]},
    ]
    worker = [
        {"op": "read", "paths": ["f.txt"], "required": False},
        {"op": "gate", "name": "w_mid"},
        {"op": "amend", "inp": ["f.txt"]},
        {"op": "read", "paths": ["f.txt"], "required": True},
        {"op": "write", "path": "o.txt"},
    ]
    prog = {"scripts": {"plan.py": plan, "w.py": worker}, "commands": {"p": [{"op": "auto"}]}}
    if producer_first:
        order = ["start:./plan.py", "end:./plan.py", "start:p", "end:p", "start:./w.py", "w_mid", "end:./w.py"]
    else:
        order = ["start:./plan.py", "end:./plan.py", "start:./w.py", "start:p", "end:p", "w_mid", "end:./w.py"]
    return e3.Project(sources={"src.txt": "hello"}, program=prog), order


def _project_tree(e3):
    plan = [
        {"op": "static", "paths": ["data/"]},
        {"op": "step", "label": "c", "inp": ["data/x.txt"], "out": ["o.txt"]},
    ]
    prog = {"scripts": {"plan.py": plan}, "commands": {"c": [{"op": "auto"}]}}
    return e3.Project(sources={"data/": "", "data/x.txt": "x1"}, program=prog), None


def _project_external(e3):
    plan = [
        {"op": "static", "paths": ["src.txt"]},
        {"op": "step", "label": "c", "inp": ["src.txt"], "out": ["o.txt"]},
        {"op": "step", "label": "evil", "inp": [], "out": ["e.txt"]},
    ]
    prog = {"scripts": {"plan.py": plan},
            "commands": {"c": [{"op": "read", "paths": ["src.txt"], "required": True}, {"op": "gate", "name": "c_mid"},
                               {"op": "write", "path": "o.txt"}],
                         "evil": [{"op": "gate", "name": "evil_go"}, {"op": "write", "path": "src.txt", "content": "tampered!"},
                                  {"op": "write", "path": "e.txt", "content": "e"}]}}
    order = ["start:./plan.py", "end:./plan.py", "start:c", "start:evil", "evil_go", "end:evil", "c_mid", "end:c"]
    return e3.Project(sources={"src.txt": "hello"}, program=prog), order


def run_e3(ctx):
    """Returns a list of (signature, detail, witness)."""
    try:
        from . import e3
    except Exception as exc:  # noqa: BLE001
        ctx.notes.append(f"E3 engine not importable: {exc}")
        return []
    fails = []

    def run_fixed(name, project, order, expect, njob=4):
        with tempfile.TemporaryDirectory(prefix="verif-c03e3-") as d:
            project.materialise(d)
            sched = {"order": order, "points": ["start", "end"]} if order else {"seed": 1, "points": ["start", "end"]}
            try:
                res = e3.build(d, project.program, njob=njob, schedule=sched, timeout=60)
            except e3.E3Error as exc:
                ctx.notes.append(f"E3 {name}: engine error {type(exc).__name__}: {str(exc)[:200]}")
                return None
        ctx.case(("e3", name), nontrivial=True)
        ctx.count("e3_fixed")
        fails.extend(readlog_oracle(e3, res, name))
        tags = res.tags("START", "SUCCESS", "FAIL", "DEFERRED", "SKIP")
        for tag_label in expect.get("must", []):
            if list(tag_label) not in tags:
                fails.append((f"oracle:e3:{name}:missing-{tag_label[0].lower()}",
                              f"E3 {name}: expected event {tag_label} not seen; events {tags}",
                              {"e3": name, "events": tags}))
        for tag_label in expect.get("never", []):
            if list(tag_label) in tags:
                fails.append((f"oracle:e3:{name}:unexpected-{tag_label[0].lower()}",
                              f"E3 {name}: event {tag_label} must not occur; events {tags}",
                              {"e3": name, "events": tags}))
        return res

    p, o = _project_rerun(e3)
    run_fixed("producer-rerun-during-consumer", p, o, {})
    p, o = _project_read_then_amend(e3, producer_first=False)
    run_fixed("producer-finishes-between-read-and-amend", p, o,
              {"must": [("DEFERRED", "./w.py"), ("SUCCESS", "./w.py")]})
    p, o = _project_read_then_amend(e3, producer_first=True)
    run_fixed("producer-finished-before-consumer-started", p, o,
              {"must": [("SUCCESS", "./w.py")], "never": [("DEFERRED", "./w.py")]}, njob=1)
    p, o = _project_tree(e3)
    run_fixed("tree-input-confirmed-between-define-and-dispatch", p, o, {"must": [("SUCCESS", "c")]})
    p, o = _project_external(e3)
    res = run_fixed("external-modification-during-command", p, o, {"must": [("FAIL", "c")], "never": [("SUCCESS", "c")]})
    if res is not None:
        from stepup.core.enums import ReturnCode
        if not (res.returncode & ReturnCode.FAILED.value):
            fails.append(("oracle:e3:external-modification:return-code-not-failed",
                          f"E3 external modification during a command: return code {res.returncode} lacks FAILED",
                          {"events": res.tags()}))
        # draining: nothing may be started after the FAIL of c
        tags = res.tags("START", "FAIL")
        if ["FAIL", "c"] in tags and any(t[0] == "START" for t in tags[tags.index(["FAIL", "c"]):]):
            fails.append(("oracle:e3:external-modification:dispatch-after-fail",
                          f"a command was started after c failed on a changed input: {tags}", {"events": tags}))

    # generated projects under random schedules
    try:
        from . import e3_gen
    except Exception as exc:  # noqa: BLE001
        ctx.notes.append(f"e3_gen not importable: {exc}")
        return fails
    import time as _time
    t0 = _time.time()
    n = ctx.scale(8, 80)
    for k in range(n):
        seed = ctx.rng.randrange(1 << 30)
        try:
            project, history = e3_gen.gen_case(seed, max_phases=3)
            results = e3.run_history(project, history, mode="restart", njob=3, resources="tok:2",
                                     schedule={"seed": seed, "points": ["start", "end"]}, timeout=60)
        except e3.E3Error as exc:
            ctx.notes.append(f"E3 generated seed {seed}: engine error {type(exc).__name__}: {str(exc)[:160]}")
            continue
        except Exception as exc:  # noqa: BLE001
            ctx.notes.append(f"E3 generated seed {seed}: {type(exc).__name__}: {str(exc)[:160]}")
            continue
        ctx.count("e3_generated_histories")
        for i, res in enumerate(results):
            ctx.count("e3_generated_builds")
            nd = sum(1 for t in res.tags("DEFERRED"))
            ctx.case(("e3gen", seed, i), nontrivial=nd > 0 or res.max_running > 1)
            if nd:
                ctx.count("e3_generated_builds_with_deferral")
            for sig, detail, wit in readlog_oracle(e3, res, f"generated seed={seed} phase={i}"):
                wit["seed"] = seed
                fails.append((sig, detail, wit))
    ctx.stats["e3_generated_wall_s"] = round(_time.time() - t0, 1)
    return fails
