"""C09: the stored workflow satisfies its invariants after every transaction."""
from __future__ import annotations

import asyncio
import random

from . import c09_cases, common, e2

PID = "C09"
PROPS_FILE = "props/C09.v"
MODEL_TARGETS = ["model/GraphDump.vo", "model/GraphInv.vo", "model/GraphTree.vo", "model/GraphTreeInv.vo", "model/GraphCheck.vo",
                 "model/GraphExt.vo"]
RULE = ("E2: a seeded online generator drives the real Workflow + Scheduler (in-memory SQLite, dispatch through the real "
        "pop_next_job) through the transaction alphabet of model/GraphTree.v (the 14 kinds of model/Graph.v with the tree-aware declaration functions + register_static_tree) following the executor / director / startup / "
        "finalize protocols (rejected requests, crashes, detached-but-running steps, identical re-declaration = full "
        "recycle, outputs reproduced identically, a directed scenario: succeed - made pending - dispatched - detached in "
        "flight by the creator's rerun - completes - re-declared, volatile output renamed while a new step consumes the old "
        "path; families of 2-3 steps with producer/consumer chains that are detached by the rerun of their creator and declared again in varying order with changed input/output lists drawn from the files of the family, amend_step with inputs among the outputs of detached downstream steps); after every transaction the canonical dump (nodes with creator and detached flag, file rows, step rows, "
        "dependency edges with dynamic flag, step_hash rows, env_var rows) and the outcome class (ok / usage error / "
        "internal error or non-terminating statement) are compared with the Gallina model evaluated inside Coq; inv_b, "
        "inv_full_b (I4, I5c), inv_succeeded_b, inv_running_nohash_b, inv_treefile_b (T1) and the protocol predicate protocol_ok_run_t are "
        "evaluated on every prefix; the tree-ownership oracle (non-nested attached trees, attached files under an attached tree are its STATIC files) runs on every dump of the real database; fixed witness traces of the findings D16, D31, D33 and of the hold protocol, and the D17 "
        "scenario through the real Executor.run_hash_job, are replayed on every run; the real Trellis/Workflow consistency "
        "check runs in strict mode at the end of every trace; an independent DFS over all dependency rows of every dump checks acyclicity. A transaction is non-trivial when it changed the dump or was "
        "rejected; distinct by (operation, resulting dump). The startup family runs the alphabet op_x of model/GraphExt.v: "
        "the real startup.reset_interrupted_steps (two transactions, dumped separately), the real finalize.revert_optional_steps, "
        "Workflow.initialize_boot on an existing database, process_nglob_changes with real nglob registrations, the "
        "'inputs overtaken' branch of try_skip_job, start_build_phase, and frame transactions (register_nglob, "
        "reconcile_targets, set_duration, env_var.value) whose dump must not change; the argument shapes of every "
        "transaction kind are counted in the evidence (shape:*)")
TRUSTED_BASE = [
    "Coq 8.16.1 kernel; vm_compute in Examples/witnesses and in the correspondence evaluation; no native_compute",
    "Print Assumptions: Closed under the global context for every C09 theorem",
    "hand-written model coq/model/Graph.v (trellis.py, workflow.py, file.py, step.py, the job transactions of "
    "executor.py, startup.reset_interrupted_steps), tied to the code by the E2 correspondence; its constant tables "
    "(enums, _HASH_TRANSITIONS, trigger and CHECK tables) by translator/gen_graph.py + proofs/GraphTables.v",
    "harness/e2.py: the transaction bodies of the executor are re-composed from the same Workflow/Step calls "
    "(read from executor.py), not executed through Executor itself (except the D17 hash-job scenario)",
    "the build-loop protocol (protocol_ok) under which I4/I5c are proved is validated on every executed trace, not proved",
    "no extraction: the model is evaluated inside Coq",
    "translator/gen_writers.py: the SQL statement scanner (regular expressions over every string expression of the "
    "package) and the name-based call graph that decide which transactions reach a writer of a dump column",
]
ASSUMPTIONS = [
    "SQLite executes triggers, CHECK constraints and transactions as documented",
    "not modelled: glob registrations, resources, targets, durations, scheduling caches; static trees: wildcard / .stepup / project-root rejections of register_static_tree",
    "creators that are not the root or a step node are outside the validated domain of the tie",
]


def generate(ctx):
    from translator import gen_graph, gen_writers
    ctx.facts = gen_graph.generate(ctx)
    # writer inventory: every write statement / transaction of stepup/core is classified against the
    # columns the dump reads; a new writer of the stored workflow fails closed here
    e2._check_dump_columns()
    ctx.writers = gen_writers.generate(ctx)


def _traces(ctx, n, length, tag="", startup=False):
    out = []
    for i in range(n):
        rng = random.Random(f"e2-{ctx.seed}-{ctx.tier}-{tag}{i}")
        out.append(asyncio.run(asyncio.wait_for(e2.gen_trace(rng, length, startup=startup), 600)))
    return out


HEADER_C = e2.HEADER.replace("model.GraphTree.", "model.GraphTree model.GraphInv model.GraphTreeInv model.GraphCheck model.GraphExt.")
PER_STARTUP = ("e2c", "inv_b", "repaired")


def startup_family(ctx, tag=""):
    """Traces of the alphabet op_c (model/GraphCheck.v): restarts run Workflow._check_consistency (production
    mode, with its repair) before reset_interrupted, some runs are recorded as successful without all
    their outputs (outside the build-loop protocol), every trace ends with the check.  Compared: outcome
    and dump after every transaction; inv_b on every prefix; I4 (inv_succeeded_b) right after every
    check_consistency; the strict consistency check of the implementation after the final repair."""
    n, length = ctx.scale((10, 90), (40, 150))
    traces = _traces(ctx, n, length, tag + "startup-", startup=True)
    ctx.startup_traces = traces
    cc = c09_cases
    builders = []
    for tr, cnt, strict in traces:
        for k, v in cnt.items():
            ctx.count("startup:" + k, v)
        prev = None
        for op, oc, detail, d in tr:
            ctx.case(("startup", op[0], repr(d)), nontrivial=(d != prev or oc != "ok"))
            if op[0] == "check_consistency" and d != prev:
                ctx.count("startup:check_consistency_repairs")
            prev = d
        builders += [
            lambda it, tr=tr: f"check_trace_x 3 {cc.cq_items_x(tr, it)}",
            lambda it, tr=tr: f"all_prefixes_ok_x inv_b (init_st 3) {cc.cq_ops_x(tr, it)}",
            lambda it, tr=tr: f"repaired_after_check_x (init_st 3) {cc.cq_ops_x(tr, it)}",
        ]
    npt = len(PER_STARTUP)
    bad = cc.run_cases(ctx, "e2c", HEADER_C, builders, chunk=4 * npt, jobs=4)
    for b in bad:
        kind, i = PER_STARTUP[b % npt], b // npt
        tr = [t for t in traces[i][0] if t[0][0] != "dispatch_error"]
        k = None
        if kind == "e2c":
            it2 = cc.Interner()
            term = f"first_bad_x 0 (init_st 3) {cc.cq_items_x(tr, it2)}"
            v = common.eval_terms(ctx, "e2cdiag", HEADER_C + "\n".join(it2.defs) + "\n", [term])
            import re
            m = re.search(r"Some (\d+)", v[0] or "")
            k = int(m.group(1)) if m else None
        site = tr[k][0][0] if k is not None else "?"
        sig = {"e2c": f"E2:graph:{site}", "inv_b": "E2:inv_b-false-on-reachable-state",
               "repaired": "E2:succeeded-step-with-unbuilt-output-after-check_consistency"}[kind]
        ctx.add_failure("correspondence", f"E2:startup:{kind}", sig,
                        f"startup family, trace {i}: " +
                        (f"model and implementation disagree at transaction {k}: {tr[k][0]} -> implementation {tr[k][1:3]}"
                         if kind == "e2c" and k is not None else f"{kind} is false"),
                        witness={"ops": [list(map(str, t[:2])) for t in (tr[: k + 1] if k is not None else tr)],
                                 "implementation_dump": tr[k][3] if k is not None else None})
    ctx.traces_validated += len(traces) - len([b for b in bad if b % npt == 0])


PER_TRACE = ("e2", "inv_b", "inv_succeeded_b", "inv_treefile_b", "protocol_ok_run_t", "inv_full_b",
             "inv_tree_strong_b", "tree_hyps")


def _trace_builders(tr):
    """The checks about one executed trace; they share the named constants of the cases file (the
    operation list is defined once per trace, see c09_cases.Interner)."""
    cc = c09_cases
    s0 = "(init_st 3)"
    return [
        # the comparison with the implementation runs the TOP layer of the model (step_op_x: the older
        # layers + the re-attachment trigger and validate's flag of 84081f2)
        lambda it: cc.cq_trace_x(tr, 3, it),
        lambda it: f"all_prefixes_ok_x inv_b {s0} {cc.cq_ops_x(tr, it)}",
        lambda it: f"all_prefixes_ok_t inv_succeeded_b {s0} {cc.cq_ops_c(tr, it)}",
        lambda it: f"all_prefixes_ok_t inv_treefile_b {s0} {cc.cq_ops_c(tr, it)}",
        lambda it: f"protocol_ok_run_t {s0} {cc.cq_ops_c(tr, it)}",
        lambda it: f"all_prefixes_ok_t inv_full_b {s0} {cc.cq_ops_c(tr, it)}",
        # T2/T3 (incl. the inductive claims conjunct) on every prefix of the traces in which no
        # define_step re-attaches a tree (C09_tree_ownership_every_prefix_partial, evaluated)
        lambda it: (f"negb (tree_hyps_run {s0} {cc.cq_ops_c(tr, it)}) || "
                    f"all_prefixes_ok_t inv_tree_strong_b {s0} {cc.cq_ops_c(tr, it)}"),
        # not a check: `false` here means that the trace satisfies the hypotheses of the partial tree
        # theorems (counted for non-vacuity)
        lambda it: f"negb (tree_hyps_run {s0} {cc.cq_ops_c(tr, it)})",
    ]


def correspondence(ctx, n_length=None, tag=""):
    n, length = n_length or ctx.scale((36, 100), (150, 160))
    traces = _traces(ctx, n, length, tag)
    ctx.traces = traces
    header = HEADER_C
    builders = []
    for tr, cnt, strict in traces:
        for k, v in cnt.items():
            ctx.count(k, v)
        prev = None
        for op, oc, detail, d in tr:
            key = (op[0], repr(d))
            ctx.case(key, nontrivial=(d != prev or oc != "ok"))
            prev = d
        builders += _trace_builders(tr)
    ctx.sample({"trace_prefix": [list(map(str, t[:2])) for t in traces[0][0][:8]]})
    fixed = [(n, tr) for n, tr in fixed_traces(ctx).items() if tr is not None]
    fbad = c09_cases.run_cases(ctx, "e2fixed", header,
                               [(lambda it, tr=tr: c09_cases.cq_trace_x(tr, 3, it)) for _, tr in fixed], chunk=8, jobs=1)
    for b in fbad:
        ctx.add_failure("correspondence", "E2:fixed", f"E2:fixed:{fixed[b][0]}",
                        f"model and implementation disagree on the fixed witness trace '{fixed[b][0]}'",
                        witness={"ops": [list(map(str, t[:3])) for t in fixed[b][1]]})
    # all checks about a trace live in the same cases file (3 traces per file, 4 coqc at a time)
    npt = len(PER_TRACE)
    allbad = c09_cases.run_cases(ctx, "e2", header, builders, chunk=3 * npt, jobs=4)
    by_kind = {k: [] for k in PER_TRACE}
    for b in allbad:
        by_kind[PER_TRACE[b % npt]].append(b // npt)
    bad = by_kind["e2"]
    ctx.traces_validated += len(traces) - len(bad)
    for b in bad[:3]:
        tr = [t for t in traces[b][0] if t[0][0] != "dispatch_error"]
        it = c09_cases.Interner()
        term = f"first_bad_x 0 (init_st 3) {c09_cases.cq_items_x(tr, it)}"
        v = common.eval_terms(ctx, "e2diag", header + "\n".join(it.defs) + "\n", [term])
        import re
        m = re.search(r"Some (\d+)", v[0] or "")
        k = int(m.group(1)) if m else None
        ctx.add_failure("correspondence", "E2:graph", f"E2:graph:{tr[k][0][0] if k is not None else '?'}",
                        f"model and implementation disagree at transaction {k} of trace {b}: "
                        f"{tr[k][0] if k is not None else ''} -> implementation {tr[k][1:3] if k is not None else ''}",
                        witness={"ops": [list(map(str, t[:2])) for t in tr[: (k or 0) + 1]],
                                 "implementation_dump": tr[k][3] if k is not None else None})
    # I4 (a SUCCEEDED step has all its outputs built), RUNNING implies no stored hash, T1, the tree
    # conjuncts under their hypotheses and the build-loop protocol, evaluated by the model on every
    # prefix of every executed trace
    for name in PER_TRACE[2:7]:
        for b in by_kind[name][:1]:
            tr = traces[b][0]
            ctx.add_failure("correspondence", f"E2:{name}", f"E2:{name}-false-on-reachable-state",
                            f"{name} is false on a prefix of a trace that the implementation executed",
                            witness={"ops": [list(map(str, t[:2])) for t in tr]})
    # non-vacuity of the hypotheses of the partial tree theorems
    ctx.count("traces_satisfying_tree_hyps", len(by_kind["tree_hyps"]))
    for b in by_kind["inv_b"][:3]:
        tr = traces[b][0]
        ctx.add_failure("correspondence", "E2:inv_b", "E2:inv_b-false-on-reachable-state",
                        "the boolean invariant is false on a prefix of a trace that the implementation executed",
                        witness={"ops": [list(map(str, t[:2])) for t in tr]})
    startup_family(ctx, tag)


SELF_DEFINITION = [
    ("declare_static", ("root", ""), ("plan.py",)),
    ("update_hashes", "CONFIRMED", (("plan.py", 1),)),
    ("define_step", ("root", ""), "./plan.py", ("plan.py",), (), (), (), "PLAN"),
    ("dispatch", "./plan.py"),
    ("reset_for_rerun", "./plan.py"),
    ("define_step", ("step", "./plan.py"), "A", (), (), (), (), "DEFAULT"),
    ("dispatch", "A"),
    ("reset_for_rerun", "A"),
    ("exec_end", "./plan.py", (), "FAILED", (), False, False),
    ("define_step", ("step", "A"), "A", (), (), (), (), "DEFAULT"),
]
HOLD_OUTSIDE_PROTOCOL = [
    ("declare_static", ("root", ""), ("p",)),
    ("update_hashes", "CONFIRMED", (("p", 1),)),
    ("define_step", ("root", ""), "s", ("p",), (), (), (), "PLAN"),
    ("hold", "s"),
]
DEFINE_OWN_CREATOR = [
    ("declare_static", ("root", ""), ("plan.py",)),
    ("update_hashes", "CONFIRMED", (("plan.py", 1),)),
    ("define_step", ("root", ""), "./plan.py", ("plan.py",), (), (), (), "PLAN"),
    ("dispatch", "./plan.py"),
    ("reset_for_rerun", "./plan.py"),
    ("define_step", ("step", "./plan.py"), "K", (), (), (), (), "DEFAULT"),
    ("dispatch", "K"),
    ("reset_for_rerun", "K"),
    ("define_step", ("step", "K"), "C", (), (), (), (), "DEFAULT"),
    ("dispatch", "C"),
    ("reset_for_rerun", "C"),
    ("exec_end", "./plan.py", (), "FAILED", (), False, False),
    ("define_step", ("step", "C"), "K", (), (), (), (), "DEFAULT"),
]
RECYCLE_TREE_CONFLICT = [
    ("declare_static", ("root", ""), ("plan.py",)),
    ("update_hashes", "CONFIRMED", (("plan.py", 1),)),
    ("define_step", ("root", ""), "./plan.py", ("plan.py",), (), (), (), "PLAN"),
    ("dispatch", "./plan.py"),
    ("reset_for_rerun", "./plan.py"),
    ("define_step", ("step", "./plan.py"), "A", (), (), (), (), "DEFAULT"),
    ("exec_end", "./plan.py", (), "SUCCEEDED", (), True, False),
    ("dispatch", "A"),
    ("reset_for_rerun", "A"),
    ("register_tree", ("step", "A"), "d/"),
    ("exec_end", "A", (), "SUCCEEDED", (), True, False),
    ("mark_step_pending", "./plan.py"),
    ("dispatch", "./plan.py"),
    ("reset_to_pending", "./plan.py"),
    ("dispatch", "./plan.py"),
    ("reset_for_rerun", "./plan.py"),
    ("define_step", ("step", "./plan.py"), "B", (), (), ("d/g0",), (), "DEFAULT"),
    ("dispatch", "B"),
    ("reset_for_rerun", "B"),
    ("register_tree", ("step", "B"), "d/e/"),
    ("define_step", ("step", "./plan.py"), "A", (), (), (), (), "DEFAULT"),
]
# register_static_tree over attached STATIC files: of another creator (rejected, nothing is handed
# over), then of the registering step itself (handed over), then a build product (rejected)
TREE_HANDOVER = [
    ("declare_static", ("root", ""), ("plan.py",)),
    ("update_hashes", "CONFIRMED", (("plan.py", 1),)),
    ("define_step", ("root", ""), "./plan.py", ("plan.py",), (), (), (), "PLAN"),
    ("dispatch", "./plan.py"),
    ("reset_for_rerun", "./plan.py"),
    ("declare_static", ("step", "./plan.py"), ("d/g0",)),
    ("define_step", ("step", "./plan.py"), "A", (), (), ("t/x",), (), "DEFAULT"),
    ("exec_end", "./plan.py", (), "SUCCEEDED", (), True, False),
    ("dispatch", "A"),
    ("reset_for_rerun", "A"),
    ("register_tree", ("step", "A"), "d/"),
    ("declare_static", ("step", "A"), ("d/e/h0",)),
    ("register_tree", ("step", "A"), "d/e/"),
    ("register_tree", ("step", "A"), "t/"),
    ("declare_static", ("step", "A"), ("d/e/h0", "d/g1")),
]
FIXED_TRACES = {"tree-handover": TREE_HANDOVER, "self-definition": SELF_DEFINITION, "hold-outside-protocol": HOLD_OUTSIDE_PROTOCOL,
                "define-own-creator": DEFINE_OWN_CREATOR, "recycle-tree-conflict": RECYCLE_TREE_CONFLICT}

STATIC_STATES = (12, 13, 14)


def tree_ownership_violation(d):
    """Direct check on a dump of the real database: attached static trees are pairwise non-nested and
    an attached file under an attached tree is a STATIC file created by that tree."""
    det = {k: x for k, _, x in d["nodes"]}
    cre = {k: c for k, c, _ in d["nodes"]}
    fstate = {l: s for l, s, _ in d["files"]}
    trees = sorted(k[1] for k in det if k[0] == "st" and not det[k])
    for t1 in trees:
        for t2 in trees:
            if t1 != t2 and t2.startswith(t1):
                return "nested-attached-trees", f"{t1} contains {t2}"
    for k in sorted(det):
        if k[0] != "file" or det[k]:
            continue
        for t in trees:
            if k[1].startswith(t):
                if fstate.get(k[1]) not in STATIC_STATES:
                    return "product-under-attached-tree", f"{k[1]} (state {fstate.get(k[1])}) under {t}"
                if cre.get(k) != ("st", t):
                    return "foreign-static-under-attached-tree", f"{k[1]} created by {cre.get(k)} under {t}"
    return None


dependency_cycle = e2.dependency_cycle


async def _run_fixed(ops):
    """Drive the real implementation through a fixed operation list (dispatch through the real
    Scheduler.pop_next_job); returns the recorded trace or None when a dispatch deviates."""
    impl = e2.Impl(3)
    await impl.start()
    try:
        trace = []
        booted = False
        for op in ops:
            if op[0] == "dispatch":
                r = await impl.dispatch()
                if r is None or r[0] != op[1]:
                    return None
                trace.append((op, "ok", r[1], await impl.dump()))
                continue
            outcome, detail = await impl.apply(op)
            trace.append((op, outcome, detail, await impl.dump()))
            if not booted and op[0] == "define_step" and op[1] == ("root", ""):
                booted = True
                async with impl.db:
                    impl.db.execute("UPDATE step SET _safe = 1, _safe_ignoring_hold = 1, _check_safe = 0")
        return trace
    finally:
        impl.close()


def internal_signature(op, detail, oc="internal"):
    site = op[0]
    if op[0] == "define_step" and tuple(op[1]) == ("step", op[2]):
        site = "define_step:self-definition"
    if oc == "hang":
        return f"oracle:hang:{site}:statement-does-not-terminate"
    return f"oracle:internal-error:{site}:{detail.split(':')[0]}"


def fixed_traces(ctx):
    """The two Coq witnesses replayed on the real implementation: the recorded trace must agree with
    the model (correspondence), and an internal error of the implementation is reported (oracle)."""
    if getattr(ctx, "fixed", None) is None:
        ctx.fixed = {name: asyncio.run(_run_fixed(ops)) for name, ops in FIXED_TRACES.items()}
    return ctx.fixed


def oracle(ctx):
    # D17: a real CONFIRMED hash job (Executor.run_hash_job) whose result arrives after the node
    # was detached and taken over
    from . import c09_hashjob
    try:
        oc, detail = asyncio.run(asyncio.wait_for(c09_hashjob.stale_hash_scenario(verbose=False), 90))
    except BaseException as e:  # noqa: BLE001
        oc, detail = "internal", f"{type(e).__name__}: {e}"
    ctx.case(("hashjob", "stale-confirmation", oc), nontrivial=True)
    if oc != "ok":
        ctx.add_failure("oracle", "stale-hash-result",
                        f"oracle:internal-error:update_hashes:stale-hash-result:{detail.split(':')[0]}",
                        "the result of a CONFIRMED hash job that completes after its file node was detached and "
                        f"taken over by another declaration makes Executor.run_hash_job raise: {detail}",
                        witness={"scenario": "harness/c09_hashjob.py:stale_hash_scenario", "outcome": detail})
    for name, tr in fixed_traces(ctx).items():
        if tr is None:
            ctx.add_failure("oracle", f"fixed:{name}", f"oracle:fixed-trace-not-replayable:{name}",
                            "the fixed witness trace could not be replayed (dispatch order changed)", witness=None)
            continue
        for j, (op, oc, detail, d) in enumerate(tr):
            ctx.case(("fixed", name, j), nontrivial=True)
            cyc = dependency_cycle(d)
            if cyc:
                ctx.add_failure("oracle", "dependency-cycle", "oracle:dependency-cycle",
                                f"fixed witness '{name}': after transaction {j} ({op}) the dependency rows contain the cycle {cyc}",
                                witness={"ops": [list(map(str, t[:2])) for t in tr[: j + 1]]})
                break
            viol = tree_ownership_violation(d)
            if viol:
                ctx.add_failure("oracle", "tree-ownership", f"oracle:tree-ownership:{viol[0]}",
                                f"fixed witness '{name}': after transaction {j} ({op}): {viol[1]}",
                                witness={"ops": [list(map(str, t[:2])) for t in tr[: j + 1]]})
                break
            if oc in ("internal", "hang"):
                ctx.add_failure("oracle", "internal-error", internal_signature(op, detail, oc),
                                f"fixed witness '{name}': transaction {j} raised an internal error: {op} -> {detail}",
                                witness={"ops": [list(map(str, t[:2])) for t in tr[: j + 1]]})
                break
    for i, (tr, cnt, strict) in enumerate(list(getattr(ctx, "traces", [])) + list(getattr(ctx, "startup_traces", []))):
        if strict:
            ctx.add_failure("oracle", "strict-consistency-check", "oracle:consistency-check:" + strict.split(":")[0],
                            f"Trellis/Workflow._check_consistency (strict) failed after trace {i}: {strict}",
                            witness={"ops": [list(map(str, t[:2])) for t in tr]})
        for j, (op, oc, detail, d) in enumerate(tr):
            cyc = dependency_cycle(d)
            if cyc:
                ctx.add_failure("oracle", "dependency-cycle", "oracle:dependency-cycle",
                                f"trace {i}, after transaction {j} ({op}) the dependency rows contain the cycle {cyc}",
                                witness={"ops": [list(map(str, t[:3])) for t in tr[: j + 1]]})
                break
            viol = tree_ownership_violation(d)
            if viol:
                ctx.add_failure("oracle", "tree-ownership", f"oracle:tree-ownership:{viol[0]}",
                                f"trace {i}, after transaction {j} ({op}): {viol[1]}",
                                witness={"ops": [list(map(str, t[:2])) for t in tr[: j + 1]]})
                break
            if oc in ("internal", "hang"):
                ctx.add_failure("oracle", "internal-error", internal_signature(op, detail, oc),
                                f"transaction {j} of trace {i} raised an internal error: {op} -> {detail}",
                                witness={"ops": [list(map(str, t[:2])) for t in tr[: j + 1]]})
                break


def search(ctx):
    """An obligation or the translator broke and the regular sample produced no failing input:
    a deeper sample of E2 traces (model/implementation disagreement, internal errors, strict
    consistency check, invariant on every prefix)."""
    before = len(ctx.failures)
    for rnd in range(3):
        correspondence(ctx, n_length=(60, 140), tag=f"search{rnd}-")
        oracle(ctx)
        if any(f.witness is not None for f in ctx.failures[before:]):
            break


def replay(ctx, obj):
    correspondence(ctx)
    oracle(ctx)
