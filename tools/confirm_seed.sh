#!/bin/bash
# tools/confirm_seed.sh <seeded dir>: confirm that the demonstration passes on HEAD and fails with the patch.
D="$(realpath "$1")"; W=/tmp/confirm-$$
git -C /repo worktree add -q "$W" HEAD || exit 2
cd "$W"; mkdir -p _seed; cp "$D"/demo* _seed/ 2>/dev/null
DEMO=$(ls _seed/demo* | head -1)
run() { if [[ "$DEMO" == *.sh ]]; then PATH=/venv/bin:$PATH PYTHONPATH=$W:$W/tests timeout 600 bash "$DEMO"; else PATH=/venv/bin:$PATH PYTHONPATH=$W:$W/tests timeout 600 /venv/bin/python "$DEMO"; fi; }
run >/tmp/confirm-$$.a 2>&1; A=$?
git apply "$D/patch.diff" || { echo "PATCH DOES NOT APPLY"; cd /; git -C /repo worktree remove --force "$W"; exit 3; }
run >/tmp/confirm-$$.b 2>&1; B=$?
echo "without patch: exit $A ; with patch: exit $B"
tail -3 /tmp/confirm-$$.b
cd /; git -C /repo worktree remove --force "$W"; rm -f /tmp/confirm-$$.a /tmp/confirm-$$.b
[[ $A -eq 0 && $B -ne 0 ]]
