#!/bin/bash
# tools/test_tree.sh <tree> [njobs]: run the repository's unedited test suite in <tree> (a checkout of stepup-core);
# tests that fail in the parallel run are re-run alone (up to 3 times) because this box is usually overloaded;
# a test counts as FAILED only if it fails every isolated re-run and is not a known environment failure.
W="$(realpath "$1")"; J="${2:-6}"; L=/tmp/testtree-$$
KNOWN='keep_going\]|watch_chain\]|watch_outdated_amend2\]|static_nglob\]|ctrl_z'
cd "$W" || exit 2
PATH=/venv/bin:$PATH PYTHONPATH=$W timeout 3000 /venv/bin/python -m pytest -q -p no:cacheprovider --timeout=900 tests -n "$J" -q -rf 2>&1 | grep -E "^(FAILED|ERROR) |passed|failed" > $L.log
tail -1 $L.log
grep -E "^(FAILED|ERROR) " $L.log | sed -E 's/^(FAILED|ERROR) ([^ ]+).*/\2/' | grep -v -E "$KNOWN" | sort -u > $L.ids
RC=0
while read -r id; do
  [ -z "$id" ] && continue
  ok=0
  for i in 1 2 3; do
    if PATH=/venv/bin:$PATH PYTHONPATH=$W timeout 1200 /venv/bin/python -m pytest -q -p no:cacheprovider -n 1 --timeout=900 "$id" >/dev/null 2>&1; then ok=1; break; fi
  done
  if [ $ok = 1 ]; then echo "flaky under load, passes alone: $id"; else echo "FAILS ALONE: $id"; RC=1; fi
done < $L.ids
[ $RC = 0 ] && echo "TESTS OK (known environment failures and load flakes only)"
rm -f $L.log $L.ids
exit $RC
