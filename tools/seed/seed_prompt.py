#!/usr/bin/env python3
"""tools/seed/seed_prompt.py <PID> <worktree>: the prompt for a fresh seed agent (property text only)."""
import glob, json, sys
from pathlib import Path
V = Path(__file__).resolve().parents[2]
pid, wt = sys.argv[1], sys.argv[2]
prop = next(d for d in map(json.loads, open(V / "properties.jsonl")) if d["id"] == pid)
out = [(V / "tools/seed/SEED_BRIEF.md").read_text(), f"\nYour scratch worktree: {wt}\n",
       f"# Seed target: property {pid}\n", f"Property to break (title: {prop.get('title','')}):\n",
       '"' + prop["statement"] + '"\n']
q = prop.get("quantifier") or {}
if q.get("text"):
    out.append("Quantifier: " + q["text"] + "\n")
anc = prop.get("anchors") or {}
if anc.get("files"):
    out.append("Relevant code files: " + ", ".join(anc["files"]) + "\n")
if anc.get("mechanism"):
    out.append("Mechanisms that currently uphold it:\n" + "\n".join(f"- {m['name']} ({m['where']})" for m in anc["mechanism"]) + "\n")
taken = []
for m in sorted(glob.glob(str(V / f"seeded/{pid}-*/meta.json"))):
    taken.append("- " + json.load(open(m))["summary"][:600])
if taken:
    out.append("Already taken by earlier seeds for this property (pick a DIFFERENT code site and mechanism):\n" + "\n".join(taken) + "\n")
print("\n".join(out))
