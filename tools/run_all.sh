#!/bin/bash
# run every property's check (tier $1, default quick), $2 jobs in parallel; summary on stdout
cd "$(dirname "$0")/.."
TIER="${1:-quick}"; J="${2:-4}"; OUT="${3:-/tmp/runall}"
mkdir -p "$OUT"
ids=$(ls harness/p_c[0-9][0-9].py | sed 's/.*p_c\([0-9]*\)\.py/C\1/')
echo $ids | tr ' ' '\n' | xargs -P "$J" -I{} bash -c "s=\$(date +%s); ./check {} --tier $TIER > $OUT/{}.log 2>&1; rc=\$?; echo {} rc=\$rc \$(( \$(date +%s)-s ))s \$(grep -c '^KNOWN-FINDING' $OUT/{}.log) known \$(grep '^VIOLATION' $OUT/{}.log | head -2)"
