#!/bin/bash
# tools/try_seed.sh <patch.diff> <PID> [tier]: run a check against a scratch worktree of /repo with a seeded patch.
# Used while other work is going on in /repo; the final confirmation applies the patch to /repo itself.
set -u
PATCH="$1"; PID="$2"; TIER="${3:-quick}"
W=/tmp/try-$PID-$$
git -C /repo worktree add -q "$W" HEAD || exit 2
if ! git -C "$W" apply "$PATCH"; then echo "PATCH DOES NOT APPLY"; git -C /repo worktree remove --force "$W"; exit 3; fi
cd /verif
VERIF_REPO="$W" timeout 3000 ./check "$PID" --tier "$TIER" 2>&1 | tail -12
echo "--- restoring gen from /repo"
timeout 3000 ./check "$PID" --tier quick 2>&1 | tail -2
git -C /repo worktree remove --force "$W"
