#!/bin/bash
# tools/import_seed.sh <scratch worktree with _seed/> <seeded dir name> <PID>: copy patch/demo/meta, confirm the
# demonstration, run the property's quick check on it, print the verdict lines (classification: witness / no-witness / missed).
S="$1"; N="$2"; P="$3"; D=/verif/seeded/$N
mkdir -p "$D"; cp "$S"/_seed/patch.diff "$D"/; cp "$S"/_seed/demo* "$D"/ 2>/dev/null; cp "$S"/_seed/meta.json "$D"/ 2>/dev/null
sed -i 's#startswith("/tmp/seed[0-9]-c[0-9]*")#startswith("/")#' "$D"/demo* 2>/dev/null
echo "== confirm"; /verif/tools/confirm_seed.sh "$D" | head -1
W=/tmp/imp-$N; git -C /repo worktree add -q "$W" HEAD || exit 2
git -C "$W" apply "$D/patch.diff" || { echo "PATCH DOES NOT APPLY"; git -C /repo worktree remove --force "$W"; exit 3; }
cd /verif; VERIF_REPO="$W" timeout 3000 ./check "$P" --tier quick > /tmp/imp-$N.log 2>&1
nv=$(grep -c '^VIOLATION' /tmp/imp-$N.log); nw=$(grep '^VIOLATION' /tmp/imp-$N.log | grep -vc 'no-failing-input-found')
if [ "$nv" = 0 ]; then r=MISSED; elif [ "$nw" = 0 ]; then r=NO-WITNESS; else r=WITNESS; fi
echo "== $N: $r (violations=$nv with_witness=$nw)"; grep "^\[$P\]" /tmp/imp-$N.log; grep "^  - " /tmp/imp-$N.log | grep -v " D[0-9][0-9a-z]*:" | head -4 | cut -c1-300
pkill -f "director $W" 2>/dev/null; git -C /repo worktree remove --force "$W"
timeout 3000 ./check "$P" --tier quick 2>&1 | tail -1
