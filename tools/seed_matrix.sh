#!/bin/bash
# tools/seed_matrix.sh [workers] [filter]: run every seeded change against the check of its property (quick tier) in its own
# scratch worktree of /repo and record the outcome in seeded/RESULTS.json:
#   witness     = VIOLATION with a concrete failing input in the replay
#   no-witness  = VIOLATION ... no-failing-input-found only
#   missed      = exit 0 / no VIOLATION
# Each worker uses its own copy of /verif (rsync to /tmp/vm-<k>, removed afterwards) because runs against different
# repositories would otherwise overwrite each other's coq/gen. Runs use VERIF_REPO=<worktree>; /repo is never touched.
cd "$(dirname "$0")/.."
J="${1:-4}"; F="${2:-}"
OUT=/tmp/seedmatrix-$$; mkdir -p $OUT
ls -d seeded/C*${F}*/ | sed 's#/$##' > $OUT/all
split -n r/$J -d $OUT/all $OUT/part-
worker() {
  k="$1"; OUT="$2"; V=/tmp/vm-$k
  rsync -a --delete --exclude .git --exclude replays --exclude .cache /verif/ $V/
  while read -r d; do
    name=$(basename "$d"); pid=${name%%-*}; W=/tmp/sm-$name
    git -C /repo worktree add -q "$W" HEAD 2>/dev/null || { echo "worktree-failed" > $OUT/$name.res; continue; }
    if ! git -C "$W" apply "/verif/$d/patch.diff" 2>/dev/null; then echo "does-not-apply" > $OUT/$name.res; git -C /repo worktree remove --force "$W"; continue; fi
    (cd $V && VERIF_REPO="$W" timeout 3000 ./check "$pid" --tier quick > $OUT/$name.log 2>&1); rc=$?
    nv=$(grep -c '^VIOLATION' $OUT/$name.log); nw=$(grep '^VIOLATION' $OUT/$name.log | grep -vc 'no-failing-input-found')
    if [ "$nv" = 0 ]; then r=missed; elif [ "$nw" = 0 ]; then r=no-witness; else r=witness; fi
    echo "$r rc=$rc violations=$nv with_witness=$nw" > $OUT/$name.res
    pkill -f "director $W" 2>/dev/null
    git -C /repo worktree remove --force "$W"
    echo "$name $r"
  done < $OUT/part-0$k
  rm -rf $V
}
export -f worker
seq 0 $((J-1)) | xargs -P "$J" -I{} bash -c "worker {} $OUT"
/venv/bin/python - "$OUT" <<'PY'
import sys, os, json, glob
out = sys.argv[1]; res = {}
p = "seeded/RESULTS.json"
if os.path.exists(p): res = json.load(open(p))
for f in glob.glob(out + "/*.res"):
    res[os.path.basename(f)[:-4]] = open(f).read().strip()
json.dump(res, open(p, "w"), indent=1, sort_keys=True)
print({k: sum(1 for v in res.values() if v.startswith(k)) for k in ("witness", "no-witness", "missed", "does-not-apply")})
PY
mkdir -p /tmp/seedmatrix-last && cp $OUT/*.log /tmp/seedmatrix-last/ 2>/dev/null
rm -rf $OUT
