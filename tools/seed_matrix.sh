#!/bin/bash
# tools/seed_matrix.sh [jobs] [filter]: run every seeded change against the check of its property (quick tier) in its own
# scratch worktree and record the outcome in seeded/RESULTS.json:
#   witness     = VIOLATION with a concrete failing input in the replay
#   no-witness  = VIOLATION ... no-failing-input-found only
#   missed      = exit 0 / no VIOLATION
# Each run uses VERIF_REPO=<worktree>; coq/gen is regenerated from /repo at the end (./check --setup).
cd "$(dirname "$0")/.."
J="${1:-1}"; F="${2:-}"   # keep 1: runs of different seeds share coq/gen
OUT=/tmp/seedmatrix-$$; mkdir -p $OUT
one() {
  d="$1"; OUT="$2"
  name=$(basename "$d"); pid=${name%%-*}
  W=/tmp/sm-$name
  git -C /repo worktree add -q "$W" HEAD 2>/dev/null || { echo "$name worktree-failed"; return; }
  if ! git -C "$W" apply "$d/patch.diff" 2>/dev/null; then echo "$name does-not-apply" > $OUT/$name.res; git -C /repo worktree remove --force "$W"; return; fi
  VERIF_REPO="$W" timeout 3000 ./check "$pid" --tier quick > $OUT/$name.log 2>&1; rc=$?
  nv=$(grep -c '^VIOLATION' $OUT/$name.log); nw=$(grep '^VIOLATION' $OUT/$name.log | grep -vc 'no-failing-input-found')
  if [ "$nv" = 0 ]; then r=missed; elif [ "$nw" = 0 ]; then r=no-witness; else r=witness; fi
  echo "$r rc=$rc violations=$nv with_witness=$nw" > $OUT/$name.res
  pkill -f "director $W" 2>/dev/null
  git -C /repo worktree remove --force "$W"
  echo "$name $r"
}
export -f one
ls -d seeded/C*${F}*/ | sed 's#/$##' | xargs -P "$J" -I{} bash -c "one {} $OUT"
/venv/bin/python - "$OUT" <<'PY'
import sys, os, json, glob
out = sys.argv[1]; res = {}
p = "seeded/RESULTS.json"
if os.path.exists(p): res = json.load(open(p))
for f in glob.glob(out + "/*.res"):
    res[os.path.basename(f)[:-4]] = open(f).read().strip()
json.dump(res, open(p, "w"), indent=1, sort_keys=True)
print({k: sum(1 for v in res.values() if v.startswith(k)) for k in ("witness", "no-witness", "missed", "does-not-apply")})
PY
./check --setup > /dev/null 2>&1
rm -rf $OUT
