#!/usr/bin/env python3
"""Regenerate sections 11.2 (findings) and 11.3 (seeded changes) of DESIGN.md from
KNOWN_FINDINGS.json and seeded/*/meta.json (between the AUTOGEN markers)."""
import glob, json, os, re
V = os.path.dirname(os.path.dirname(os.path.abspath(__file__)))
k = json.load(open(f"{V}/KNOWN_FINDINGS.json"))["findings"]
def esc(s): return str(s).replace("|", "\\|").replace("\n", " ")
rows = ["### 11.2 Defects found (from KNOWN_FINDINGS.json)", "",
        "Every entry was reproduced against the real code by the check of the property named; `fixed` entries",
        "are `fix:` commits in /repo (the witness stays in the check as a regression), `open` entries print a",
        "KNOWN-FINDING line and suppress exactly the signatures listed for them.", "",
        "| id | property | status | commit | what fails | why not fixed |", "|---|---|---|---|---|---|"]
def key(f):
    m = re.match(r"D(\d+)(.*)", f["id"]); return (int(m.group(1)) if m else 999, f["id"])
for f in sorted(k, key=key):
    rows.append(f"| {f['id']} | {f['property']} | {f['status']} | {f.get('commit','')} | {esc(f['what_fails'])[:420]} | {esc(f.get('why_not_fixed',''))[:300]} |")
rows += ["", f"Totals: {sum(1 for f in k if f['status']=='fixed')} fixed, {sum(1 for f in k if f['status']=='open')} open.", ""]
rows += ["### 11.3 Seeded changes and which check catches them", "",
         "Produced by fresh sub-agents that saw only the property text and a scratch worktree; each was confirmed",
         "(`tools/confirm_seed.sh`: demonstration passes on HEAD, fails with the patch) and run against the check",
         "(`tools/try_seed.sh`). Kept under `seeded/<id>/`.", "",
         "| seed | property | change | needs | result of the check when the seed was imported | final matrix (tools/seed_matrix.sh) |", "|---|---|---|---|---|---|"]
try: RES = json.load(open(f"{V}/seeded/RESULTS.json"))
except Exception: RES = {}
for d in sorted(glob.glob(f"{V}/seeded/C*/")):
    m = json.load(open(d + "meta.json"))
    c = m.get("confirmed_by_coordinator", {})
    rows.append(f"| {os.path.basename(d[:-1])} | {m.get('property','')} | {esc(m.get('summary',''))[:300]} | {esc(m.get('needs',''))[:260]} | {esc(c.get('check',''))[:420]} | {RES.get(os.path.basename(d[:-1]),'')} |")
rows.append("")
rows += ["### 11.4 Per-property status (from manifest.d and the last evidence files; details in design.d/Cxx.md)", "",
         "| id | theorems (discharged/obligations) | cases last run (distinct non-trivial) | what is claimed |", "|---|---|---|---|"]
for f in sorted(glob.glob(f"{V}/manifest.d/C*.json")):
    c = json.load(open(f)); pid = c["property_id"]
    ev = {}
    try: ev = json.load(open(f"{V}/evidence/{pid}.json"))["coverage"]
    except Exception: pass
    rows.append(f"| {pid} | {ev.get('discharged','?')}/{ev.get('obligations','?')} | {ev.get('evaluations','?')} ({ev.get('distinct_nontrivial','?')}) | {esc(c['level_claimed']['text'])[:700]} |")
rows.append("")
text = open(f"{V}/DESIGN.md").read()
block = "<!-- AUTOGEN-TABLES-BEGIN -->\n" + "\n".join(rows) + "\n<!-- AUTOGEN-TABLES-END -->\n"
if "<!-- AUTOGEN-TABLES-BEGIN -->" in text:
    text = re.sub(r"<!-- AUTOGEN-TABLES-BEGIN -->.*?<!-- AUTOGEN-TABLES-END -->\n", lambda m: block, text, flags=re.S)
else:
    text += "\n" + block
open(f"{V}/DESIGN.md", "w").write(text)
print("DESIGN tables rebuilt:", len(k), "findings")
