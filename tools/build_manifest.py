#!/usr/bin/env python3
"""Assemble /verif/MANIFEST.json from manifest.d fragments and validate it."""
import json, glob, os, sys
V = os.path.dirname(os.path.dirname(os.path.abspath(__file__)))
base = json.load(open(f"{V}/manifest.d/_base.json"))
props = [json.loads(l)["id"] for l in open(f"{V}/properties.jsonl")]
checks = []
for f in sorted(glob.glob(f"{V}/manifest.d/C*.json")):
    checks.append(json.load(open(f)))
claimed = {c["property_id"] for c in checks}
na_reasons = {}
if os.path.exists(f"{V}/manifest.d/_not_applicable.json"):
    na_reasons = json.load(open(f"{V}/manifest.d/_not_applicable.json"))
m = dict(base)
m["engines"] = [{"name": "coq+harness", "path": "/verif/check", "serves_properties": sorted(claimed),
                 "kind_free_text": "Coq 8.16.1 development under /verif/coq (lib, gen (regenerated from /repo on every run), model, proofs, props) + Python harness (fail-closed translators, correspondence by vm_compute on generated cases files, implementation oracles, failing-input search)"}]
m["checks"] = checks
m["not_applicable"] = [{"property_id": p, "reason": na_reasons.get(p, "check not built yet (work in progress; DESIGN.md section 6 has the plan)")}
                       for p in props if p not in claimed]
json.dump(m, open(f"{V}/MANIFEST.json", "w"), indent=1)
try:
    import jsonschema
    jsonschema.validate(m, json.load(open("/root/.vp/MANIFEST.schema.json")))
    print("MANIFEST ok:", sorted(claimed))
except ImportError:
    print("MANIFEST written (jsonschema not available for validation):", sorted(claimed))
