#!/bin/bash
# tools/test_seed.sh <seeded dir>: run the repository's test suite (unedited) in a scratch worktree with the patch applied.
# Known environment failures (tools/env_failing_tests.txt) are filtered from the summary.
D="$(realpath "$1")"; W=/tmp/testseed-$$
git -C /repo worktree add -q "$W" HEAD || exit 2
cd "$W"
git apply "$D/patch.diff" || { echo "PATCH DOES NOT APPLY"; cd /; git -C /repo worktree remove --force "$W"; exit 3; }
PATH=/venv/bin:$PATH PYTHONPATH=$W timeout 2400 /venv/bin/python -m pytest -q -p no:cacheprovider --timeout=900 tests -n 8 -q 2>&1 | tail -15 > /tmp/testseed-$$.log
grep -E "^(FAILED|ERROR)" /tmp/testseed-$$.log | grep -v -E "keep_going|watch_chain|watch_outdated_amend2|static_nglob|amend_validate1|ctrl_z|script_cases_run_import" > /tmp/testseed-$$.bad
tail -2 /tmp/testseed-$$.log
if [ -s /tmp/testseed-$$.bad ]; then echo "UNEXPECTED FAILURES:"; cat /tmp/testseed-$$.bad; RC=1; else echo "TESTS OK (only known environment failures, if any)"; RC=0; fi
cd /; git -C /repo worktree remove --force "$W"; rm -f /tmp/testseed-$$.log /tmp/testseed-$$.bad
pkill -f "director $W" 2>/dev/null
exit $RC
