#!/bin/bash
# tools/test_seed.sh <seeded dir> [njobs]: the repository's test suite (unedited) in a scratch worktree with the patch applied.
D="$(realpath "$1")"; W=/tmp/testseed-$$
git -C /repo worktree add -q "$W" HEAD || exit 2
git -C "$W" apply "$D/patch.diff" || { echo "PATCH DOES NOT APPLY"; git -C /repo worktree remove --force "$W"; exit 3; }
/verif/tools/test_tree.sh "$W" "${2:-6}"; RC=$?
pkill -f "director $W" 2>/dev/null
git -C /repo worktree remove --force "$W"
exit $RC
