(* proofs/CrashEngineAmend.v -- C05 on the engine with amended inputs, deferral and failing steps
   (model/Engine.v Section Amend, model/CrashEngine.v Section CrashAmend), reusing the invariant
   [InvA] of C01 (proofs/EngineAmendFull.v):

   1. one dispatch decision of the GATED engine (the dispatch rule of the code) either changes
      nothing or is the decision of the ungated engine ([a_step_gate]); hence every prefix of a
      build keeps [InvA], for either value of [gate] ([prefix_InvA]);
   2. the torn step keeps it ([torn_a_InvA]): every crash state of every build, gated or not,
      satisfies [InvA] (recorded traces valid, K = no stale success, closure) and has the sources
      and the environment of the killed build ([crash_state_a_InvA]);
   3. the restarted build keeps [InvA] for either gate ([restart_a_InvA]); in the ungated engine it
      is finished and equals the build that was not killed and the build from scratch
      ([crash_restart_a_equals_uninterrupted]); in the gated engine it equals the build that was not
      killed whenever both are finished ([crash_restart_a_gated_partial]; a gated build need not be
      finished: D28);
   4. the step whose command was running is never hash-checked-and-skipped by the restarted build,
      gated or not ([interrupted_step_not_skipped_a]). *)
From Coq Require Import List NArith Bool Lia.
From SV Require Import model.Engine proofs.EngineProofs proofs.EngineAmendProofs proofs.EngineAmendFull
  model.CrashEngine.
Import ListNotations.
Open Scope N_scope.

Section CrashAmendProofs.
  Variable run : N -> list (option N) -> list (option N) -> N -> N.
  Variable amend : N -> list (option N) -> list N.
  Variable fails : N -> list (option N) -> list (option N) -> bool.

  Notation InvA := (InvA run amend fails).
  Notation stepg := (a_step_build run amend fails).
  Notation fromg := (a_build_from_g run amend fails).
  Notation prefixg := (a_build_prefix run amend fails).

  (* ---- 1. the gate only ever suppresses a decision ---------------------------------------- *)
  Lemma decide_gate (g : bool) (proj : project) (s : step) (y : asys) :
    decide amend fails g proj s y = DNone \/
    decide amend fails g proj s y = decide amend fails false proj s y.
  Proof.
    unfold decide, dyn_blocked. destruct g; cbn [andb]; [|right; reflexivity].
    destruct (is_succ (stt (abase y) (sid s))); [left; reflexivity|].
    destruct (negb (ready proj (abase y) s)); cbn [orb]; [left; reflexivity|].
    destruct (adef y (sid s) || existsb (unbuilt_output proj (abase y)) (adyn y (sid s)));
      [left; reflexivity | right; reflexivity].
  Qed.

  Lemma a_step_gate (g : bool) (proj : project) (s : step) (y : asys) :
    stepg g proj s y = y \/ stepg g proj s y = stepg false proj s y.
  Proof.
    unfold a_step_build. destruct (decide_gate g proj s y) as [H|H]; rewrite H; [left|right]; reflexivity.
  Qed.

  Section OneProject.
    Variable proj : project.
    Hypothesis Hwfa : wf_a amend proj.

    Let HA : WFA amend proj := wf_a_WFA amend proj Hwfa.

    Lemma a_step_afail_g (g : bool) (s : step) (y : asys) (id : N) :
      id <> sid s -> afail (stepg g proj s y) id = afail y id.
    Proof.
      intros Hid. destruct (a_step_gate g proj s y) as [H|H]; rewrite H; [reflexivity|].
      apply (a_step_afail run amend fails proj s y id Hid).
    Qed.

    Lemma a_step_frame_g (g : bool) (s : step) (y : asys) :
      frame s (abase y) (abase (stepg g proj s y)).
    Proof.
      destruct (a_step_gate g proj s y) as [H|H]; rewrite H.
      - repeat split; auto.
      - apply (a_step_frame run amend fails proj s y).
    Qed.

    Lemma a_step_InvA_g (g : bool) (done rest : project) (s : step) (y : asys) :
      proj = done ++ s :: rest -> InvA proj y -> afail y (sid s) = false -> InvA proj (stepg g proj s y).
    Proof.
      intros Hp HI Hfl. destruct (a_step_gate g proj s y) as [H|H]; rewrite H; [exact HI|].
      exact (proj1 (a_step_ok run amend fails proj Hwfa done rest s y Hp HI Hfl)).
    Qed.

    (* any run of consecutive decisions keeps the invariant, the world, and leaves the flags of the
       steps that have not had their turn clear *)
    Lemma from_InvA (g : bool) :
      forall todo done rest y,
        proj = done ++ todo ++ rest -> InvA proj y ->
        (forall q, In q (todo ++ rest) -> afail y (sid q) = false) ->
        InvA proj (fromg g proj todo y) /\
        same_world proj (abase y) (abase (fromg g proj todo y)) /\
        (forall q, In q rest -> afail (fromg g proj todo y) (sid q) = false).
    Proof.
      pose proof HA as (Hid & _ & _).
      induction todo as [|s todo IH]; intros done rest y Hp HI Hfl.
      - cbn. split; [exact HI|]. split; [apply same_world_refl|]. exact Hfl.
      - unfold a_build_from_g. cbn [fold_left].
        change (fold_left (fun y0 s0 => stepg g proj s0 y0) todo (stepg g proj s y))
          with (fromg g proj todo (stepg g proj s y)).
        assert (Hp' : proj = done ++ s :: (todo ++ rest)) by exact Hp.
        assert (Hs : In s proj). { rewrite Hp'. apply in_or_app. right. left. reflexivity. }
        destruct (IH (done ++ [s]) rest (stepg g proj s y)) as (H1 & H2 & H3).
        + rewrite <- app_assoc. exact Hp.
        + apply (a_step_InvA_g g done (todo ++ rest) s y Hp' HI). apply Hfl. left. reflexivity.
        + intros q Hq. rewrite a_step_afail_g; [apply Hfl; right; exact Hq|].
          apply (sid_after done (todo ++ rest) s q); [rewrite <- Hp'; exact Hid | exact Hq].
        + split; [exact H1|]. split; [|exact H3].
          eapply same_world_trans; [|exact H2].
          destruct (a_step_frame_g g s y) as (Hfs & Hev & _). split.
          * intros p Hpo. symmetry. apply Hfs. intros Hps. apply is_output_false in Hpo. apply Hpo.
            apply in_outs. exists s. split; [exact Hs | exact Hps].
          * intros n. symmetry. apply Hev.
    Qed.

    Lemma prefix_InvA (g : bool) (k : nat) (y : asys) :
      InvA proj y -> (forall q, In q proj -> afail y (sid q) = false) ->
      InvA proj (prefixg g proj k y) /\ same_world proj (abase y) (abase (prefixg g proj k y)) /\
      (forall q, In q (skipn k proj) -> afail (prefixg g proj k y) (sid q) = false).
    Proof.
      intros HI Hfl. unfold a_build_prefix.
      apply (from_InvA g (firstn k proj) [] (skipn k proj) y).
      - cbn. symmetry. apply firstn_skipn.
      - exact HI.
      - intros q Hq. apply Hfl. rewrite <- (firstn_skipn k proj). exact Hq.
    Qed.

    Lemma build_InvA (g : bool) (y : asys) :
      InvA proj y -> (forall q, In q proj -> afail y (sid q) = false) ->
      InvA proj (a_build run amend fails g proj y) /\
      same_world proj (abase y) (abase (a_build run amend fails g proj y)).
    Proof.
      intros HI Hfl.
      destruct (from_InvA g proj [] [] y) as (H1 & H2 & _).
      - cbn. rewrite app_nil_r. reflexivity.
      - exact HI.
      - intros q Hq. apply Hfl. rewrite app_nil_r in Hq. exact Hq.
      - split; [exact H1 | exact H2].
    Qed.

    (* ---- 2. the torn step --------------------------------------------------------------- *)
    Lemma torn_a_InvA (done rest : project) (s : step) (y : asys) (junk : N -> option N) (dyn : list N) :
      proj = done ++ s :: rest -> stt (abase y) (sid s) = Pending ->
      incl dyn (extra_now amend (abase y) s) -> InvA proj y -> InvA proj (torn_a s y junk dyn).
    Proof.
      intros Hp Est Hdyn HI. pose proof HA as (Hid & Hnd & _).
      assert (HE : forall b, WF (eproj amend proj b)) by (intros b; apply wf_WF; apply Hwfa).
      assert (Hs : In s proj). { rewrite Hp. apply in_or_app. right. left. reflexivity. }
      pose proof (ia_tv _ _ _ proj y HI) as Itv. pose proof (ia_or _ _ _ proj y HI) as Ior.
      pose proof (ia_nf _ _ _ proj y HI) as Inf. pose proof (ia_K _ _ _ proj y HI) as IK.
      pose proof (ia_cl _ _ _ proj y HI) as Icl. pose proof (ia_bf _ _ _ proj y HI) as Ibf.
      set (b := abase y) in *. set (y' := torn_a s y junk dyn). set (b' := torn s b junk).
      assert (Hb' : abase y' = b') by reflexivity.
      assert (Hro : forall q, sid q <> sid s -> remb y' q = remb y q).
      { intros q Hne. apply (remb_same y y' q). cbn [y' torn_a adyn]. apply upd_other. exact Hne. }
      assert (Htr : forall id, id <> sid s -> tr b' id = tr b id).
      { intros id Hne. cbn [b' torn tr]. apply upd_other. exact Hne. }
      (* a SUCCEEDED step reads (declared or remembered) and writes nothing that [s] writes *)
      assert (Hother : forall q, In q proj -> stt b (sid q) = Succeeded ->
                (forall p, In p (inp (remb y q)) -> fs b' p = fs b p) /\
                (forall p, In p (out q) -> fs b' p = fs b p)).
      { intros q Hq Hsq. split; intros p Hpi; cbn [b' torn fs]; destruct (memN p (out s)) eqn:E; try reflexivity;
          exfalso; apply memN_In in E.
        - pose proof (Icl q Hq Hsq) as Hrq.
          rewrite <- (ready_eproj amend proj b b (remb y q)) in Hrq.
          exact (succeeded_reads_no_pending (eproj amend proj b) b (eff amend b s) (remb y q) p (HE b)
                   (in_eproj amend proj b s Hs) Est Hrq Hpi E).
        - assert (Eq : q = s) by (apply (out_unique proj q s p Hnd Hq Hs Hpi E)). subst q. congruence. }
      constructor; rewrite ?Hb'.
      - intros q t Hq Ht. destruct (N.eq_dec (sid q) (sid s)) as [E|E].
        + cbn [b' torn tr] in Ht. rewrite E, upd_same in Ht. discriminate.
        + rewrite (Hro q E). rewrite (Htr _ E) in Ht. exact (Itv q t Hq Ht).
      - intros q t Hq Ht. destruct (N.eq_dec (sid q) (sid s)) as [E|E].
        + cbn [b' torn tr] in Ht. rewrite E, upd_same in Ht. discriminate.
        + cbn [y' torn_a adyn]. rewrite (upd_other _ _ _ _ E). rewrite (Htr _ E) in Ht. exact (Ior q t Hq Ht).
      - intros q t Hq Ht. destruct (N.eq_dec (sid q) (sid s)) as [E|E].
        + cbn [b' torn tr] in Ht. rewrite E, upd_same in Ht. discriminate.
        + rewrite (Htr _ E) in Ht. exact (Inf q t Hq Ht).
      - intros q Hq Hsq0. assert (Hsq : stt b (sid q) = Succeeded) by exact Hsq0.
        destruct (N.eq_dec (sid q) (sid s)) as [E|E]; [rewrite E in Hsq; congruence|].
        rewrite (Hro q E). destruct (Hother q Hq Hsq) as [Hi Ho].
        destruct (IK q Hq Hsq) as (t & Ht & Ei & Ee & Eo).
        exists t. split; [cbn [sid remb]; rewrite (Htr _ E); exact Ht|]. repeat split.
        + rewrite Ei. apply ingredients_ext. intros p Hpi. symmetry. apply Hi. exact Hpi.
        + exact Ee.
        + rewrite Eo. apply ingredients_ext. intros p Hpi. symmetry. apply Ho. exact Hpi.
      - intros q Hq Hsq0. assert (Hsq : stt b (sid q) = Succeeded) by exact Hsq0.
        destruct (N.eq_dec (sid q) (sid s)) as [E|E]; [rewrite E in Hsq; congruence|].
        rewrite (Hro q E). apply (ready_mono proj b b'); [apply (Hother q Hq Hsq) | auto | exact (Icl q Hq Hsq)].
      - intros done' s' rest' Hp' p Hpa. cbn [y' torn_a adyn] in Hpa.
        destruct (N.eq_dec (sid s') (sid s)) as [E|E].
        + rewrite E, upd_same in Hpa.
          assert (Hs' : In s' proj). { rewrite Hp'. apply in_or_app. right. left. reflexivity. }
          pose proof (sid_unique proj s' s Hid Hs' Hs E) as ->.
          apply (eff_before amend proj Hwfa done' rest' s b p Hp'). cbn [inp eff].
          apply in_or_app. right. apply Hdyn. exact Hpa.
        + rewrite (upd_other _ _ _ _ E) in Hpa. exact (Ibf done' s' rest' Hp' p Hpa).
    Qed.

    Lemma torn_a_world (s : step) (y : asys) (junk : N -> option N) (dyn : list N) :
      In s proj -> same_world proj (abase y) (abase (torn_a s y junk dyn)).
    Proof.
      intros Hs. split; [|reflexivity]. intros p Hp. cbn [torn_a abase torn fs].
      destruct (memN p (out s)) eqn:E; [|reflexivity].
      exfalso. apply memN_In in E. apply is_output_false in Hp. apply Hp. apply in_outs. exists s. auto.
    Qed.

    Lemma nth_error_split_firstn {A} (l : list A) (k : nat) (x : A) :
      nth_error l k = Some x -> l = firstn k l ++ x :: skipn (S k) l.
    Proof.
      revert k. induction l as [|a l IH]; intros [|k] H; cbn in *; try discriminate.
      - injection H as ->. reflexivity.
      - f_equal. apply IH. exact H.
    Qed.

    (* every crash state of every build (either gate) satisfies the invariant and has the world of
       the killed build *)
    Theorem crash_state_a_InvA (g : bool) (y c : asys) :
      InvA proj y -> (forall q, In q proj -> afail y (sid q) = false) ->
      crash_state_a run amend fails g proj y c ->
      InvA proj c /\ same_world proj (abase y) (abase c).
    Proof.
      intros HI Hfl Hc. destruct Hc as [k | k s junk dyn Hk Hpend Hdyn].
      - destruct (prefix_InvA g k y HI Hfl) as (H1 & H2 & _). split; assumption.
      - destruct (prefix_InvA g k y HI Hfl) as (H1 & H2 & _).
        assert (Hs : In s proj) by (eapply nth_error_In; exact Hk). split.
        + apply (torn_a_InvA (firstn k proj) (skipn (S k) proj) s _ junk dyn); auto.
          apply nth_error_split_firstn. exact Hk.
        + eapply same_world_trans; [exact H2 | apply torn_a_world; exact Hs].
    Qed.

    (* ---- 3. the restarted build ----------------------------------------------------------- *)
    Lemma restart_a_InvA (g : bool) (c : asys) :
      InvA proj c ->
      InvA proj (restart_a run amend fails g proj c) /\
      same_world proj (abase c) (abase (restart_a run amend fails g proj c)).
    Proof.
      intros HI. unfold restart_a, build_world_a.
      destruct (resync_a_inv run amend fails proj Hwfa c (fs (abase c), ev (abase c)) HI) as (HI1 & Hf1 & He1 & Hfl1).
      destruct (build_InvA g _ HI1 (fun q _ => Hfl1 (sid q))) as (HI2 & Hw).
      split; [exact HI2|]. eapply same_world_trans; [|exact Hw]. split.
      - intros p Hpo. rewrite (Hf1 p Hpo). reflexivity.
      - intros n. rewrite He1. reflexivity.
    Qed.

    (* C05_full on the engine with amended inputs and failing steps, ungated dispatch *)
    Theorem crash_restart_a_equals_uninterrupted (y c : asys) :
      InvA proj y -> (forall q, In q proj -> afail y (sid q) = false) ->
      crash_state_a run amend fails false proj y c ->
      let r := restart_a run amend fails false proj c in
      InvA proj r /\ Finished_a run amend fails proj r /\
      same_result_a proj r (a_build run amend fails false proj y) /\
      same_result_a proj r (build_world_a run amend fails false proj (fs (abase y), ev (abase y)) empty_asys).
    Proof.
      intros HI Hfl Hc r.
      destruct (crash_state_a_InvA false y c HI Hfl Hc) as [Ic Wc].
      destruct (build_world_a_inv run amend fails proj Hwfa (fs (abase c), ev (abase c)) c Ic) as (Ir & Fr & Sr & Er).
      fold (restart_a run amend fails false proj c) in Ir, Fr, Sr, Er. fold r in Ir, Fr, Sr, Er.
      destruct (a_build_ok run amend fails proj Hwfa y HI Hfl) as (_ & Fy & Wy).
      destruct (build_world_a_inv run amend fails proj Hwfa (fs (abase y), ev (abase y)) empty_asys
                  (empty_InvA run amend fails proj)) as (_ & Fz & Sz & Ez).
      assert (Wr : same_world proj (abase y) (abase r)).
      { destruct Wc as [W1 W2]. split.
        - intros p Hpo. rewrite (Sr p Hpo). cbn [fst]. apply W1. exact Hpo.
        - intros n. rewrite Er. cbn [snd]. apply W2. }
      split; [exact Ir|]. split; [exact Fr|]. split.
      - apply (finished_a_unique run amend fails proj _ _ Hwfa Fr Fy).
        apply same_world_sym. eapply same_world_trans; [apply same_world_sym; exact Wy | exact Wr].
      - apply (finished_a_unique run amend fails proj _ _ Hwfa Fr Fz).
        apply same_world_sym. eapply same_world_trans; [|exact Wr]. split.
        + intros p Hpo. rewrite (Sz p Hpo). reflexivity.
        + intros n. rewrite Ez. reflexivity.
    Qed.

    (* the dispatch rule of the code (gated): the restart keeps the invariant and the world, and
       gives the result of the build that was not killed whenever both are finished *)
    Theorem crash_restart_a_gated_partial (g : bool) (y c : asys) :
      InvA proj y -> (forall q, In q proj -> afail y (sid q) = false) ->
      crash_state_a run amend fails g proj y c ->
      let r := restart_a run amend fails g proj c in
      InvA proj r /\ same_world proj (abase y) (abase r) /\
      (Finished_a run amend fails proj r -> Finished_a run amend fails proj (a_build run amend fails g proj y) ->
       same_result_a proj r (a_build run amend fails g proj y)).
    Proof.
      intros HI Hfl Hc r.
      destruct (crash_state_a_InvA g y c HI Hfl Hc) as [Ic Wc].
      destruct (restart_a_InvA g c Ic) as [Ir Wr]. fold r in Ir, Wr.
      destruct (build_InvA g y HI Hfl) as [_ Wy].
      split; [exact Ir|]. split; [eapply same_world_trans; [exact Wc | exact Wr]|].
      intros Fr Fy. apply (finished_a_unique run amend fails proj _ _ Hwfa Fr Fy).
      apply same_world_sym. eapply same_world_trans; [apply same_world_sym; exact Wy|].
      eapply same_world_trans; [exact Wc | exact Wr].
    Qed.

    (* a dispatched step is PENDING: the refined crash states are crash states *)
    Lemma crash_state_ad_a (g : bool) (y c : asys) :
      crash_state_ad run amend fails g proj y c -> crash_state_a run amend fails g proj y c.
    Proof.
      intros [k | k s junk dyn Hk Hd Hdyn]; [apply CSA_between|].
      apply CSA_inside; [exact Hk | | exact Hdyn].
      unfold dispatched, decide in Hd. destruct (stt (abase (prefixg g proj k y)) (sid s)); [reflexivity|].
      cbn in Hd. discriminate.
    Qed.

    (* ---- 4. the interrupted step is never skipped ------------------------------------------ *)
    Lemma a_step_tr_other (g : bool) (x : step) (y : asys) (id : N) :
      id <> sid x -> tr (abase (stepg g proj x y)) id = tr (abase y) id.
    Proof. intros H. destruct (a_step_frame_g g x y) as (_ & _ & _ & Htr). apply Htr. exact H. Qed.

    Lemma a_log_no_skip (g : bool) (s : step) :
      In s proj ->
      forall todo y, (forall q, In q todo -> In q proj) -> NoDup (map sid todo) ->
        (tr (abase y) (sid s) = None \/ ~ In (sid s) (map sid todo)) ->
        ~ In (sid s, false) (a_build_log run amend fails g proj todo y).
    Proof.
      pose proof HA as (Hid & _ & _). intros Hs.
      induction todo as [|x rest IH]; intros y Hsub Hnd Hc; [intros []|].
      cbn [map] in Hnd. inversion Hnd as [|? ? Hx Hnd']; subst.
      assert (Hxp : In x proj) by (apply Hsub; left; reflexivity).
      assert (Hsub' : forall q, In q rest -> In q proj) by (intros q Hq; apply Hsub; right; exact Hq).
      cbn [a_build_log].
      assert (Hnext : tr (abase (stepg g proj x y)) (sid s) = None \/ ~ In (sid s) (map sid rest)).
      { destruct (N.eq_dec (sid x) (sid s)) as [E|E].
        - right. rewrite <- E. exact Hx.
        - destruct Hc as [Hc|Hc].
          + left. rewrite a_step_tr_other; [exact Hc | congruence].
          + right. intros Hin. apply Hc. right. exact Hin. }
      destruct (decide amend fails g proj x y) eqn:Ed.
      - apply IH; assumption.
      - intros [Hin|Hin]; [|revert Hin; apply IH; assumption].
        injection Hin as E1.
        assert (Exs : x = s) by (apply (sid_unique proj x s Hid Hxp Hs E1)). subst x.
        destruct Hc as [Hc|Hc]; [|apply Hc; left; reflexivity].
        (* a skip needs a recorded trace *)
        unfold decide in Ed.
        destruct (is_succ (stt (abase y) (sid s))); [discriminate|].
        destruct (negb (ready proj (abase y) s) || dyn_blocked g proj y s); [discriminate|].
        unfold can_skip in Ed. cbn [sid remb] in Ed. rewrite Hc in Ed. rewrite andb_false_r in Ed.
        destruct (all_avail proj (abase y) (extra_now amend (abase y) s)); [|discriminate].
        destruct (fails_now amend fails (abase y) s); discriminate.
      - intros [Hin|Hin]; [discriminate|revert Hin; apply IH; assumption].
      - intros [Hin|Hin]; [discriminate|revert Hin; apply IH; assumption].
      - intros [Hin|Hin]; [discriminate|revert Hin; apply IH; assumption].
    Qed.

    Theorem interrupted_step_not_skipped_a (g : bool) (s : step) (y : asys) (junk : N -> option N) (dyn : list N) :
      In s proj ->
      let c := torn_a s y junk dyn in
      ~ In (sid s, false)
           (a_build_log run amend fails g proj proj (resync_a proj c (fs (abase c), ev (abase c)))).
    Proof.
      intros Hs c. pose proof HA as (Hid & _ & _).
      apply a_log_no_skip; [exact Hs | auto | exact Hid |].
      left. cbn. apply upd_same.
    Qed.
  End OneProject.
End CrashAmendProofs.

(* ------------------------------------------------------------------------------------------ *)
(* A concrete instance: an amending script step that can fail, killed at every point           *)
(* ------------------------------------------------------------------------------------------ *)
(* step 1 reads source 3 and writes 10; step 2 = script 2 (declared input: the script) amends the
   built file 10 with script versions 5 and 6 and writes 20, version 6 fails; step 3 reads 20 and
   writes 30; step 4 reads source 3 and writes 40. *)
Definition ca_proj : project :=
  [mkStep 1 [3] [] [10]; mkStep 2 [2] [] [20]; mkStep 3 [20] [] [30]; mkStep 4 [3] [] [40]].
Definition ca_tab : list (N * N * list N) := [(2, 5, [10]); (2, 6, [10])].
Definition ca_ftab : list (N * N) := [(2, 6)].
Definition ca_w (script src : N) : world := (src_of [(2, script); (3, src)], fun _ => None).
Definition ca_junk : N -> option N := fun _ => Some 77.

Lemma ca_wf_a : wf_a (amend_tab ca_tab) ca_proj.
Proof.
  intros y. unfold eproj, ca_proj, eff, extra_now, amend_tab, ca_tab. cbn [map inp sid envn out].
  destruct (fs y 3); destruct (fs y 20); destruct (fs y 2) as [c|]; cbn [find fst snd];
    try (vm_compute; reflexivity).
  all: change (2 =? 2) with true; cbn [andb]; destruct (5 =? c); destruct (6 =? c); vm_compute; reflexivity.
Qed.

(* the state before the killed build: a complete build of world (5, 1), then the rescan of the
   world (script, 2) *)
Definition ca_start (g : bool) (script : N) : asys :=
  resync_a ca_proj (build_world_a mix_run (amend_tab ca_tab) (fail_tab ca_ftab) g ca_proj (ca_w 5 1) empty_asys)
           (ca_w script 2).

(* every between-point and every inside-point (killed before the first amend() and after it) of the
   build of world (script, 2): the restart gives the result of the build that was not killed *)
Definition ca_all_points (g : bool) (script : N) : bool :=
  let y := ca_start g script in
  let full := a_build mix_run (amend_tab ca_tab) (fail_tab ca_ftab) g ca_proj y in
  let rs := restart_a mix_run (amend_tab ca_tab) (fail_tab ca_ftab) g ca_proj in
  forallb (fun k => same_result_a_b ca_proj (rs (a_build_prefix mix_run (amend_tab ca_tab) (fail_tab ca_ftab) g ca_proj k y)) full)
          (seq 0 6) &&
  forallb (fun k => forallb (fun nd =>
             match crash_inside_a_b mix_run (amend_tab ca_tab) (fail_tab ca_ftab) g ca_proj y k ca_junk nd with
             | Some c => same_result_a_b ca_proj (rs c) full
             | None => true end) [0%nat; 1%nat]) (seq 0 6).

Lemma ca_example :
  ca_all_points false 5 = true /\ ca_all_points true 5 = true /\
  ca_all_points false 6 = true /\ ca_all_points true 6 = true /\
  (* the killed builds do something: all four steps rerun; with the failing script step 2 fails *)
  a_build_log mix_run (amend_tab ca_tab) (fail_tab ca_ftab) true ca_proj ca_proj (ca_start true 5)
    = [(1, true); (2, true); (3, true); (4, true)] /\
  map (afail (a_build mix_run (amend_tab ca_tab) (fail_tab ca_ftab) true ca_proj (ca_start true 6))) [1; 2; 3; 4]
    = [false; true; false; false] /\
  (* the inside-points exist, and there the torn step remembers the amended input it asked for *)
  match crash_inside_a_b mix_run (amend_tab ca_tab) (fail_tab ca_ftab) true ca_proj (ca_start true 5) 1 ca_junk 1 with
  | Some c => adyn c 2 = [10] /\ tr (abase c) 2 = None /\ fs (abase c) 20 = Some 77
  | None => False end.
Proof. vm_compute. repeat split; reflexivity. Qed.

(* the hypotheses of the theorems hold of the example *)
Lemma ca_start_ok (g : bool) (script : N) :
  InvA mix_run (amend_tab ca_tab) (fail_tab ca_ftab) ca_proj (ca_start g script) /\
  (forall q, In q ca_proj -> afail (ca_start g script) (sid q) = false).
Proof.
  unfold ca_start, build_world_a.
  destruct (resync_a_inv mix_run (amend_tab ca_tab) (fail_tab ca_ftab) ca_proj ca_wf_a empty_asys (ca_w 5 1) (empty_InvA mix_run (amend_tab ca_tab) (fail_tab ca_ftab) ca_proj))
    as (H1 & _ & _ & F1).
  destruct (build_InvA mix_run (amend_tab ca_tab) (fail_tab ca_ftab) ca_proj ca_wf_a g _ H1 (fun q _ => F1 (sid q))) as (H2 & _).
  destruct (resync_a_inv mix_run (amend_tab ca_tab) (fail_tab ca_ftab) ca_proj ca_wf_a _ (ca_w script 2) H2) as (H3 & _ & _ & F3).
  split; [exact H3 | intros q _; apply F3].
Qed.

(* ------------------------------------------------------------------------------------------ *)
(* The gated statement needs "the torn step was dispatched"                                    *)
(* ------------------------------------------------------------------------------------------ *)
(* The D28 project: script version 5 of step 2 amends the output 10 of step 1; version 6 amends
   nothing; the source of step 1 is gone.  The gated build holds step 2 back (it remembers the edge to
   the unbuilt file 10).  A "torn" step 2 -- which cannot happen: it was never dispatched -- would have
   forgotten the edge, and the restart would run it. *)
Lemma gated_needs_dispatch_refuted :
  let y := resync_a p28 (bw28 true w28a empty_asys) w28b in
  let z := a_build_prefix mix_run (amend_tab tab28) no_fail true p28 1 y in
  exists s, nth_error p28 1 = Some s /\ stt (abase z) (sid s) = Pending /\
            dispatched (amend_tab tab28) no_fail true p28 s z = false /\
            same_result_a_b p28 (restart_a mix_run (amend_tab tab28) no_fail true p28 (torn_a s z (fun _ => None) []))
                                (a_build mix_run (amend_tab tab28) no_fail true p28 y) = false /\
            (* the real crash states of this build: only between-points; there the restart agrees *)
            forallb (fun k => same_result_a_b p28
                       (restart_a mix_run (amend_tab tab28) no_fail true p28
                          (a_build_prefix mix_run (amend_tab tab28) no_fail true p28 k y))
                       (a_build mix_run (amend_tab tab28) no_fail true p28 y)) (seq 0 4) = true.
Proof. exists (mkStep 2 [2] [] [20]). cbv zeta. repeat split; vm_compute; reflexivity. Qed.
