(* C10: histories of transactions of the stored workflow interleaved with the metadata updates of
   pop_next_job: at every dispatch decision the cached scheduling attributes equal their definitions. *)
From Coq Require Import List NArith Bool Arith Lia.
From SV Require Import lib.Bytes lib.Closure lib.SqlExpr gen.GenSched model.Graph model.GraphInv model.Sched
  model.SchedGraph proofs.GraphBase proofs.GraphNodes proofs.GraphInvP proofs.SchedProofs proofs.SchedPrims
  proofs.SchedSeq proofs.SchedSkel proofs.SchedGraphCpl proofs.SchedGraphBelow proofs.SchedGraphSim
  proofs.SchedGraphErase proofs.SchedGraphAcyclic proofs.SchedGraphDelete proofs.SchedRevert proofs.SchedReconcile.
Import ListNotations.
Open Scope N_scope.

(* ---- the metadata updates only rewrite cached columns and flags ---- *)
Lemma update_meta_safe_same_skel pol g : same_skel g (update_meta_safe_with pol g).
Proof.
  apply (same_skel_mapg (fun s => match merge_vals pol (trace_vals (safe_fuel_of g) g s) with
                                  | None => set_chk_safe s false
                                  | Some v => set_chk_safe (set_safe s (fst v) (snd v)) false end)).
  intros s. destruct (merge_vals _ _); reflexivity.
Qed.
Lemma write_back_same_skel g v : same_skel g (write_back g v).
Proof.
  apply (same_skel_mapg (fun s => set_chk_after (set_after s (fst (v (s_key s))) (snd (v (s_key s)))) false)).
  intros s. reflexivity.
Qed.
Lemma update_meta_ready_same_skel g : same_skel g (update_meta_ready g).
Proof.
  apply (same_skel_mapg (fun s => if s_chk_ready s then set_ready s (ready_spec g (s_key s)) false else s)).
  intros s. destruct (s_chk_ready s); reflexivity.
Qed.

Lemma update_meta_same_skel g g' : update_meta g = Some g' -> same_skel g g'.
Proof.
  unfold update_meta, update_meta_with. destruct (update_meta_after _) as [g2|] eqn:E2; [|discriminate].
  intros E. injection E as <-.
  unfold update_meta_after in E2. destruct (after_loop _ _ _ _ _) as [v|]; [|discriminate]. injection E2 as <-.
  eapply same_skel_trans; [apply update_meta_safe_same_skel|].
  eapply same_skel_trans; [apply write_back_same_skel | apply update_meta_ready_same_skel].
Qed.

(* every cached attribute correct and no flag: in particular nothing stale is unflagged *)
Lemma AllCorrect_FlagInv g : WF g -> DepAcyclic g -> AllCorrect g -> FlagInv g.
Proof.
  intros Hwf Hda HA. split; [|split].
  - intros s Hin _. apply (HA s Hin).
  - intros s Hin Hd _ _. destruct (HA s Hin) as [_ [Hn _]]. rewrite (Hn Hd).
    assert (Hk : In (s_key s) (attached_keys g)).
    { unfold attached_keys. apply in_map. apply filter_In. split; [exact Hin | rewrite Hd; reflexivity]. }
    rewrite (need_spec_fix g Hda _ Hk). unfold new_val. cbn [fst]. f_equal.
    change ND_OPTIONAL with after_sink_default. f_equal. apply map_ext_in. intros y Hy.
    apply cons_keys_attached in Hy. apply attached_keys_step in Hy. destruct Hy as [sy [Hsy [Ek Hdy]]].
    unfold vals_of. rewrite <- Ek, (find_step_in g sy Hwf Hsy). cbn [fst].
    destruct (HA sy Hsy) as [_ [Hny _]]. symmetry. apply Hny. exact Hdy.
  - intros s Hin _. apply (HA s Hin).
Qed.

Section Machine.
Variable idf : key -> N.
Hypothesis idf_inj : forall a b, idf a = idf b -> a = b.

(* the invariant of the combined machine *)
Definition minv (s : st) (g : graph) : Prop := J s /\ coupled idf s g /\ FlagInv g.

Lemma HasHashInv_cpl s g : coupled idf s g -> HasHashInv g.
Proof.
  intros C x Hx. destruct (in_steps_cpl idf s g x C Hx) as [r [_ E]].
  pose proof (f_equal q_hh E) as H1. pose proof (f_equal q_stored E) as H2. cbn in H1, H2. congruence.
Qed.

(* the metadata updates of pop_next_job on a state of the machine *)
Theorem tick_correct s g : minv s g ->
  exists g', update_meta g = Some g' /\ AllCorrect g' /\ minv s g' /\
    forall x, In x (dispatch_set g') <-> (In x (g_steps g') /\ eligible_spec g' x = true).
Proof.
  intros [HJ [C HF]].
  pose proof (J_WF idf idf_inj s g HJ C) as Hwf.
  pose proof (acyclic_cpl idf idf_inj s g HJ C) as Hac.
  destruct (dispatch_only_eligible_repo g Hwf Hac HF (HasHashInv_cpl s g C)) as [g' [E [HA Hd]]].
  exists g'. split; [exact E|]. split; [exact HA|]. split; [|exact Hd].
  pose proof (same_skel_coupled idf s g g' C (update_meta_same_skel g g' E)) as C'.
  split; [exact HJ|]. split; [exact C'|].
  apply AllCorrect_FlagInv; [apply (J_WF idf idf_inj s g' HJ C') | apply (acyclic_cpl idf idf_inj s g' HJ C') | exact HA].
Qed.

(* a transaction that neither creates nor deletes nodes *)
Theorem op_preserving_correct a o s g s' l : minv s g -> proven_op o = true ->
  step_op_t idf a o s = Ok (s', l) ->
  exists g', run_prims g l = Some g' /\ run_ok g l /\ minv s' g'.
Proof.
  intros [HJ [C HF]] Hp E.
  destruct (sim_FlagInv idf idf_inj s _ _ s' l g (step_op_t_sim_proven idf idf_inj a o s HJ Hp) E HJ C HF)
    as [HJ' [g' [Er [C' [O [_ HF']]]]]].
  exists g'. split; [exact Er|]. split; [exact O|]. split; [exact HJ'|]. split; assumption.
Qed.

(* a transaction whose projection is certified: the side conditions and the coupling of the result
   (decidable; evaluated by the correspondence on every real transaction) and C09's invariant *)
Theorem op_certified_correct s g s' l g' : minv s g ->
  run_prims g l = Some g' -> run_ok g l -> coupled idf s' g' -> J s' -> minv s' g'.
Proof.
  intros [HJ [C HF]] Er O C' HJ'. split; [exact HJ'|]. split; [exact C'|].
  apply (prims_preserve_FlagInv l g g' (J_WF idf idf_inj s g HJ C) HF O Er).
Qed.

(* ---- the hypotheses of the target-change theorem follow from the invariant and the coupling ---- *)
Lemma LabelsUnique_cpl s g : J s -> coupled idf s g -> LabelsUnique g.
Proof.
  intros [HI _] C f1 f2 H1 H2 _ _ E. rewrite (cp_files idf s g C) in H1, H2.
  apply in_map_iff in H1. apply in_map_iff in H2. destruct H1 as [r1 [<- Hr1]]. destruct H2 as [r2 [<- Hr2]].
  cbn [f_label file_of] in E. f_equal.
  eapply NoDup_map_inj; [apply (rw_fnodup _ _ _ _ _ (inv_rw _ HI)) | exact Hr1 | exact Hr2 | exact E].
Qed.

Lemma out_state_not_static st : out_state st = true -> mem_N (fstate_code st) static_file_states = false.
Proof. destruct st; intros H; try discriminate H; reflexivity. Qed.

Lemma OutInv_cpl s g : J s -> coupled idf s g -> OutInv g.
Proof.
  intros [HI [HT HA]] C d x f Hd Hx Hf Hdet.
  pose proof (inv_nw _ HI) as HW. pose proof (inv_rw _ HI) as Hrw.
  destruct (dep_cpl idf s g d C Hd) as [d0 [Hd0 ->]]. cbn [d_src d_snk dep_of] in *.
  destruct (find_file_cpl_key idf s g _ f C Hf) as [r [Hr [-> Hk]]].
  unfold fk in Hk. apply idf_inj in Hk.
  (* the source of the edge is a step *)
  pose proof (dw_kinds _ _ (inv_dw _ HI) d0 Hd0) as Hkind. rewrite Hk in Hkind.
  destruct (dsrc d0) as [[] l0] eqn:Es; cbn in Hkind; try discriminate.
  2:{ exfalso. pose proof (dw_src _ _ (inv_dw _ HI) d0 Hd0) as Hs. rewrite Es in Hs.
      apply in_map_iff in Hs. destruct Hs as [n [Hn1 Hn2]]. apply (HT n Hn2). rewrite Hn1. reflexivity. }
  (* the file node is attached, hence has a creator *)
  assert (Hkn : In (KFile, fl r) (KL (nodes s))) by (apply (rw_files _ _ _ _ _ Hrw); apply in_map; exact Hr).
  apply findn_some_in in Hkn. destruct Hkn as [nx Hnx].
  cbn [f_detached file_of] in Hdet. unfold node_det, is_detached, find_node in Hdet.
  fold (findn (KFile, fl r) (nodes s)) in Hdet. rewrite Hnx in Hdet.
  destruct (findn_In _ _ _ Hnx) as [Hin Hnk].
  assert (Hnr : nk nx <> root_key) by (rewrite Hnk; discriminate).
  pose proof (nw_local _ HW nx Hin Hnr) as L. unfold local_ok in L.
  destruct (ncre nx) as [c|] eqn:Ec; [|congruence].
  destruct (inv_oe _ HI d0 l0 (fl r) Hd0 Es Hk nx c Hnx Ec) as [Hcs [r' [Hr' Hout]]]. subst c.
  assert (r' = r).
  { pose proof (In_findf (files s) r (rw_fnodup _ _ _ _ _ Hrw) Hr) as E. unfold findf in *. congruence. }
  subst r'. split.
  - cbn [f_creator file_of]. unfold node_cre, creator_of, find_node. fold (findn (KFile, fl r) (nodes s)).
    rewrite Hnx, Ec. cbn. reflexivity.
  - cbn [f_state file_of]. apply out_state_not_static. exact Hout.
Qed.

(* ---- reachable states of the combined machine ---- *)
Inductive reach : st -> graph -> Prop :=
| reach_start s g : minv s g -> reach s g
| reach_op a o s g s' l g' : reach s g -> proven_op o = true ->
    step_op_t idf a o s = Ok (s', l) -> run_prims g l = Some g' -> reach s' g'
| reach_certified a o s g s' l g' : reach s g ->
    step_op_t idf a o s = Ok (s', l) -> run_prims g l = Some g' ->
    run_ok g l -> coupled idf s' g' -> J s' -> reach s' g'
(* the same certificate with ANY stored workflow s' that the result is coupled to (the proof never uses where s'
   comes from): for transactions on which the transaction model model/Graph.v lags behind the code in a
   structural column (the `deferred` flag cleared by the trigger step_node_undefer_reattached, repo 84081f2,
   which Graph.v does not have yet) the correspondence certifies with the state read off the replayed result *)
| reach_certified_state l s g s' g' : reach s g -> run_prims g l = Some g' ->
    run_ok g l -> coupled idf s' g' -> J s' -> reach s' g'
| reach_tick s g g' : reach s g -> update_meta g = Some g' -> reach s g'
(* finalize.revert_optional_steps at the end of a successful unrestricted phase: not a transaction of Graph.v's
   alphabet; FlagInv is PROVED for it (SchedRevert.revert_optional_sound), the stored workflow that the result
   is coupled to is certified (decidable: coupled_b, inv_core_b && ntc_b, fwf_b on every real occurrence) *)
| reach_revert s g s' : reach s g -> FWF g ->
    coupled idf s' (fst (revert_optional g)) -> J s' -> reach s' (fst (revert_optional g))
(* a new director run with other targets: Scheduler.initialize + Workflow.reconcile_targets.  The stored workflow
   does not change (only flags and the temp tables do); FlagInv is PROVED (SchedReconcile.reconcile_sound); its two
   hypotheses on the snapshot follow from the invariant and the coupling (LabelsUnique_cpl, OutInv_cpl) *)
| reach_targets s g ts tds thr : reach s g -> reach s (reconcile (set_targets g ts tds thr)).

Lemma reach_minv s g : reach s g -> minv s g.
Proof.
  induction 1 as [s g H | a o s g s' l g' _ IH Hp E Er | a o s g s' l g' _ IH E Er O C' HJ'
                  | l s g s' g' _ IH Er O C' HJ' | s g g' _ IH E
                  | s g s' _ IH Hfw C' HJ' | s g ts tds thr _ IH].
  - exact H.
  - destruct (op_preserving_correct a o s g s' l IH Hp E) as [g2 [Er2 [_ H2]]]. congruence.
  - eapply op_certified_correct; eassumption.
  - eapply op_certified_correct; eassumption.
  - destruct (tick_correct s g IH) as [g2 [E2 [_ [H2 _]]]]. congruence.
  - destruct IH as [_ [_ HF]]. split; [exact HJ'|]. split; [exact C'|].
    apply (revert_optional_sound g Hfw HF).
  - destruct IH as [HJ [C HF]]. split; [exact HJ|]. split.
    + apply (same_skel_coupled idf s g _ C). unfold reconcile, reconcile_with.
      eapply same_skel_trans; [|apply same_skel_flag_keys]. repeat split.
    + apply reconcile_sound; [reflexivity | apply (J_WF idf idf_inj s g HJ C) | apply (LabelsUnique_cpl s g HJ C)
                              | apply (OutInv_cpl s g HJ C) | exact HF].
Qed.

Theorem cached_equals_spec_at_every_decision s g : reach s g ->
  exists g', update_meta g = Some g' /\ AllCorrect g' /\
    forall x, In x (dispatch_set g') <-> (In x (g_steps g') /\ eligible_spec g' x = true).
Proof.
  intros H. destruct (tick_correct s g (reach_minv s g H)) as [g' [E [HA [_ Hd]]]]. exists g'. auto.
Qed.

(* C11 at every decision of a history (steps created during the phase by define_step / amend_step
   transactions included; revert_optional_steps between phases): every dispatched step is needed above
   the threshold, and a step that nothing else holds back is dispatched iff it is needed *)
Theorem executed_iff_needed_at_every_decision s g : reach s g ->
  exists g', update_meta g = Some g' /\ AllCorrect g' /\
    (forall x, In x (dispatch_set g') ->
       ND_OPTIONAL < need_spec g' (s_key x) /\ g_threshold g' < need_spec g' (s_key x)) /\
    (forall x, In x (g_steps g') ->
       s_state x = ST_PENDING -> s_detached x = false -> s_deferred x = false ->
       fst (safe_spec g' x) = true -> ready_spec g' (s_key x) = true -> res_unavailable g' x = false ->
       (In x (dispatch_set g') <->
        ND_OPTIONAL < need_spec g' (s_key x) /\ g_threshold g' < need_spec g' (s_key x))).
Proof.
  intros H. destruct (reach_minv s g H) as [HJ [C HF]].
  apply executed_iff_needed_repo;
    [apply (J_WF idf idf_inj s g HJ C) | apply (acyclic_cpl idf idf_inj s g HJ C) | exact HF | apply (HasHashInv_cpl s g C)].
Qed.

(* the machine is never stuck on a transaction of the proven class *)
Theorem reach_progress a o s g s' : reach s g -> proven_op o = true -> step_op o s = Ok s' ->
  exists l g', step_op_t idf a o s = Ok (s', l) /\ run_prims g l = Some g' /\ reach s' g'.
Proof.
  intros H Hp E. destruct (step_op_t_ok idf a o s s' E) as [l El].
  destruct (op_preserving_correct a o s g s' l (reach_minv s g H) Hp El) as [g' [Er _]].
  exists l, g'. split; [exact El|]. split; [exact Er|]. eapply reach_op; eassumption.
Qed.

End Machine.
