(* C10: histories of transactions of the stored workflow interleaved with the metadata updates of
   pop_next_job: at every dispatch decision the cached scheduling attributes equal their definitions. *)
From Coq Require Import List NArith Bool Arith Lia.
From SV Require Import lib.Bytes lib.Closure lib.SqlExpr gen.GenSched model.Graph model.GraphInv model.Sched
  model.SchedGraph proofs.GraphBase proofs.GraphNodes proofs.GraphInvP proofs.SchedProofs proofs.SchedPrims
  proofs.SchedSeq proofs.SchedSkel proofs.SchedGraphCpl proofs.SchedGraphBelow proofs.SchedGraphSim
  proofs.SchedGraphErase proofs.SchedGraphAcyclic proofs.SchedGraphDelete proofs.SchedRevert proofs.SchedReconcile.
Import ListNotations.
Open Scope N_scope.

(* ---- the metadata updates only rewrite cached columns and flags ---- *)
Lemma update_meta_safe_same_skel pol g : same_skel g (update_meta_safe_with pol g).
Proof.
  apply (same_skel_mapg (fun s => match merge_vals pol (trace_vals (safe_fuel_of g) g s) with
                                  | None => set_chk_safe s false
                                  | Some v => set_chk_safe (set_safe s (fst v) (snd v)) false end)).
  intros s. destruct (merge_vals _ _); reflexivity.
Qed.
Lemma write_back_same_skel g v : same_skel g (write_back g v).
Proof.
  apply (same_skel_mapg (fun s => set_chk_after (set_after s (fst (v (s_key s))) (snd (v (s_key s)))) false)).
  intros s. reflexivity.
Qed.
Lemma update_meta_ready_same_skel g : same_skel g (update_meta_ready g).
Proof.
  apply (same_skel_mapg (fun s => if s_chk_ready s then set_ready s (ready_spec g (s_key s)) false else s)).
  intros s. destruct (s_chk_ready s); reflexivity.
Qed.

Lemma update_meta_same_skel g g' : update_meta g = Some g' -> same_skel g g'.
Proof.
  unfold update_meta, update_meta_with. destruct (update_meta_after _) as [g2|] eqn:E2; [|discriminate].
  intros E. injection E as <-.
  unfold update_meta_after in E2. destruct (after_loop _ _ _ _ _) as [v|]; [|discriminate]. injection E2 as <-.
  eapply same_skel_trans; [apply update_meta_safe_same_skel|].
  eapply same_skel_trans; [apply write_back_same_skel | apply update_meta_ready_same_skel].
Qed.

(* every cached attribute correct and no flag: in particular nothing stale is unflagged *)
Lemma AllCorrect_FlagInv g : WF g -> DepAcyclic g -> AllCorrect g -> FlagInv g.
Proof.
  intros Hwf Hda HA. split; [|split].
  - intros s Hin _. apply (HA s Hin).
  - intros s Hin Hd _ _. destruct (HA s Hin) as [_ [Hn _]]. rewrite (Hn Hd).
    assert (Hk : In (s_key s) (attached_keys g)).
    { unfold attached_keys. apply in_map. apply filter_In. split; [exact Hin | rewrite Hd; reflexivity]. }
    rewrite (need_spec_fix g Hda _ Hk). unfold new_val. cbn [fst]. f_equal.
    change ND_OPTIONAL with after_sink_default. f_equal. apply map_ext_in. intros y Hy.
    apply cons_keys_attached in Hy. apply attached_keys_step in Hy. destruct Hy as [sy [Hsy [Ek Hdy]]].
    unfold vals_of. rewrite <- Ek, (find_step_in g sy Hwf Hsy). cbn [fst].
    destruct (HA sy Hsy) as [_ [Hny _]]. symmetry. apply Hny. exact Hdy.
  - intros s Hin _. apply (HA s Hin).
Qed.

Section Machine.
Variable idf : key -> N.
Hypothesis idf_inj : forall a b, idf a = idf b -> a = b.

(* the invariant of the combined machine *)
Definition minv (s : st) (g : graph) : Prop := J s /\ coupled idf s g /\ FlagInv g.

Lemma HasHashInv_cpl s g : coupled idf s g -> HasHashInv g.
Proof.
  intros C x Hx. destruct (in_steps_cpl idf s g x C Hx) as [r [_ E]].
  pose proof (f_equal q_hh E) as H1. pose proof (f_equal q_stored E) as H2. cbn in H1, H2. congruence.
Qed.

(* the metadata updates of pop_next_job on a state of the machine *)
Theorem tick_correct s g : minv s g ->
  exists g', update_meta g = Some g' /\ AllCorrect g' /\ minv s g' /\
    forall x, In x (dispatch_set g') <-> (In x (g_steps g') /\ eligible_spec g' x = true).
Proof.
  intros [HJ [C HF]].
  pose proof (J_WF idf idf_inj s g HJ C) as Hwf.
  pose proof (acyclic_cpl idf idf_inj s g HJ C) as Hac.
  destruct (dispatch_only_eligible_repo g Hwf Hac HF (HasHashInv_cpl s g C)) as [g' [E [HA Hd]]].
  exists g'. split; [exact E|]. split; [exact HA|]. split; [|exact Hd].
  pose proof (same_skel_coupled idf s g g' C (update_meta_same_skel g g' E)) as C'.
  split; [exact HJ|]. split; [exact C'|].
  apply AllCorrect_FlagInv; [apply (J_WF idf idf_inj s g' HJ C') | apply (acyclic_cpl idf idf_inj s g' HJ C') | exact HA].
Qed.

(* a transaction that neither creates nor deletes nodes *)
Theorem op_preserving_correct a o s g s' l : minv s g -> proven_op o = true ->
  step_op_t idf a o s = Ok (s', l) ->
  exists g', run_prims g l = Some g' /\ run_ok g l /\ minv s' g'.
Proof.
  intros [HJ [C HF]] Hp E.
  destruct (sim_FlagInv idf idf_inj s _ _ s' l g (step_op_t_sim_proven idf idf_inj a o s HJ Hp) E HJ C HF)
    as [HJ' [g' [Er [C' [O [_ HF']]]]]].
  exists g'. split; [exact Er|]. split; [exact O|]. split; [exact HJ'|]. split; assumption.
Qed.

(* a transaction whose projection is certified: the side conditions and the coupling of the result
   (decidable; evaluated by the correspondence on every real transaction) and C09's invariant *)
Theorem op_certified_correct s g s' l g' : minv s g ->
  run_prims g l = Some g' -> run_ok g l -> coupled idf s' g' -> J s' -> minv s' g'.
Proof.
  intros [HJ [C HF]] Er O C' HJ'. split; [exact HJ'|]. split; [exact C'|].
  apply (prims_preserve_FlagInv l g g' (J_WF idf idf_inj s g HJ C) HF O Er).
Qed.

(* ---- reachable states of the combined machine ---- *)
Inductive reach : st -> graph -> Prop :=
| reach_start s g : minv s g -> reach s g
| reach_op a o s g s' l g' : reach s g -> proven_op o = true ->
    step_op_t idf a o s = Ok (s', l) -> run_prims g l = Some g' -> reach s' g'
| reach_certified a o s g s' l g' : reach s g ->
    step_op_t idf a o s = Ok (s', l) -> run_prims g l = Some g' ->
    run_ok g l -> coupled idf s' g' -> J s' -> reach s' g'
(* the same certificate with ANY stored workflow s' that the result is coupled to (the proof never uses where s'
   comes from): for transactions on which the transaction model model/Graph.v lags behind the code in a
   structural column (the `deferred` flag cleared by the trigger step_node_undefer_reattached, repo 84081f2,
   which Graph.v does not have yet) the correspondence certifies with the state read off the replayed result *)
| reach_certified_state l s g s' g' : reach s g -> run_prims g l = Some g' ->
    run_ok g l -> coupled idf s' g' -> J s' -> reach s' g'
| reach_tick s g g' : reach s g -> update_meta g = Some g' -> reach s g'
(* finalize.revert_optional_steps at the end of a successful unrestricted phase: not a transaction of Graph.v's
   alphabet; FlagInv is PROVED for it (SchedRevert.revert_optional_sound), the stored workflow that the result
   is coupled to is certified (decidable: coupled_b, inv_core_b && ntc_b, fwf_b on every real occurrence) *)
| reach_revert s g s' : reach s g -> FWF g ->
    coupled idf s' (fst (revert_optional g)) -> J s' -> reach s' (fst (revert_optional g))
(* a new director run with other targets: Scheduler.initialize + Workflow.reconcile_targets.  The stored workflow
   does not change (only flags and the temp tables do); FlagInv is PROVED (SchedReconcile.reconcile_sound) under
   two hypotheses on the snapshot that the correspondence evaluates on every real reconcile *)
| reach_targets s g ts tds thr : reach s g -> LabelsUnique g -> OutInv g ->
    reach s (reconcile (set_targets g ts tds thr)).

Lemma reach_minv s g : reach s g -> minv s g.
Proof.
  induction 1 as [s g H | a o s g s' l g' _ IH Hp E Er | a o s g s' l g' _ IH E Er O C' HJ'
                  | l s g s' g' _ IH Er O C' HJ' | s g g' _ IH E
                  | s g s' _ IH Hfw C' HJ' | s g ts tds thr _ IH Hl Ho].
  - exact H.
  - destruct (op_preserving_correct a o s g s' l IH Hp E) as [g2 [Er2 [_ H2]]]. congruence.
  - eapply op_certified_correct; eassumption.
  - eapply op_certified_correct; eassumption.
  - destruct (tick_correct s g IH) as [g2 [E2 [_ [H2 _]]]]. congruence.
  - destruct IH as [_ [_ HF]]. split; [exact HJ'|]. split; [exact C'|].
    apply (revert_optional_sound g Hfw HF).
  - destruct IH as [HJ [C HF]]. split; [exact HJ|]. split.
    + apply (same_skel_coupled idf s g _ C). unfold reconcile, reconcile_with.
      eapply same_skel_trans; [|apply same_skel_flag_keys]. repeat split.
    + apply reconcile_sound; [reflexivity | apply (J_WF idf idf_inj s g HJ C) | exact Hl | exact Ho | exact HF].
Qed.

Theorem cached_equals_spec_at_every_decision s g : reach s g ->
  exists g', update_meta g = Some g' /\ AllCorrect g' /\
    forall x, In x (dispatch_set g') <-> (In x (g_steps g') /\ eligible_spec g' x = true).
Proof.
  intros H. destruct (tick_correct s g (reach_minv s g H)) as [g' [E [HA [_ Hd]]]]. exists g'. auto.
Qed.

(* C11 at every decision of a history (steps created during the phase by define_step / amend_step
   transactions included; revert_optional_steps between phases): every dispatched step is needed above
   the threshold, and a step that nothing else holds back is dispatched iff it is needed *)
Theorem executed_iff_needed_at_every_decision s g : reach s g ->
  exists g', update_meta g = Some g' /\ AllCorrect g' /\
    (forall x, In x (dispatch_set g') ->
       ND_OPTIONAL < need_spec g' (s_key x) /\ g_threshold g' < need_spec g' (s_key x)) /\
    (forall x, In x (g_steps g') ->
       s_state x = ST_PENDING -> s_detached x = false -> s_deferred x = false ->
       fst (safe_spec g' x) = true -> ready_spec g' (s_key x) = true -> res_unavailable g' x = false ->
       (In x (dispatch_set g') <->
        ND_OPTIONAL < need_spec g' (s_key x) /\ g_threshold g' < need_spec g' (s_key x))).
Proof.
  intros H. destruct (reach_minv s g H) as [HJ [C HF]].
  apply executed_iff_needed_repo;
    [apply (J_WF idf idf_inj s g HJ C) | apply (acyclic_cpl idf idf_inj s g HJ C) | exact HF | apply (HasHashInv_cpl s g C)].
Qed.

(* the machine is never stuck on a transaction of the proven class *)
Theorem reach_progress a o s g s' : reach s g -> proven_op o = true -> step_op o s = Ok s' ->
  exists l g', step_op_t idf a o s = Ok (s', l) /\ run_prims g l = Some g' /\ reach s' g'.
Proof.
  intros H Hp E. destruct (step_op_t_ok idf a o s s' E) as [l El].
  destruct (op_preserving_correct a o s g s' l (reach_minv s g H) Hp El) as [g' [Er _]].
  exists l, g'. split; [exact El|]. split; [exact Er|]. eapply reach_op; eassumption.
Qed.

End Machine.
