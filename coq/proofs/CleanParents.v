(* proofs/CleanParents.v -- directories on the way to an output that are symbolic links (C06). *)
From Coq Require Import List NArith Bool.
From SV Require Import lib.Bytes.
From SV Require Import gen.GenClean.
From SV Require Import model.TrellisDD.
From SV Require Import model.Clean.
From SV Require Import model.CleanParents.
From SV Require Import proofs.TrellisDDProofs.
From SV Require Import proofs.CleanProofs.
Import ListNotations.
Open Scope N_scope.

Lemma real_location_unlinked fuel f p : has_linked_parent f p = false -> real_location fuel f p = p.
Proof.
  unfold has_linked_parent. destruct fuel as [|k]; cbn [real_location]; [reflexivity|].
  destruct (redirect f [] p); [discriminate | reflexivity].
Qed.

(* With the guard, the removal primitive of model/Clean.v (rm_file: the entry p itself goes) IS what the kernel does. *)
Theorem guarded_unlink_is_model_unlink f p : has_linked_parent f p = false -> kernel_unlink f p = rm_file f p.
Proof. intros H. unfold kernel_unlink. rewrite (real_location_unlinked _ f p H). reflexivity. Qed.

(* "os.remove(p) takes away nothing but p" *)
Definition unlink_removes_only_its_path : Prop :=
  forall f p f', kernel_unlink f p = (f', true) ->
    forall q, fs_get f q <> None -> fs_get f' q = None -> q = p.

Theorem unlink_removes_only_its_path_guarded f p f' :
  has_linked_parent f p = false -> kernel_unlink f p = (f', true) ->
  forall q, fs_get f q <> None -> fs_get f' q = None -> q = p.
Proof.
  intros Hg Hk q Hq Hn. rewrite (guarded_unlink_is_model_unlink f p Hg) in Hk.
  apply rm_file_spec in Hk. destruct Hk as [[_ [_ ->]]|[Hb _]]; [|discriminate Hb].
  destruct (str_eqb q p) eqn:E; [apply str_eqb_eq; exact E|].
  apply str_eqb_neq in E. rewrite fs_get_del_other in Hn by exact E. contradiction.
Qed.

(* finding (C06, linked-parent-directory): without the guard it is false.  Witness: the user copied the results to
   "b", removed "r" and made it a symbolic link to "b"; the queued output "r/o" (recorded hash 1) now is the user's
   own file "b/o", which reads as hash 1 through the link, is unlinked, and vanishes although "b/o" was never queued. *)
Definition pl_r : str := [114].
Definition pl_b : str := [98].
Definition pl_ro : str := [114; 47; 111].
Definition pl_bo : str := [98; 47; 111].
Definition pl_fs : fsys := [(pl_r, FLink pl_b); (pl_b, FDir); (pl_bo, FFile 1)].

Theorem unlink_removes_only_its_path_refuted : ~ unlink_removes_only_its_path.
Proof.
  intros H. specialize (H pl_fs pl_ro (fs_del pl_fs pl_bo)).
  assert (kernel_unlink pl_fs pl_ro = (fs_del pl_fs pl_bo, true)) as Hk by (vm_compute; reflexivity).
  specialize (H Hk pl_bo). assert (pl_bo = pl_ro) as Heq.
  { apply H; vm_compute; [discriminate | reflexivity]. }
  vm_compute in Heq. discriminate Heq.
Qed.

Example linked_parent_witness_is_guarded : has_linked_parent pl_fs pl_ro = true /\ has_linked_parent pl_fs pl_bo = false.
Proof. vm_compute. split; reflexivity. Qed.
