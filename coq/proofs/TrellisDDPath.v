(* proofs/TrellisDDPath.v -- the path form of dd_survivors as an equivalence.

   dd_survivors characterises the survivors of Trellis.delete_detached as the greatest self-supporting
   set.  Here: a key lies in some self-supporting set iff it reaches, along product and sink edges, an
   attached node or a node on a cycle.  "If" is TrellisDDProofs (reaches_path_ss and the two
   dd_survives_if_* theorems); "only if" is a pigeonhole argument: follow successors inside the set;
   the walk either meets an attached node or, after more steps than the set has members, a key that
   was visited before. *)
From Coq Require Import List NArith Bool Lia.
From SV Require Import lib.Bytes.
From SV Require Import gen.GenClean.
From SV Require Import model.TrellisDD.
From SV Require Import proofs.TrellisDDProofs.
Import ListNotations.
Open Scope N_scope.

Lemma key_eq_dec (a b : key) : {a = b} + {a <> b}.
Proof.
  destruct (key_eqb a b) eqn:E.
  - left. apply key_eqb_eq. exact E.
  - right. apply key_eqb_neq. exact E.
Qed.

(* a path extended by one edge at its end *)
Lemma reaches_snoc g a b c nc :
  reaches g a b -> succ_of g b c -> In nc (gnodes g) -> nkey nc = c -> reaches g a c.
Proof.
  induction 1 as [k n Hn Hk|k m l n Hn Hk Hs Hr IH]; intros Hbc Hnc Hkc.
  - apply (reaches_step g k c c n Hn Hk Hbc). apply (reaches_refl g c nc Hnc Hkc).
  - apply (reaches_step g k m c n Hn Hk Hs). apply IH; assumption.
Qed.

(* what the walk is looking for *)
Definition anchored (g : graph) (l : key) : Prop :=
  (exists n, In n (gnodes g) /\ nkey n = l /\ ndet n = false) \/
  (exists m, succ_of g l m /\ reaches g m l).

(* V: the keys visited so far (all different, all in S, each reaches the current key k);
   fuel: more than the number of members of S that are not yet visited. *)
Lemma ss_walk g S (Hss : self_supporting g S) k0 : forall fuel V k,
  NoDup V -> incl V S -> In k S -> ~ In k V ->
  (forall v, In v V -> reaches g v k) -> reaches g k0 k ->
  (length S < length V + fuel)%nat ->
  exists l, reaches g k0 l /\ anchored g l.
Proof.
  induction fuel as [|fuel IH]; intros V k Hnd Hincl HkS HkV Hreach Hk0 Hlen.
  - exfalso. pose proof (NoDup_incl_length Hnd Hincl). lia.
  - destruct (Hss k HkS) as [n [Hn [Hkn Hc]]].
    destruct Hc as [Hatt|[m [Hkm HmS]]].
    + exists k. split; [exact Hk0|]. left. exists n. repeat split; assumption.
    + destruct (Hss m HmS) as [nm [Hnm [Hknm _]]].
      destruct (key_eq_dec m k) as [->|Hmk].
      * exists k. split; [exact Hk0|]. right. exists k. split; [exact Hkm|].
        apply (reaches_refl g k n Hn Hkn).
      * destruct (in_dec key_eq_dec m V) as [HmV|HmV].
        -- exists k. split; [exact Hk0|]. right. exists m. split; [exact Hkm | apply Hreach; exact HmV].
        -- apply (IH (k :: V) m).
           ++ constructor; assumption.
           ++ intros x [<-|Hx]; [exact HkS | apply Hincl; exact Hx].
           ++ exact HmS.
           ++ intros [E|Hin]; [apply Hmk; symmetry; exact E | apply HmV; exact Hin].
           ++ intros v [<-|Hv].
              ** apply (reaches_step g k m m n Hn Hkn Hkm). apply (reaches_refl g m nm Hnm Hknm).
              ** apply (reaches_snoc g v k m nm); [apply Hreach; exact Hv | exact Hkm | exact Hnm | exact Hknm].
           ++ apply (reaches_snoc g k0 k m nm); assumption.
           ++ cbn [length]. lia.
Qed.

Lemma ss_reaches_anchor g S k :
  self_supporting g S -> In k S -> exists l, reaches g k l /\ anchored g l.
Proof.
  intros Hss Hk. destruct (Hss k Hk) as [n [Hn [Hkn _]]].
  apply (ss_walk g S Hss k (Datatypes.S (length S)) [] k).
  - constructor.
  - intros x [].
  - exact Hk.
  - intros [].
  - intros v [].
  - apply (reaches_refl g k n Hn Hkn).
  - cbn [length]. lia.
Qed.

(* the other direction, for self-supporting sets (no table constraints needed) *)
Lemma anchor_ss g k l : reaches g k l -> anchored g l -> exists S, self_supporting g S /\ In k S.
Proof.
  intros Hr [[n [Hn [Hkn Hd]]]|[m [Hs Hback]]].
  - apply (reaches_path_ss g k l [l]); [exact Hr | | left; reflexivity].
    intros x [<-|[]]. exists n. split; [exact Hn | split; [exact Hkn | left; exact Hd]].
  - destruct (reaches_target_node g k l Hr) as [nl [Hnl Hkl]].
    destruct (reaches_supported_upto g m l Hback) as [V [HV Hm]].
    apply (reaches_path_ss g k l (l :: V)); [exact Hr | | left; reflexivity].
    intros x [<-|Hx].
    + exists nl. split; [exact Hnl | split; [exact Hkl|]]. right. exists m. split; [exact Hs|].
      destruct Hm as [Hm|Hm]; [right; exact Hm | left; symmetry; exact Hm].
    + destruct (HV x Hx) as [n' [Hn' [Hk' Hc']]]. exists n'. split; [exact Hn' | split; [exact Hk'|]].
      destruct Hc' as [Hc'|[y [Hy [Hy'|Hy']]]].
      * left; exact Hc'.
      * right; exists y; split; [exact Hy | right; exact Hy'].
      * right; exists y; split; [exact Hy | left; symmetry; exact Hy'].
Qed.

Theorem ss_iff_reaches_anchor g k :
  (exists S, self_supporting g S /\ In k S) <-> exists l, reaches g k l /\ anchored g l.
Proof.
  split.
  - intros [S [Hss Hk]]. apply (ss_reaches_anchor g S k Hss Hk).
  - intros [l [Hr Ha]]. apply (anchor_ss g k l Hr Ha).
Qed.

(* The survivors of Trellis.delete_detached, in path form. *)
Theorem dd_survivors_path g : keys_nodup g -> deps_closed g -> forall k,
  In k (map nkey (gnodes (dd_g (trellis_dd g)))) <->
  exists l, reaches g k l /\
    ((exists n, In n (gnodes g) /\ nkey n = l /\ ndet n = false) \/
     (exists m, succ_of g l m /\ reaches g m l)).
Proof.
  intros Hnd Hc k. rewrite (dd_survivors g Hnd Hc k). apply ss_iff_reaches_anchor.
Qed.

(* and the complement: what is deleted reaches neither an attached node nor a cycle *)
Corollary dd_deleted_path g : keys_nodup g -> deps_closed g -> forall n,
  In n (gnodes g) -> ~ In (nkey n) (map nkey (gnodes (dd_g (trellis_dd g)))) ->
  forall l, reaches g (nkey n) l ->
    (forall x, In x (gnodes g) -> nkey x = l -> ndet x = true) /\
    (forall m, succ_of g l m -> ~ reaches g m l).
Proof.
  intros Hnd Hc n Hn Hgone l Hr. split.
  - intros x Hx Hkx. destruct (ndet x) eqn:Hd; [reflexivity|]. exfalso. apply Hgone.
    apply (dd_survivors_path g Hnd Hc). exists l. split; [exact Hr|]. left. exists x. repeat split; assumption.
  - intros m Hs Hback. apply Hgone. apply (dd_survivors_path g Hnd Hc). exists l. split; [exact Hr|].
    right. exists m. split; assumption.
Qed.
