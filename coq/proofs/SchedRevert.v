(* finalize.revert_optional_steps keeps the flag invariant (C10 FlagInv): the cached scheduling attributes of
   the next build phase are again recomputed correctly by the first metadata pass.  (C11) *)
From Coq Require Import List NArith Bool Arith Lia.
From SV Require Import lib.Bytes lib.SqlExpr gen.GenSched model.Sched proofs.SchedProofs.
Import ListNotations.
Open Scope N_scope.

(* unique node ids among the file rows *)
Definition FWF (g : graph) : Prop := NoDup (map f_key (g_files g)).

Lemma trigF_key g body self d s : s_key (trigF g body self d s) = s_key s.
Proof. apply (k_key _ (of_keeps _ (trigF_only_flags g body self d))). Qed.

Lemma set_step_state_files g k st df : g_files (set_step_state g k st df) = g_files g.
Proof. unfold set_step_state. rewrite run_trigger_mapg. reflexivity. Qed.

Lemma set_step_state_keys g k st df : map s_key (g_steps (set_step_state g k st df)) = map s_key (g_steps g).
Proof.
  unfold set_step_state. rewrite run_trigger_mapg. unfold mapg. cbn [g_steps with_steps].
  rewrite !map_map. apply map_ext. intros s.
  rewrite trigF_key. destruct (s_key s =? k); reflexivity.
Qed.

Lemma set_file_state_files g k st h :
  g_files (set_file_state g k st h) = map (fun f => if f_key f =? k then set_fstate f st h else f) (g_files g).
Proof.
  unfold set_file_state. destruct (find_file g k) as [f0|] eqn:E.
  - destruct (negb trg_file_state_upd_on_change_only || negb (f_state f0 =? st)).
    + rewrite run_trigger_mapg. reflexivity.
    + reflexivity.
  - transitivity (map (fun f : file => f) (g_files g)); [symmetry; apply map_id|].
    apply map_ext_in. intros f Hf.
    destruct (f_key f =? k) eqn:Ek; [|reflexivity]. exfalso.
    unfold find_file in E. pose proof (find_none _ _ E f Hf) as Hn. cbv beta in Hn. congruence.
Qed.

Lemma set_file_state_keys g k st h : map s_key (g_steps (set_file_state g k st h)) = map s_key (g_steps g).
Proof.
  unfold set_file_state. destruct (find_file g k) as [f0|]; [|reflexivity].
  destruct (negb trg_file_state_upd_on_change_only || negb (f_state f0 =? st)); [|reflexivity].
  rewrite run_trigger_mapg. unfold mapg. cbn [g_steps with_steps with_files].
  rewrite map_map. apply map_ext. intros s. apply trigF_key.
Qed.

(* generated facts about finalize.py's constants *)
Lemma revert_keep_is_volatile : revert_keep_state = FS_VOLATILE.
Proof. reflexivity. Qed.
Lemma revert_file_state_not_volatile : (revert_file_state =? FS_VOLATILE) = false.
Proof. reflexivity. Qed.

(* -- the step part -- *)
Lemma revert_steps_fold (opt : list N) (l : list step) acc :
  FlagInv acc ->
  let r := fold_left (fun (a : graph) (s : step) =>
                        if mem_N (s_key s) opt && negb (s_state s =? revert_step_state)
                        then set_step_state a (s_key s) revert_step_state (s_deferred s) else a) l acc in
  FlagInv r /\ g_files r = g_files acc /\ map s_key (g_steps r) = map s_key (g_steps acc).
Proof.
  revert acc. induction l as [|s l IH]; intros acc HF; cbn [fold_left].
  - auto.
  - destruct (mem_N (s_key s) opt && negb (s_state s =? revert_step_state)).
    + destruct (IH (set_step_state acc (s_key s) revert_step_state (s_deferred s))
                   (set_step_state_sound_repo _ _ _ _ HF)) as [A [B C]].
      split; [exact A|]. split.
      * rewrite B. apply set_step_state_files.
      * rewrite C. apply set_step_state_keys.
    + apply IH. exact HF.
Qed.

(* -- the file part -- *)
Definition nonvol_at (g : graph) (k : N) : Prop :=
  forall f, In f (g_files g) -> f_key f = k -> (f_state f =? FS_VOLATILE) = false.

Lemma nonvol_after g k st h k' :
  (st =? FS_VOLATILE) = false -> nonvol_at g k' -> nonvol_at (set_file_state g k st h) k'.
Proof.
  intros Hst H f Hf Hk. rewrite set_file_state_files in Hf. apply in_map_iff in Hf.
  destruct Hf as [f0 [E Hf0]]. destruct (f_key f0 =? k) eqn:Ek.
  - subst f. cbn [set_fstate f_state]. exact Hst.
  - subst f. apply (H f0 Hf0 Hk).
Qed.

Lemma revert_files_fold (q : list (N * bool)) acc :
  FlagInv acc ->
  (forall k, In (k, true) q -> nonvol_at acc k) ->
  let r := fold_left (fun (a : graph) (kb : N * bool) =>
                        if snd kb then set_file_state a (fst kb) revert_file_state false else a) q acc in
  FlagInv r /\ map s_key (g_steps r) = map s_key (g_steps acc).
Proof.
  revert acc. induction q as [|[k b] q IH]; intros acc HF Hq; cbn [fold_left fst snd].
  - auto.
  - destruct b.
    + assert (HF' : FlagInv (set_file_state acc k revert_file_state false)).
      { destruct HF as [HFs [HFn HFr]].
        destruct (set_file_state_sound_repo acc k revert_file_state false (conj HFs HFr)) as [A B].
        split; [exact A|]. split; [|exact B].
        apply set_file_state_need_sound; [|exact HFn].
        intros f Hf Hk. rewrite revert_file_state_not_volatile. apply (Hq k (or_introl eq_refl) f Hf Hk). }
      destruct (IH _ HF') as [A B].
      * intros k' Hk'. apply nonvol_after; [apply revert_file_state_not_volatile|].
        apply Hq. right. exact Hk'.
      * split; [exact A|]. rewrite B. apply set_file_state_keys.
    + apply IH; [exact HF|]. intros k' Hk'. apply Hq. right. exact Hk'.
Qed.

Lemma NoDup_key_eq (l : list file) f1 f2 :
  NoDup (map f_key l) -> In f1 l -> In f2 l -> f_key f1 = f_key f2 -> f1 = f2.
Proof.
  induction l as [|a l IH]; intros Hnd H1 H2 E; [destruct H1|].
  cbn [map] in Hnd. inversion Hnd as [|x y Hni Hnd']; subst.
  destruct H1 as [<-|H1], H2 as [<-|H2].
  - reflexivity.
  - exfalso. apply Hni. rewrite E. apply in_map. exact H2.
  - exfalso. apply Hni. rewrite <- E. apply in_map. exact H1.
  - apply IH; assumption.
Qed.

Theorem revert_optional_sound g :
  FWF g -> FlagInv g ->
  FlagInv (fst (revert_optional g)) /\
  map s_key (g_steps (fst (revert_optional g))) = map s_key (g_steps g).
Proof.
  intros Hfw HF. unfold revert_optional. cbn [fst].
  destruct (revert_steps_fold (optional_keys g) (g_steps g) g HF) as [A [B C]]. cbv zeta in A, B, C.
  set (g1 := fold_left _ (g_steps g) g) in *.
  destruct (revert_files_fold (revert_queue g) g1 A) as [A2 B2].
  - intros k Hin f Hf Hk. rewrite B in Hf.
    unfold revert_queue in Hin. apply in_map_iff in Hin. destruct Hin as [f0 [E Hf0]].
    apply filter_In in Hf0. destruct Hf0 as [Hf0 _].
    inversion E as [[E1 E2]].
    assert (f = f0) by (apply (NoDup_key_eq (g_files g)); [exact Hfw | exact Hf | exact Hf0 | congruence]).
    subst f0. rewrite revert_keep_is_volatile in E2. apply negb_true_iff in E2. exact E2.
  - split; [exact A2|]. cbv zeta in B2. rewrite B2. exact C.
Qed.

Theorem revert_optional_WF g : WF g -> FWF g -> FlagInv g -> WF (fst (revert_optional g)).
Proof.
  intros Hwf Hfw HF. unfold WF. rewrite (proj2 (revert_optional_sound g Hfw HF)). exact Hwf.
Qed.

(* decidable form *)
Lemma nodup_b_NoDup l : nodup_b l = true -> NoDup l.
Proof.
  induction l as [|a l IH]; intros H; [constructor|]. cbn [nodup_b] in H.
  apply andb_true_iff in H. destruct H as [H1 H2]. constructor; [|apply IH; exact H2].
  intros Hin. apply mem_N_In in Hin. rewrite Hin in H1. discriminate.
Qed.
Lemma fwf_b_sound g : fwf_b g = true -> FWF g.
Proof. apply nodup_b_NoDup. Qed.
