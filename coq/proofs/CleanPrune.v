(* proofs/CleanPrune.v -- _prune_empty_dirs: directories above the marked ones (C07). *)
From Coq Require Import List NArith Bool Lia.
From SV Require Import lib.Bytes.
From SV Require Import gen.GenClean.
From SV Require Import model.TrellisDD.
From SV Require Import model.Clean.
From SV Require Import proofs.TrellisDDProofs.
From SV Require Import proofs.CleanProofs.
From SV Require Import proofs.CleanDirs.
Import ListNotations.
Open Scope N_scope.

(* "together with the directories StepUp created for it that became empty": the walk does not stop at the marked
   directories.  Whenever a directory is removed, its parent (unless that is the project root) is not left behind as
   an empty directory -- by induction up the tree: every ancestor that became empty is gone.  `once`: the shape of
   the loop (examined at most once / revisited). *)
Definition emptied_parents_pruned (once : bool) : Prop :=
  forall dirs f, fs_closedb f = true ->
    forall x, In x (snd (prune_dirs_gen once dirs f)) -> parent_ok (dirname x) = true ->
      ~ (fs_get (fst (prune_dirs_gen once dirs f)) (dirname x) = Some FDir /\
         dir_empty (fst (prune_dirs_gen once dirs f)) (dirname x) = true).

(* the variant with a `seen` set is refuted by two sibling directories: r/a and r/b are marked and empty; r/b goes,
   r is examined (r/a is still there) and remembered; r/a goes, r is pushed again and skipped; r stays behind empty *)
Definition sib_r : str := [114].
Definition sib_ra : str := [114; 47; 97].
Definition sib_rb : str := [114; 47; 98].
Definition sib_fs : fsys := [(sib_r, FDir); (sib_ra, FDir); (sib_rb, FDir)].

Theorem emptied_parents_pruned_seen_set_refuted : ~ emptied_parents_pruned true.
Proof.
  intros H. apply (H [sib_ra; sib_rb] sib_fs eq_refl sib_ra); vm_compute.
  - first [left; reflexivity | right; left; reflexivity].
  - reflexivity.
  - split; reflexivity.
Qed.

Example siblings_pruned_by_the_revisiting_loop :
  fst (prune_dirs_gen false [sib_ra; sib_rb] sib_fs) = [].
Proof. vm_compute. reflexivity. Qed.

Theorem seen_set_variant_is_the_code : prune_visits_once = true -> ~ emptied_parents_pruned prune_visits_once.
Proof. intros ->. exact emptied_parents_pruned_seen_set_refuted. Qed.

(* ---- finding volatile-redeclared-regular (C07): a VOLATILE row declared again as a regular output ------------------- *)

(* "a state that File.before_delete queues survives File.initialize_row(PLANNED)" (the output is declared again by
   define_step / amend_step): true for BUILT / OUTDATED (the keep rule), FALSE for VOLATILE: the row becomes PLANNED
   without hash, which neither before_delete nor revert_optional_steps queues; if the step does not run again
   (dropped, or optional and not needed) the file written while the path was volatile stays on disk for good. *)
Definition redeclare_keeps_cleanup_memory : Prop :=
  forall s, queued_on_delete s = true -> queued_on_delete (init_row_state FS_PLANNED s) = true.

Theorem redeclare_keeps_cleanup_memory_hashed s :
  memN s bd_hashed_states = true -> queued_on_delete (init_row_state FS_PLANNED s) = true.
Proof.
  intros H. apply (memN_forallb (fun x => queued_on_delete (init_row_state FS_PLANNED x)) s _ H).
  vm_compute. reflexivity.
Qed.

Theorem redeclare_keeps_cleanup_memory_refuted : ~ redeclare_keeps_cleanup_memory.
Proof. intros H. specialize (H FS_VOLATILE eq_refl). vm_compute in H. discriminate H. Qed.
