(* C09: finalize.revert_optional_steps (model/GraphExt.v revert_optional) satisfies the frame GG, for
   EVERY selection of steps: the selected steps are PENDING before any of their outputs becomes
   PLANNED, and (I4a) an output edge whose sink has a creator points to a product of its source, so no
   product of a SUCCEEDED step becomes PLANNED. *)
From Coq Require Import List NArith Bool Lia.
From SV Require Import lib.Bytes lib.Closure model.Graph model.GraphDump model.GraphInv model.GraphTree model.GraphTreeInv
  model.GraphCheck model.GraphExt
  proofs.GraphBase proofs.GraphNodes proofs.GraphInvP proofs.GraphPrims proofs.GraphFrames proofs.GraphCreate
  proofs.GraphOps proofs.GraphLife proofs.GraphSucc proofs.GraphTrans proofs.GraphTreeSim proofs.GraphNodeFrame
  proofs.GraphProofs proofs.GraphTreeT1 proofs.GraphTreeOps proofs.GraphExtP proofs.GraphExtFull.
Import ListNotations.
Open Scope N_scope.

Section HH.
Context {hh : bool}.

Definition pendF (s : st) (l : str) : res st :=
  match sstate_of l s with Some SPending => Ok s | _ => set_sstate_raw l SPending s end.

Lemma pendF_spec l s : Inv hh s -> find_step l s <> None ->
  wpg false (pendF s l)
      (fun s' => Inv hh s' /\ SO s s' /\ G3 s s' /\ files s' = files s /\ shash s' = shash s /\
                 (forall x, x <> l -> find_step x s' = find_step x s) /\ sstate_of l s' = Some SPending).
Proof.
  intros HI Hf. unfold pendF.
  assert (Hsame : sstate_of l s = Some SPending ->
            Inv hh s /\ SO s s /\ G3 s s /\ files s = files s /\ shash s = shash s /\
            (forall x, x <> l -> find_step x s = find_step x s) /\ sstate_of l s = Some SPending).
  { intros E. split; [exact HI|]. split; [apply SO_refl|]. split; [apply G3_refl|]. split; [reflexivity|].
    split; [reflexivity|]. split; [reflexivity | exact E]. }
  assert (Hset : wpg false (set_sstate_raw l SPending s)
            (fun s' => Inv hh s' /\ SO s s' /\ G3 s s' /\ files s' = files s /\ shash s' = shash s /\
                 (forall x, x <> l -> find_step x s' = find_step x s) /\ sstate_of l s' = Some SPending)).
  { unfold set_sstate_raw. destruct (find_step l s) as [r|] eqn:Er; [|congruence].
    destruct (set_sstate l SPending (sdef r) s) as [s'|t|t] eqn:Es; try exact I.
    pose proof (@set_sstate_spec hh false l SPending (sdef r) s HI (fun H _ => False_ind _ (diff_false_true H))) as Hs.
    rewrite Es in Hs. cbn in Hs. destruct Hs as [I' [S' [F' [U' [Hoth [Hnew _]]]]]]. cbn.
    split; [exact I'|]. split; [exact S'|]. split; [eapply set_sstate_G3; [| |exact Es]; discriminate|].
    split; [exact F'|]. split; [exact U'|]. split; [exact Hoth|]. apply Hnew. rewrite Er. discriminate. }
  clear Hsame. destruct (sstate_of l s) as [[]|] eqn:E; try exact Hset. cbn [wpg].
  split; [exact HI|]. split; [apply SO_refl|]. split; [apply G3_refl|]. split; [reflexivity|].
  split; [reflexivity|]. split; [reflexivity | first [exact E | reflexivity]].
Qed.

Definition R1 (s : st) (sel rest : list str) (s1 : st) : Prop :=
  Inv hh s1 /\ SO s s1 /\ G3 s s1 /\ files s1 = files s /\ shash s1 = shash s /\ incl rest sel /\
  (forall l, In l sel -> In l rest \/ sstate_of l s1 = Some SPending).

Lemma fold1_spec s sel : Inv hh s -> (forall l, In l sel -> find_step l s <> None) ->
  wpg false (foldM pendF sel s) (R1 s sel []).
Proof.
  intros HI Hrows.
  apply (wpg_foldM_rem false pendF (R1 s sel) sel).
  - intros s1 a rest [I1 [S1 [G1 [F1 [U1 [Hin Hp]]]]]].
    assert (Ha : In a sel) by (apply Hin; left; reflexivity).
    eapply wpg_weaken; [apply pendF_spec; [exact I1 | eapply SO_find_step; [exact S1 | apply Hrows; exact Ha]]|].
    intros s2 [I2 [S2 [G2 [F2 [U2 [Hoth Hnew]]]]]].
    split; [exact I2|]. split; [eapply SO_trans; eassumption|]. split; [eapply G3_trans; eassumption|].
    split; [congruence|]. split; [congruence|].
    split; [intros x Hx; apply Hin; right; exact Hx|].
    intros l Hl. destruct (str_eq_dec l a) as [->|Hne]; [right; exact Hnew|].
    destruct (Hp l Hl) as [[->|Hr]|Hpd]; [congruence | left; exact Hr|].
    right. unfold sstate_of in *. rewrite (Hoth l Hne). exact Hpd.
  - split; [exact HI|]. split; [apply SO_refl|]. split; [apply G3_refl|]. split; [reflexivity|]. split; [reflexivity|].
    split; [apply incl_refl|]. intros l Hl. left. exact Hl.
Qed.

Definition planF (s : st) (f : str) : res st :=
  match fstate_of f s with
  | Some FVolatile | None => Ok s
  | Some _ => set_fstate_hash f FPlanned (Some None) s end.

Definition R2 (s1 : st) (outs : list str) (s2 : st) : Prop :=
  Inv hh s2 /\ SO s1 s2 /\ steps s2 = steps s1 /\ shash s2 = shash s1 /\
  (forall f, po f s2 -> po f s1 \/ In f outs).

Lemma fold2_spec s1 outs : Inv hh s1 -> wpg false (foldM planF outs s1) (R2 s1 outs).
Proof.
  intros HI. apply (wpg_foldM false planF (R2 s1 outs)).
  - intros s2 f Hf [I2 [S2 [T2 [U2 Hpo]]]]. unfold planF.
    assert (Hset : wpg false (set_fstate_hash f FPlanned (Some None) s2) (R2 s1 outs)).
    { eapply wpg_weaken.
      - apply (@set_fstate_hash_spec hh); [exact I2 | discriminate | | intros H; discriminate H].
        intros d sl0 _ _ _ n c _ _. reflexivity.
      - intros s3 [I3 [S3 [T3 [U3 [Hoth [Hnew Hsame]]]]]].
        split; [exact I3|]. split; [eapply SO_trans; eassumption|]. split; [congruence|]. split; [congruence|].
        intros g Hg. destruct (str_eq_dec g f) as [->|Hne]; [right; exact Hf|].
        apply Hpo. unfold po, fstate_of in *. rewrite (Hoth g Hne) in Hg. exact Hg. }
    destruct (fstate_of f s2) as [[]|]; try exact Hset; exact (conj I2 (conj S2 (conj T2 (conj U2 Hpo)))).
  - split; [exact HI|]. split; [apply SO_refl|]. split; [reflexivity|]. split; [reflexivity|]. intros f Hf. left. exact Hf.
Qed.

Lemma file_sinks_edge l f s : In f (file_sinks_of_step l s) ->
  exists d, In d (deps s) /\ dsrc d = (KStep, l) /\ dsnk d = (KFile, f).
Proof.
  unfold file_sinks_of_step, sinks_of. intros H. apply in_map_iff in H. destruct H as [k [Hk Hin]].
  apply filter_In in Hin. destruct Hin as [Hin Hkind]. apply in_map_iff in Hin. destruct Hin as [d [Hd Hin]].
  apply filter_In in Hin. destruct Hin as [Hin Hsrc]. apply key_eqb_eq in Hsrc.
  exists d. split; [exact Hin|]. split; [exact Hsrc|]. rewrite Hd. destruct k as [kk kl]. cbn in *. subst f.
  destruct kk; try discriminate. reflexivity.
Qed.

Lemma revert_optional_IG ls s : Inv hh s -> wpg false (revert_optional ls s) (fun s' => Inv hh s' /\ GG s s').
Proof.
  intros HI. unfold revert_optional.
  set (sel := filter (fun l => is_some (find_step l s) && negb (is_detached (KStep, l) s)) ls).
  set (outs := flat_map (fun l => filter (revertible_output s) (file_sinks_of_step l s)) sel).
  change (fun s0 l => match sstate_of l s0 with Some SPending => Ok s0 | _ => set_sstate_raw l SPending s0 end) with pendF.
  change (fun s0 f => match fstate_of f s0 with
                      | Some FVolatile | None => Ok s0
                      | Some _ => set_fstate_hash f FPlanned (Some None) s0 end) with planF.
  assert (Hrows : forall l, In l sel -> find_step l s <> None).
  { intros l Hl. apply filter_In in Hl. destruct Hl as [_ Hl]. apply andb_true_iff in Hl. destruct Hl as [Hl _].
    destruct (find_step l s); [discriminate | discriminate Hl]. }
  apply wpg_bind. eapply wpg_weaken; [apply (fold1_spec s sel HI Hrows)|].
  intros s1 [I1 [S1 [G1 [F1 [U1 [_ Hp]]]]]].
  eapply wpg_weaken; [apply (fold2_spec s1 outs I1)|].
  intros s2 [I2 [S2 [T2 [U2 Hpo]]]]. split; [exact I2|].
  assert (Hst : forall l, sstate_of l s2 = sstate_of l s1) by (intros l; unfold sstate_of, find_step; rewrite T2; reflexivity).
  constructor.
  - intros l Hl. rewrite Hst in Hl. destruct (g3_st _ _ G1 l _ Hl) as [[A _]|A]; [congruence | exact A].
  - intros l Hl. rewrite Hst in Hl. destruct (g3_st _ _ G1 l _ Hl) as [[_ A]|A]; [congruence | exact A].
  - intros l Hl. unfold has_hash in *. rewrite U2, U1 in Hl. exact Hl.
  - intros l f [A [B C]].
    assert (A1 : sstate_of l s1 = Some SSucceeded) by (rewrite <- Hst; exact A).
    assert (A0 : sstate_of l s = Some SSucceeded).
    { destruct (g3_st _ _ G1 l _ A1) as [[X _]|X]; [congruence | exact X]. }
    assert (B0 : creator_of (KFile, f) s = Some (KStep, l)).
    { rewrite <- (SO_creator_of _ _ _ S1), <- (SO_creator_of _ _ _ S2). exact B. }
    split; [exact A0|]. split; [exact B0|].
    destruct (Hpo f C) as [C1|Hout].
    + unfold po, fstate_of, find_file in *. rewrite F1 in C1. exact C1.
    + exfalso. unfold outs in Hout. apply in_flat_map in Hout. destruct Hout as [l0 [Hl0 Hf]].
      apply filter_In in Hf. destruct Hf as [Hf _]. apply file_sinks_edge in Hf. destruct Hf as [d [Hd [Hs Hk]]].
      rewrite creator_of_findn in B0. destruct (findn (KFile, f) (nodes s)) as [n|] eqn:En; [|discriminate].
      destruct (inv_oe _ HI d l0 f Hd Hs Hk n _ En B0) as [Hc _]. inversion Hc. subst l0.
      destruct (Hp l Hl0) as [[]|Hpd]. congruence.
Qed.

End HH.

(* ------------------------------------------------------------------------------------------ *)
(* the full invariant for every operation of op_x                                              *)
(* ------------------------------------------------------------------------------------------ *)
Lemma IG_InvF s (r : res st) : InvF s -> wpg false r (fun s' => Inv true s' /\ GG s s') -> wpg false r InvF.
Proof.
  intros HF H. eapply wpg_weaken; [exact H|]. intros s' [I' G']. eapply InvF_GG; eassumption.
Qed.

Lemma undefer_InvF s s' : InvF s' -> InvF (undefer_post s s').
Proof.
  intros HF. pose proof HF as [HI _]. eapply InvF_GG; [exact HF | apply undefer_post_inv; exact HI|].
  apply G3_GG. apply undefer_fold_G3.
Qed.

Lemma step_op_x0_full o s : InvF s -> protocol_ok_x s o = true -> wpg false (step_op_x0 o s) InvF.
Proof.
  intros HF Hp. pose proof HF as [HI _]. destruct o as [oc|l|ls|ls|ls| |h|]; cbn [step_op_x0].
  - destruct oc as [ot|]; cbn [step_op_c protocol_ok_x protocol_ok_c] in *.
    + apply step_op_t_full; assumption.
    + apply (IG_InvF s _ HF). apply (@check_consistency_IG true). exact HI.
  - apply (IG_InvF s _ HF). apply (@skip_overtaken_IG true). exact HI.
  - apply (IG_InvF s _ HF). apply (@invalidate_steps_IG true). exact HI.
  - apply (IG_InvF s _ HF). apply (@mark_steps_pending_IG true). exact HI.
  - apply (IG_InvF s _ HF). apply (@revert_optional_IG true). exact HI.
  - apply (IG_InvF s _ HF). apply (@reset_interrupted_raw_IG true). exact HI.
  - apply (IG_InvF s _ HF). apply (@init_boot_IG true). exact HI.
  - exact HF.
Qed.

Lemma wrap_full o s :
  InvF s -> protocol_ok_x s o = true ->
  wpg false (match step_op_x0 o s with
             | Ok s' => Ok (undefer_post s s') | Usage t => Usage t | Internal t => Internal t end) InvF.
Proof.
  intros HF Hp. pose proof (step_op_x0_full o s HF Hp) as H.
  destruct (step_op_x0 o s); cbn [wpg] in *; [apply undefer_InvF; exact H | exact I | exact I].
Qed.

Lemma step_op_x_full o s : InvF s -> protocol_ok_x s o = true -> wpg false (step_op_x o s) InvF.
Proof.
  intros HF Hp. pose proof HF as [HI _].
  destruct o as [oc| | | | | | |]; try (apply wrap_full; assumption).
  destruct oc as [ot|]; [|apply wrap_full; assumption].
  destruct ot as [ob|]; [|apply wrap_full; assumption].
  destruct ob; try (apply wrap_full; assumption).
  cbn [step_op_x]. apply (IG_InvF s _ HF). apply (@validate_IG true). exact HI.
Qed.

Lemma inv_full_x_preserved s o :
  inv_full_b s = true -> protocol_ok_x s o = true -> inv_full_b (apply_op_x s o) = true.
Proof.
  intros H Hp. apply inv_full_iff. apply inv_full_iff in H. unfold apply_op_x.
  pose proof (step_op_x_full o s H Hp) as Hw. destruct (step_op_x o s); [exact Hw | exact H | exact H].
Qed.

Lemma reachable_inv_full_x cap ops :
  protocol_ok_run_x (init_st cap) ops = true -> all_prefixes_ok_x inv_full_b (init_st cap) ops = true.
Proof.
  generalize (inv_full_init cap). generalize (init_st cap).
  induction ops as [|o ops IH]; intros s Hs Hp; cbn [all_prefixes_ok_x]; rewrite Hs; [reflexivity|].
  cbn in Hp. apply andb_true_iff in Hp. destruct Hp as [Hp1 Hp2]. cbn.
  apply IH; [apply inv_full_x_preserved; assumption | exact Hp2].
Qed.

Lemma undefer_both_forms refined s s' : inv_b s' = true -> inv_b (undefer_post_with refined s s') = true.
Proof. intros H. apply inv_b_iff. apply undefer_post_with_inv. apply inv_b_iff. exact H. Qed.
