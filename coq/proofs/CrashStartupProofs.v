(* proofs/CrashStartupProofs.v -- C05: the startup sequence of model/CrashStartup.v satisfies the
   conditions of proofs/CrashStartupGen.v; hence a kill after any of its commits followed by a
   restart reaches the state of the uninterrupted startup.  The block structure of rescan_env_vars
   with the UPDATE moved into the reading transaction is refuted by a witness. *)
From Coq Require Import List NArith Bool Lia.
From SV Require Import lib.Bytes model.Graph model.GraphInv gen.GenCrash model.Crash model.CrashStartup
  proofs.CrashProofs proofs.CrashStartupGen.
Import ListNotations.
Open Scope N_scope.

(* ------------------------------------------------------------------------------------------ *)
(* A. What state propagation does to the tables, precisely                                     *)
(* ------------------------------------------------------------------------------------------ *)
(* a file row keeps label and hash; its state stays, or goes from BUILT to OUTDATED *)
Definition Rf2 (r r' : frow) : Prop :=
  fl r' = fl r /\ fh r' = fh r /\ (fstt r' = fstt r \/ (fstt r = FBuilt /\ fstt r' = FOutdated)).

Record grel (s s' : st) : Prop := mkG {
  gr_nodes : nodes s' = nodes s; gr_deps : deps s' = deps s;
  gr_files : Forall2 Rf2 (files s) (files s'); gr_steps : Forall2 Rs (steps s) (steps s') }.

Definition nodupF (s : st) : Prop := nodup_by str_eqb (map fl (files s)) = true.
(* the relation holds for states with unique file labels (and keeps them unique) *)
Definition crel (s s' : st) : Prop := nodupF s -> grel s s'.

Lemma Rf2_refl r : Rf2 r r.
Proof. split; [reflexivity|]. split; [reflexivity | left; reflexivity]. Qed.
Lemma Rf2_trans a b c : Rf2 a b -> Rf2 b c -> Rf2 a c.
Proof.
  intros [H1 [H2 H3]] [G1 [G2 G3]]. split; [congruence|]. split; [congruence|].
  destruct H3 as [H3|[H3 H3']], G3 as [G3|[G3 G3']].
  - left. congruence.
  - right. split; congruence.
  - right. split; congruence.
  - right. split; [exact H3 | exact G3'].
Qed.
Lemma grel_refl s : grel s s.
Proof. constructor; try reflexivity; apply Forall2_refl; [apply Rf2_refl | apply Rs_refl]. Qed.
Lemma grel_trans a b c : grel a b -> grel b c -> grel a c.
Proof.
  intros [H1 H2 H3 H4] [G1 G2 G3 G4]. constructor; try congruence.
  - eapply Forall2_trans; [apply Rf2_trans | eassumption | eassumption].
  - eapply Forall2_trans; [apply Rs_trans | eassumption | eassumption].
Qed.
Lemma Forall2_labels_f (a b : list frow) : Forall2 Rf2 a b -> map fl b = map fl a.
Proof. induction 1 as [|x y a b [H _] _ IH]; cbn; [reflexivity | rewrite H, IH; reflexivity]. Qed.
Lemma Forall2_labels_s (a b : list srow) : Forall2 Rs a b -> map sl b = map sl a.
Proof. induction 1 as [|x y a b [H _] _ IH]; cbn; [reflexivity | rewrite H, IH; reflexivity]. Qed.
Lemma grel_nodupF s s' : grel s s' -> nodupF s -> nodupF s'.
Proof. intros G H. unfold nodupF. rewrite (Forall2_labels_f _ _ (gr_files _ _ G)). exact H. Qed.
Lemma crel_refl s : crel s s. Proof. intros _. apply grel_refl. Qed.
Lemma crel_trans a b c : crel a b -> crel b c -> crel a c.
Proof. intros H1 H2 Ha. pose proof (H1 Ha) as G1. eapply grel_trans; [exact G1|]. apply H2. eapply grel_nodupF; eassumption. Qed.

Lemma nodup_find_file (l : list frow) (r : frow) :
  nodup_by str_eqb (map fl l) = true -> In r l -> find (fun m => str_eqb (fl m) (fl r)) l = Some r.
Proof.
  induction l as [|m l IH]; intros Hnd Hin; [destruct Hin|].
  cbn [map nodup_by] in Hnd. apply andb_true_iff in Hnd. destruct Hnd as [Hm Hnd].
  cbn [find]. destruct Hin as [Heq | Hin].
  - subst. rewrite str_eqb_refl. reflexivity.
  - destruct (str_eqb (fl m) (fl r)) eqn:E.
    + exfalso. apply negb_true_iff in Hm.
      assert (X : existsb (str_eqb (fl m)) (map fl l) = true).
      { apply existsb_exists. exists (fl r). split; [apply in_map; exact Hin | exact E]. }
      rewrite X in Hm. discriminate.
    + apply IH; assumption.
Qed.

Lemma set_sstate_tables l new d s s' : set_sstate l new d s = Ok s' ->
  nodes s' = nodes s /\ deps s' = deps s /\ files s' = files s /\ shash s' = shash s.
Proof.
  unfold set_sstate. destruct (find_step l s) as [r|]; [|intros H; inversion H; subst; repeat split].
  intros H. guards H. inversion H. subst s'. repeat split.
Qed.

Lemma set_sstate_pending_grel l d s s' : set_sstate l SPending d s = Ok s' -> grel s s'.
Proof.
  intros H. destruct (set_sstate_tables _ _ _ _ _ H) as [N [D [F _]]].
  constructor; [exact N | exact D | rewrite F; apply Forall2_refl; apply Rf2_refl|].
  exact (mr_steps _ _ (set_sstate_pending_rel _ _ _ _ H)).
Qed.

Lemma Forall2_map_r_in {A} (R : A -> A -> Prop) (g : A -> A) l :
  (forall x, In x l -> R x (g x)) -> Forall2 R l (map g l).
Proof.
  induction l as [|a l IH]; intros H; cbn; constructor; [apply H; left; reflexivity|].
  apply IH. intros x Hx. apply H. right. exact Hx.
Qed.

(* with unique labels, the row found is the only row with that label *)
Lemma unique_row s f r x : nodupF s -> find_file f s = Some r -> In x (files s) -> str_eqb (fl x) f = true -> x = r.
Proof.
  intros Hnd Ef Hin Ex. apply str_eqb_eq in Ex. pose proof (nodup_find_file _ _ Hnd Hin) as Fx.
  rewrite Ex in Fx. unfold find_file in Ef. rewrite Ef in Fx. inversion Fx. reflexivity.
Qed.

Lemma set_fstate_outdated_grel f s s' :
  nodupF s -> fstate_of f s = Some FBuilt -> set_fstate f FOutdated s = Ok s' -> grel s s'.
Proof.
  intros Hnd Hb. unfold set_fstate, set_fstate_hash. unfold fstate_of in Hb.
  destruct (find_file f s) as [r|] eqn:Ef; [|discriminate]. inversion Hb as [Hb']. clear Hb.
  intros H. guards H. inversion H. subst s'. clear H.
  constructor; try reflexivity; [|cbn; apply Forall2_refl; apply Rs_refl].
  cbn. apply Forall2_map_r_in. intros x Hin. destruct (str_eqb (fl x) f) eqn:Ex; [|apply Rf2_refl].
  rewrite (unique_row s f r x Hnd Ef Hin Ex). unfold Rf2. cbn [fl fh fstt]. rewrite Hb'. cbn.
  split; [reflexivity|]. split; [reflexivity|]. right. split; reflexivity.
Qed.

Lemma mark_effect2 fuel :
  (forall l s s', mark_step_pending_f fuel l s = Ok s' -> crel s s') /\
  (forall f s s', mark_file_outdated_f fuel f s = Ok s' -> crel s s').
Proof.
  induction fuel as [|fuel [IHs IHf]]; [split; intros; discriminate|]. split.
  - intros l s s' H. cbn [mark_step_pending_f] in H.
    destruct (sstate_of l s) as [old|] eqn:Eo; [|discriminate].
    assert (Hgen : forall s1, set_sstate l SPending false s = Ok s1 ->
              foldM (fun s f => match fstate_of f s with
                                | Some FBuilt => mark_file_outdated_f fuel f s
                                | _ => Ok s end) (file_sinks_of_step l s1) s1 = Ok s' -> crel s s').
    { intros s1 H1 H2. eapply crel_trans; [intros _; eapply set_sstate_pending_grel; exact H1|].
      revert H2. apply foldM_rel; [apply crel_refl | apply crel_trans|].
      intros s0 f s0' _ H0. destruct (fstate_of f s0) as [[]|]; try (inversion H0; subst; apply crel_refl).
      eapply IHf. exact H0. }
    destruct old; try (inversion H; subst; apply crel_refl);
      apply bind_ok in H; destruct H as [s1 [H1 H2]].
    + inversion H2. subst. intros _. eapply set_sstate_pending_grel. exact H1.
    + eapply Hgen; eassumption.
    + eapply Hgen; eassumption.
  - intros f s s' H. cbn [mark_file_outdated_f] in H.
    destruct (fstate_of f s) as [[]|] eqn:Ef; try discriminate.
    + apply bind_ok in H. destruct H as [s1 [H1 H2]].
      eapply crel_trans; [intros Hnd; eapply set_fstate_outdated_grel; [exact Hnd | exact Ef | exact H1]|].
      revert H2. apply foldM_rel; [apply crel_refl | apply crel_trans|].
      intros s0 l s0' _ H0. eapply IHs. exact H0.
    + inversion H. subst. apply crel_refl.
Qed.

Lemma mark_step_pending_crel l s s' : mark_step_pending l s = Ok s' -> crel s s'.
Proof. unfold mark_step_pending. apply (proj1 (mark_effect2 _)). Qed.
Lemma mark_consumers_pending_crel f s s' : mark_consumers_pending f s = Ok s' -> crel s s'.
Proof.
  unfold mark_consumers_pending. apply foldM_rel; [apply crel_refl | apply crel_trans|].
  intros s0 l s0' _ H. apply mark_step_pending_crel in H. exact H.
Qed.
Lemma handle_updated_file_crel l s s' : handle_updated_file l s = Ok s' -> crel s s'.
Proof.
  unfold handle_updated_file. destruct (fstate_of l s) as [[]|]; intros H; try (inversion H; subst; apply crel_refl).
  - apply mark_consumers_pending_crel in H. exact H.
  - destruct (step_creator_of_file l s); [apply mark_step_pending_crel in H; exact H | inversion H; subst; apply crel_refl].
  - destruct (step_creator_of_file l s); [apply mark_step_pending_crel in H; exact H | inversion H; subst; apply crel_refl].
Qed.
Lemma handle_deleted_file_crel l s s' : handle_deleted_file l s = Ok s' -> crel s s'.
Proof.
  unfold handle_deleted_file. intros H. apply bind_ok in H. destruct H as [s1 [H1 H2]].
  apply mark_consumers_pending_crel in H2. eapply crel_trans; [|exact H2].
  destruct (fstate_of l s) as [[]|]; try (inversion H1; subst; apply crel_refl).
  destruct (step_creator_of_file l s); [apply mark_step_pending_crel in H1; exact H1 | inversion H1; subst; apply crel_refl].
Qed.

(* ------------------------------------------------------------------------------------------ *)
(* B. The invariant, and what every later transaction keeps                                    *)
(* ------------------------------------------------------------------------------------------ *)
Definition nodupS (g : st) : Prop := nodup_by str_eqb (map sl (steps g)) = true.
Definition Inv (x : xst) : Prop := labels_unique x = true.
Lemma Inv_parts x : Inv x <-> nodupS (xg x) /\ nodupF (xg x).
Proof. unfold Inv, labels_unique, nodupS, nodupF. rewrite andb_true_iff. tauto. Qed.

(* the weakest description that fits every transaction of the phases after the reset: nodes
   untouched, file labels untouched, step rows keep their label and their state or go PENDING *)
Record wrel (g g' : st) : Prop := mkWR {
  wr_nodes : nodes g' = nodes g; wr_flabels : map fl (files g') = map fl (files g);
  wr_steps : Forall2 Rs (steps g) (steps g') }.
Lemma wrel_refl g : wrel g g.
Proof. constructor; try reflexivity. apply Forall2_refl. apply Rs_refl. Qed.
Lemma wrel_trans a b c : wrel a b -> wrel b c -> wrel a c.
Proof.
  intros [H1 H2 H3] [G1 G2 G3]. constructor; try congruence.
  eapply Forall2_trans; [apply Rs_trans | eassumption | eassumption].
Qed.
Lemma grel_wrel g g' : grel g g' -> wrel g g'.
Proof. intros [H1 _ H3 H4]. constructor; [exact H1 | apply Forall2_labels_f; exact H3 | exact H4]. Qed.

Lemma wrel_nodup g g' : wrel g g' -> nodupS g /\ nodupF g -> nodupS g' /\ nodupF g'.
Proof.
  intros [_ H2 H3] [A B]. unfold nodupS, nodupF. rewrite H2, (Forall2_labels_s _ _ H3). split; assumption.
Qed.
Lemma wrel_is_detached g g' k : wrel g g' -> is_detached k g' = is_detached k g.
Proof. intros [H _ _]. unfold is_detached, find_node. rewrite H. reflexivity. Qed.

Lemma Forall2_Rs_forallb (P Q : srow -> bool) a b :
  (forall r r', Rs r r' -> P r = true -> Q r' = true) ->
  Forall2 Rs a b -> forallb P a = true -> forallb Q b = true.
Proof.
  intros H F. induction F as [|r r' a b Hr _ IH]; cbn [forallb]; [reflexivity|].
  intros HP. apply andb_true_iff in HP. destruct HP as [H1 H2]. apply andb_true_iff. split; [eapply H; eassumption | apply IH; exact H2].
Qed.

(* settled after reset_interrupted_steps: nothing RUNNING or CHECKING, no attached FAILED step *)
Definition NRC (g : st) : Prop := no_running_checking_b g = true.
Definition naf_b (g : st) : bool :=
  forallb (fun r => negb (sstate_eqb (sst r) SFailed && negb (is_detached (KStep, sl r) g))) (steps g).
Definition settled_R (x : xst) : Prop := NRC (xg x) /\ naf_b (xg x) = true.

Lemma wrel_NRC g g' : wrel g g' -> NRC g -> NRC g'.
Proof.
  intros W. unfold NRC, no_running_checking_b. apply Forall2_Rs_forallb with (2 := wr_steps _ _ W).
  intros r r' [_ [E|E]] H; rewrite E; [exact H | reflexivity].
Qed.
Lemma wrel_naf g g' : wrel g g' -> naf_b g = true -> naf_b g' = true.
Proof.
  intros W. unfold naf_b. apply Forall2_Rs_forallb with (2 := wr_steps _ _ W).
  intros r r' [El [E|E]] H; rewrite E; [|reflexivity]. rewrite El, (wrel_is_detached _ _ _ W). exact H.
Qed.
Lemma wrel_settled_R x y : wrel (xg x) (xg y) -> settled_R x -> settled_R y.
Proof. intros W [A B]. split; [eapply wrel_NRC | eapply wrel_naf]; eassumption. Qed.

Lemma foldM_id {A S} (f : S -> A -> res S) l s : (forall a, In a l -> f s a = Ok s) -> foldM f l s = Ok s.
Proof.
  induction l as [|a l IH]; intros H; cbn [foldM]; [reflexivity|].
  rewrite (H a (or_introl eq_refl)). cbn [bind]. apply IH. intros b Hb. apply H. right. exact Hb.
Qed.

Lemma reset_txn1_sweeps g :
  reset_txn1 g = (do s1 <- sweep is_running SFailed (steps g) g; sweep is_checking SPending (steps s1) s1).
Proof.
  unfold reset_txn1, sweep.
  rewrite (foldM_ext _ (fun s r => if is_running (sst r) then set_sstate_raw (sl r) SFailed s else Ok s));
    [|intros s0 r _; destruct (sst r); reflexivity].
  destruct (foldM _ (steps g) g) as [s1|t|t]; cbn [bind]; try reflexivity.
  apply foldM_ext. intros s0 r _. destruct (sst r); reflexivity.
Qed.
Lemma reset_txn2_pend g : reset_txn2 g = pend_failed (steps g) g.
Proof. reflexivity. Qed.

Lemma reset_split g : reset_interrupted g = (do g1 <- reset_txn1 g; reset_txn2 g1).
Proof. unfold reset_interrupted, reset_txn1, reset_txn2. destruct (foldM _ (steps g) g) as [s1|t|t]; cbn [bind]; try reflexivity. Qed.

(* R-a: after the two UPDATEs nothing is RUNNING or CHECKING *)
Lemma reset_txn1_post g g1 : nodupS g -> reset_txn1 g = Ok g1 ->
  NRC g1 /\ frame g g1 /\ map sl (steps g1) = map sl (steps g).
Proof.
  intros Hnd H. rewrite reset_txn1_sweeps in H. apply bind_ok in H. destruct H as [s1 [H1 H2]].
  pose proof (sweep_spec _ _ _ _ _ H1) as [F1 [L1 S1]].
  pose proof (sweep_spec _ _ _ _ _ H2) as [F2 [L2 S2]].
  assert (Hnd1 : nodup_by str_eqb (map sl (steps s1)) = true) by (rewrite L1; exact Hnd).
  assert (Rows1 : forall r, In r (steps s1) -> is_running (sst r) = false).
  { apply (sweep_rows is_running SFailed (steps g) eq_refl g s1 H1).
    intros r' Hin Hs. exists r'. repeat split; assumption. }
  assert (Rows2c : forall r, In r (steps g1) -> is_checking (sst r) = false).
  { apply (sweep_rows is_checking SPending (steps s1) eq_refl s1 g1 H2).
    intros r' Hin Hs. exists r'. repeat split; assumption. }
  assert (Rows2r : forall r, In r (steps g1) -> is_running (sst r) = false).
  { intros r Hin. destruct (is_running (sst r)) eqn:E; [|reflexivity]. exfalso.
    assert (Hst : sstate_of (sl r) g1 = Some (sst r)).
    { unfold sstate_of, find_step. rewrite (nodup_find_step (steps g1) r); [reflexivity | rewrite L2; exact Hnd1 | exact Hin]. }
    destruct (S2 (sl r)) as [E2|[_ E2]].
    - rewrite Hst in E2. symmetry in E2. unfold sstate_of in E2.
      destruct (find_step (sl r) s1) as [q|] eqn:Eq; [|discriminate]. inversion E2.
      unfold find_step in Eq. apply find_some in Eq. destruct Eq as [Hq _].
      specialize (Rows1 q Hq). congruence.
    - rewrite Hst in E2. inversion E2 as [E3]. rewrite E3 in E. discriminate. }
  split; [|split; [eapply frame_trans; eassumption | congruence]].
  unfold NRC, no_running_checking_b. apply forallb_forall. intros r Hin.
  specialize (Rows2r r Hin). specialize (Rows2c r Hin). destruct (sst r); cbn in *; try reflexivity; discriminate.
Qed.

(* R-b: ... and then the two UPDATEs change nothing *)
Lemma reset_txn1_fix g : NRC g -> reset_txn1 g = Ok g.
Proof.
  intros H. unfold NRC, no_running_checking_b in H. rewrite forallb_forall in H. unfold reset_txn1.
  rewrite foldM_id; [cbn [bind]; apply foldM_id|]; intros r Hin; specialize (H r Hin);
    destruct (sst r); cbn in H; try reflexivity; discriminate.
Qed.

(* R-d: without an attached FAILED step the loop changes nothing *)
Lemma reset_txn2_fix g : naf_b g = true -> reset_txn2 g = Ok g.
Proof.
  intros H. unfold naf_b in H. rewrite forallb_forall in H. unfold reset_txn2. apply foldM_id. intros r _.
  unfold sstate_of. destruct (find_step (sl r) g) as [q|] eqn:Eq; [|reflexivity].
  unfold find_step in Eq. apply find_some in Eq. destruct Eq as [Hq El]. apply str_eqb_eq in El.
  specialize (H q Hq). destruct (sst q); try reflexivity. cbn in H. rewrite El in H.
  destruct (is_detached (KStep, sl r) g); [reflexivity | discriminate].
Qed.

(* R-c: the loop leaves no attached FAILED step *)
Lemma reset_txn2_post g g2 : nodupS g -> reset_txn2 g = Ok g2 ->
  mark_rel g g2 /\ naf_b g2 = true.
Proof.
  intros Hnd H. rewrite reset_txn2_pend in H. pose proof (pend_failed_rel _ _ _ H) as R. split; [exact R|].
  unfold naf_b. apply forallb_forall. intros r' Hin'.
  destruct (sstate_eqb (sst r') SFailed) eqn:Ef; [|reflexivity]. cbn [andb].
  destruct (is_detached (KStep, sl r') g2) eqn:Ed; [reflexivity|]. exfalso.
  assert (Est : sst r' = SFailed) by (destruct (sst r'); cbn in Ef; try discriminate; reflexivity).
  destruct (Forall2_In_r _ _ _ _ (mr_steps _ _ R) Hin') as [r [Hin [El [Es|Es]]]]; [|congruence].
  assert (Hnd2 : nodup_by str_eqb (map sl (steps g2)) = true).
  { rewrite (Forall2_labels_s _ _ (mr_steps _ _ R)). exact Hnd. }
  assert (S2 : sstate_of (sl r') g2 = Some SFailed).
  { unfold sstate_of, find_step. rewrite (nodup_find_step (steps g2) r' Hnd2 Hin'), Est. reflexivity. }
  assert (S0 : sstate_of (sl r) g = Some SFailed).
  { unfold sstate_of, find_step. rewrite (nodup_find_step (steps g) r Hnd Hin). congruence. }
  assert (P : sstate_of (sl r) g2 = Some SPending).
  { eapply pend_failed_hits; [exact H | exists r; split; [exact Hin | reflexivity] | | left; exact S0].
    rewrite <- (frame_is_detached _ _ _ (mr_frame _ _ R)), <- El. exact Ed. }
  rewrite <- El in P. congruence.
Qed.

Lemma mark_rel_wrel g g' : mark_rel g g' -> wrel g g'.
Proof.
  intros [[H1 _ _ H4] H5]. constructor; [exact H1 | | exact H5].
  clear - H4. induction H4 as [|x y a b [H _] _ IH]; cbn; [reflexivity | rewrite H, IH; reflexivity].
Qed.
Lemma frame_flabels g g' : frame g g' -> map fl (files g') = map fl (files g).
Proof. intros [_ _ _ H4]. induction H4 as [|x y a b [H _] _ IH]; cbn; [reflexivity | rewrite H, IH; reflexivity]. Qed.

Lemma lift_ok f x y : lift f x = Ok y -> exists g', f (xg x) = Ok g' /\ y = set_xg x g'.
Proof. unfold lift. intros H. apply bind_ok in H. destruct H as [g' [H1 H2]]. inversion H2. exists g'. split; [exact H1 | reflexivity]. Qed.

(* ------------------------------------------------------------------------------------------ *)
(* C. Phase 1: reset_interrupted_steps                                                         *)
(* ------------------------------------------------------------------------------------------ *)
Lemma set_xg_id x : set_xg x (xg x) = x. Proof. destruct x; reflexivity. Qed.
Lemma xg_set_xg x g : xg (set_xg x g) = g. Proof. reflexivity. Qed.

Lemma run_reset x : run_phase phase_reset x = (do x1 <- lift reset_txn1 x; do x2 <- lift reset_txn2 x1; Ok x2).
Proof. reflexivity. Qed.

Lemma lift_txn1_post x x1 : Inv x -> lift reset_txn1 x = Ok x1 -> Inv x1 /\ NRC (xg x1).
Proof.
  intros HI H. apply lift_ok in H. destruct H as [g1 [H1 E]]. subst x1. cbn [xg set_xg].
  apply Inv_parts in HI. destruct HI as [A B]. destruct (reset_txn1_post _ _ A H1) as [N [F L]].
  split; [|exact N]. apply Inv_parts. cbn [xg set_xg]. split; unfold nodupS, nodupF.
  - rewrite L. exact A.
  - rewrite (frame_flabels _ _ F). exact B.
Qed.
Lemma lift_txn2_post x x2 : Inv x -> lift reset_txn2 x = Ok x2 -> Inv x2 /\ wrel (xg x) (xg x2) /\ naf_b (xg x2) = true.
Proof.
  intros HI H. apply lift_ok in H. destruct H as [g2 [H2 E]]. subst x2. cbn [xg set_xg].
  apply Inv_parts in HI. destruct (reset_txn2_post _ _ (proj1 HI) H2) as [R N].
  pose proof (mark_rel_wrel _ _ R) as W. split; [|split; assumption].
  apply Inv_parts. cbn [xg set_xg]. eapply wrel_nodup; eassumption.
Qed.

Lemma R_keeps_Inv : phase_keeps Inv phase_reset.
Proof.
  intros s t Hin y y' Hy H. destruct Hin as [E|[E|[]]]; subst t.
  - apply (lift_txn1_post _ _ Hy H).
  - apply (lift_txn2_post _ _ Hy H).
Qed.

Lemma R_est s s' : Inv s -> run_phase phase_reset s = Ok s' -> settled_R s'.
Proof.
  intros HI H. rewrite run_reset in H. apply bind_ok in H. destruct H as [x1 [H1 H]].
  apply bind_ok in H. destruct H as [x2 [H2 H]]. inversion H. subst s'.
  destruct (lift_txn1_post _ _ HI H1) as [I1 N1]. destruct (lift_txn2_post _ _ I1 H2) as [_ [W N2]].
  split; [eapply wrel_NRC; eassumption | exact N2].
Qed.

Lemma R_fix s : settled_R s -> run_phase phase_reset s = Ok s.
Proof.
  intros [A B]. rewrite run_reset. unfold lift. rewrite (reset_txn1_fix _ A). cbn [bind]. rewrite set_xg_id.
  rewrite (reset_txn2_fix _ B). cbn [bind]. rewrite set_xg_id. reflexivity.
Qed.

Lemma R_idem s j c : Inv s -> run_items (firstn j (phase_reset s)) s = Ok c ->
  run_phase phase_reset c = run_phase phase_reset s.
Proof.
  intros HI H. destruct j as [|[|j]].
  - cbn in H. inversion H. reflexivity.
  - cbn [firstn phase_reset run_items foldM] in H. apply bind_ok in H. destruct H as [x1 [H1 H]]. inversion H. subst c.
    destruct (lift_txn1_post _ _ HI H1) as [_ N1].
    rewrite !run_reset, H1. cbn [bind]. unfold lift at 1. rewrite (reset_txn1_fix _ N1). cbn [bind]. rewrite set_xg_id. reflexivity.
  - assert (E : firstn (S (S j)) (phase_reset s) = phase_reset s) by (cbn; destruct j; reflexivity).
    rewrite E in H. change (run_phase phase_reset s = Ok c) in H. rewrite H.
    apply R_fix. eapply R_est; eassumption.
Qed.

(* ------------------------------------------------------------------------------------------ *)
(* D. Phase 2: rescan_env_vars with the block structure [SELECT] [mark; UPDATE]                *)
(* ------------------------------------------------------------------------------------------ *)
Definition T1 (w : world) : txn := fun y => do r <- env_block w [1] None y; Ok (snd r).
Definition T2 (w : world) (rows : list erow) : txn := fun y => do r <- env_block w [2; 3] (Some rows) y; Ok (snd r).

Lemma env_items_cons w b bs m x :
  env_items w (b :: bs) m x =
  (fun y => do r <- env_block w b m y; Ok (snd r)) ::
  match env_block w b m x with Ok r => env_items w bs (fst r) (snd r) | _ => [] end.
Proof. reflexivity. Qed.

Lemma env_plan w x : phase_env env_blocks_expected w x = [T1 w; T2 w (env_uses x)].
Proof.
  unfold phase_env, env_blocks_expected. rewrite env_items_cons.
  change (env_block w [1] None x) with (Ok (Some (env_uses x), x) : res (emem * xst)).
  cbv iota beta. cbn [fst snd]. rewrite env_items_cons.
  destruct (env_block w [2; 3] (Some (env_uses x)) x); reflexivity.
Qed.

Lemma T1_id w y : T1 w y = Ok y.
Proof. reflexivity. Qed.

(* the marking transaction, written out *)
Definition env_txn (w : world) (rows : list erow) (y : xst) : res xst :=
  do g' <- foldM (fun g l => mark_step_pending l g) (dedup_strs (map ev_step (env_changed w rows))) (xg y);
  Ok (mkX g' (env_store w (env_changed w rows) (xenv y)) (xng y)).
Lemma T2_eq w rows y : T2 w rows y = env_txn w rows y.
Proof.
  unfold T2, env_txn. cbn [env_block env_stmt bind fst snd].
  destruct (foldM _ _ (xg y)) as [g'|t|t]; reflexivity.
Qed.

Lemma marks_rel L : forall g g', foldM (fun g l => mark_step_pending l g) L g = Ok g' -> mark_rel g g'.
Proof.
  intros g g'. apply foldM_rel; [apply mark_rel_refl | apply mark_rel_trans|].
  intros s0 l s0' _ H. apply mark_step_pending_rel in H. exact H.
Qed.
Lemma marks_crel L : forall g g', foldM (fun g l => mark_step_pending l g) L g = Ok g' -> crel g g'.
Proof.
  intros g g'. apply foldM_rel; [apply crel_refl | apply crel_trans|].
  intros s0 l s0' _ H. apply mark_step_pending_crel in H. exact H.
Qed.

Lemma env_txn_ok w rows y y' : env_txn w rows y = Ok y' ->
  mark_rel (xg y) (xg y') /\ crel (xg y) (xg y') /\
  xenv y' = env_store w (env_changed w rows) (xenv y) /\ xng y' = xng y.
Proof.
  unfold env_txn. intros H. apply bind_ok in H. destruct H as [g' [H1 H2]]. inversion H2. subst y'. cbn.
  split; [eapply marks_rel; exact H1|]. split; [eapply marks_crel; exact H1|]. split; reflexivity.
Qed.

Definition settled_E (w : world) (x : xst) : Prop := env_changed w (env_uses x) = [].

Lemma oN_eqb_refl a : oN_eqb a a = true.
Proof. destruct a; cbn; [apply N.eqb_refl | reflexivity]. Qed.

Lemma env_store_nil w tbl : env_store w [] tbl = tbl.
Proof. unfold env_store. cbn [existsb]. apply map_id. Qed.

Lemma env_store_steps w ch tbl : map ev_step (env_store w ch tbl) = map ev_step tbl.
Proof.
  unfold env_store. rewrite map_map. apply map_ext. intros r.
  destruct (existsb _ ch); reflexivity.
Qed.

(* the transaction that stores the values seen leaves no changed row among the attached steps *)
Lemma env_txn_settles w x y : env_txn w (env_uses x) x = Ok y -> settled_E w y.
Proof.
  intros H. destruct (env_txn_ok _ _ _ _ H) as [R [_ [E _]]].
  unfold settled_E, env_changed, env_uses. rewrite E. apply filter_nil. intros r' Hin.
  apply filter_In in Hin. destruct Hin as [Hin Hatt].
  unfold env_store in Hin. apply in_map_iff in Hin. destruct Hin as [r [Er Hr]].
  destruct (existsb _ (env_changed w (env_uses x))) eqn:Em.
  - subst r'. unfold env_row_changed. cbn [ev_name ev_val]. rewrite oN_eqb_refl. reflexivity.
  - subst r'. destruct (env_row_changed w r) eqn:Ec; [|reflexivity]. exfalso.
    assert (X : existsb (fun c => str_eqb (ev_step c) (ev_step r) && str_eqb (ev_name c) (ev_name r))
                        (env_changed w (env_uses x)) = true).
    { apply existsb_exists. exists r. split; [|rewrite !str_eqb_refl; reflexivity].
      unfold env_changed, env_uses. apply filter_In. split; [|exact Ec]. apply filter_In. split; [exact Hr|].
      rewrite <- (frame_is_detached _ _ _ (mr_frame _ _ R)). exact Hatt. }
    rewrite X in Em. discriminate.
Qed.

Lemma run_env w x : run_phase (phase_env env_blocks_expected w) x = env_txn w (env_uses x) x.
Proof.
  unfold run_phase. rewrite env_plan. unfold run_items. cbn [foldM]. rewrite T1_id. cbn [bind].
  rewrite T2_eq. destruct (env_txn w (env_uses x) x); reflexivity.
Qed.

Lemma E_fix w s : settled_E w s -> run_phase (phase_env env_blocks_expected w) s = Ok s.
Proof.
  intros H. rewrite run_env. unfold env_txn. unfold settled_E in H. rewrite H. cbn [map dedup_strs foldM bind].
  rewrite env_store_nil. destruct s; reflexivity.
Qed.
Lemma E_est w s s' : run_phase (phase_env env_blocks_expected w) s = Ok s' -> settled_E w s'.
Proof. rewrite run_env. apply env_txn_settles. Qed.

Lemma E_idem w s j c : run_items (firstn j (phase_env env_blocks_expected w s)) s = Ok c ->
  run_phase (phase_env env_blocks_expected w) c = run_phase (phase_env env_blocks_expected w) s.
Proof.
  rewrite env_plan. intros H. destruct j as [|[|j]].
  - cbn in H. inversion H. reflexivity.
  - cbn [firstn run_items foldM] in H. rewrite T1_id in H. cbn [bind] in H. inversion H. reflexivity.
  - assert (E : firstn (S (S j)) [T1 w; T2 w (env_uses s)] = [T1 w; T2 w (env_uses s)]) by (cbn; destruct j; reflexivity).
    rewrite E in H. rewrite <- env_plan in H. change (run_phase (phase_env env_blocks_expected w) s = Ok c) in H.
    rewrite H. apply E_fix. eapply E_est. exact H.
Qed.

(* what a transaction of this phase does to the graph part: propagation only *)
Lemma E_txn_wrel w s t : In t (phase_env env_blocks_expected w s) ->
  forall y y', t y = Ok y' -> wrel (xg y) (xg y') /\ crel (xg y) (xg y') /\ xng y' = xng y.
Proof.
  rewrite env_plan. intros [E|[E|[]]] y y' H; subst t.
  - rewrite T1_id in H. inversion H. subst. split; [apply wrel_refl | split; [apply crel_refl | reflexivity]].
  - rewrite T2_eq in H. destruct (env_txn_ok _ _ _ _ H) as [R [C [_ N]]].
    split; [apply mark_rel_wrel; exact R | split; assumption].
Qed.

Lemma wrel_keeps_Inv y y' : wrel (xg y) (xg y') -> Inv y -> Inv y'.
Proof. intros W HI. apply Inv_parts. apply Inv_parts in HI. eapply wrel_nodup; eassumption. Qed.

Lemma E_keeps_Inv w : phase_keeps Inv (phase_env env_blocks_expected w).
Proof. intros s t Hin y y' Hy H. destruct (E_txn_wrel _ _ _ Hin _ _ H) as [W _]. eapply wrel_keeps_Inv; eassumption. Qed.
Lemma E_keeps_R w : phase_keeps settled_R (phase_env env_blocks_expected w).
Proof. intros s t Hin y y' Hy H. destruct (E_txn_wrel _ _ _ Hin _ _ H) as [W _]. eapply wrel_settled_R; eassumption. Qed.

(* ------------------------------------------------------------------------------------------ *)
(* E. Phase 3: rescan_files, one transaction per hash job                                      *)
(* ------------------------------------------------------------------------------------------ *)
Definition job := (cause * str * option N)%type.
Definition jpath (j : job) : str := snd (fst j).

Lemma file_job_path w g r j : file_job w g r = Some j -> jpath j = fl r.
Proof.
  unfold file_job. destruct (rescanned (fstt r) && negb (is_detached (KFile, fl r) g)); [|discriminate].
  destruct (fstate_eqb (fstt r) FUnconfirmed); [intros H; inversion H; reflexivity|].
  destruct (oN_eqb (fh r) (disk_get (fl r) (w_disk w))); [discriminate | intros H; inversion H; reflexivity].
Qed.

(* other rows: propagation does not change the job of a row *)
Lemma file_job_Rf2 w g g' r r' : nodes g' = nodes g -> Rf2 r r' -> file_job w g' r' = file_job w g r.
Proof.
  intros N [El [Eh Es]]. unfold file_job, is_detached, find_node. rewrite N, El, Eh.
  destruct Es as [Es|[Es Es']]; [rewrite Es; reflexivity|]. rewrite Es, Es'. reflexivity.
Qed.

Lemma omap_Forall2_eq {A B} (Q : A -> A -> Prop) (f f' : A -> option B) l l' :
  Forall2 Q l l' -> (forall r r', In r l -> Q r r' -> f' r' = f r) -> omap f' l' = omap f l.
Proof.
  induction 1 as [|r r' l l' Hq _ IH]; intros H; [reflexivity|]. cbn [omap].
  rewrite (H r r' (or_introl eq_refl) Hq), IH; [reflexivity|]. intros a b Ha. apply H. right. exact Ha.
Qed.

Lemma omap_head_removed (Q : frow -> frow -> Prop) (f f' : frow -> option job) l l' j rest :
  Forall2 Q l l' -> nodup_by str_eqb (map fl l) = true -> omap f l = j :: rest ->
  (forall r j', f r = Some j' -> jpath j' = fl r) ->
  (forall r r', Q r r' -> fl r <> jpath j -> f' r' = f r) ->
  (forall r r', Q r r' -> fl r = jpath j -> f' r' = None) ->
  omap f' l' = rest.
Proof.
  intros F. revert rest. induction F as [|r r' l l' Hq F IH]; intros rest Hnd Ho Hp Hne He; [discriminate|].
  cbn [map nodup_by] in Hnd. apply andb_true_iff in Hnd. destruct Hnd as [Hr Hnd].
  cbn [omap] in Ho |- *. destruct (f r) as [j0|] eqn:Ef.
  - inversion Ho. subst j0 rest. rewrite (He r r' Hq (eq_sym (Hp r j Ef))).
    apply (omap_Forall2_eq Q); [exact F|]. intros a b Ha Hab. apply Hne; [exact Hab|].
    intros C. rewrite (Hp r j Ef) in C. apply negb_true_iff in Hr.
    assert (X : existsb (str_eqb (fl r)) (map fl l) = true).
    { apply existsb_exists. exists (fl a). split; [apply in_map; exact Ha | rewrite C; apply str_eqb_refl]. }
    rewrite X in Hr. discriminate.
  - assert (E' : f' r' = None).
    { destruct (list_eq_dec N.eq_dec (fl r) (jpath j)) as [C|C]; [apply (He r r' Hq C) | rewrite (Hne r r' Hq C); exact Ef]. }
    rewrite E'. apply IH; assumption.
Qed.

Lemma Forall2_In_l {A} (R : A -> A -> Prop) a b x : Forall2 R a b -> In x a -> exists y, In y b /\ R x y.
Proof.
  induction 1 as [|x0 y a b Hxy _ IH]; intros Hin; [destruct Hin|]. destruct Hin as [E|Hin].
  - subst. exists y. split; [left; reflexivity | exact Hxy].
  - destruct (IH Hin) as [y' [Hy Hr]]. exists y'. split; [right; exact Hy | exact Hr].
Qed.

(* the row of the job after the UPDATE of update_file_hashes, before propagation *)
Definition Qmid (p : str) (row : frow) (r r' : frow) : Prop :=
  exists mid, (mid = if str_eqb (fl r) p then row else r) /\ Rf2 mid r'.

Lemma set_fstate_hash_row p ns hv g s1 r :
  nodupF g -> find_file p g = Some r -> set_fstate_hash p ns (Some hv) g = Ok s1 ->
  nodes s1 = nodes g /\ deps s1 = deps g /\ steps s1 = steps g /\
  files s1 = map (fun x => if str_eqb (fl x) p then mkF (fl r) ns (if clears_hash (fstt r) ns then None else hv) else x) (files g).
Proof.
  intros Hnd Ef. unfold set_fstate_hash. rewrite Ef. intros H. guards H. inversion H. subst s1. clear H.
  repeat split. cbn. apply map_ext_in. intros x Hx. destruct (str_eqb (fl x) p) eqn:Ex; [|reflexivity].
  rewrite (unique_row g p r x Hnd Ef Hx Ex). reflexivity.
Qed.

Lemma update_one_effect w g r c p h g' :
  nodupF g -> In r (files g) -> file_job w g r = Some (c, p, h) -> hash_job_txn c p h g = Ok g' ->
  exists row, file_job w g' row = None /\ fl row = p /\
    nodes g' = nodes g /\ Forall2 Rs (steps g) (steps g') /\ Forall2 (Qmid p row) (files g) (files g').
Proof.
  intros Hnd Hin Hj H.
  pose proof (file_job_path _ _ _ _ Hj) as Ep. cbn in Ep. subst p.
  assert (Ef : find_file (fl r) g = Some r) by (unfold find_file; apply nodup_find_file; assumption).
  (* what the job says about the row *)
  unfold file_job in Hj. destruct (rescanned (fstt r) && negb (is_detached (KFile, fl r) g)) eqn:Eg; [|discriminate].
  apply andb_true_iff in Eg. destruct Eg as [Eres Eatt].
  assert (Hc : (c = CConfirmed /\ fstt r = FUnconfirmed /\ h = disk_get (fl r) (w_disk w)) \/
               (c = CExternal /\ fstt r <> FUnconfirmed /\ h = disk_get (fl r) (w_disk w) /\ oN_eqb (fh r) h = false)).
  { destruct (fstate_eqb (fstt r) FUnconfirmed) eqn:Eu.
    - inversion Hj. left. repeat split. apply fstate_eqb_eq. exact Eu.
    - destruct (oN_eqb (fh r) (disk_get (fl r) (w_disk w))) eqn:Eo; [discriminate|]. inversion Hj. subst. right.
      repeat split; [|exact Eo]. intros C. rewrite C in Eu. discriminate. }
  (* not stale *)
  assert (Hu : update_file_hashes c [(fl r, h)] g = Ok g').
  { unfold hash_job_txn in H. unfold fstate_of in H. rewrite Ef in H.
    destruct Hc as [[Ec [Es _]]|[Ec _]]; subst c; [rewrite Es in H|]; exact H. }
  clear H. unfold update_file_hashes in Hu. apply bind_ok in Hu. destruct Hu as [plan [Hp H]].
  cbn [foldM fst snd] in Hp. apply bind_ok in Hp. destruct Hp as [acc [Hp1 Hp2]]. inversion Hp2. subst acc. clear Hp2.
  rewrite Ef in Hp1.
  destruct (transition c (fstt r) (is_some h)) as [[ns act]|] eqn:Et; [|discriminate].
  inversion Hp1. subst plan. clear Hp1. cbn [app foldM p_path p_state p_hash] in H.
  apply bind_ok in H. destruct H as [s1 [H1 H]]. apply bind_ok in H1. destruct H1 as [s1' [H1 H1']].
  inversion H1'. subst s1'. clear H1'.
  destruct (set_fstate_hash_row _ _ _ _ _ _ Hnd Ef H1) as [N1 [D1 [S1 F1]]].
  cbv zeta in H. apply bind_ok in H. destruct H as [s2 [H2 H]]. apply bind_ok in H. destruct H as [s3 [H3 H4]].
  assert (R2 : crel s1 s2).
  { revert H2. apply (foldM_rel crel); [apply crel_refl | apply crel_trans|]. intros a b c0 _. apply handle_updated_file_crel. }
  assert (R3 : crel s2 s3).
  { revert H3. apply (foldM_rel crel); [apply crel_refl | apply crel_trans|]. intros a b c0 _. apply handle_deleted_file_crel. }
  assert (R4 : crel s3 g').
  { revert H4. apply (foldM_rel crel); [apply crel_refl | apply crel_trans|]. intros a b c0 _. apply mark_consumers_pending_crel. }
  assert (Hnd1 : nodupF s1).
  { unfold nodupF. rewrite F1, map_map. erewrite map_ext_in; [exact Hnd|]. intros x Hx. cbn.
    destruct (str_eqb (fl x) (fl r)) eqn:Ex; [|reflexivity]. cbn. apply str_eqb_eq in Ex. congruence. }
  assert (G : grel s1 g') by (apply (crel_trans _ _ _ R2 (crel_trans _ _ _ R3 R4)); exact Hnd1).
  set (row := mkF (fl r) ns (if clears_hash (fstt r) ns
                             then None else match h with Some v => Some v | None => Some 0 end)) in *.
  (* the new row has no job left *)
  assert (Jrow : file_job w s1 row = None).
  { unfold file_job, row. cbn [fstt fl fh]. unfold is_detached, find_node. rewrite N1.
    change (match find (fun nd => key_eqb (nk nd) (KFile, fl r)) (nodes g) with Some n0 => ndet n0 | None => true end)
      with (is_detached (KFile, fl r) g).
    assert (Eh : h = disk_get (fl r) (w_disk w)) by (destruct Hc as [[_ [_ E]]|[_ [_ [E _]]]]; exact E).
    rewrite <- Eh.
    destruct Hc as [[Ec [Es _]]|[Ec [Es [_ Eo]]]]; subst c.
    - rewrite Es in Et. rewrite Es. destruct h as [v|]; cbn in Et; inversion Et; subst ns act; cbn;
        try rewrite N.eqb_refl; destruct (negb (is_detached (KFile, fl r) g)); reflexivity.
    - destruct (fstt r) eqn:Er; try (exfalso; apply Es; reflexivity); try discriminate Eres;
        destruct h as [v|]; cbn in Et; inversion Et; subst ns act; cbn;
        try rewrite N.eqb_refl; try reflexivity; destruct (negb (is_detached (KFile, fl r) g)); reflexivity. }
  exists (match find_file (fl r) g' with Some x => x | None => row end).
  (* the row with this label in the final table *)
  assert (Hin1 : In row (files s1)).
  { rewrite F1. apply in_map_iff. exists r. rewrite str_eqb_refl. split; [reflexivity | exact Hin]. }
  destruct (Forall2_In_l Rf2 _ _ row (gr_files _ _ G) Hin1) as [row' [Hin' Hr']].
  assert (Ef' : find_file (fl r) g' = Some row').
  { unfold find_file. replace (fl r) with (fl row') by (destruct Hr' as [E _]; exact E).
    apply nodup_find_file; [|exact Hin']. exact (grel_nodupF _ _ G Hnd1). }
  rewrite Ef'. split; [|split; [destruct Hr' as [E _]; exact E|]].
  { rewrite (file_job_Rf2 w s1 g' row row' (gr_nodes _ _ G) Hr'). exact Jrow. }
  split; [rewrite (gr_nodes _ _ G); exact N1|]. split; [rewrite <- S1; exact (gr_steps _ _ G)|].
  (* the file table *)
  pose proof (gr_files _ _ G) as FF. rewrite F1 in FF. clear - FF Ef' Hin' Hnd1 G.
  assert (Hgen : forall l l', Forall2 Rf2 (map (fun x => if str_eqb (fl x) (fl r) then row else x) l) l' ->
            (forall y, In y l' -> fl y = fl r -> y = row') ->
            Forall2 (Qmid (fl r) row') l l').
  { induction l as [|x l IH]; intros l' F Hu; inversion F; subst; constructor.
    - destruct (str_eqb (fl x) (fl r)) eqn:Ex.
      + exists row'. rewrite Ex. split; [reflexivity|].
        assert (y = row').
        { apply Hu; [left; reflexivity|]. match goal with HH : Rf2 row y |- _ => destruct HH as [E _]; exact E end. }
        subst y. apply Rf2_refl.
      + exists x. rewrite Ex. split; [reflexivity | assumption].
    - apply IH; [assumption|]. intros y0 Hy0. apply Hu. right. exact Hy0. }
  apply Hgen; [exact FF|]. intros y Hy Ely.
  pose proof (nodup_find_file _ _ (grel_nodupF _ _ G Hnd1) Hy) as Fy. rewrite Ely in Fy.
  unfold find_file in Ef'. rewrite Ef' in Fy. inversion Fy. reflexivity.
Qed.

Lemma omap_head_In {A B} (f : A -> option B) l j rest : omap f l = j :: rest -> exists r, In r l /\ f r = Some j.
Proof.
  induction l as [|a l IH]; cbn [omap]; [discriminate|]. destruct (f a) as [b|] eqn:E.
  - intros H. inversion H. subst. exists a. split; [left; reflexivity | exact E].
  - intros H. destruct (IH H) as [r [Hr Hf]]. exists r. split; [right; exact Hr | exact Hf].
Qed.

(* one hash job: the remaining jobs are exactly the other ones *)
Lemma job_step w g j rest g' :
  nodupF g -> file_jobs w g = j :: rest ->
  hash_job_txn (fst (fst j)) (snd (fst j)) (snd j) g = Ok g' ->
  file_jobs w g' = rest /\ wrel g g'.
Proof.
  intros Hnd Hj H. destruct j as [[c p] h]. cbn [fst snd] in H.
  destruct (omap_head_In _ _ _ _ Hj) as [r [Hin Hr]].
  destruct (update_one_effect _ _ _ _ _ _ _ Hnd Hin Hr H) as [row [Jrow [Erow [N [S F]]]]].
  split.
  - unfold file_jobs. eapply (omap_head_removed (Qmid p row) (file_job w g) (file_job w g')); [exact F | exact Hnd | exact Hj | | |].
    + intros r0 j' Hj'. eapply file_job_path. exact Hj'.
    + intros r0 r0' [mid [Em Hm]] Hne. cbn in Hne.
      destruct (str_eqb (fl r0) p) eqn:Ex; [apply str_eqb_eq in Ex; contradiction|]. subst mid.
      apply file_job_Rf2; assumption.
    + intros r0 r0' [mid [Em Hm]] He. cbn in He. rewrite He, str_eqb_refl in Em. subst mid.
      rewrite (file_job_Rf2 w g' g' row r0' eq_refl Hm). exact Jrow.
  - constructor; [exact N | | exact S].
    clear - F Erow. induction F as [|x y a b [mid [Em [El _]]] _ IH]; cbn; [reflexivity|]. rewrite IH. f_equal.
    rewrite El, Em. destruct (str_eqb (fl x) p) eqn:Ex; [|reflexivity]. apply str_eqb_eq in Ex. congruence.
Qed.

Definition settled_F (w : world) (x : xst) : Prop := nodupF (xg x) /\ file_jobs w (xg x) = [].

Lemma run_items_app a b x : run_items (a ++ b) x = (do y <- run_items a x; run_items b y).
Proof.
  unfold run_items. revert x. induction a as [|t a IH]; intros x; cbn [app foldM]; [reflexivity|].
  destruct (t x) as [y|e|e]; cbn [bind]; [apply IH | reflexivity | reflexivity].
Qed.

(* after j jobs the jobs that remain are the other ones, in the same order *)
Lemma jobs_prefix w : forall jobs j x c,
  nodupF (xg x) -> file_jobs w (xg x) = jobs ->
  run_items (firstn j (map job_txn jobs)) x = Ok c ->
  file_jobs w (xg c) = skipn j jobs /\ wrel (xg x) (xg c) /\ xenv c = xenv x /\ xng c = xng x.
Proof.
  induction jobs as [|jb jobs IH]; intros j x c Hnd Hj H.
  - rewrite firstn_nil in H. cbn in H. inversion H. subst c. rewrite skipn_nil.
    split; [exact Hj | split; [apply wrel_refl | split; reflexivity]].
  - destruct j as [|j]; [cbn in H; inversion H; subst c; split; [exact Hj | split; [apply wrel_refl | split; reflexivity]]|].
    cbn [map firstn run_items foldM] in H. apply bind_ok in H. destruct H as [x1 [H1 H2]].
    unfold job_txn in H1. apply lift_ok in H1. destruct H1 as [g1 [H1 E1]]. subst x1.
    destruct (job_step _ _ _ _ _ Hnd Hj H1) as [J1 W1].
    assert (Hnd1 : nodupF g1).
    { unfold nodupF. rewrite (wr_flabels _ _ W1). exact Hnd. }
    destruct (IH j (set_xg x g1) c Hnd1 J1 H2) as [A [B [C D]]]. cbn [skipn].
    split; [exact A | split; [eapply wrel_trans; eassumption | split; assumption]].
Qed.

Lemma F_idem w s j c : Inv s -> run_items (firstn j (phase_files w s)) s = Ok c ->
  run_phase (phase_files w) c = run_phase (phase_files w) s.
Proof.
  intros HI H. apply Inv_parts in HI. unfold phase_files in H.
  destruct (jobs_prefix w _ j s c (proj2 HI) eq_refl H) as [A _].
  unfold run_phase, phase_files. rewrite A.
  pose proof (run_items_app (firstn j (map job_txn (file_jobs w (xg s)))) (skipn j (map job_txn (file_jobs w (xg s)))) s) as E.
  rewrite firstn_skipn in E. rewrite E, H. cbn [bind]. rewrite skipn_map. reflexivity.
Qed.
Lemma F_est w s s' : Inv s -> run_phase (phase_files w) s = Ok s' -> settled_F w s'.
Proof.
  intros HI H. apply Inv_parts in HI. unfold run_phase, phase_files in H.
  rewrite <- (firstn_all (map job_txn (file_jobs w (xg s)))) in H. rewrite map_length in H.
  destruct (jobs_prefix w _ _ s s' (proj2 HI) eq_refl H) as [A [W _]]. unfold settled_F. rewrite A.
  split; [|apply skipn_all]. unfold nodupF. rewrite (wr_flabels _ _ W). exact (proj2 HI).
Qed.
Lemma F_fix w s : settled_F w s -> run_phase (phase_files w) s = Ok s.
Proof. intros [_ H]. unfold run_phase, phase_files. rewrite H. reflexivity. Qed.

(* a transaction of this phase applied to ANY state: nodes and labels stay, steps only go PENDING *)
Lemma set_fstate_hash_wrel p ns hh g s1 : set_fstate_hash p ns hh g = Ok s1 -> wrel g s1.
Proof.
  unfold set_fstate_hash. destruct (find_file p g) as [r|]; [|intros H; inversion H; apply wrel_refl].
  intros H. guards H. inversion H. subst s1. constructor; [reflexivity | | cbn; apply Forall2_refl; apply Rs_refl].
  cbn. rewrite map_map. apply map_ext. intros x. destruct (str_eqb (fl x) p); reflexivity.
Qed.

Lemma update_one_wrel c p h g g' : update_file_hashes c [(p, h)] g = Ok g' -> wrel g g'.
Proof.
  unfold update_file_hashes. intros H. apply bind_ok in H. destruct H as [plan [Hp H]].
  cbn [foldM fst snd] in Hp. apply bind_ok in Hp. destruct Hp as [acc [Hp1 Hp2]]. inversion Hp2. subst acc. clear Hp2.
  destruct (find_file p g) as [r|] eqn:Ef; [|discriminate].
  destruct (transition c (fstt r) (is_some h)) as [[ns act]|] eqn:Et; [|discriminate].
  inversion Hp1. subst plan. clear Hp1. cbn [app foldM p_path p_state p_hash] in H.
  apply bind_ok in H. destruct H as [s1 [H1 H]]. apply bind_ok in H1. destruct H1 as [s1' [H1 H1']].
  inversion H1'. subst s1'. clear H1'. apply set_fstate_hash_wrel in H1.
  cbv zeta in H. apply bind_ok in H. destruct H as [s2 [H2 H]]. apply bind_ok in H. destruct H as [s3 [H3 H4]].
  assert (R2 : mark_rel s1 s2).
  { revert H2. apply (foldM_rel mark_rel); [apply mark_rel_refl | apply mark_rel_trans|]. intros a b c0 _. apply handle_updated_file_rel. }
  assert (R3 : mark_rel s2 s3).
  { revert H3. apply (foldM_rel mark_rel); [apply mark_rel_refl | apply mark_rel_trans|]. intros a b c0 _. apply handle_deleted_file_rel. }
  assert (R4 : mark_rel s3 g').
  { revert H4. apply (foldM_rel mark_rel); [apply mark_rel_refl | apply mark_rel_trans|]. intros a b c0 _. apply mark_consumers_pending_rel. }
  eapply wrel_trans; [exact H1|]. apply mark_rel_wrel.
  eapply mark_rel_trans; [exact R2 | eapply mark_rel_trans; eassumption].
Qed.

Lemma F_txn_wrel w s t : In t (phase_files w s) ->
  forall y y', t y = Ok y' -> wrel (xg y) (xg y') /\ xenv y' = xenv y /\ xng y' = xng y.
Proof.
  unfold phase_files. intros Hin y y' H. apply in_map_iff in Hin. destruct Hin as [[[c p] h] [E _]]. subst t.
  unfold job_txn in H. cbn [fst snd] in H. apply lift_ok in H. destruct H as [g' [H E]]. subst y'. cbn.
  split; [|split; reflexivity]. unfold hash_job_txn in H.
  match type of H with (if ?b then _ else _) = _ => destruct b end;
    [inversion H; apply wrel_refl | eapply update_one_wrel; exact H].
Qed.

Lemma settled_E_ext w y y' : nodes (xg y') = nodes (xg y) -> xenv y' = xenv y -> settled_E w y -> settled_E w y'.
Proof.
  intros N E. unfold settled_E, env_uses, is_detached, find_node. rewrite N, E. exact (fun H => H).
Qed.

Lemma F_keeps_Inv w : phase_keeps Inv (phase_files w).
Proof. intros s t Hin y y' Hy H. destruct (F_txn_wrel _ _ _ Hin _ _ H) as [W _]. eapply wrel_keeps_Inv; eassumption. Qed.
Lemma F_keeps_R w : phase_keeps settled_R (phase_files w).
Proof. intros s t Hin y y' Hy H. destruct (F_txn_wrel _ _ _ Hin _ _ H) as [W _]. eapply wrel_settled_R; eassumption. Qed.
Lemma F_keeps_E w : phase_keeps (settled_E w) (phase_files w).
Proof.
  intros s t Hin y y' Hy H. destruct (F_txn_wrel _ _ _ Hin _ _ H) as [W [E _]].
  eapply settled_E_ext; [exact (wr_nodes _ _ W) | exact E | exact Hy].
Qed.

(* ------------------------------------------------------------------------------------------ *)
(* F. Phase 4: rescan_nglobs                                                                   *)
(* ------------------------------------------------------------------------------------------ *)
Definition settled_N (w : world) (x : xst) : Prop := filter (ng_row_changed w) (ng_uses x) = [].

Lemma delete_hash_grel l g : grel g (delete_hash l g).
Proof. constructor; try reflexivity; cbn; apply Forall2_refl; [apply Rf2_refl | apply Rs_refl]. Qed.

Lemma persist_ok w x r y : persist_nglob w x r = Ok y ->
  mark_rel (delete_hash (ng_step r) (xg x)) (xg y) /\ crel (xg x) (xg y) /\
  xenv y = xenv x /\ xng y = ng_store w (ng_id r) (xng x).
Proof.
  unfold persist_nglob. intros H. apply bind_ok in H. destruct H as [g2 [H1 H2]]. inversion H2. subst y. cbn.
  split; [apply mark_step_pending_rel in H1; exact H1|]. split; [|split; reflexivity].
  eapply crel_trans; [intros _; apply delete_hash_grel | apply mark_step_pending_crel in H1; exact H1].
Qed.

Lemma persist_nodes w x r y : persist_nglob w x r = Ok y -> wrel (xg x) (xg y).
Proof.
  intros H. destruct (persist_ok _ _ _ _ H) as [R _]. apply mark_rel_wrel in R.
  eapply wrel_trans; [|exact R]. apply grel_wrel. apply delete_hash_grel.
Qed.

Lemma ng_store_row w i tbl r' : In r' (ng_store w i tbl) -> ng_row_changed w r' = true -> In r' tbl /\ ng_id r' <> i.
Proof.
  unfold ng_store. intros Hin Hc. apply in_map_iff in Hin. destruct Hin as [r [E Hr]].
  destruct (ng_id r =? i) eqn:Ei.
  - exfalso. apply N.eqb_eq in Ei. subst r'. unfold ng_row_changed in Hc. cbn [ng_id ng_data] in Hc. rewrite Ei in Hc.
    destruct (scan_glob w i) as [d|]; [rewrite N.eqb_refl in Hc|]; discriminate.
  - subst r'. split; [exact Hr|]. apply N.eqb_neq. exact Ei.
Qed.

Lemma ng_fold w : forall ch x c, foldM (persist_nglob w) ch x = Ok c ->
  wrel (xg x) (xg c) /\ crel (xg x) (xg c) /\ xenv c = xenv x /\
  (forall r', In r' (xng c) -> ng_row_changed w r' = true -> In r' (xng x) /\ ~ In (ng_id r') (map ng_id ch)).
Proof.
  induction ch as [|r ch IH]; intros x c H; cbn [foldM] in H.
  - inversion H. subst c. split; [apply wrel_refl | split; [apply crel_refl | split; [reflexivity|]]].
    intros r' Hin _. split; [exact Hin | intros []].
  - apply bind_ok in H. destruct H as [y [H1 H2]]. destruct (IH y c H2) as [W2 [C2 [E2 P2]]].
    pose proof (persist_nodes _ _ _ _ H1) as W1. destruct (persist_ok _ _ _ _ H1) as [_ [C1 [E1 N1]]].
    split; [eapply wrel_trans; eassumption|]. split; [eapply crel_trans; eassumption|]. split; [congruence|].
    intros r' Hin Hc. destruct (P2 r' Hin Hc) as [Hy Hno]. rewrite N1 in Hy.
    destruct (ng_store_row _ _ _ _ Hy Hc) as [Hx Hne]. split; [exact Hx|].
    cbn [map]. intros [C|C]; [apply Hne; symmetry; exact C | exact (Hno C)].
Qed.

Lemma nglob_txn_settles w x c : nglob_txn w (filter (ng_row_changed w) (ng_uses x)) x = Ok c -> settled_N w c.
Proof.
  unfold nglob_txn. intros H. destruct (ng_fold _ _ _ _ H) as [W [_ [_ P]]].
  unfold settled_N. apply filter_nil. intros r' Hin. unfold ng_uses in Hin. apply filter_In in Hin. destruct Hin as [Hin Hatt].
  destruct (ng_row_changed w r') eqn:Ec; [|reflexivity]. exfalso.
  destruct (P r' Hin Ec) as [Hx Hno]. apply Hno. apply in_map. apply filter_In. split; [|exact Ec].
  unfold ng_uses. apply filter_In. split; [exact Hx|]. rewrite <- (wrel_is_detached _ _ _ W). exact Hatt.
Qed.

Lemma N_fix w s : settled_N w s -> run_phase (phase_nglobs w) s = Ok s.
Proof. intros H. unfold run_phase, phase_nglobs. unfold settled_N in H. rewrite H. reflexivity. Qed.
Lemma N_est w s s' : run_phase (phase_nglobs w) s = Ok s' -> settled_N w s'.
Proof.
  unfold run_phase, phase_nglobs. destruct (filter (ng_row_changed w) (ng_uses s)) as [|r ch] eqn:E.
  - cbn. intros H. inversion H. subst. exact E.
  - cbn [run_items foldM]. intros H. apply bind_ok in H. destruct H as [y [H1 H2]]. inversion H2. subst s'.
    rewrite <- E in H1. apply nglob_txn_settles in H1. exact H1.
Qed.
Lemma N_idem w s j c : run_items (firstn j (phase_nglobs w s)) s = Ok c ->
  run_phase (phase_nglobs w) c = run_phase (phase_nglobs w) s.
Proof.
  intros H. destruct j as [|j]; [cbn in H; inversion H; reflexivity|].
  assert (E : firstn (S j) (phase_nglobs w s) = phase_nglobs w s).
  { unfold phase_nglobs. destruct (filter (ng_row_changed w) (ng_uses s)); [reflexivity|]. cbn. destruct j; reflexivity. }
  rewrite E in H. change (run_phase (phase_nglobs w) s = Ok c) in H. rewrite H. apply N_fix. eapply N_est. exact H.
Qed.

Lemma N_txn_rel w s t : In t (phase_nglobs w s) ->
  forall y y', t y = Ok y' -> wrel (xg y) (xg y') /\ crel (xg y) (xg y') /\ xenv y' = xenv y.
Proof.
  unfold phase_nglobs. destruct (filter (ng_row_changed w) (ng_uses s)) as [|r ch]; [intros []|].
  intros [E|[]] y y' H. subst t. unfold nglob_txn in H. destruct (ng_fold _ _ _ _ H) as [W [C [E _]]].
  split; [exact W | split; [exact C | exact E]].
Qed.
Lemma N_keeps_Inv w : phase_keeps Inv (phase_nglobs w).
Proof. intros s t Hin y y' Hy H. destruct (N_txn_rel _ _ _ Hin _ _ H) as [W _]. eapply wrel_keeps_Inv; eassumption. Qed.
Lemma N_keeps_R w : phase_keeps settled_R (phase_nglobs w).
Proof. intros s t Hin y y' Hy H. destruct (N_txn_rel _ _ _ Hin _ _ H) as [W _]. eapply wrel_settled_R; eassumption. Qed.
Lemma N_keeps_E w : phase_keeps (settled_E w) (phase_nglobs w).
Proof.
  intros s t Hin y y' Hy H. destruct (N_txn_rel _ _ _ Hin _ _ H) as [W [_ E]].
  eapply settled_E_ext; [exact (wr_nodes _ _ W) | exact E | exact Hy].
Qed.
Lemma N_keeps_F w : phase_keeps (settled_F w) (phase_nglobs w).
Proof.
  intros s t Hin y y' [Hnd Hy] H. destruct (N_txn_rel _ _ _ Hin _ _ H) as [_ [C _]].
  pose proof (C Hnd) as G. split; [eapply grel_nodupF; eassumption|].
  unfold file_jobs in *. rewrite <- Hy. apply (omap_Forall2_eq Rf2); [exact (gr_files _ _ G)|].
  intros r r' _ Hr. apply file_job_Rf2; [exact (gr_nodes _ _ G) | exact Hr].
Qed.

(* ------------------------------------------------------------------------------------------ *)
(* G. The sequence                                                                             *)
(* ------------------------------------------------------------------------------------------ *)
Definition startup_spec (w : world) : list (phase * (xst -> Prop)) :=
  [(phase_reset, settled_R); (phase_env env_blocks_expected w, settled_E w);
   (phase_files w, settled_F w); (phase_nglobs w, settled_N w)].

Lemma startup_spec_phases w : map fst (startup_spec w) = startup_phases env_blocks_expected w.
Proof. reflexivity. Qed.

Lemma startup_good w : good Inv (startup_spec w).
Proof.
  unfold startup_spec. constructor.
  - intros s j c HI H. eapply R_idem; eassumption.
  - intros s s' HI H. eapply R_est; eassumption.
  - intros s _ H. apply R_fix. exact H.
  - cbn [map fst]. apply Forall_cons; [apply E_keeps_R | apply Forall_cons; [apply F_keeps_R | apply Forall_cons; [apply N_keeps_R | apply Forall_nil]]].
  - constructor.
    + intros s j c _ H. eapply E_idem. exact H.
    + intros s s' _ H. eapply E_est. exact H.
    + intros s _ H. apply E_fix. exact H.
    + cbn [map fst]. apply Forall_cons; [apply F_keeps_E | apply Forall_cons; [apply N_keeps_E | apply Forall_nil]].
    + constructor.
      * intros s j c HI H. eapply F_idem; eassumption.
      * intros s s' HI H. eapply F_est; eassumption.
      * intros s _ H. apply F_fix. exact H.
      * cbn [map fst]. apply Forall_cons; [apply N_keeps_F | apply Forall_nil].
      * constructor.
        -- intros s j c _ H. eapply N_idem. exact H.
        -- intros s s' _ H. eapply N_est. exact H.
        -- intros s _ H. apply N_fix. exact H.
        -- constructor.
        -- constructor.
Qed.

Lemma startup_keeps_Inv w : Forall (phase_keeps Inv) (map fst (startup_spec w)).
Proof.
  cbn [map fst startup_spec].
  apply Forall_cons; [apply R_keeps_Inv | apply Forall_cons; [apply E_keeps_Inv | apply Forall_cons; [apply F_keeps_Inv | apply Forall_cons; [apply N_keeps_Inv | apply Forall_nil]]]].
Qed.

(* Theorem.  A kill after ANY commit of the startup sequence, then a restart (the whole sequence
   again, on what the database holds, with nothing remembered): the same result as the startup
   that was not interrupted -- including when that result is an error. *)
Theorem startup_crash_restart w x k c :
  labels_unique x = true ->
  crash_at (startup_phases env_blocks_expected w) k x = Ok c ->
  startup env_blocks_expected w c = startup env_blocks_expected w x.
Proof.
  intros HI H. unfold startup. rewrite <- startup_spec_phases.
  apply (crash_restart_general Inv _ (startup_good w) (startup_keeps_Inv w) x c HI).
  rewrite startup_spec_phases. eapply crash_at_reach; [discriminate | exact H].
Qed.

(* in particular: every step the uninterrupted startup leaves PENDING is PENDING after the
   restarted one, and the evidence tables end equal *)
Corollary startup_crash_marks_same w x k c y :
  labels_unique x = true ->
  crash_at (startup_phases env_blocks_expected w) k x = Ok c ->
  startup env_blocks_expected w x = Ok y ->
  exists y', startup env_blocks_expected w c = Ok y' /\
             (forall l, In l (pending_steps y) -> In l (pending_steps y')) /\
             xenv y' = xenv y /\ xng y' = xng y /\ files (xg y') = files (xg y).
Proof.
  intros HI H Hy. exists y. rewrite (startup_crash_restart w x k c HI H). split; [exact Hy|].
  split; [intros l Hl; exact Hl | repeat split].
Qed.

(* the complete startup is settled: nothing is RUNNING / CHECKING / attached FAILED, no tracked
   variable, file hash or glob match of an attached step differs from the world any more *)
Lemma startup_settles w x y : labels_unique x = true -> startup env_blocks_expected w x = Ok y ->
  settled_R y /\ settled_E w y /\ settled_F w y /\ settled_N w y.
Proof.
  intros HI H. unfold startup, startup_phases, run_phases in H. cbn [foldM] in H.
  apply bind_ok in H. destruct H as [x1 [H1 H]]. apply bind_ok in H. destruct H as [x2 [H2 H]].
  apply bind_ok in H. destruct H as [x3 [H3 H]]. apply bind_ok in H. destruct H as [x4 [H4 H]]. inversion H. subst y.
  assert (I1 : Inv x1) by (eapply run_phase_keeps; [apply R_keeps_Inv | exact HI | exact H1]).
  assert (I2 : Inv x2) by (eapply run_phase_keeps; [apply E_keeps_Inv | exact I1 | exact H2]).
  assert (I3 : Inv x3) by (eapply run_phase_keeps; [apply F_keeps_Inv | exact I2 | exact H3]).
  pose proof (R_est _ _ HI H1) as S1. pose proof (E_est _ _ _ H2) as S2.
  pose proof (F_est _ _ _ I2 H3) as S3. pose proof (N_est _ _ _ H4) as S4.
  split; [|split; [|split; [|exact S4]]].
  - eapply run_phase_keeps; [apply N_keeps_R| |exact H4]. eapply run_phase_keeps; [apply F_keeps_R| |exact H3].
    eapply run_phase_keeps; [apply E_keeps_R | exact S1 | exact H2].
  - eapply run_phase_keeps; [apply N_keeps_E| |exact H4]. eapply run_phase_keeps; [apply F_keeps_E | exact S2 | exact H3].
  - eapply run_phase_keeps; [apply N_keeps_F | exact S3 | exact H4].
Qed.

(* ------------------------------------------------------------------------------------------ *)
(* H. The block structure with the UPDATE in the reading transaction is NOT restartable        *)
(* ------------------------------------------------------------------------------------------ *)
Definition lost_change_b (blocks : list (list N)) (w : world) (x : xst) (k : nat) : bool :=
  match startup blocks w x, crash_at (startup_phases blocks w) k x with
  | Ok y, Ok c => match startup blocks w c with
                  | Ok y' => negb (forallb (fun l => mem_str l (pending_steps y')) (pending_steps y))
                  | _ => true end
  | _, _ => false
  end.

Theorem store_early_refuted :
  labels_unique envw_state = true /\ inv_b (xg envw_state) = true /\
  exists k c y y', crash_at (startup_phases env_blocks_store_early envw_world) k envw_state = Ok c /\
                   startup env_blocks_store_early envw_world envw_state = Ok y /\
                   startup env_blocks_store_early envw_world c = Ok y' /\
                   In s_e1 (pending_steps y) /\ ~ In s_e1 (pending_steps y').
Proof.
  split; [vm_compute; reflexivity|]. split; [vm_compute; reflexivity|].
  exists 3%nat.
  destruct (crash_at (startup_phases env_blocks_store_early envw_world) 3 envw_state) as [c|t|t] eqn:Ec;
    [|vm_compute in Ec; discriminate|vm_compute in Ec; discriminate].
  destruct (startup env_blocks_store_early envw_world envw_state) as [y|t|t] eqn:Ey;
    [|vm_compute in Ey; discriminate|vm_compute in Ey; discriminate].
  destruct (startup env_blocks_store_early envw_world c) as [y'|t|t] eqn:Ey'.
  - exists c, y, y'. split; [reflexivity|]. split; [reflexivity|]. split; [exact Ey'|]. split.
    + vm_compute in Ey. inversion Ey. vm_compute. left. reflexivity.
    + vm_compute in Ec. inversion Ec. subst c. vm_compute in Ey'. inversion Ey'. vm_compute. intros [].
  - vm_compute in Ec. inversion Ec. subst c. vm_compute in Ey'. discriminate.
  - vm_compute in Ec. inversion Ec. subst c. vm_compute in Ey'. discriminate.
Qed.

(* the same witness is handled correctly by the structure the theorems are about *)
Lemma expected_on_witness :
  forallb (fun k => negb (lost_change_b env_blocks_expected envw_world envw_state k)) (seq 0 8) = true /\
  existsb (fun k => lost_change_b env_blocks_store_early envw_world envw_state k) (seq 0 8) = true.
Proof. vm_compute. split; reflexivity. Qed.

(* ------------------------------------------------------------------------------------------ *)
(* I. Statements in the form used by props/C05.v                                               *)
(* ------------------------------------------------------------------------------------------ *)
Lemma startup_source_structure :
  rescan_env_vars_blocks = env_blocks_expected /\
  rescan_nglobs_blocks = [[1]; [2]] /\ persist_nglob_statements = [1; 2; 3] /\
  rescan_files_blocks = [[1]] /\ run_hash_job_transactions = [1].
Proof. repeat split; reflexivity. Qed.

Lemma startup_example_ok :
  labels_unique envw_state = true /\ inv_b (xg envw_state) = true /\
  forallb (fun k => match crash_at (startup_phases env_blocks_expected envw_world) k envw_state with
                    | Ok c => match startup env_blocks_expected envw_world c with
                              | Ok y => mem_str s_e1 (pending_steps y)
                              | _ => false end
                    | _ => false end) (seq 0 8) = true /\
  pending_steps envw_state = [].
Proof. vm_compute. repeat split; reflexivity. Qed.
