(* C01: the values recorded for tracked variables (model/Engine.v, [rsys]).

   The startup rescan of the code compares the environment with one recorded value per
   (step, variable) row and writes back the rows it found changed.  Proved here:
     resync_r_records_all    after the rescan EVERY row of EVERY step holds the value of the
                             environment the rescan saw (for all projects, states, worlds);
     resync_r_base           on a state whose rows hold the previous environment the rescan with
                             recorded values IS the rescan [resync] of the static-DAG theorems;
     resync_r_detects        any later change of a tracked variable -- to a fresh value or back
                             to an earlier one, alone or together with others -- marks the step;
     restart_recorded_equiv_scratch  the restart-flavour equivalence for the engine with rows;
     writeback_one_per_step_refuted  with the write-back of ONE row per step the statement is
                             false: (a1,b1) -> (a2,b2) -> (a1,b2). *)
From Coq Require Import List NArith Bool Lia.
From SV Require Import model.Engine proofs.EngineProofs.
Import ListNotations.
Open Scope N_scope.

(* ------------------------------------------------------------------------------------------ *)
(* write_back                                                                                  *)
(* ------------------------------------------------------------------------------------------ *)
Definition row_is (i m : N) (x : N * N * option N) : bool :=
  (i =? fst (fst x)) && (m =? snd (fst x)).

Lemma upd2_hit (r : N -> N -> option N) (x : N * N * option N) (i m : N) :
  row_is i m x = true -> upd2 r (fst (fst x)) (snd (fst x)) (snd x) i m = snd x.
Proof. unfold row_is, upd2. intros H. rewrite H. reflexivity. Qed.

Lemma upd2_miss (r : N -> N -> option N) (x : N * N * option N) (i m : N) :
  row_is i m x = false -> upd2 r (fst (fst x)) (snd (fst x)) (snd x) i m = r i m.
Proof. unfold row_is, upd2. intros H. rewrite H. reflexivity. Qed.

(* every triple carries the value of [e] at its variable *)
Definition consistent (e : N -> option N) (l : list (N * N * option N)) : Prop :=
  forall x, In x l -> snd x = e (snd (fst x)).

Lemma write_back_sets (e : N -> option N) (l : list (N * N * option N)) :
  consistent e l ->
  forall r i m, (existsb (row_is i m) l = true \/ r i m = e m) -> write_back r l i m = e m.
Proof.
  unfold write_back. induction l as [|x l IH]; intros Hc r i m H.
  - cbn in *. destruct H as [H|H]; [discriminate|exact H].
  - cbn [fold_left]. apply IH.
    + intros z Hz. apply Hc. right. exact Hz.
    + cbn [existsb] in H. destruct (row_is i m x) eqn:Ex.
      * right. rewrite (upd2_hit r x i m Ex). rewrite (Hc x (or_introl eq_refl)).
        unfold row_is in Ex. apply andb_true_iff in Ex. destruct Ex as [_ Em].
        apply N.eqb_eq in Em. rewrite Em. reflexivity.
      * rewrite (upd2_miss r x i m Ex). cbn in H. exact H.
Qed.

Lemma write_back_keeps (l : list (N * N * option N)) :
  forall r i m, existsb (row_is i m) l = false -> write_back r l i m = r i m.
Proof.
  unfold write_back. induction l as [|x l IH]; intros r i m H; [reflexivity|].
  cbn [fold_left]. cbn [existsb] in H. apply orb_false_iff in H. destruct H as [Hx Hl].
  rewrite (IH _ i m Hl). apply upd2_miss. exact Hx.
Qed.

Lemma changed_rows_consistent (e : N -> option N) (r : N -> N -> option N) (proj : project) :
  consistent e (changed_rows e r proj).
Proof.
  intros x Hx. unfold changed_rows in Hx. apply in_map_iff in Hx.
  destruct Hx as (k & <- & _). reflexivity.
Qed.

Lemma in_env_rows (proj : project) (s : step) (n : N) :
  In s proj -> In n (envn s) -> In (sid s, n) (env_rows proj).
Proof.
  intros Hs Hn. unfold env_rows. apply in_flat_map. exists s. split; [exact Hs|].
  apply in_map_iff. exists n. auto.
Qed.

(* ------------------------------------------------------------------------------------------ *)
(* The rescan records, for every tracked variable of every step, the value it saw              *)
(* ------------------------------------------------------------------------------------------ *)
Theorem resync_r_records_all (proj : project) (y : rsys) (w : world) (s : step) (n : N) :
  In s proj -> In n (envn s) -> rrec (resync_r proj y w) (sid s) n = snd w n.
Proof.
  intros Hs Hn. unfold resync_r, resync_with. cbn [rrec].
  apply (write_back_sets (snd w)); [apply changed_rows_consistent|].
  destruct (row_changed (snd w) (rrec y) (sid s, n)) eqn:Ec.
  - left. apply existsb_exists. exists (sid s, n, snd w n). split.
    + unfold changed_rows. apply in_map_iff. exists (sid s, n). split; [reflexivity|].
      apply filter_In. split; [apply in_env_rows; assumption|exact Ec].
    + unfold row_is. cbn. rewrite !N.eqb_refl. reflexivity.
  - right. unfold row_changed in Ec. cbn in Ec. apply negb_false_iff in Ec.
    apply oN_eqb_eq in Ec. symmetry. exact Ec.
Qed.

Lemma resync_r_ev (proj : project) (y : rsys) (w : world) (n : N) :
  ev (rbase (resync_r proj y w)) n = snd w n.
Proof. reflexivity. Qed.

Corollary resync_r_RecOK (proj : project) (y : rsys) (w : world) : RecOK proj (resync_r proj y w).
Proof. intros s n Hs Hn. rewrite resync_r_ev. apply resync_r_records_all; assumption. Qed.

(* ------------------------------------------------------------------------------------------ *)
(* With correct rows the rescan is [resync]                                                    *)
(* ------------------------------------------------------------------------------------------ *)
Lemma existsb_ext_in {A} (f g : A -> bool) (l : list A) :
  (forall x, In x l -> f x = g x) -> existsb f l = existsb g l.
Proof.
  induction l as [|a l IH]; intros H; [reflexivity|]. cbn [existsb].
  rewrite (H a (or_introl eq_refl)). rewrite IH; [reflexivity|].
  intros x Hx. apply H. right. exact Hx.
Qed.

Lemma mark_r_mark (todo : project) (denv : N -> N -> bool) (denv' : N -> bool) :
  (forall s n, In s todo -> In n (envn s) -> denv (sid s) n = denv' n) ->
  forall dirty st, mark_r todo dirty denv st = mark todo dirty denv' st.
Proof.
  induction todo as [|x rest IH]; intros H dirty st; [reflexivity|].
  cbn [mark_r mark].
  assert (E : existsb (denv (sid x)) (envn x) = existsb denv' (envn x)).
  { apply existsb_ext_in. intros n Hn. apply H; [left; reflexivity|exact Hn]. }
  rewrite E.
  assert (Hr : forall s n, In s rest -> In n (envn s) -> denv (sid s) n = denv' n).
  { intros s n Hs Hn. apply H; [right; exact Hs|exact Hn]. }
  destruct (existsb dirty (inp x) || existsb denv' (envn x) || negb (is_succ (st (sid x))));
    apply IH; exact Hr.
Qed.

Theorem resync_r_base (proj : project) (y : rsys) (w : world) :
  RecOK proj y -> rbase (resync_r proj y w) = resync proj (rbase y) w.
Proof.
  intros HR. unfold resync_r, resync_with, resync. cbn [rbase]. f_equal.
  apply mark_r_mark. intros s n Hs Hn. unfold row_changed. cbn [fst snd].
  rewrite (HR s n Hs Hn). reflexivity.
Qed.

(* Detection.  In a state whose rows hold the environment of the previous build, a tracked
   variable whose present value differs from that environment marks the step PENDING -- whatever
   the other variables do, and whatever values the variable had before. *)
Theorem resync_r_detects (proj : project) (y : rsys) (w : world) (s : step) (n : N) :
  NoDup (map sid proj) -> RecOK proj y -> In s proj -> In n (envn s) ->
  snd w n <> ev (rbase y) n ->
  stt (rbase (resync_r proj y w)) (sid s) = Pending.
Proof.
  intros Hnd HR Hs Hn Hne. rewrite (resync_r_base proj y w HR). unfold resync. cbn [stt].
  match goal with |- ?m = Pending => destruct m eqn:E end; [reflexivity|].
  exfalso. destruct (mark_unmarked proj _ _ _ s Hnd Hs E) as (_ & _ & H3).
  specialize (H3 n Hn). cbn in H3. apply negb_false_iff in H3. apply oN_eqb_eq in H3.
  apply Hne. exact H3.
Qed.

Section RecProofs.
  Variable run : N -> list (option N) -> list (option N) -> N -> N.

  Lemma ev_build (proj : project) (y : sys) (n : N) : ev (build run proj y) n = ev y n.
  Proof.
    destruct (build_from_world run proj proj y (fun s H => H)) as [_ H]. symmetry. apply H.
  Qed.

  Lemma build_world_r_RecOK (proj : project) (w : world) (y : rsys) :
    RecOK proj (build_world_r run proj w y).
  Proof.
    intros s n Hs Hn. unfold build_world_r, build_world_with. cbn [rrec rbase].
    rewrite ev_build. rewrite resync_r_ev. apply resync_r_records_all; assumption.
  Qed.

  Lemma build_world_r_base (proj : project) (w : world) (y : rsys) :
    RecOK proj y -> rbase (build_world_r run proj w y) = build_world run proj w (rbase y).
  Proof.
    intros HR. unfold build_world_r, build_world_with, build_world. cbn [rbase].
    rewrite (resync_r_base proj y w HR). reflexivity.
  Qed.

  (* after ANY build of a world [w1], a restart on a world [w2] that differs from [w1] in a
     variable tracked by step [s] marks [s]: no assumption on the state before *)
  Theorem restart_detects_every_tracked_variable (proj : project) (y : rsys) (w1 w2 : world)
          (s : step) (n : N) :
    NoDup (map sid proj) -> In s proj -> In n (envn s) -> snd w2 n <> snd w1 n ->
    stt (rbase (resync_r proj (build_world_r run proj w1 y) w2)) (sid s) = Pending.
  Proof.
    intros Hnd Hs Hn Hne.
    apply (resync_r_detects proj _ w2 s n Hnd (build_world_r_RecOK proj w1 y) Hs Hn).
    unfold build_world_r, build_world_with. cbn [rbase]. rewrite ev_build, resync_r_ev. exact Hne.
  Qed.

  Lemma empty_RecOK (proj : project) : RecOK proj empty_rsys.
  Proof. intros s n _ _. reflexivity. Qed.

  Lemma worlds_r_base (proj : project) (ws : list world) (y : rsys) :
    RecOK proj y ->
    RecOK proj (fold_left (fun s x => build_world_r run proj x s) ws y) /\
    rbase (fold_left (fun s x => build_world_r run proj x s) ws y)
    = fold_left (fun s x => build_world run proj x s) ws (rbase y).
  Proof.
    revert y. induction ws as [|w ws IH]; intros y HR; [split; [exact HR|reflexivity]|].
    cbn [fold_left].
    destruct (IH (build_world_r run proj w y) (build_world_r_RecOK proj w y)) as [H1 H2].
    split; [exact H1|]. rewrite H2. rewrite (build_world_r_base proj w y HR). reflexivity.
  Qed.

  (* Restart flavour with recorded values: after ANY sequence of worlds -- any number of tracked
     variables of a step changing in one restart, any subset of them going back to earlier values
     in a later one -- building the last world on what the earlier builds left gives the result
     of building it on nothing. *)
  Theorem restart_recorded_equiv_scratch (proj : project) :
    wf proj = true ->
    forall (ws : list world) (w : world),
      same_result proj
        (rbase (build_world_r run proj w
                  (fold_left (fun s x => build_world_r run proj x s) ws empty_rsys)))
        (rbase (build_world_r run proj w empty_rsys)).
  Proof.
    intros Hwf ws w.
    destruct (worlds_r_base proj ws empty_rsys (empty_RecOK proj)) as [HR HB].
    rewrite (build_world_r_base proj w _ HR), HB.
    rewrite (build_world_r_base proj w empty_rsys (empty_RecOK proj)).
    apply restart_equiv_scratch_static_dag. exact Hwf.
  Qed.
End RecProofs.

(* ------------------------------------------------------------------------------------------ *)
(* One row per step is not enough                                                              *)
(* ------------------------------------------------------------------------------------------ *)
(* step 1 tracks the variables 7 and 8 and writes 20 *)
Definition ab_proj : project := [mkStep 1 [] [7; 8] [20]].
Definition ab_env (a b : N) : N -> option N :=
  fun n => if n =? 7 then Some a else if n =? 8 then Some b else None.
Definition ab_world (a b : N) : world := (fun _ => None, ab_env a b).
(* the first build declares the step (both rows are written: Step.add_env_deps); the second and
   the third start with the rescan under test *)
Definition ab_after2 (rs : project -> rsys -> world -> rsys) : rsys :=
  build_world_with mix_run rs ab_proj (ab_world 2 2)
                   (build_world_r mix_run ab_proj (ab_world 1 1) empty_rsys).

Lemma writeback_one_per_step_refuted :
  let w := ab_world 1 2 in
  let one := build_world_with mix_run resync_r_one ab_proj w (ab_after2 resync_r_one) in
  let all := build_world_with mix_run resync_r ab_proj w (ab_after2 resync_r) in
  let scr := build_world_r mix_run ab_proj w empty_rsys in
  wf ab_proj = true /\
  (* after the second build the row of variable 7 still holds the value of the first build *)
  rrec (ab_after2 resync_r_one) 1 7 = Some 1 /\ rrec (ab_after2 resync_r_one) 1 8 = Some 2 /\
  rrec (ab_after2 resync_r) 1 7 = Some 2 /\ rrec (ab_after2 resync_r) 1 8 = Some 2 /\
  (* so the return of 7 to its first value is not seen: nothing runs, the output of (2, 2) stays *)
  build_log mix_run ab_proj ab_proj (rbase (resync_r_one ab_proj (ab_after2 resync_r_one) w)) = [] /\
  build_log mix_run ab_proj ab_proj (rbase (resync_r ab_proj (ab_after2 resync_r) w)) = [(1, true)] /\
  same_result_b ab_proj (rbase one) (rbase scr) = false /\
  same_result_b ab_proj (rbase all) (rbase scr) = true.
Proof. vm_compute. repeat split; reflexivity. Qed.
