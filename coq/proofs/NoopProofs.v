(* C04: proofs about model/Noop.v (no-op rebuild, skip, cone). *)
From Coq Require Import List NArith Bool Lia PeanoNat.
From SV Require Import lib.Bytes model.Graph model.GraphDump model.Noop gen.GenNoop.
Import ListNotations.
Open Scope N_scope.

(* ------------------------------------------------------------------------------------------ *)
(* Generic helpers                                                                             *)
(* ------------------------------------------------------------------------------------------ *)
Lemma foldM_id {A} (f : st -> A -> res st) (l : list A) (s : st) :
  (forall a, In a l -> f s a = Ok s) -> foldM f l s = Ok s.
Proof.
  induction l as [|a l IH]; intros H; cbn [foldM].
  - reflexivity.
  - rewrite (H a (or_introl eq_refl)). cbn [bind]. apply IH. intros b Hb. apply H. right. exact Hb.
Qed.

Lemma flat_map_nil {A B} (f : A -> list B) (l : list A) :
  (forall a, In a l -> f a = []) -> flat_map f l = [].
Proof.
  induction l as [|a l IH]; intros H; cbn [flat_map].
  - reflexivity.
  - rewrite (H a (or_introl eq_refl)). cbn [app]. apply IH. intros b Hb. apply H. right. exact Hb.
Qed.

Lemma filter_nil {A} (p : A -> bool) (l : list A) :
  (forall a, In a l -> p a = false) -> filter p l = [].
Proof.
  induction l as [|a l IH]; intros H; cbn [filter].
  - reflexivity.
  - rewrite (H a (or_introl eq_refl)). apply IH. intros b Hb. apply H. right. exact Hb.
Qed.

Lemma find_none_all {A} (p : A -> bool) (l : list A) :
  (forall a, In a l -> p a = false) -> find p l = None.
Proof.
  induction l as [|a l IH]; intros H; cbn [find].
  - reflexivity.
  - rewrite (H a (or_introl eq_refl)). apply IH. intros b Hb. apply H. right. exact Hb.
Qed.

Lemma find_step_in l s r : find_step l s = Some r -> In r (steps s) /\ sl r = l.
Proof.
  unfold find_step. intros H. apply find_some in H. destruct H as [Hin Heq].
  split; [exact Hin | apply str_eqb_eq; exact Heq].
Qed.

Lemma find_file_in l s r : find_file l s = Some r -> In r (files s) /\ fl r = l.
Proof.
  unfold find_file. intros H. apply find_some in H. destruct H as [Hin Heq].
  split; [exact Hin | apply str_eqb_eq; exact Heq].
Qed.

Lemma sstate_eqb_eq a b : sstate_eqb a b = true <-> a = b.
Proof. split; [destruct a, b; vm_compute; congruence | intros ->; destruct b; reflexivity]. Qed.

Lemma fstate_eqb_eq a b : fstate_eqb a b = true <-> a = b.
Proof. split; [destruct a, b; vm_compute; congruence | intros ->; destruct b; reflexivity]. Qed.

(* ------------------------------------------------------------------------------------------ *)
(* Consequences of quiescent_success_b                                                         *)
(* ------------------------------------------------------------------------------------------ *)
Lemma quiescent_parts s :
  quiescent_success_b s = true ->
  q_no_job_b s = true /\ q_steps_b s = true /\ q_no_deletable_b s = true /\ q_no_unconfirmed_b s = true.
Proof.
  unfold quiescent_success_b. intros H.
  apply andb_true_iff in H. destruct H as [H H4].
  apply andb_true_iff in H. destruct H as [H H3].
  apply andb_true_iff in H. destruct H as [H1 H2]. auto.
Qed.

(* an attached step row of a quiescent state is SUCCEEDED when required, PENDING otherwise *)
Lemma quiescent_row s r :
  q_steps_b s = true -> In r (steps s) -> is_detached (KStep, sl r) s = false ->
  (required (sl r) s = true /\ sst r = SSucceeded) \/
  (required (sl r) s = false /\ sst r = SPending /\
   forallb (fun f => negb (revertible_output f s)) (file_sinks_of_step (sl r) s) = true).
Proof.
  unfold q_steps_b. intros H Hin Hatt.
  rewrite forallb_forall in H. specialize (H r Hin). rewrite Hatt in H. cbn [orb] in H.
  destruct (required (sl r) s) eqn:Hreq.
  - left. split; [reflexivity | apply sstate_eqb_eq; exact H].
  - right. apply andb_true_iff in H. destruct H as [Hp Hf].
    split; [reflexivity | split; [apply sstate_eqb_eq; exact Hp | exact Hf]].
Qed.

Lemma quiescent_row_not_failed s r :
  q_steps_b s = true -> In r (steps s) -> is_detached (KStep, sl r) s = false -> sst r <> SFailed.
Proof.
  intros H Hin Hatt. destruct (quiescent_row s r H Hin Hatt) as [[_ Hs]|[_ [Hs _]]]; rewrite Hs; discriminate.
Qed.

(* ------------------------------------------------------------------------------------------ *)
(* restart: reset_interrupted_steps is the identity                                            *)
(* ------------------------------------------------------------------------------------------ *)
Lemma reset_interrupted_id s :
  q_no_job_b s = true -> q_steps_b s = true -> reset_interrupted s = Ok s.
Proof.
  intros Hjob Hsteps. unfold reset_interrupted.
  unfold q_no_job_b in Hjob. rewrite forallb_forall in Hjob.
  assert (H1 : foldM (fun s0 r => match sst r with SRunning => set_sstate_raw (sl r) SFailed s0 | _ => Ok s0 end)
                     (steps s) s = Ok s).
  { apply foldM_id. intros r Hr. specialize (Hjob r Hr). destruct (sst r); try reflexivity.
    vm_compute in Hjob. discriminate. }
  rewrite H1. cbn [bind].
  assert (H2 : foldM (fun s0 r => match sst r with SChecking => set_sstate_raw (sl r) SPending s0 | _ => Ok s0 end)
                     (steps s) s = Ok s).
  { apply foldM_id. intros r Hr. specialize (Hjob r Hr). destruct (sst r); try reflexivity.
    vm_compute in Hjob. discriminate. }
  rewrite H2. cbn [bind].
  apply foldM_id. intros r Hr. unfold sstate_of.
  destruct (find_step (sl r) s) as [r'|] eqn:Hf; [|reflexivity].
  destruct (find_step_in _ _ _ Hf) as [Hin' Hl'].
  destruct (sst r') eqn:Hst; try reflexivity.
  destruct (is_detached (KStep, sl r) s) eqn:Hdet; [reflexivity|].
  exfalso. rewrite <- Hl' in Hdet. exact (quiescent_row_not_failed s r' Hsteps Hin' Hdet Hst).
Qed.

(* no re-hash result reaches update_file_hashes when nothing changed *)
Lemma hash_jobs_nil_startup s rehash :
  q_no_unconfirmed_b s = true -> unchanged_b s rehash = true ->
  flat_map (hash_job_ops s true) rehash = [].
Proof.
  intros Hu Hun. apply flat_map_nil. intros ph Hph.
  unfold unchanged_b in Hun. rewrite forallb_forall in Hun. specialize (Hun ph Hph).
  unfold hash_job_ops. destruct (find_file (fst ph) s) as [r|] eqn:Hf; [|reflexivity].
  apply andb_true_iff in Hun. destruct Hun as [Hatt Heq].
  destruct (find_file_in _ _ _ Hf) as [Hin Hl].
  unfold q_no_unconfirmed_b in Hu. rewrite forallb_forall in Hu. specialize (Hu r Hin).
  rewrite Hl in Hu. unfold attached in Hatt. apply negb_true_iff in Hatt. rewrite Hatt in Hu.
  cbn [orb] in Hu. apply negb_true_iff in Hu. rewrite Hu. cbn [andb]. rewrite Heq. reflexivity.
Qed.

Lemma hash_jobs_nil_watch s rehash :
  unchanged_watch_b s rehash = true -> flat_map (hash_job_ops s false) rehash = [].
Proof.
  intros Hun. apply flat_map_nil. intros ph Hph.
  unfold unchanged_watch_b in Hun. rewrite forallb_forall in Hun. specialize (Hun ph Hph).
  unfold hash_job_ops. destruct (find_file (fst ph) s) as [r|] eqn:Hf; [|reflexivity].
  cbn [andb]. rewrite Hun. reflexivity.
Qed.

Lemma failed_attached_nil s : q_steps_b s = true -> failed_attached s = [].
Proof.
  intros Hsteps. unfold failed_attached. rewrite filter_nil; [reflexivity|].
  intros r Hr. destruct (sstate_eqb (sst r) SFailed) eqn:Hs; [|reflexivity].
  cbn [andb]. unfold attached. apply negb_false_iff.
  destruct (is_detached (KStep, sl r) s) eqn:Hdet; [reflexivity|].
  exfalso. apply sstate_eqb_eq in Hs. exact (quiescent_row_not_failed s r Hsteps Hr Hdet Hs).
Qed.

(* ------------------------------------------------------------------------------------------ *)
(* nothing is dispatchable, finalize is the identity                                           *)
(* ------------------------------------------------------------------------------------------ *)
Lemma guard_false_quiescent s l : q_steps_b s = true -> dispatch_guard l s = false.
Proof.
  intros Hsteps. unfold dispatch_guard.
  destruct (find_step l s) as [r|] eqn:Hf; [|reflexivity].
  destruct (find_step_in _ _ _ Hf) as [Hin Hl].
  destruct (attached (KStep, l) s) eqn:Hatt; [|reflexivity].
  unfold attached in Hatt. apply negb_true_iff in Hatt. rewrite <- Hl in Hatt.
  destruct (quiescent_row s r Hsteps Hin Hatt) as [[Hreq Hs]|[Hreq [Hs _]]].
  - rewrite Hs. reflexivity.
  - rewrite Hl in Hreq. rewrite Hreq. rewrite andb_false_r. reflexivity.
Qed.

Lemma dispatchable_nil s : q_steps_b s = true -> dispatchable s = [].
Proof.
  intros H. unfold dispatchable. apply filter_nil. intros l _. apply guard_false_quiescent. exact H.
Qed.

Lemma revert_optional_id s : q_steps_b s = true -> revert_optional s = Ok s.
Proof.
  intros Hsteps. unfold revert_optional.
  assert (Hopt : forall r, In r (optional_steps s) ->
                           sst r = SPending /\
                           forallb (fun f => negb (revertible_output f s)) (file_sinks_of_step (sl r) s) = true).
  { intros r Hr. unfold optional_steps in Hr. apply filter_In in Hr. destruct Hr as [Hin Hc].
    apply andb_true_iff in Hc. destruct Hc as [Hatt Hnr].
    unfold attached in Hatt. apply negb_true_iff in Hatt. apply negb_true_iff in Hnr.
    destruct (quiescent_row s r Hsteps Hin Hatt) as [[Hreq _]|[_ [Hs Hf]]].
    - rewrite Hreq in Hnr. discriminate.
    - split; assumption. }
  rewrite foldM_id.
  - cbn [bind]. assert (Hno : optional_outputs s = []).
    { unfold optional_outputs. apply flat_map_nil. intros r Hr.
      destruct (Hopt r Hr) as [_ Hf]. rewrite forallb_forall in Hf.
      apply filter_nil. intros f Hfin. apply negb_true_iff. apply Hf. exact Hfin. }
    rewrite Hno. reflexivity.
  - intros r Hr. destruct (Hopt r Hr) as [Hs _]. rewrite Hs. reflexivity.
Qed.

Lemma delete_detached_id s : q_no_deletable_b s = true -> delete_detached s = Ok s.
Proof.
  intros H. unfold delete_detached, q_no_deletable_b in *. rewrite forallb_forall in H.
  assert (Hfind : find (fun n => deletable n s) (nodes s) = None).
  { apply find_none_all. intros n Hn. apply negb_true_iff. apply H. exact Hn. }
  assert (Hloop : dd_loop (length (nodes s)) [] s = (s, [])).
  { destruct (length (nodes s)); cbn [dd_loop]; [reflexivity | rewrite Hfind; reflexivity]. }
  rewrite Hloop. reflexivity.
Qed.

(* ------------------------------------------------------------------------------------------ *)
(* dump_eqb is reflexive (so identity on the state gives identical dumps)                       *)
(* ------------------------------------------------------------------------------------------ *)
Lemma kind_eqb_refl k : kind_eqb k k = true. Proof. destruct k; reflexivity. Qed.
Lemma key_eqb_refl k : key_eqb k k = true.
Proof. unfold key_eqb. rewrite kind_eqb_refl, str_eqb_refl. reflexivity. Qed.
Lemma okey_eqb_refl k : okey_eqb k k = true.
Proof. destruct k; [apply key_eqb_refl | reflexivity]. Qed.
Lemma on_eqb_refl o : on_eqb o o = true.
Proof. destruct o; [apply N.eqb_refl | reflexivity]. Qed.

Lemma set_eqb_refl {A} (eqb : A -> A -> bool) (l : list A) :
  (forall x, eqb x x = true) -> set_eqb eqb l l = true.
Proof.
  intros Hr. unfold set_eqb. rewrite Nat.eqb_refl. cbn [andb].
  assert (H : forallb (fun x => existsb (eqb x) l) l = true).
  { apply forallb_forall. intros x Hx. apply existsb_exists. exists x. split; [exact Hx | apply Hr]. }
  rewrite H. reflexivity.
Qed.

Lemma dump_eqb_refl d : dump_eqb d d = true.
Proof.
  unfold dump_eqb.
  rewrite !set_eqb_refl; try reflexivity.
  - intros [[a b] c]. unfold denv_eqb. rewrite !str_eqb_refl, eqb_reflx. reflexivity.
  - apply str_eqb_refl.
  - intros [[a b] c]. unfold ddep_eqb. rewrite !key_eqb_refl, eqb_reflx. reflexivity.
  - intros [[[[[[a b] c] d0] e] f] g]. unfold dstep_eqb.
    rewrite str_eqb_refl, !N.eqb_refl, !eqb_reflx. reflexivity.
  - intros [[a b] c]. unfold dfile_eqb. rewrite str_eqb_refl, N.eqb_refl, on_eqb_refl. reflexivity.
  - intros [[a b] c]. unfold dnode_eqb. rewrite key_eqb_refl, okey_eqb_refl, eqb_reflx. reflexivity.
Qed.

(* ------------------------------------------------------------------------------------------ *)
(* restart_noop, watch_noop                                                                    *)
(* ------------------------------------------------------------------------------------------ *)
Theorem restart_noop (s : st) (rehash : list (str * option N)) :
  quiescent_success_b s = true ->
  unchanged_b s rehash = true ->
  run_ops (startup_ops s [] rehash) s = s /\
  (forall l, dispatch_guard l s = false) /\
  revert_optional s = Ok s /\
  delete_detached s = Ok s.
Proof.
  intros Hq Hun. destruct (quiescent_parts s Hq) as [Hjob [Hsteps [Hdel Hunc]]].
  split; [|split; [|split]].
  - unfold startup_ops. cbn [map app]. rewrite (hash_jobs_nil_startup s rehash Hunc Hun).
    cbn [run_ops fold_left]. unfold apply_op. cbn [step_op].
    rewrite (reset_interrupted_id s Hjob Hsteps). reflexivity.
  - intros l. apply guard_false_quiescent. exact Hsteps.
  - apply revert_optional_id. exact Hsteps.
  - apply delete_detached_id. exact Hdel.
Qed.

Theorem watch_noop (s : st) (rehash : list (str * option N)) :
  quiescent_success_b s = true ->
  unchanged_watch_b s rehash = true ->
  watch_ops s rehash = [] /\
  run_ops (watch_ops s rehash) s = s /\
  (forall l, dispatch_guard l s = false) /\
  revert_optional s = Ok s /\
  delete_detached s = Ok s.
Proof.
  intros Hq Hun. destruct (quiescent_parts s Hq) as [Hjob [Hsteps [Hdel Hunc]]].
  assert (Hnil : watch_ops s rehash = []).
  { unfold watch_ops. rewrite (failed_attached_nil s Hsteps). cbn [map app].
    apply hash_jobs_nil_watch. exact Hun. }
  split; [exact Hnil|]. rewrite Hnil.
  split; [reflexivity|]. split; [|split].
  - intros l. apply guard_false_quiescent. exact Hsteps.
  - apply revert_optional_id. exact Hsteps.
  - apply delete_detached_id. exact Hdel.
Qed.

(* the whole no-change restart (startup, then a finalize) as one run of transactions *)
Corollary restart_cycle_same_dump (s : st) (rehash : list (str * option N)) :
  quiescent_success_b s = true -> unchanged_b s rehash = true ->
  dump_eqb (dump_of (run_xops (map XOp (startup_ops s [] rehash) ++ [XRevert; XOp OpDeleteDetached]) s))
           (dump_of s) = true /\
  dispatchable (run_ops (startup_ops s [] rehash) s) = [].
Proof.
  intros Hq Hun. destruct (restart_noop s rehash Hq Hun) as [Hrun [Hg [Hrev Hdd]]].
  destruct (quiescent_parts s Hq) as [_ [Hsteps _]].
  split.
  - unfold run_xops. rewrite fold_left_app.
    assert (Hpre : fold_left (fun s0 x => match step_xop x s0 with Ok s' => s' | _ => s0 end)
                             (map XOp (startup_ops s [] rehash)) s = s).
    { revert Hrun. unfold run_ops. generalize (startup_ops s [] rehash). intros ops.
      assert (Hgen : forall s0, fold_left (fun s1 x => match step_xop x s1 with Ok s' => s' | _ => s1 end)
                                          (map XOp ops) s0 = fold_left apply_op ops s0).
      { induction ops as [|o ops IH]; intros s0; cbn [map fold_left]; [reflexivity|].
        rewrite IH. reflexivity. }
      rewrite Hgen. exact (fun H => H). }
    rewrite Hpre. cbn [fold_left step_xop step_op]. rewrite Hrev, Hdd. apply dump_eqb_refl.
  - rewrite Hrun. apply dispatchable_nil. exact Hsteps.
Qed.

(* ------------------------------------------------------------------------------------------ *)
(* The skip transaction of executor.try_skip_job when nothing differs                          *)
(* ------------------------------------------------------------------------------------------ *)
(* new_out_hashes is empty (every output has its recorded hash), cause SUCCEEDED, then
   mark_completed(new_hash): only the row of the step changes; no file row, hash, node,
   dependency, stored step hash or other step is touched. *)
Definition succeeded_row (r : srow) : srow := mkS (sl r) SSucceeded (sneed r) false 0 0.

Theorem skip_changes_nothing (s : st) (l : str) (r : srow) :
  find_step l s = Some r ->
  sst r = SChecking ->
  has_hash l s = true ->
  file_products_in l is_outdated s = [] ->
  step_op (OpExecEnd l [] CSucceeded [] true false) s = Ok (upd_step l succeeded_row s).
Proof.
  intros Hf Hst Hh Hout. cbn [step_op]. unfold update_file_hashes. cbn [foldM bind map filter].
  unfold mark_completed. unfold set_sstate. rewrite Hf. cbn [andb negb].
  cbn [bind]. change (sstate_eqb SSucceeded SRunning) with false. cbn iota.
  set (s1 := upd_step l _ s).
  assert (Hp : file_products_in l is_outdated s1 = []) by exact Hout.
  rewrite Hp. cbn [foldM bind]. unfold store_hash.
  assert (Hh1 : has_hash l s1 = true) by exact Hh.
  rewrite Hh1. reflexivity.
Qed.

Corollary skip_preserves_everything_else (s s' : st) (l : str) (r : srow) :
  find_step l s = Some r -> sst r = SChecking -> has_hash l s = true ->
  file_products_in l is_outdated s = [] ->
  step_op (OpExecEnd l [] CSucceeded [] true false) s = Ok s' ->
  nodes s' = nodes s /\ files s' = files s /\ deps s' = deps s /\ shash s' = shash s /\
  envs s' = envs s /\
  steps s' = map (fun x => if str_eqb (sl x) l then succeeded_row x else x) (steps s).
Proof.
  intros Hf Hst Hh Hout Hop. rewrite (skip_changes_nothing s l r Hf Hst Hh Hout) in Hop.
  injection Hop as <-. repeat split; reflexivity.
Qed.

(* ------------------------------------------------------------------------------------------ *)
(* Tie to the facts regenerated from the source (gen/GenNoop.v)                                *)
(* ------------------------------------------------------------------------------------------ *)
Definition all_fstates : list fstate :=
  [FUndeclared; FUnconfirmed; FMissing; FConfirmed; FPlanned; FBuilt; FOutdated; FVolatile].
Definition all_causes : list cause := [CExternal; CSucceeded; CFailed; CConfirmed].
Definition fstate_of_code (c : N) : option fstate := find (fun f => fstate_code f =? c) all_fstates.
Definition cause_of_code (c : N) : option cause := find (fun f => cause_code f =? c) all_causes.
Definition action_code (a : option action) : N :=
  match a with None => 0 | Some AUpdated => 1 | Some ADeleted => 2 | Some ACompleted => 3 end.
Definition transition_row_ok (row : N * N * bool * option (N * N)) : bool :=
  let '(c, o, k, r) := row in
  match cause_of_code c, fstate_of_code o with
  | Some c', Some o' =>
    match transition c' o' k, r with
    | None, None => true
    | Some (n, a), Some (n', a') => (fstate_code n =? n') && (action_code a =? a')
    | _, _ => false
    end
  | _, _ => false
  end.

(* Graph.transition is exactly workflow._HASH_TRANSITIONS (all 4 x 8 x 2 keys, present or absent) *)
Lemma transitions_tie :
  forallb transition_row_ok gen_transitions = true /\ length gen_transitions = 64%nat.
Proof. vm_compute. split; reflexivity. Qed.

(* hash_job_ops applies a result exactly when the generated rule of _run_hash_job says so *)
Lemma hash_job_rule_tie s cu ph r :
  find_file (fst ph) s = Some r ->
  hash_job_ops s cu ph =
  (if gen_hash_job_applies (negb (on_eqb (fh r) (snd ph))) (cu && fstate_eqb (fstt r) FUnconfirmed)
   then [OpUpdateHashes (if cu && fstate_eqb (fstt r) FUnconfirmed then CConfirmed else CExternal) [ph]]
   else []).
Proof.
  intros Hf. unfold hash_job_ops, gen_hash_job_applies. rewrite Hf.
  destruct (cu && fstate_eqb (fstt r) FUnconfirmed); destruct (on_eqb (fh r) (snd ph)); reflexivity.
Qed.

(* rescan_paths leaves out exactly the generated states; UNCONFIRMED is the CONFIRMED-cause state;
   resume_from_db awaits the five functions in the modelled order *)
Lemma rescan_rule_tie :
  (forall f, existsb (N.eqb (fstate_code f)) gen_rescan_excluded =
             match f with FPlanned | FVolatile => true | _ => false end) /\
  fstate_code FUnconfirmed = gen_rescan_confirm_state /\
  gen_startup_sequence = [1; 2; 3; 4; 5].
Proof. split; [intros f; destruct f; reflexivity | split; reflexivity]. Qed.
