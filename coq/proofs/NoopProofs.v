(* C04: proofs about model/Noop.v (no-op rebuild, skip, cone). *)
From Coq Require Import List NArith Bool Lia PeanoNat.
From SV Require Import lib.Bytes lib.Closure model.Graph model.GraphDump model.Noop gen.GenNoop.
Import ListNotations.
Open Scope N_scope.

(* ------------------------------------------------------------------------------------------ *)
(* Generic helpers                                                                             *)
(* ------------------------------------------------------------------------------------------ *)
Lemma foldM_id {A} (f : st -> A -> res st) (l : list A) (s : st) :
  (forall a, In a l -> f s a = Ok s) -> foldM f l s = Ok s.
Proof.
  induction l as [|a l IH]; intros H; cbn [foldM].
  - reflexivity.
  - rewrite (H a (or_introl eq_refl)). cbn [bind]. apply IH. intros b Hb. apply H. right. exact Hb.
Qed.

Lemma flat_map_nil {A B} (f : A -> list B) (l : list A) :
  (forall a, In a l -> f a = []) -> flat_map f l = [].
Proof.
  induction l as [|a l IH]; intros H; cbn [flat_map].
  - reflexivity.
  - rewrite (H a (or_introl eq_refl)). cbn [app]. apply IH. intros b Hb. apply H. right. exact Hb.
Qed.

Lemma filter_nil {A} (p : A -> bool) (l : list A) :
  (forall a, In a l -> p a = false) -> filter p l = [].
Proof.
  induction l as [|a l IH]; intros H; cbn [filter].
  - reflexivity.
  - rewrite (H a (or_introl eq_refl)). apply IH. intros b Hb. apply H. right. exact Hb.
Qed.

Lemma find_none_all {A} (p : A -> bool) (l : list A) :
  (forall a, In a l -> p a = false) -> find p l = None.
Proof.
  induction l as [|a l IH]; intros H; cbn [find].
  - reflexivity.
  - rewrite (H a (or_introl eq_refl)). apply IH. intros b Hb. apply H. right. exact Hb.
Qed.

Lemma find_step_in l s r : find_step l s = Some r -> In r (steps s) /\ sl r = l.
Proof.
  unfold find_step. intros H. apply find_some in H. destruct H as [Hin Heq].
  split; [exact Hin | apply str_eqb_eq; exact Heq].
Qed.

Lemma find_file_in l s r : find_file l s = Some r -> In r (files s) /\ fl r = l.
Proof.
  unfold find_file. intros H. apply find_some in H. destruct H as [Hin Heq].
  split; [exact Hin | apply str_eqb_eq; exact Heq].
Qed.

Lemma sstate_eqb_eq a b : sstate_eqb a b = true <-> a = b.
Proof. split; [destruct a, b; vm_compute; congruence | intros ->; destruct b; reflexivity]. Qed.

Lemma fstate_eqb_eq a b : fstate_eqb a b = true <-> a = b.
Proof. split; [destruct a, b; vm_compute; congruence | intros ->; destruct b; reflexivity]. Qed.

(* ------------------------------------------------------------------------------------------ *)
(* Consequences of quiescent_success_b                                                         *)
(* ------------------------------------------------------------------------------------------ *)
Lemma quiescent_parts s :
  quiescent_success_b s = true ->
  q_no_job_b s = true /\ q_steps_b s = true /\ q_no_deletable_b s = true /\ q_no_unconfirmed_b s = true.
Proof.
  unfold quiescent_success_b. intros H.
  apply andb_true_iff in H. destruct H as [H H4].
  apply andb_true_iff in H. destruct H as [H H3].
  apply andb_true_iff in H. destruct H as [H1 H2]. auto.
Qed.

(* an attached step row of a quiescent state is SUCCEEDED when required, PENDING otherwise *)
Lemma quiescent_row s r :
  q_steps_b s = true -> In r (steps s) -> is_detached (KStep, sl r) s = false ->
  (required (sl r) s = true /\ sst r = SSucceeded) \/
  (required (sl r) s = false /\ sst r = SPending /\
   forallb (fun f => negb (revertible_output f s)) (file_sinks_of_step (sl r) s) = true).
Proof.
  unfold q_steps_b. intros H Hin Hatt.
  rewrite forallb_forall in H. specialize (H r Hin). rewrite Hatt in H. cbn [orb] in H.
  destruct (required (sl r) s) eqn:Hreq.
  - left. split; [reflexivity | apply sstate_eqb_eq; exact H].
  - right. apply andb_true_iff in H. destruct H as [Hp Hf].
    split; [reflexivity | split; [apply sstate_eqb_eq; exact Hp | exact Hf]].
Qed.

Lemma quiescent_row_not_failed s r :
  q_steps_b s = true -> In r (steps s) -> is_detached (KStep, sl r) s = false -> sst r <> SFailed.
Proof.
  intros H Hin Hatt. destruct (quiescent_row s r H Hin Hatt) as [[_ Hs]|[_ [Hs _]]]; rewrite Hs; discriminate.
Qed.

(* ------------------------------------------------------------------------------------------ *)
(* restart: reset_interrupted_steps is the identity                                            *)
(* ------------------------------------------------------------------------------------------ *)
Lemma reset_interrupted_id s :
  q_no_job_b s = true -> q_steps_b s = true -> reset_interrupted s = Ok s.
Proof.
  intros Hjob Hsteps. unfold reset_interrupted.
  unfold q_no_job_b in Hjob. rewrite forallb_forall in Hjob.
  assert (H1 : foldM (fun s0 r => match sst r with SRunning => set_sstate_raw (sl r) SFailed s0 | _ => Ok s0 end)
                     (steps s) s = Ok s).
  { apply foldM_id. intros r Hr. specialize (Hjob r Hr). destruct (sst r); try reflexivity.
    vm_compute in Hjob. discriminate. }
  rewrite H1. cbn [bind].
  assert (H2 : foldM (fun s0 r => match sst r with SChecking => set_sstate_raw (sl r) SPending s0 | _ => Ok s0 end)
                     (steps s) s = Ok s).
  { apply foldM_id. intros r Hr. specialize (Hjob r Hr). destruct (sst r); try reflexivity.
    vm_compute in Hjob. discriminate. }
  rewrite H2. cbn [bind].
  apply foldM_id. intros r Hr. unfold sstate_of.
  destruct (find_step (sl r) s) as [r'|] eqn:Hf; [|reflexivity].
  destruct (find_step_in _ _ _ Hf) as [Hin' Hl'].
  destruct (sst r') eqn:Hst; try reflexivity.
  destruct (is_detached (KStep, sl r) s) eqn:Hdet; [reflexivity|].
  exfalso. rewrite <- Hl' in Hdet. exact (quiescent_row_not_failed s r' Hsteps Hin' Hdet Hst).
Qed.

(* no re-hash result reaches update_file_hashes when nothing changed *)
Lemma hash_jobs_nil_startup s rehash :
  q_no_unconfirmed_b s = true -> unchanged_b s rehash = true ->
  flat_map (hash_job_ops s true) rehash = [].
Proof.
  intros Hu Hun. apply flat_map_nil. intros ph Hph.
  unfold unchanged_b in Hun. rewrite forallb_forall in Hun. specialize (Hun ph Hph).
  unfold hash_job_ops. destruct (find_file (fst ph) s) as [r|] eqn:Hf; [|reflexivity].
  apply andb_true_iff in Hun. destruct Hun as [Hatt Heq].
  destruct (find_file_in _ _ _ Hf) as [Hin Hl].
  unfold q_no_unconfirmed_b in Hu. rewrite forallb_forall in Hu. specialize (Hu r Hin).
  rewrite Hl in Hu. unfold attached in Hatt. apply negb_true_iff in Hatt. rewrite Hatt in Hu.
  cbn [orb] in Hu. apply negb_true_iff in Hu. rewrite Hu. cbn [andb]. rewrite Heq. reflexivity.
Qed.

Lemma hash_jobs_nil_watch s rehash :
  unchanged_watch_b s rehash = true -> flat_map (hash_job_ops s false) rehash = [].
Proof.
  intros Hun. apply flat_map_nil. intros ph Hph.
  unfold unchanged_watch_b in Hun. rewrite forallb_forall in Hun. specialize (Hun ph Hph).
  unfold hash_job_ops. destruct (find_file (fst ph) s) as [r|] eqn:Hf; [|reflexivity].
  cbn [andb]. rewrite Hun. reflexivity.
Qed.

Lemma failed_attached_nil s : q_steps_b s = true -> failed_attached s = [].
Proof.
  intros Hsteps. unfold failed_attached. rewrite filter_nil; [reflexivity|].
  intros r Hr. destruct (sstate_eqb (sst r) SFailed) eqn:Hs; [|reflexivity].
  cbn [andb]. unfold attached. apply negb_false_iff.
  destruct (is_detached (KStep, sl r) s) eqn:Hdet; [reflexivity|].
  exfalso. apply sstate_eqb_eq in Hs. exact (quiescent_row_not_failed s r Hsteps Hr Hdet Hs).
Qed.

(* ------------------------------------------------------------------------------------------ *)
(* nothing is dispatchable, finalize is the identity                                           *)
(* ------------------------------------------------------------------------------------------ *)
Lemma guard_false_quiescent s l : q_steps_b s = true -> dispatch_guard l s = false.
Proof.
  intros Hsteps. unfold dispatch_guard.
  destruct (find_step l s) as [r|] eqn:Hf; [|reflexivity].
  destruct (find_step_in _ _ _ Hf) as [Hin Hl].
  destruct (attached (KStep, l) s) eqn:Hatt; [|reflexivity].
  unfold attached in Hatt. apply negb_true_iff in Hatt. rewrite <- Hl in Hatt.
  destruct (quiescent_row s r Hsteps Hin Hatt) as [[Hreq Hs]|[Hreq [Hs _]]].
  - rewrite Hs. reflexivity.
  - rewrite Hl in Hreq. rewrite Hreq. rewrite andb_false_r. reflexivity.
Qed.

Lemma dispatchable_nil s : q_steps_b s = true -> dispatchable s = [].
Proof.
  intros H. unfold dispatchable. apply filter_nil. intros l _. apply guard_false_quiescent. exact H.
Qed.

Lemma revert_optional_id s : q_steps_b s = true -> revert_optional s = Ok s.
Proof.
  intros Hsteps. unfold revert_optional.
  assert (Hopt : forall r, In r (optional_steps s) ->
                           sst r = SPending /\
                           forallb (fun f => negb (revertible_output f s)) (file_sinks_of_step (sl r) s) = true).
  { intros r Hr. unfold optional_steps in Hr. apply filter_In in Hr. destruct Hr as [Hin Hc].
    apply andb_true_iff in Hc. destruct Hc as [Hatt Hnr].
    unfold attached in Hatt. apply negb_true_iff in Hatt. apply negb_true_iff in Hnr.
    destruct (quiescent_row s r Hsteps Hin Hatt) as [[Hreq _]|[_ [Hs Hf]]].
    - rewrite Hreq in Hnr. discriminate.
    - split; assumption. }
  rewrite foldM_id.
  - cbn [bind]. assert (Hno : optional_outputs s = []).
    { unfold optional_outputs. apply flat_map_nil. intros r Hr.
      destruct (Hopt r Hr) as [_ Hf]. rewrite forallb_forall in Hf.
      apply filter_nil. intros f Hfin. apply negb_true_iff. apply Hf. exact Hfin. }
    rewrite Hno. reflexivity.
  - intros r Hr. destruct (Hopt r Hr) as [Hs _]. rewrite Hs. reflexivity.
Qed.

Lemma delete_detached_id s : q_no_deletable_b s = true -> delete_detached s = Ok s.
Proof.
  intros H. unfold delete_detached, q_no_deletable_b in *. rewrite forallb_forall in H.
  assert (Hfind : find (fun n => deletable n s) (nodes s) = None).
  { apply find_none_all. intros n Hn. apply negb_true_iff. apply H. exact Hn. }
  assert (Hloop : dd_loop (length (nodes s)) [] s = (s, [])).
  { destruct (length (nodes s)); cbn [dd_loop]; [reflexivity | rewrite Hfind; reflexivity]. }
  rewrite Hloop. reflexivity.
Qed.

(* ------------------------------------------------------------------------------------------ *)
(* dump_eqb is reflexive (so identity on the state gives identical dumps)                       *)
(* ------------------------------------------------------------------------------------------ *)
Lemma kind_eqb_refl k : kind_eqb k k = true. Proof. destruct k; reflexivity. Qed.
Lemma key_eqb_refl k : key_eqb k k = true.
Proof. unfold key_eqb. rewrite kind_eqb_refl, str_eqb_refl. reflexivity. Qed.
Lemma okey_eqb_refl k : okey_eqb k k = true.
Proof. destruct k; [apply key_eqb_refl | reflexivity]. Qed.
Lemma on_eqb_refl o : on_eqb o o = true.
Proof. destruct o; [apply N.eqb_refl | reflexivity]. Qed.

Lemma set_eqb_refl {A} (eqb : A -> A -> bool) (l : list A) :
  (forall x, eqb x x = true) -> set_eqb eqb l l = true.
Proof.
  intros Hr. unfold set_eqb. rewrite Nat.eqb_refl. cbn [andb].
  assert (H : forallb (fun x => existsb (eqb x) l) l = true).
  { apply forallb_forall. intros x Hx. apply existsb_exists. exists x. split; [exact Hx | apply Hr]. }
  rewrite H. reflexivity.
Qed.

Lemma dump_eqb_refl d : dump_eqb d d = true.
Proof.
  unfold dump_eqb.
  rewrite !set_eqb_refl; try reflexivity.
  - intros [[a b] c]. unfold denv_eqb. rewrite !str_eqb_refl, eqb_reflx. reflexivity.
  - apply str_eqb_refl.
  - intros [[a b] c]. unfold ddep_eqb. rewrite !key_eqb_refl, eqb_reflx. reflexivity.
  - intros [[[[[[a b] c] d0] e] f] g]. unfold dstep_eqb.
    rewrite str_eqb_refl, !N.eqb_refl, !eqb_reflx. reflexivity.
  - intros [[a b] c]. unfold dfile_eqb. rewrite str_eqb_refl, N.eqb_refl, on_eqb_refl. reflexivity.
  - intros [[a b] c]. unfold dnode_eqb. rewrite key_eqb_refl, okey_eqb_refl, eqb_reflx. reflexivity.
Qed.

(* ------------------------------------------------------------------------------------------ *)
(* restart_noop, watch_noop                                                                    *)
(* ------------------------------------------------------------------------------------------ *)
Theorem restart_noop (s : st) (rehash : list (str * option N)) :
  quiescent_success_b s = true ->
  unchanged_b s rehash = true ->
  run_ops (startup_ops s [] rehash) s = s /\
  (forall l, dispatch_guard l s = false) /\
  revert_optional s = Ok s /\
  delete_detached s = Ok s.
Proof.
  intros Hq Hun. destruct (quiescent_parts s Hq) as [Hjob [Hsteps [Hdel Hunc]]].
  split; [|split; [|split]].
  - unfold startup_ops. cbn [map app]. rewrite (hash_jobs_nil_startup s rehash Hunc Hun).
    cbn [run_ops fold_left]. unfold apply_op. cbn [step_op].
    rewrite (reset_interrupted_id s Hjob Hsteps). reflexivity.
  - intros l. apply guard_false_quiescent. exact Hsteps.
  - apply revert_optional_id. exact Hsteps.
  - apply delete_detached_id. exact Hdel.
Qed.

Theorem watch_noop (s : st) (rehash : list (str * option N)) :
  quiescent_success_b s = true ->
  unchanged_watch_b s rehash = true ->
  watch_ops s rehash = [] /\
  run_ops (watch_ops s rehash) s = s /\
  (forall l, dispatch_guard l s = false) /\
  revert_optional s = Ok s /\
  delete_detached s = Ok s.
Proof.
  intros Hq Hun. destruct (quiescent_parts s Hq) as [Hjob [Hsteps [Hdel Hunc]]].
  assert (Hnil : watch_ops s rehash = []).
  { unfold watch_ops. rewrite (failed_attached_nil s Hsteps). cbn [map app].
    apply hash_jobs_nil_watch. exact Hun. }
  split; [exact Hnil|]. rewrite Hnil.
  split; [reflexivity|]. split; [|split].
  - intros l. apply guard_false_quiescent. exact Hsteps.
  - apply revert_optional_id. exact Hsteps.
  - apply delete_detached_id. exact Hdel.
Qed.

(* the whole no-change restart (startup, then a finalize) as one run of transactions *)
Corollary restart_cycle_same_dump (s : st) (rehash : list (str * option N)) :
  quiescent_success_b s = true -> unchanged_b s rehash = true ->
  dump_eqb (dump_of (run_xops (map XOp (startup_ops s [] rehash) ++ [XRevert; XOp OpDeleteDetached]) s))
           (dump_of s) = true /\
  dispatchable (run_ops (startup_ops s [] rehash) s) = [].
Proof.
  intros Hq Hun. destruct (restart_noop s rehash Hq Hun) as [Hrun [Hg [Hrev Hdd]]].
  destruct (quiescent_parts s Hq) as [_ [Hsteps _]].
  split.
  - unfold run_xops. rewrite fold_left_app.
    assert (Hpre : fold_left (fun s0 x => match step_xop x s0 with Ok s' => s' | _ => s0 end)
                             (map XOp (startup_ops s [] rehash)) s = s).
    { revert Hrun. unfold run_ops. generalize (startup_ops s [] rehash). intros ops.
      assert (Hgen : forall s0, fold_left (fun s1 x => match step_xop x s1 with Ok s' => s' | _ => s1 end)
                                          (map XOp ops) s0 = fold_left apply_op ops s0).
      { induction ops as [|o ops IH]; intros s0; cbn [map fold_left]; [reflexivity|].
        rewrite IH. reflexivity. }
      rewrite Hgen. exact (fun H => H). }
    rewrite Hpre. cbn [fold_left step_xop step_op]. rewrite Hrev, Hdd. apply dump_eqb_refl.
  - rewrite Hrun. apply dispatchable_nil. exact Hsteps.
Qed.

(* ------------------------------------------------------------------------------------------ *)
(* The skip transaction of executor.try_skip_job when nothing differs                          *)
(* ------------------------------------------------------------------------------------------ *)
(* new_out_hashes is empty (every output has its recorded hash), cause SUCCEEDED, then
   mark_completed(new_hash): only the row of the step changes; no file row, hash, node,
   dependency, stored step hash or other step is touched. *)
Definition succeeded_row (r : srow) : srow := mkS (sl r) SSucceeded (sneed r) false 0 0.

Theorem skip_changes_nothing (s : st) (l : str) (r : srow) :
  find_step l s = Some r ->
  sst r = SChecking ->
  has_hash l s = true ->
  file_products_in l is_outdated s = [] ->
  step_op (OpExecEnd l [] CSucceeded [] true false) s = Ok (upd_step l succeeded_row s).
Proof.
  intros Hf Hst Hh Hout. cbn [step_op]. unfold update_file_hashes. cbn [foldM bind map filter].
  unfold mark_completed. unfold set_sstate. rewrite Hf. cbn [andb negb].
  cbn [bind]. change (sstate_eqb SSucceeded SRunning) with false. cbn iota.
  set (s1 := upd_step l _ s).
  assert (Hp : file_products_in l is_outdated s1 = []) by exact Hout.
  rewrite Hp. cbn [foldM bind]. unfold store_hash.
  assert (Hh1 : has_hash l s1 = true) by exact Hh.
  rewrite Hh1. reflexivity.
Qed.

Corollary skip_preserves_everything_else (s s' : st) (l : str) (r : srow) :
  find_step l s = Some r -> sst r = SChecking -> has_hash l s = true ->
  file_products_in l is_outdated s = [] ->
  step_op (OpExecEnd l [] CSucceeded [] true false) s = Ok s' ->
  nodes s' = nodes s /\ files s' = files s /\ deps s' = deps s /\ shash s' = shash s /\
  envs s' = envs s /\
  steps s' = map (fun x => if str_eqb (sl x) l then succeeded_row x else x) (steps s).
Proof.
  intros Hf Hst Hh Hout Hop. rewrite (skip_changes_nothing s l r Hf Hst Hh Hout) in Hop.
  injection Hop as <-. repeat split; reflexivity.
Qed.

(* ------------------------------------------------------------------------------------------ *)
(* Tie to the facts regenerated from the source (gen/GenNoop.v)                                *)
(* ------------------------------------------------------------------------------------------ *)
Definition all_fstates : list fstate :=
  [FUndeclared; FUnconfirmed; FMissing; FConfirmed; FPlanned; FBuilt; FOutdated; FVolatile].
Definition all_causes : list cause := [CExternal; CSucceeded; CFailed; CConfirmed].
Definition fstate_of_code (c : N) : option fstate := find (fun f => fstate_code f =? c) all_fstates.
Definition cause_of_code (c : N) : option cause := find (fun f => cause_code f =? c) all_causes.
Definition action_code (a : option action) : N :=
  match a with None => 0 | Some AUpdated => 1 | Some ADeleted => 2 | Some ACompleted => 3 end.
Definition transition_row_ok (row : N * N * bool * option (N * N)) : bool :=
  let '(c, o, k, r) := row in
  match cause_of_code c, fstate_of_code o with
  | Some c', Some o' =>
    match transition c' o' k, r with
    | None, None => true
    | Some (n, a), Some (n', a') => (fstate_code n =? n') && (action_code a =? a')
    | _, _ => false
    end
  | _, _ => false
  end.

(* Graph.transition is exactly workflow._HASH_TRANSITIONS (all 4 x 8 x 2 keys, present or absent) *)
Lemma transitions_tie :
  forallb transition_row_ok gen_transitions = true /\ length gen_transitions = 64%nat.
Proof. vm_compute. split; reflexivity. Qed.

(* hash_job_ops applies a result exactly when the generated rule of _run_hash_job says so *)
Lemma hash_job_rule_tie s cu ph r :
  find_file (fst ph) s = Some r ->
  hash_job_ops s cu ph =
  (if gen_hash_job_applies (negb (on_eqb (fh r) (snd ph))) (cu && fstate_eqb (fstt r) FUnconfirmed)
   then [OpUpdateHashes (if cu && fstate_eqb (fstt r) FUnconfirmed then CConfirmed else CExternal) [ph]]
   else []).
Proof.
  intros Hf. unfold hash_job_ops, gen_hash_job_applies. rewrite Hf.
  destruct (cu && fstate_eqb (fstt r) FUnconfirmed); destruct (on_eqb (fh r) (snd ph)); reflexivity.
Qed.

(* rescan_paths leaves out exactly the generated states; UNCONFIRMED is the CONFIRMED-cause state;
   resume_from_db awaits the five functions in the modelled order *)
Lemma rescan_rule_tie :
  (forall f, existsb (N.eqb (fstate_code f)) gen_rescan_excluded =
             match f with FPlanned | FVolatile => true | _ => false end) /\
  fstate_code FUnconfirmed = gen_rescan_confirm_state /\
  gen_startup_sequence = [1; 2; 3; 4; 5].
Proof. split; [intros f; destruct f; reflexivity | split; reflexivity]. Qed.

(* ------------------------------------------------------------------------------------------ *)
(* Cone: row-update helpers                                                                    *)
(* ------------------------------------------------------------------------------------------ *)
Definition need_of (l : str) (s : st) : option need :=
  match find_step l s with Some r => Some (sneed r) | None => None end.

Lemma find_map_upd {A} (lab : A -> str) (rows : list A) (l l' : str) (f : A -> A) :
  (forall r, lab (f r) = lab r) ->
  find (fun r => str_eqb (lab r) l') (map (fun r => if str_eqb (lab r) l then f r else r) rows)
  = option_map (fun r => if str_eqb (lab r) l then f r else r) (find (fun r => str_eqb (lab r) l') rows).
Proof.
  intros Hlab. induction rows as [|a rows IH]; cbn [map find option_map]; [reflexivity|].
  assert (Ha : lab (if str_eqb (lab a) l then f a else a) = lab a).
  { destruct (str_eqb (lab a) l); [apply Hlab | reflexivity]. }
  rewrite Ha. destruct (str_eqb (lab a) l'); [reflexivity | exact IH].
Qed.

Lemma has_dep_deps a b s s' : deps s' = deps s -> has_dep a b s' = has_dep a b s.
Proof. intros H. unfold has_dep. rewrite H. reflexivity. Qed.

Lemma sstate_of_steps l s s' : steps s' = steps s -> sstate_of l s' = sstate_of l s.
Proof. intros H. unfold sstate_of, find_step. rewrite H. reflexivity. Qed.
Lemma need_of_steps l s s' : steps s' = steps s -> need_of l s' = need_of l s.
Proof. intros H. unfold need_of, find_step. rewrite H. reflexivity. Qed.
Lemma fstate_of_files f s s' : files s' = files s -> fstate_of f s' = fstate_of f s.
Proof. intros H. unfold fstate_of, find_file. rewrite H. reflexivity. Qed.

Lemma set_sstate_spec l new d s s1 :
  set_sstate l new d s = Ok s1 ->
  nodes s1 = nodes s /\ files s1 = files s /\ deps s1 = deps s /\ shash s1 = shash s /\
  length (steps s1) = length (steps s) /\
  (forall l', need_of l' s1 = need_of l' s) /\
  (forall l', sstate_of l' s1 = sstate_of l' s \/ (l' = l /\ sstate_of l' s1 = Some new)).
Proof.
  unfold set_sstate. destruct (find_step l s) as [r|] eqn:Hf.
  - destruct (d && negb (sstate_eqb new SPending)); [discriminate|].
    intros H. injection H as <-.
    set (g := fun r0 : srow => mkS (sl r0) new (sneed r0) _ _ _).
    repeat split; try reflexivity.
    + unfold upd_step. cbn [steps set_steps]. apply map_length.
    + intros l'. unfold need_of, find_step, upd_step. cbn [steps set_steps].
      rewrite (find_map_upd sl (steps s) l l' g) by reflexivity.
      destruct (find (fun r0 => str_eqb (sl r0) l') (steps s)) as [r0|]; cbn [option_map]; [|reflexivity].
      destruct (str_eqb (sl r0) l); reflexivity.
    + intros l'. unfold sstate_of, find_step, upd_step. cbn [steps set_steps].
      rewrite (find_map_upd sl (steps s) l l' g) by reflexivity.
      destruct (find (fun r0 => str_eqb (sl r0) l') (steps s)) as [r0|] eqn:Hf'; cbn [option_map]; [|left; reflexivity].
      destruct (str_eqb (sl r0) l) eqn:He; [|left; reflexivity].
      right. apply find_some in Hf'. destruct Hf' as [_ Hl']. apply str_eqb_eq in Hl'. apply str_eqb_eq in He.
      split; [congruence | reflexivity].
  - intros H. injection H as <-. repeat split; try reflexivity. intros l'. left. reflexivity.
Qed.

Lemma set_fstate_hash_spec l new nh s s1 :
  set_fstate_hash l new nh s = Ok s1 ->
  nodes s1 = nodes s /\ steps s1 = steps s /\ deps s1 = deps s /\ shash s1 = shash s /\
  (forall f, fstate_of f s1 = fstate_of f s \/ (f = l /\ fstate_of f s1 = Some new)).
Proof.
  unfold set_fstate_hash. destruct (find_file l s) as [r|] eqn:Hf.
  - match goal with |- (if ?c then _ else _) = _ -> _ => destruct c end; [discriminate|].
    match goal with |- (if ?c then _ else _) = _ -> _ => destruct c end; [discriminate|].
    intros H. injection H as <-.
    set (g := fun r0 : frow => mkF (fl r0) new _).
    repeat split; try reflexivity.
    intros f. unfold fstate_of, find_file, upd_file. cbn [files set_files].
    rewrite (find_map_upd fl (files s) l f g) by reflexivity.
    destruct (find (fun r0 => str_eqb (fl r0) f) (files s)) as [r0|] eqn:Hf'; cbn [option_map]; [|left; reflexivity].
    destruct (str_eqb (fl r0) l) eqn:He; [|left; reflexivity].
    right. apply find_some in Hf'. destruct Hf' as [_ Hl']. apply str_eqb_eq in Hl'. apply str_eqb_eq in He.
    split; [congruence | reflexivity].
  - intros H. injection H as <-. repeat split; try reflexivity. intros f. left. reflexivity.
Qed.

(* members of the sink lists are linked by a dependency row *)
Lemma key_eqb_eq a b : key_eqb a b = true <-> a = b.
Proof.
  destruct a as [ka la], b as [kb lb]. unfold key_eqb. cbn [fst snd]. split.
  - intros H. apply andb_true_iff in H. destruct H as [Hk Hl]. apply str_eqb_eq in Hl. subst lb.
    destruct ka, kb; try discriminate; reflexivity.
  - intros H. injection H as -> ->. rewrite kind_eqb_refl, str_eqb_refl. reflexivity.
Qed.

Lemma in_sinks_has_dep k x s : In x (sinks_of k s) -> has_dep k x s = true.
Proof.
  unfold sinks_of, has_dep. intros H. apply in_map_iff in H. destruct H as [d [Hd Hin]].
  apply filter_In in Hin. destruct Hin as [Hin Hsrc]. apply existsb_exists. exists d. split; [exact Hin|].
  rewrite Hsrc. subst x. rewrite key_eqb_refl. reflexivity.
Qed.

Lemma file_sink_has_dep l f s : In f (file_sinks_of_step l s) -> has_dep (KStep, l) (KFile, f) s = true.
Proof.
  unfold file_sinks_of_step. intros H. apply in_map_iff in H. destruct H as [k [Hk Hin]].
  apply filter_In in Hin. destruct Hin as [Hin Hkind]. apply in_sinks_has_dep in Hin.
  destruct k as [kk kl]. cbn [fst snd] in *. subst kl. destruct kk; try discriminate. exact Hin.
Qed.

Lemma step_sink_has_dep f l s : In l (step_sinks_of_file f s) -> has_dep (KFile, f) (KStep, l) s = true.
Proof.
  unfold step_sinks_of_file. intros H. apply in_map_iff in H. destruct H as [k [Hk Hin]].
  apply filter_In in Hin. destruct Hin as [Hin Hkind]. apply in_sinks_has_dep in Hin.
  destruct k as [kk kl]. cbn [fst snd] in *. subst kl. destruct kk; try discriminate. exact Hin.
Qed.

(* ------------------------------------------------------------------------------------------ *)
(* Cone: propagation stays inside a set of keys closed under dependency edges                   *)
(* ------------------------------------------------------------------------------------------ *)
Section Cone.
  Variable D : key -> Prop.
  Variable E : list str.

  Definition closed (s : st) : Prop := forall a b, D a -> has_dep a b s = true -> D b.
  Definition Estatic (s : st) : Prop :=
    forall f, In f E -> fstate_of f s = Some FConfirmed \/ fstate_of f s = Some FMissing.
  Definition good (s : st) : Prop := closed s /\ Estatic s.

  (* what a propagation may change: step states, only inside D; file states, only BUILT ones *)
  Definition PS (s s' : st) : Prop :=
    nodes s' = nodes s /\ deps s' = deps s /\ length (steps s') = length (steps s) /\
    (forall l, need_of l s' = need_of l s) /\
    (forall l, sstate_of l s' = sstate_of l s \/ (D (KStep, l) /\ sstate_of l s' = Some SPending)).
  Definition P (s s' : st) : Prop :=
    PS s s' /\ (forall f, fstate_of f s' = fstate_of f s \/ fstate_of f s = Some FBuilt).

  Lemma P_refl s : P s s.
  Proof. repeat split; try reflexivity; intros; left; reflexivity. Qed.

  Lemma P_trans a b c : P a b -> P b c -> P a c.
  Proof.
    intros [[Hn1 [Hd1 [Hl1 [Hq1 Hs1]]]] Hf1] [[Hn2 [Hd2 [Hl2 [Hq2 Hs2]]]] Hf2].
    refine (conj (conj _ (conj _ (conj _ (conj _ _)))) _).
    - congruence.
    - congruence.
    - congruence.
    - intros l. rewrite (Hq2 l). apply Hq1.
    - intros l. destruct (Hs2 l) as [He|Hr]; [|right; exact Hr].
      rewrite He. apply Hs1.
    - intros f. destruct (Hf2 f) as [He|Hb].
      + rewrite He. apply Hf1.
      + destruct (Hf1 f) as [He1|Hb1]; [right; congruence | right; exact Hb1].
  Qed.

  Lemma good_P s s' : good s -> P s s' -> good s'.
  Proof.
    intros [Hc He] [[Hn [Hd _]] Hf]. split.
    - intros a b Ha Hab. rewrite (has_dep_deps a b s s' Hd) in Hab. exact (Hc a b Ha Hab).
    - intros f Hin. destruct (Hf f) as [Heq|Hb]; [rewrite Heq; apply He; exact Hin|].
      destruct (He f Hin) as [H1|H1]; rewrite H1 in Hb; discriminate.
  Qed.

  Lemma foldM_P {A} (g : st -> A -> res st) (Q : A -> Prop) (l : list A) :
    (forall a s s', Q a -> good s -> g s a = Ok s' -> P s s') ->
    (forall a, In a l -> Q a) ->
    forall s s', good s -> foldM g l s = Ok s' -> P s s'.
  Proof.
    intros Hg. induction l as [|a l IH]; intros HQ s s' Hgood H; cbn [foldM] in H.
    - injection H as <-. apply P_refl.
    - destruct (g s a) as [s1| |] eqn:Hga; cbn [bind] in H; try discriminate.
      assert (P1 : P s s1) by (apply (Hg a s s1); [apply HQ; left; reflexivity | exact Hgood | exact Hga]).
      apply (P_trans s s1 s' P1). apply IH; [intros b Hb; apply HQ; right; exact Hb | exact (good_P s s1 Hgood P1) | exact H].
  Qed.

  Lemma mspf_eq fuel l s :
    mark_step_pending_f (S fuel) l s =
    match sstate_of l s with
    | None => Internal 104
    | Some SRunning | Some SChecking => Ok s
    | Some old =>
      do s1 <- set_sstate l SPending false s;
      match old with
      | SSucceeded | SFailed =>
        foldM (fun s f => match fstate_of f s with
                          | Some FBuilt => mark_file_outdated_f fuel f s
                          | _ => Ok s end) (file_sinks_of_step l s1) s1
      | _ => Ok s1
      end
    end.
  Proof. reflexivity. Qed.

  Lemma mfof_eq fuel f s :
    mark_file_outdated_f (S fuel) f s =
    match fstate_of f s with
    | Some FBuilt =>
      do s1 <- set_fstate f FOutdated s;
      foldM (fun s l => mark_step_pending_f fuel l s) (step_sinks_of_file f s1) s1
    | Some FOutdated => Ok s
    | _ => Internal 105
    end.
  Proof. reflexivity. Qed.

  Lemma set_pending_P l s s1 : D (KStep, l) -> set_sstate l SPending false s = Ok s1 -> P s s1.
  Proof.
    intros HD H. destruct (set_sstate_spec _ _ _ _ _ H) as [Hn [Hf [Hd [_ [Hl [Hq Hs]]]]]].
    repeat split; try assumption.
    - intros l'. destruct (Hs l') as [He|[-> Hp]]; [left; exact He | right; split; assumption].
    - intros f. left. apply fstate_of_files. exact Hf.
  Qed.

  Lemma mark_spec fuel :
    (forall l s s', D (KStep, l) -> good s -> mark_step_pending_f fuel l s = Ok s' -> P s s') /\
    (forall f s s', D (KFile, f) -> good s -> mark_file_outdated_f fuel f s = Ok s' -> P s s').
  Proof.
    induction fuel as [|fuel [IHs IHf]].
    - split; intros; discriminate.
    - split.
      + intros l s s' HD Hgood H. rewrite mspf_eq in H.
        destruct (sstate_of l s) as [old|] eqn:Hold; [|discriminate].
        destruct old.
        * (* PENDING *)
          destruct (set_sstate l SPending false s) as [s1| |] eqn:H1; cbn [bind] in H; try discriminate.
          injection H as <-. exact (set_pending_P l s s1 HD H1).
        * injection H as <-. apply P_refl.
        * (* SUCCEEDED *)
          destruct (set_sstate l SPending false s) as [s1| |] eqn:H1; cbn [bind] in H; try discriminate.
          assert (P1 : P s s1) by exact (set_pending_P l s s1 HD H1).
          apply (P_trans s s1 s' P1).
          assert (G1 : good s1) by exact (good_P s s1 Hgood P1).
          apply (fun Hg HQ => foldM_P _ (fun f => D (KFile, f)) (file_sinks_of_step l s1) Hg HQ s1 s' G1 H).
          -- intros f s2 s3 HDf G2 Hstep. destruct (fstate_of f s2) as [[]|]; try (injection Hstep as <-; apply P_refl).
             exact (IHf f s2 s3 HDf G2 Hstep).
          -- intros f Hin. destruct G1 as [Hc _]. exact (Hc _ _ HD (file_sink_has_dep l f s1 Hin)).
        * (* FAILED *)
          destruct (set_sstate l SPending false s) as [s1| |] eqn:H1; cbn [bind] in H; try discriminate.
          assert (P1 : P s s1) by exact (set_pending_P l s s1 HD H1).
          apply (P_trans s s1 s' P1).
          assert (G1 : good s1) by exact (good_P s s1 Hgood P1).
          apply (fun Hg HQ => foldM_P _ (fun f => D (KFile, f)) (file_sinks_of_step l s1) Hg HQ s1 s' G1 H).
          -- intros f s2 s3 HDf G2 Hstep. destruct (fstate_of f s2) as [[]|]; try (injection Hstep as <-; apply P_refl).
             exact (IHf f s2 s3 HDf G2 Hstep).
          -- intros f Hin. destruct G1 as [Hc _]. exact (Hc _ _ HD (file_sink_has_dep l f s1 Hin)).
        * injection H as <-. apply P_refl.
      + intros f s s' HD Hgood H. rewrite mfof_eq in H.
        destruct (fstate_of f s) as [fs|] eqn:Hfs; [|discriminate].
        destruct fs; try discriminate.
        * (* BUILT *)
          unfold set_fstate in H.
          destruct (set_fstate_hash f FOutdated None s) as [s1| |] eqn:H1; cbn [bind] in H; try discriminate.
          destruct (set_fstate_hash_spec _ _ _ _ _ H1) as [Hn [Hst [Hd [_ Hfl]]]].
          assert (P1 : P s s1).
          { repeat split; try assumption.
            - rewrite Hst. reflexivity.
            - intros l. apply need_of_steps. exact Hst.
            - intros l. left. apply sstate_of_steps. exact Hst.
            - intros f'. destruct (Hfl f') as [He|[-> _]]; [left; exact He | right; exact Hfs]. }
          apply (P_trans s s1 s' P1).
          assert (G1 : good s1) by exact (good_P s s1 Hgood P1).
          apply (fun Hg HQ => foldM_P _ (fun l => D (KStep, l)) (step_sinks_of_file f s1) Hg HQ s1 s' G1 H).
          -- intros l s2 s3 HDl G2 Hstep. exact (IHs l s2 s3 HDl G2 Hstep).
          -- intros l Hin. destruct G1 as [Hc _]. exact (Hc _ _ HD (step_sink_has_dep f l s1 Hin)).
        * injection H as <-. apply P_refl.
  Qed.

  Lemma mark_step_pending_P l s s' : D (KStep, l) -> good s -> mark_step_pending l s = Ok s' -> P s s'.
  Proof. intros HD Hg H. exact (proj1 (mark_spec (fuel_of s)) l s s' HD Hg H). Qed.

  Lemma mark_consumers_P f s s' : D (KFile, f) -> good s -> mark_consumers_pending f s = Ok s' -> P s s'.
  Proof.
    intros HD Hg H. unfold mark_consumers_pending in H.
    apply (fun Hg' HQ => foldM_P _ (fun l => D (KStep, l)) (step_sinks_of_file f s) Hg' HQ s s' Hg H).
    - intros l s2 s3 HDl G2 Hstep. exact (mark_step_pending_P l s2 s3 HDl G2 Hstep).
    - intros l Hin. destruct Hg as [Hc _]. exact (Hc _ _ HD (step_sink_has_dep f l s Hin)).
  Qed.
End Cone.

(* ------------------------------------------------------------------------------------------ *)
(* Cone: an EXTERNAL hash update of source files makes only cone steps PENDING                 *)
(* ------------------------------------------------------------------------------------------ *)
Section ConeUpdate.
  Variable D : key -> Prop.
  Variable E : list str.
  Hypothesis HDE : forall f, In f E -> D (KFile, f).

  (* the rows of the plan of update_file_hashes EXTERNAL on source files *)
  Definition plan_ok (plan : list planrow) : Prop :=
    forall x, In x plan -> In (p_path x) E /\ (p_state x = FConfirmed \/ p_state x = FMissing).

  Lemma plan_fold_ok s hs :
    (forall ph, In ph hs -> In (fst ph) E) ->
    static_sources_b s hs = true ->
    forall acc plan, plan_ok acc ->
    foldM (fun acc ph =>
             match find_file (fst ph) s with
             | None => Internal 118
             | Some r =>
               match transition CExternal (fstt r) (is_some (snd ph)) with
               | None => Internal 119
               | Some (ns, act) => Ok (acc ++ [mkP (fst ph) (snd ph) ns act])
               end
             end) hs acc = Ok plan -> plan_ok plan.
  Proof.
    induction hs as [|ph hs IH]; intros HE Hst acc plan Hacc H; cbn [foldM] in H.
    - injection H as <-. exact Hacc.
    - cbn [static_sources_b forallb] in Hst. apply andb_true_iff in Hst. destruct Hst as [Hph Hst].
      unfold fstate_of in Hph.
      destruct (find_file (fst ph) s) as [r|] eqn:Hf; [|discriminate].
      destruct (transition CExternal (fstt r) (is_some (snd ph))) as [[ns act]|] eqn:Htr; [|discriminate].
      cbn [bind] in H. apply (IH (fun p Hp => HE p (or_intror Hp)) Hst _ plan) in H; [exact H|].
      intros x Hx. apply in_app_or in Hx. destruct Hx as [Hx|[<-|[]]]; [exact (Hacc x Hx)|].
      cbn [p_path p_state]. split; [apply HE; left; reflexivity|].
      destruct (fstt r); try discriminate; destruct (is_some (snd ph)); cbn in Htr;
        try discriminate; injection Htr as <- _; auto.
  Qed.

  (* writing the planned rows: nothing but file rows of E changes, and those stay static *)
  Lemma plan_write_ok plan :
    plan_ok plan ->
    forall s s1, Estatic E s ->
    foldM (fun s x => set_fstate_hash (p_path x) (p_state x)
                        (Some (match p_hash x with Some v => Some v | None => Some 0 end)) s) plan s = Ok s1 ->
    nodes s1 = nodes s /\ steps s1 = steps s /\ deps s1 = deps s /\ Estatic E s1 /\
    (forall f, fstate_of f s1 = fstate_of f s \/ fstate_of f s1 = Some FConfirmed \/ fstate_of f s1 = Some FMissing).
  Proof.
    induction plan as [|x plan IH]; intros Hok s s1 HE H; cbn [foldM] in H.
    - injection H as <-. repeat split; try reflexivity; [exact HE | intros f; left; reflexivity].
    - destruct (set_fstate_hash (p_path x) (p_state x) _ s) as [s2| |] eqn:H2; cbn [bind] in H; try discriminate.
      destruct (set_fstate_hash_spec _ _ _ _ _ H2) as [Hn [Hst [Hd [_ Hfl]]]].
      assert (HE2 : Estatic E s2).
      { intros f Hin. destruct (Hfl f) as [He|[-> Hnew]].
        - rewrite He. apply HE. exact Hin.
        - rewrite Hnew. destruct (Hok x (or_introl eq_refl)) as [_ [->| ->]]; auto. }
      destruct (IH (fun y Hy => Hok y (or_intror Hy)) s2 s1 HE2 H) as [Hn' [Hst' [Hd' [HE' Hf']]]].
      repeat split; try congruence; [exact HE'|].
      intros f. destruct (Hf' f) as [He|Hs]; [|right; exact Hs]. rewrite He.
      destruct (Hfl f) as [He2|[_ Hnew]]; [left; exact He2|]. right. rewrite Hnew.
      destruct (Hok x (or_introl eq_refl)) as [_ [->| ->]]; auto.
  Qed.

  Lemma handle_updated_P l s s' :
    In l E -> good D E s -> handle_updated_file l s = Ok s' -> P D s s'.
  Proof.
    intros Hin Hg H. unfold handle_updated_file in H.
    destruct Hg as [Hc He]. destruct (He l Hin) as [Hs|Hs]; rewrite Hs in H.
    - exact (mark_consumers_P D E l s s' (HDE l Hin) (conj Hc He) H).
    - injection H as <-. apply P_refl.
  Qed.

  Lemma handle_deleted_P l s s' :
    In l E -> good D E s -> handle_deleted_file l s = Ok s' -> P D s s'.
  Proof.
    intros Hin Hg H. unfold handle_deleted_file in H.
    destruct Hg as [Hc He]. destruct (He l Hin) as [Hs|Hs]; rewrite Hs in H; cbn [bind] in H;
      exact (mark_consumers_P D E l s s' (HDE l Hin) (conj Hc He) H).
  Qed.

  Lemma with_act_in plan a l :
    plan_ok plan ->
    In l (map p_path (filter (fun x => match p_act x with Some b => action_eqb a b | None => false end) plan)) ->
    In l E.
  Proof.
    intros Hok H. apply in_map_iff in H. destruct H as [x [<- Hx]]. apply filter_In in Hx.
    exact (proj1 (Hok x (proj1 Hx))).
  Qed.

  Lemma external_update_P s hs s' :
    (forall ph, In ph hs -> In (fst ph) E) ->
    static_sources_b s hs = true ->
    good D E s ->
    update_file_hashes CExternal hs s = Ok s' ->
    PS D s s' /\ Estatic E s' /\
    (forall f, fstate_of f s' = Some FBuilt -> fstate_of f s = Some FBuilt).
  Proof.
    intros HE Hst Hg H. unfold update_file_hashes in H.
    match type of H with (do plan <- ?F; _) = _ => destruct F as [plan| |] eqn:Hplan end;
      cbn [bind] in H; try discriminate.
    assert (Hok : plan_ok plan).
    { apply (plan_fold_ok s hs HE Hst [] plan); [intros x []|exact Hplan]. }
    match type of H with (do s1 <- ?F; _) = _ => destruct F as [s1| |] eqn:Hw end;
      cbn [bind] in H; try discriminate.
    destruct (plan_write_ok plan Hok s s1 (proj2 Hg) Hw) as [Hn [Hs [Hd [HE1 Hfw]]]].
    assert (P1 : PS D s s1).
    { repeat split; try assumption.
      - rewrite Hs. reflexivity.
      - intros l. apply need_of_steps. exact Hs.
      - intros l. left. apply sstate_of_steps. exact Hs. }
    assert (G1 : good D E s1).
    { split; [|exact HE1]. intros a b Ha Hab. rewrite (has_dep_deps a b s s1 Hd) in Hab.
      exact (proj1 Hg a b Ha Hab). }
    match type of H with (do s2 <- ?F; _) = _ => destruct F as [s2| |] eqn:H2 end;
      cbn [bind] in H; try discriminate.
    assert (P2 : P D s1 s2).
    { apply (fun Hg' HQ => foldM_P D E _ (fun l => In l E) _ Hg' HQ s1 s2 G1 H2).
      - intros l sa sb Hl Hga Hh. exact (handle_updated_P l sa sb Hl Hga Hh).
      - intros l Hl. exact (with_act_in plan AUpdated l Hok Hl). }
    assert (G2 : good D E s2) by exact (good_P D E s1 s2 G1 P2).
    match type of H with (do s3 <- ?F; _) = _ => destruct F as [s3| |] eqn:H3 end;
      cbn [bind] in H; try discriminate.
    assert (P3 : P D s2 s3).
    { apply (fun Hg' HQ => foldM_P D E _ (fun l => In l E) _ Hg' HQ s2 s3 G2 H3).
      - intros l sa sb Hl Hga Hh. exact (handle_deleted_P l sa sb Hl Hga Hh).
      - intros l Hl. exact (with_act_in plan ADeleted l Hok Hl). }
    assert (G3 : good D E s3) by exact (good_P D E s2 s3 G2 P3).
    assert (P4 : P D s3 s').
    { apply (fun Hg' HQ => foldM_P D E _ (fun l => In l E) _ Hg' HQ s3 s' G3 H).
      - intros l sa sb Hl Hga Hh. exact (mark_consumers_P D E l sa sb (HDE l Hl) Hga Hh).
      - intros l Hl. exact (with_act_in plan ACompleted l Hok Hl). }
    assert (P14 : P D s1 s') by exact (P_trans D s1 s2 s' P2 (P_trans D s2 s3 s' P3 P4)).
    split; [|split; [exact (proj2 (good_P D E s1 s' G1 P14))|]].
    2:{ intros f Hb. assert (Hb1 : fstate_of f s1 = Some FBuilt).
        { destruct (proj2 P14 f) as [He|He]; [rewrite <- He; exact Hb | exact He]. }
        destruct (Hfw f) as [He|[He|He]]; [rewrite <- He; exact Hb1 | congruence | congruence]. }
    destruct P1 as [Hn1 [Hd1 [Hl1 [Hq1 Hs1]]]]. destruct P14 as [[Hn2 [Hd2 [Hl2 [Hq2 Hs2]]]] _].
    refine (conj _ (conj _ (conj _ (conj _ _)))).
    - congruence.
    - congruence.
    - congruence.
    - intros l. rewrite (Hq2 l). apply Hq1.
    - intros l. destruct (Hs2 l) as [He|Hr]; [rewrite He; apply Hs1 | right; exact Hr].
  Qed.
End ConeUpdate.

(* the cone of model/Noop.v is closed under the dependency rows of the state it is computed on *)
Lemma down_closed q E G s : deps s = deps q -> closed (down q E G) s.
Proof.
  intros Hd a b Ha Hab. rewrite (has_dep_deps a b q s Hd) in Hab. exact (down_dep q E G a b Ha Hab).
Qed.

Theorem pending_only_in_cone (s : st) (hs : list (str * option N)) (s' : st) :
  static_sources_b s hs = true ->
  update_file_hashes CExternal hs s = Ok s' ->
  nodes s' = nodes s /\ deps s' = deps s /\
  (forall l, sstate_of l s' <> sstate_of l s ->
             in_cone s (map fst hs) [] l /\ sstate_of l s' = Some SPending).
Proof.
  intros Hst H.
  assert (Hg : good (down s (map fst hs) []) (map fst hs) s).
  { split; [apply down_closed; reflexivity|].
    intros f Hin. unfold static_sources_b in Hst. rewrite forallb_forall in Hst.
    apply in_map_iff in Hin. destruct Hin as [ph [<- Hph]]. specialize (Hst ph Hph).
    destruct (fstate_of (fst ph) s) as [[]|]; try discriminate; auto. }
  destruct (external_update_P (down s (map fst hs) []) (map fst hs)
              (fun f Hf => down_edited s _ _ f Hf) s hs s'
              (fun ph Hph => in_map fst hs ph Hph) Hst Hg H) as [[Hn [Hd [_ [_ Hs]]]] _].
  split; [exact Hn|]. split; [exact Hd|].
  intros l Hne. destruct (Hs l) as [He|Hr]; [contradiction | exact Hr].
Qed.

(* marking a cone member PENDING (environment change, changed glob matches: persist_nglob_matches)
   stays inside the cone as well *)
Theorem mark_pending_in_cone (s : st) (E G : list str) (l : str) (s' : st) :
  in_cone s E G l ->
  (forall f, In f E -> fstate_of f s = Some FConfirmed \/ fstate_of f s = Some FMissing) ->
  mark_step_pending l s = Ok s' ->
  nodes s' = nodes s /\ deps s' = deps s /\
  (forall l', sstate_of l' s' <> sstate_of l' s -> in_cone s E G l' /\ sstate_of l' s' = Some SPending).
Proof.
  intros Hin HE H.
  assert (Hg : good (down s E G) E s) by (split; [apply down_closed; reflexivity | exact HE]).
  destruct (mark_step_pending_P (down s E G) E l s s' Hin Hg H) as [[Hn [Hd [_ [_ Hs]]]] _].
  split; [exact Hn|]. split; [exact Hd|].
  intros l' Hne. destruct (Hs l') as [He|Hr]; [contradiction | exact Hr].
Qed.

(* ------------------------------------------------------------------------------------------ *)
(* Cone invariant over the transactions of a rebuild (partial: see cone_op in model/Noop.v)    *)
(* ------------------------------------------------------------------------------------------ *)
Lemma existsb_ext' {A} (f g : A -> bool) (l : list A) :
  (forall x, f x = g x) -> existsb f l = existsb g l.
Proof. intros H. induction l as [|a l IH]; cbn [existsb]; [reflexivity | rewrite H, IH; reflexivity]. Qed.

Lemma attached_nodes k s s' : nodes s' = nodes s -> attached k s' = attached k s.
Proof. intros H. unfold attached, is_detached, find_node. rewrite H. reflexivity. Qed.
Lemma creator_of_nodes k s s' : nodes s' = nodes s -> creator_of k s' = creator_of k s.
Proof. intros H. unfold creator_of, find_node. rewrite H. reflexivity. Qed.
Lemma file_sinks_deps l s s' : deps s' = deps s -> file_sinks_of_step l s' = file_sinks_of_step l s.
Proof. intros H. unfold file_sinks_of_step, sinks_of. rewrite H. reflexivity. Qed.
Lemma step_sinks_deps f s s' : deps s' = deps s -> step_sinks_of_file f s' = step_sinks_of_file f s.
Proof. intros H. unfold step_sinks_of_file, sinks_of. rewrite H. reflexivity. Qed.

(* ---- `required` is a reachability closure: its fuel-free characterisation ------------------ *)
Lemma has_dep_in a b s : has_dep a b s = true <-> exists d, In d (deps s) /\ dsrc d = a /\ dsnk d = b.
Proof.
  unfold has_dep. rewrite existsb_exists. split.
  - intros [d [Hd Hc]]. apply andb_true_iff in Hc. destruct Hc as [H1 H2].
    apply key_eqb_eq in H1. apply key_eqb_eq in H2. exists d. auto.
  - intros [d [Hd [H1 H2]]]. exists d. split; [exact Hd|]. subst. rewrite !key_eqb_refl. reflexivity.
Qed.

Lemma has_dep_step_sink f l s : has_dep (KFile, f) (KStep, l) s = true -> In l (step_sinks_of_file f s).
Proof.
  intros H. apply has_dep_in in H. destruct H as [d [Hd [H1 H2]]].
  unfold step_sinks_of_file, sinks_of. apply in_map_iff. exists (KStep, l). split; [reflexivity|].
  apply filter_In. split; [|reflexivity]. apply in_map_iff. exists d. split; [exact H2|].
  apply filter_In. split; [exact Hd|]. rewrite H1. apply key_eqb_refl.
Qed.

Lemma has_dep_file_sink l f s : has_dep (KStep, l) (KFile, f) s = true -> In f (file_sinks_of_step l s).
Proof.
  intros H. apply has_dep_in in H. destruct H as [d [Hd [H1 H2]]].
  unfold file_sinks_of_step, sinks_of. apply in_map_iff. exists (KFile, f). split; [reflexivity|].
  apply filter_In. split; [|reflexivity]. apply in_map_iff. exists d. split; [exact H2|].
  apply filter_In. split; [exact Hd|]. rewrite H1. apply key_eqb_refl.
Qed.

(* (c, l): the attached step c (which has a row) consumes an output of l *)
Definition req_edge (s : st) (c l : str) : Prop :=
  exists f, has_dep (KStep, l) (KFile, f) s = true /\ has_dep (KFile, f) (KStep, c) s = true /\
            attached (KStep, c) s = true /\ need_of c s <> None.

Lemma need_of_some l s : is_some (find_step l s) = true <-> need_of l s <> None.
Proof. unfold need_of. destruct (find_step l s); cbn; split; congruence. Qed.

Lemma in_req_edges s c l : In (c, l) (req_edges s) <-> req_edge s c l.
Proof.
  unfold req_edges, req_edge. rewrite in_flat_map. split.
  - intros [d [Hd Hin]]. destruct (dsrc d) as [ka l'] eqn:Hs, (dsnk d) as [kb f] eqn:Hk.
    destruct ka; try destruct Hin; destruct kb; try destruct Hin.
    apply in_map_iff in Hin. destruct Hin as [c' [Heq Hc']]. injection Heq as -> ->.
    apply filter_In in Hc'. destruct Hc' as [Hc' Hcond]. apply andb_true_iff in Hcond. destruct Hcond as [Hatt Hrow].
    exists f. split; [|split; [|split]].
    + apply has_dep_in. exists d. auto.
    + apply step_sink_has_dep. exact Hc'.
    + exact Hatt.
    + apply need_of_some. exact Hrow.
  - intros [f [H1 [H2 [Hatt Hrow]]]]. apply has_dep_in in H1. destruct H1 as [d [Hd [Hs Hk]]].
    exists d. split; [exact Hd|]. rewrite Hs, Hk. apply in_map_iff. exists c. split; [reflexivity|].
    apply filter_In. split; [apply has_dep_step_sink; exact H2|].
    rewrite Hatt. apply need_of_some in Hrow. rewrite Hrow. reflexivity.
Qed.

Lemma need_eqb_optional n : negb (need_eqb n NOptional) = true <-> n <> NOptional.
Proof. destruct n; cbn; split; intros H; try congruence; try reflexivity; exfalso; apply H; reflexivity. Qed.

Lemma in_need_seeds s l : In l (need_seeds s) <-> exists n, need_of l s = Some n /\ n <> NOptional.
Proof.
  unfold need_seeds, need_of. rewrite filter_In. split.
  - intros [_ H]. destruct (find_step l s) as [r|]; [|discriminate].
    exists (sneed r). split; [reflexivity | apply need_eqb_optional; exact H].
  - intros [n [H Hn]]. destruct (find_step l s) as [r|] eqn:Hf; [|discriminate]. injection H as <-.
    destruct (find_step_in _ _ _ Hf) as [Hin Hl]. split; [|apply need_eqb_optional; exact Hn].
    apply in_map_iff. exists r. auto.
Qed.

Lemma required_spec l s :
  required l s = true <->
  need_of l s <> None /\ exists a, In a (need_seeds s) /\ path (req_edges s) a l.
Proof.
  unfold required, required_set. rewrite andb_true_iff, need_of_some.
  change (mem_str l) with (memb str_eqb l).
  rewrite (closure_spec str_eqb str_eqb_eq (req_edges s) (length (req_edges s)) (need_seeds s) l (Nat.le_refl _)).
  reflexivity.
Qed.

(* `required` only looks at: which nodes are attached, the dependency rows, the declared needs *)
Lemma required_mono s s' :
  (forall l n, need_of l s = Some n -> need_of l s' = Some n) ->
  (forall c l, req_edge s c l -> req_edge s' c l) ->
  forall l, required l s = true -> required l s' = true.
Proof.
  intros Hq He l H. apply required_spec in H. destruct H as [Hrow [a [Ha Hp]]]. apply required_spec. split.
  - destruct (need_of l s) as [n|] eqn:Hn; [|congruence]. rewrite (Hq l n Hn). discriminate.
  - exists a. split.
    + apply in_need_seeds in Ha. destruct Ha as [n [Hn Hne]]. apply in_need_seeds. exists n. split; [apply Hq; exact Hn | exact Hne].
    + apply (path_incl (req_edges s) (req_edges s')); [|exact Hp].
      intros [c l'] Hin. apply in_req_edges. apply He. apply in_req_edges. exact Hin.
Qed.

Lemma req_edge_same s s' :
  nodes s' = nodes s -> deps s' = deps s -> (forall l, need_of l s' = need_of l s) ->
  forall c l, req_edge s c l -> req_edge s' c l.
Proof.
  intros Hn Hd Hq c l [f [H1 [H2 [H3 H4]]]]. exists f.
  rewrite !(has_dep_deps _ _ s s' Hd), (attached_nodes _ s s' Hn), Hq. auto.
Qed.

Lemma required_same s s' :
  nodes s' = nodes s -> deps s' = deps s -> (forall l, need_of l s' = need_of l s) ->
  forall l, required l s' = required l s.
Proof.
  intros Hn Hd Hq l. apply Bool.eq_iff_eq_true. split.
  - apply required_mono; [intros l0 n; rewrite Hq; auto | apply req_edge_same; auto].
  - apply required_mono; [intros l0 n; rewrite Hq; auto | apply req_edge_same; auto].
Qed.

Section ConeInvariant.
  Variable q : st.
  Variable E G : list str.

  Definition R (s : st) : Prop :=
    nodes s = nodes q /\ deps s = deps q /\ length (steps s) = length (steps q) /\
    (forall l, need_of l s = need_of l q) /\
    (forall l, sstate_of l s = sstate_of l q \/ in_cone q E G l) /\
    Estatic E s.

  Lemma R_good s : R s -> good (down q E G) E s.
  Proof. intros [_ [Hd [_ [_ [_ He]]]]]. split; [apply down_closed; exact Hd | exact He]. Qed.

  Lemma R_PS s s' : R s -> PS (down q E G) s s' -> Estatic E s' -> R s'.
  Proof.
    intros [Hn [Hd [Hl [Hq [Hs _]]]]] [Hn' [Hd' [Hl' [Hq' Hs']]]] He'.
    refine (conj _ (conj _ (conj _ (conj _ (conj _ He'))))).
    - congruence.
    - congruence.
    - congruence.
    - intros l. rewrite (Hq' l). apply Hq.
    - intros l. destruct (Hs' l) as [He|[Hc _]]; [rewrite He; apply Hs | right; exact Hc].
  Qed.

  Lemma R_P s s' : R s -> P (down q E G) s s' -> R s'.
  Proof.
    intros HR HP. apply (R_PS s s' HR (proj1 HP)). exact (proj2 (good_P _ E s s' (R_good s HR) HP)).
  Qed.

  (* a single row gets a new state: fine when that step is in the cone *)
  Lemma R_set_sstate s l new d s' :
    R s -> in_cone q E G l -> set_sstate l new d s = Ok s' -> R s'.
  Proof.
    intros [Hn [Hd [Hl [Hq [Hs He]]]]] Hc H.
    destruct (set_sstate_spec _ _ _ _ _ H) as [Hn' [Hf' [Hd' [_ [Hl' [Hq' Hs']]]]]].
    refine (conj _ (conj _ (conj _ (conj _ (conj _ _))))).
    - congruence.
    - congruence.
    - congruence.
    - intros l'. rewrite (Hq' l'). apply Hq.
    - intros l'. destruct (Hs' l') as [He'|[-> _]]; [rewrite He'; apply Hs | right; exact Hc].
    - intros f Hin. rewrite (fstate_of_files f s s' Hf'). apply He. exact Hin.
  Qed.

  Hypothesis Hquiescent : quiescent_success_b q = true.

  (* a step that satisfies the dispatch predicate during the rebuild is in the cone *)
  Lemma guard_in_cone s l : R s -> dispatch_guard l s = true -> in_cone q E G l.
  Proof.
    intros [Hn [Hd [Hl [Hq [Hs _]]]]] Hg. unfold dispatch_guard in Hg.
    destruct (find_step l s) as [r|] eqn:Hf; [|discriminate].
    apply andb_true_iff in Hg. destruct Hg as [Hg _].
    apply andb_true_iff in Hg. destruct Hg as [Hg Hreq].
    apply andb_true_iff in Hg. destruct Hg as [Hg _].
    apply andb_true_iff in Hg. destruct Hg as [Hatt Hpend]. apply sstate_eqb_eq in Hpend.
    assert (Hreq' : required l q = true).
    { rewrite <- (required_same q s Hn Hd Hq l). exact Hreq. }
    specialize (Hq l) as Hql. unfold need_of in Hql. rewrite Hf in Hql.
    destruct (find_step l q) as [rq|] eqn:Hfq; [|discriminate].
    destruct (find_step_in _ _ _ Hfq) as [Hinq Hlq].
    destruct (quiescent_parts q Hquiescent) as [_ [Hsteps _]].
    rewrite (attached_nodes (KStep, l) q s Hn) in Hatt. unfold attached in Hatt. apply negb_true_iff in Hatt.
    rewrite <- Hlq in Hatt, Hreq'.
    destruct (quiescent_row q rq Hsteps Hinq Hatt) as [[_ Hsq]|[Hnr _]]; [|congruence].
    destruct (Hs l) as [He|Hc]; [|exact Hc].
    unfold sstate_of in He. rewrite Hf, Hfq, Hpend, Hsq in He. discriminate.
  Qed.

  Lemma Estatic_static s hs : Estatic E s -> (forall ph, In ph hs -> In (fst ph) E) -> static_sources_b s hs = true.
  Proof.
    intros He Hin. unfold static_sources_b. apply forallb_forall. intros ph Hph.
    destruct (He (fst ph) (Hin ph Hph)) as [->| ->]; reflexivity.
  Qed.
End ConeInvariant.

(* ------------------------------------------------------------------------------------------ *)
(* Cone: successful completion (or skip) of a cone step                                        *)
(* ------------------------------------------------------------------------------------------ *)
Section ConeCompletion.
  Variable D : key -> Prop.
  Variable E : list str.

  Definition plan_ok2 (plan : list planrow) : Prop :=
    forall x, In x plan -> D (KFile, p_path x) /\ ~ In (p_path x) E /\ p_act x = Some ACompleted.

  Lemma plan_fold_ok2 s hs :
    (forall ph, In ph hs -> D (KFile, fst ph)) -> Estatic E s ->
    forall acc plan, plan_ok2 acc ->
    foldM (fun acc ph =>
             match find_file (fst ph) s with
             | None => Internal 118
             | Some r =>
               match transition CSucceeded (fstt r) (is_some (snd ph)) with
               | None => Internal 119
               | Some (ns, act) => Ok (acc ++ [mkP (fst ph) (snd ph) ns act])
               end
             end) hs acc = Ok plan -> plan_ok2 plan.
  Proof.
    intros HD He. induction hs as [|ph hs IH]; intros acc plan Hacc H; cbn [foldM] in H.
    - injection H as <-. exact Hacc.
    - destruct (find_file (fst ph) s) as [r|] eqn:Hf; [|discriminate].
      destruct (transition CSucceeded (fstt r) (is_some (snd ph))) as [[ns act]|] eqn:Htr; [|discriminate].
      cbn [bind] in H.
      assert (HD' : forall p, In p hs -> D (KFile, fst p)) by (intros p Hp; apply HD; right; exact Hp).
      specialize (IH HD'). apply (IH _ plan) in H; [exact H|].
      intros x Hx. apply in_app_or in Hx. destruct Hx as [Hx|[<-|[]]]; [exact (Hacc x Hx)|].
      cbn [p_path p_act]. split; [apply HD; left; reflexivity|]. split.
      + intros Hin. destruct (He (fst ph) Hin) as [Hs|Hs]; unfold fstate_of in Hs; rewrite Hf in Hs;
          injection Hs as Hs; rewrite Hs in Htr; destruct (is_some (snd ph)); discriminate.
      + destruct (fstt r); destruct (is_some (snd ph)); cbn in Htr; try discriminate;
          injection Htr as _ <-; reflexivity.
  Qed.

  Lemma plan_write_ok2 plan :
    plan_ok2 plan ->
    forall s s1, Estatic E s ->
    foldM (fun s x => set_fstate_hash (p_path x) (p_state x)
                        (Some (match p_hash x with Some v => Some v | None => Some 0 end)) s) plan s = Ok s1 ->
    nodes s1 = nodes s /\ steps s1 = steps s /\ deps s1 = deps s /\ Estatic E s1.
  Proof.
    induction plan as [|x plan IH]; intros Hok s s1 HE H; cbn [foldM] in H.
    - injection H as <-. repeat split; try reflexivity. exact HE.
    - destruct (set_fstate_hash (p_path x) (p_state x) _ s) as [s2| |] eqn:H2; cbn [bind] in H; try discriminate.
      destruct (set_fstate_hash_spec _ _ _ _ _ H2) as [Hn [Hst [Hd [_ Hfl]]]].
      assert (HE2 : Estatic E s2).
      { intros f Hin. destruct (Hfl f) as [He|[-> _]].
        - rewrite He. apply HE. exact Hin.
        - exfalso. exact (proj1 (proj2 (Hok x (or_introl eq_refl))) Hin). }
      destruct (IH (fun y Hy => Hok y (or_intror Hy)) s2 s1 HE2 H) as [Hn' [Hst' [Hd' HE']]].
      repeat split; try congruence. exact HE'.
  Qed.

  Lemma with_act_nil plan a :
    plan_ok2 plan -> a <> ACompleted ->
    map p_path (filter (fun x => match p_act x with Some b => action_eqb a b | None => false end) plan) = [].
  Proof.
    intros Hok Ha. rewrite filter_nil; [reflexivity|]. intros x Hx.
    rewrite (proj2 (proj2 (Hok x Hx))). destruct a; try reflexivity. contradiction.
  Qed.

  Lemma succeeded_update_P s hs s' :
    (forall ph, In ph hs -> D (KFile, fst ph)) -> good D E s ->
    update_file_hashes CSucceeded hs s = Ok s' -> PS D s s' /\ Estatic E s'.
  Proof.
    intros HD Hg H. unfold update_file_hashes in H.
    match type of H with (do plan <- ?F; _) = _ => destruct F as [plan| |] eqn:Hplan end;
      cbn [bind] in H; try discriminate.
    assert (Hok : plan_ok2 plan).
    { apply (plan_fold_ok2 s hs HD (proj2 Hg) [] plan); [intros x []|exact Hplan]. }
    match type of H with (do s1 <- ?F; _) = _ => destruct F as [s1| |] eqn:Hw end;
      cbn [bind] in H; try discriminate.
    destruct (plan_write_ok2 plan Hok s s1 (proj2 Hg) Hw) as [Hn [Hs [Hd HE1]]].
    rewrite (with_act_nil plan AUpdated Hok) in H by discriminate.
    rewrite (with_act_nil plan ADeleted Hok) in H by discriminate.
    cbn [foldM bind] in H.
    assert (G1 : good D E s1).
    { split; [|exact HE1]. intros a b Ha Hab. rewrite (has_dep_deps a b s s1 Hd) in Hab.
      exact (proj1 Hg a b Ha Hab). }
    assert (P4 : P D s1 s').
    { apply (fun Hg' HQ => foldM_P D E _ (fun l => D (KFile, l)) _ Hg' HQ s1 s' G1 H).
      - intros l sa sb Hl Hga Hh. exact (mark_consumers_P D E l sa sb Hl Hga Hh).
      - intros l Hl. apply in_map_iff in Hl. destruct Hl as [x [<- Hx]]. apply filter_In in Hx.
        exact (proj1 (Hok x (proj1 Hx))). }
    split; [|exact (proj2 (good_P D E s1 s' G1 P4))].
    destruct P4 as [[Hn2 [Hd2 [Hl2 [Hq2 Hs2]]]] _].
    refine (conj _ (conj _ (conj _ (conj _ _)))).
    - congruence.
    - congruence.
    - rewrite Hl2, Hs. reflexivity.
    - intros l. rewrite (Hq2 l). apply need_of_steps. exact Hs.
    - intros l. destruct (Hs2 l) as [He|Hr]; [left; rewrite He; apply sstate_of_steps; exact Hs | right; exact Hr].
  Qed.
End ConeCompletion.

Lemma file_product_in l p s f :
  In f (file_products_in l p s) ->
  In (KFile, f) (products (KStep, l) s) /\ exists fs, fstate_of f s = Some fs /\ p fs = true.
Proof.
  unfold file_products_in. intros H. apply in_map_iff in H. destruct H as [k [Hk Hin]].
  apply filter_In in Hin. destruct Hin as [Hin Hc]. apply andb_true_iff in Hc. destruct Hc as [Hkind Hp].
  destruct k as [kk kl]. cbn [fst snd] in *. subst kl. destruct kk; try discriminate.
  split; [exact Hin|]. destruct (fstate_of f s) as [fs|]; [|discriminate]. exists fs. split; [reflexivity | exact Hp].
Qed.

Lemma products_nodes k s s' : nodes s' = nodes s -> products k s' = products k s.
Proof. intros H. unfold products. rewrite H. reflexivity. Qed.

Section ConeInvariant2.
  Variable q : st.
  Variable E G : list str.
  Hypothesis Hquiescent : quiescent_success_b q = true.

  Lemma R_same s s' :
    nodes s' = nodes s -> deps s' = deps s -> steps s' = steps s -> files s' = files s ->
    R q E G s -> R q E G s'.
  Proof.
    intros Hn Hd Hs Hf [Hn0 [Hd0 [Hl0 [Hq0 [Hs0 He0]]]]].
    refine (conj _ (conj _ (conj _ (conj _ (conj _ _))))).
    - congruence.
    - congruence.
    - rewrite Hs. exact Hl0.
    - intros l. rewrite (need_of_steps l s s' Hs). apply Hq0.
    - intros l. rewrite (sstate_of_steps l s s' Hs). apply Hs0.
    - intros f Hin. rewrite (fstate_of_files f s s' Hf). apply He0. exact Hin.
  Qed.

  Lemma foldM_R {A} (g : st -> A -> res st) (Q : A -> Prop) (l : list A) :
    (forall a s s', Q a -> R q E G s -> g s a = Ok s' -> R q E G s') ->
    (forall a, In a l -> Q a) ->
    forall s s', R q E G s -> foldM g l s = Ok s' -> R q E G s'.
  Proof.
    intros Hg. induction l as [|a l IH]; intros HQ s s' HR H; cbn [foldM] in H.
    - injection H as <-. exact HR.
    - destruct (g s a) as [s1| |] eqn:Hga; cbn [bind] in H; try discriminate.
      apply (IH (fun b Hb => HQ b (or_intror Hb)) s1 s'); [|exact H].
      exact (Hg a s s1 (HQ a (or_introl eq_refl)) HR Hga).
  Qed.

  (* re-validating an OUTDATED product of a cone step: BUILT again, consumers PENDING *)
  Lemma rebuilt_product_R s f s' :
    down q E G (KFile, f) -> ~ In f E -> R q E G s ->
    (do s1 <- set_fstate f FBuilt s; mark_consumers_pending f s1) = Ok s' -> R q E G s'.
  Proof.
    intros HD HnE HR H. unfold set_fstate in H.
    destruct (set_fstate_hash f FBuilt None s) as [s1| |] eqn:H1; cbn [bind] in H; try discriminate.
    destruct (set_fstate_hash_spec _ _ _ _ _ H1) as [Hn [Hst [Hd [_ Hfl]]]].
    assert (R1 : R q E G s1).
    { destruct HR as [Hn0 [Hd0 [Hl0 [Hq0 [Hs0 He0]]]]].
      refine (conj _ (conj _ (conj _ (conj _ (conj _ _))))).
      - congruence.
      - congruence.
      - rewrite Hst. exact Hl0.
      - intros l. rewrite (need_of_steps l s s1 Hst). apply Hq0.
      - intros l. rewrite (sstate_of_steps l s s1 Hst). apply Hs0.
      - intros f' Hin. destruct (Hfl f') as [He|[-> _]]; [rewrite He; apply He0; exact Hin | contradiction]. }
    exact (R_P q E G s1 s' R1 (mark_consumers_P _ E f s1 s' HD (R_good q E G s1 R1) H)).
  Qed.

  Lemma mark_completed_ok_eq l s :
    mark_completed l true false s =
    if negb (is_some (find_step l s)) then Internal 120 else
    (do s1 <- set_sstate l SSucceeded false s;
     do s2 <- foldM (fun s f => do s' <- set_fstate f FBuilt s; mark_consumers_pending f s')
                    (file_products_in l is_outdated s1) s1;
     Ok (store_hash l s2)).
  Proof. reflexivity. Qed.

  Lemma mark_completed_ok_R s l s' :
    in_cone q E G l -> R q E G s -> mark_completed l true false s = Ok s' -> R q E G s'.
  Proof.
    intros Hc HR H. rewrite mark_completed_ok_eq in H.
    destruct (negb (is_some (find_step l s))); [discriminate|].
    destruct (set_sstate l SSucceeded false s) as [s1| |] eqn:H1; cbn [bind] in H; try discriminate.
    assert (R1 : R q E G s1) by exact (R_set_sstate q E G s l _ _ s1 HR Hc H1).
    match type of H with (do s2 <- ?F; _) = _ => destruct F as [s2| |] eqn:H2 end;
      cbn [bind] in H; try discriminate.
    injection H as <-.
    assert (R2 : R q E G s2).
    { apply (fun Hg HQ => foldM_R _ (fun f => down q E G (KFile, f) /\ ~ In f E) _ Hg HQ s1 s2 R1 H2).
      - intros f sa sb [HD HnE] Ra Hstep. exact (rebuilt_product_R sa f sb HD HnE Ra Hstep).
      - intros f Hin. destruct (file_product_in l is_outdated s1 f Hin) as [Hprod [fs [Hfs Hout]]].
        split.
        + apply (down_created q E G l (KFile, f) Hc).
          rewrite <- (products_nodes (KStep, l) q s1 (proj1 R1)). exact Hprod.
        + intros HinE. destruct R1 as [_ [_ [_ [_ [_ He1]]]]].
          destruct (He1 f HinE) as [Hs|Hs]; rewrite Hs in Hfs; injection Hfs as <-; discriminate. }
    unfold store_hash. destruct (has_hash l s2); [exact R2|].
    apply (R_same s2); try reflexivity. exact R2.
  Qed.

  Lemma cone_op_R s o : R q E G s -> cone_op q E G s o -> R q E G (apply_op s o).
  Proof.
    intros HR Hop. unfold apply_op.
    destruct (step_op o s) as [s'| |] eqn:Hstep; try exact HR.
    destruct Hop as [hs Hin | l Hc | l Hg | l Hc | l hs Hc Hout]; cbn [step_op] in Hstep.
    - destruct (external_update_P (down q E G) E (fun f Hf => down_edited q E G f Hf) s hs s' Hin
                  (Estatic_static E s hs (proj2 (R_good q E G s HR)) Hin) (R_good q E G s HR) Hstep) as [HPS [HE _]].
      exact (R_PS q E G s s' HR HPS HE).
    - exact (R_P q E G s s' HR (mark_step_pending_P _ E l s s' Hc (R_good q E G s HR) Hstep)).
    - exact (R_set_sstate q E G s l _ _ s' HR (guard_in_cone q E G Hquiescent s l HR Hg) Hstep).
    - exact (R_set_sstate q E G s l _ _ s' HR Hc Hstep).
    - assert (H0 : update_file_hashes CFailed [] s = Ok s) by reflexivity.
      rewrite H0 in Hstep. cbn [bind] in Hstep.
      destruct (update_file_hashes CSucceeded hs s) as [s1| |] eqn:H1; cbn [bind] in Hstep; try discriminate.
      assert (HD : forall ph, In ph hs -> down q E G (KFile, fst ph)).
      { intros ph Hph. exact (down_dep q E G _ _ Hc (Hout ph Hph)). }
      destruct (succeeded_update_P (down q E G) E s hs s1 HD (R_good q E G s HR) H1) as [HPS HE].
      exact (mark_completed_ok_R s1 l s' Hc (R_PS q E G s s1 HR HPS HE) Hstep).
  Qed.

  Hypothesis HEstatic : Estatic E q.

  Lemma R_init : R q E G q.
  Proof. repeat split; try reflexivity; try (intros; left; reflexivity). exact HEstatic. Qed.

  Theorem cone_invariant_partial (ops : list op) (s : st) :
    R q E G s -> cone_ops q E G s ops -> R q E G (run_ops ops s).
  Proof.
    revert s. induction ops as [|o ops IH]; intros s HR Hops; cbn [run_ops fold_left].
    - exact HR.
    - destruct Hops as [Hop Hrest]. apply IH; [exact (cone_op_R s o HR Hop) | exact Hrest].
  Qed.

  (* every step that satisfies the dispatch predicate at any point of such a rebuild, hence every
     step for which a command is executed, lies in the cone of the edited files *)
  Theorem cone_partial (ops : list op) :
    cone_ops q E G q ops ->
    (forall l, dispatch_guard l (run_ops ops q) = true -> in_cone q E G l) /\
    (forall l, In l (executed ops q) -> in_cone q E G l).
  Proof.
    intros Hops. split.
    - intros l Hg. exact (guard_in_cone q E G Hquiescent _ l (cone_invariant_partial ops q R_init Hops) Hg).
    - assert (Hgen : forall ops s, R q E G s -> cone_ops q E G s ops ->
                                   forall l, In l (executed ops s) -> in_cone q E G l).
      { clear ops Hops. induction ops as [|o ops IH]; intros s HR Hops l Hin; cbn [executed] in Hin; [destruct Hin|].
        destruct Hops as [Hop Hrest]. apply in_app_or in Hin. destruct Hin as [Hin|Hin].
        - destruct o; try destruct Hin.
          destruct (has_hash label s); [destruct Hin|]. destruct Hin as [<-|[]].
          inversion Hop as [| |l' Hg| |]; subst. exact (guard_in_cone q E G Hquiescent s _ HR Hg).
        - exact (IH (apply_op s o) (cone_op_R s o HR Hop) Hrest l Hin). }
      exact (Hgen ops q R_init Hops).
  Qed.
End ConeInvariant2.

(* the invariant spelled out without the auxiliary definitions *)
Corollary cone_invariant_explicit (q : st) (E G : list str) (ops : list op) :
  quiescent_success_b q = true ->
  (forall f, In f E -> fstate_of f q = Some FConfirmed \/ fstate_of f q = Some FMissing) ->
  cone_ops q E G q ops ->
  let s := run_ops ops q in
  nodes s = nodes q /\ deps s = deps q /\
  (forall l, sstate_of l s = sstate_of l q \/ in_cone q E G l) /\
  (forall f, In f E -> fstate_of f s = Some FConfirmed \/ fstate_of f s = Some FMissing).
Proof.
  intros Hq HE Hops.
  destruct (cone_invariant_partial q E G Hq ops q (R_init q E G HE) Hops) as [Hn [Hd [_ [_ [Hs He]]]]].
  repeat split; assumption.
Qed.

(* ------------------------------------------------------------------------------------------ *)
(* Tracked environment variables                                                               *)
(* ------------------------------------------------------------------------------------------ *)
Lemma in_nodup_strs x l : In x l -> In x (nodup_strs l).
Proof.
  induction l as [|y l IH]; intros H; cbn [nodup_strs]; [destruct H|].
  destruct H as [->|H]; [left; reflexivity|].
  destruct (str_eqb x y) eqn:He.
  - left. symmetry. apply str_eqb_eq. exact He.
  - right. apply filter_In. split; [apply IH; exact H | rewrite He; reflexivity].
Qed.

Lemma env_unchanged_steps vals cur s : env_unchanged_b vals cur s = true -> rescan_env_steps vals cur s = [].
Proof.
  intros H. unfold rescan_env_steps. rewrite filter_nil; [reflexivity|].
  intros r Hr. unfold env_unchanged_b in H. rewrite forallb_forall in H. apply negb_true_iff. apply H. exact Hr.
Qed.

Lemma env_unchanged_store b vals cur s : env_unchanged_b vals cur s = true -> rescan_env_store b vals cur s = vals.
Proof.
  intros H. unfold rescan_env_store. destruct b; [|reflexivity].
  unfold env_unchanged_b in H. rewrite forallb_forall in H.
  induction vals as [|r vals IH]; cbn [map]; [reflexivity|].
  rewrite (proj1 (negb_true_iff _) (H r (or_introl eq_refl))). f_equal.
  apply IH. intros x Hx. apply H. right. exact Hx.
Qed.

(* restart with an unchanged environment, values included: no step is marked, the recorded values
   stay, and restart_noop applies to the whole startup sequence *)
Theorem restart_noop_env (s : st) (vals : list envval) (cur : str -> option N) (b : bool)
        (rehash : list (str * option N)) :
  quiescent_success_b s = true -> unchanged_b s rehash = true -> env_unchanged_b vals cur s = true ->
  run_ops (startup_ops_env s vals cur rehash) s = s /\ rescan_env_store b vals cur s = vals /\
  (forall l, dispatch_guard l s = false).
Proof.
  intros Hq Hun He. unfold startup_ops_env. rewrite (env_unchanged_steps vals cur s He).
  destruct (restart_noop s rehash Hq Hun) as [Hrun [Hg _]].
  split; [exact Hrun|]. split; [apply env_unchanged_store; exact He | exact Hg].
Qed.

(* a changed variable of an attached step is noticed *)
Theorem env_change_detected (s : st) (vals : list envval) (cur : str -> option N) (r : envval) :
  In r vals -> attached (KStep, ev_step r) s = true -> cur (ev_name r) <> ev_value r ->
  In (ev_step r) (rescan_env_steps vals cur s).
Proof.
  intros Hin Hatt Hne. unfold rescan_env_steps. apply in_nodup_strs. apply in_map. apply filter_In.
  split; [exact Hin|]. unfold env_row_changed. rewrite Hatt. cbn [andb]. apply negb_true_iff.
  destruct (on_eqb (cur (ev_name r)) (ev_value r)) eqn:He; [|reflexivity].
  exfalso. apply Hne. destruct (cur (ev_name r)) as [x|], (ev_value r) as [y|]; cbn in He; try discriminate; [|reflexivity].
  apply N.eqb_eq in He. subst. reflexivity.
Qed.

(* A -> B -> A: when the value that was seen is stored, the return to A is noticed too *)
Theorem env_aba_detected (s s' : st) (vals : list envval) (curB curA : str -> option N)
        (l n : str) (a : option N) :
  In (l, n, a) vals ->
  attached (KStep, l) s = true -> attached (KStep, l) s' = true ->
  curB n <> a -> curA n = a ->
  In l (rescan_env_steps vals curB s) /\
  In l (rescan_env_steps (rescan_env_store true vals curB s) curA s').
Proof.
  intros Hin Hatt Hatt' HB HA. split.
  - exact (env_change_detected s vals curB (l, n, a) Hin Hatt HB).
  - assert (Hrow : In (l, n, curB n) (rescan_env_store true vals curB s)).
    { unfold rescan_env_store. apply in_map_iff. exists (l, n, a). split; [|exact Hin].
      assert (Hc : env_row_changed curB s (l, n, a) = true).
      { unfold env_row_changed. cbn [ev_step ev_name ev_value fst snd]. rewrite Hatt. cbn [andb].
        apply negb_true_iff. destruct (on_eqb (curB n) a) eqn:He; [|reflexivity].
        exfalso. apply HB. destruct (curB n) as [x|], a as [y|]; cbn in He; try discriminate; [|reflexivity].
        apply N.eqb_eq in He. subst. reflexivity. }
      rewrite Hc. reflexivity. }
    apply (env_change_detected s' _ curA (l, n, curB n) Hrow Hatt').
    cbn [ev_name ev_value fst snd]. rewrite HA. intros Heq. apply HB. symmetry. exact Heq.
Qed.

(* validate_dynamic_job with unchanged inputs (84081f2): PENDING, deferred iff a dynamic input is still
   unusable in the recording transaction; the older shapes (flag True / no flag) generate mode 1 / 0 *)
Lemma validate_rule_tie :
  gen_validate_flag_mode = 2 /\
  (forall l s, step_op2 (OpValidatePending l) s =
               set_sstate l SPending (GraphExt.has_unusable_dynamic_input l s) s).
Proof. split; [reflexivity|]. intros l s. reflexivity. Qed.

(* Executor.try_skip_job, a check that is overtaken (an input record was replaced while the step was CHECKING):
   the step goes back to PENDING and KEEPS its stored hash (generated outcome 1), so the next dispatch is a
   check again (CHECKING, no command).  The other translated outcome, _reset_step_to_pending (2), drops the hash:
   the next dispatch is RUNNING, a command, for a step none of whose inputs changed. *)
Lemma has_hash_set_sstate l l' x d s s' : set_sstate l' x d s = Ok s' -> has_hash l s' = has_hash l s.
Proof.
  unfold set_sstate. destruct (find_step l' s); [|intros H; injection H as <-; reflexivity].
  destruct (d && negb (sstate_eqb x SPending)); [discriminate|]. intros H. injection H as <-. reflexivity.
Qed.

Lemma has_hash_delete_hash l s : has_hash l (delete_hash l s) = false.
Proof.
  unfold has_hash, delete_hash. cbn. induction (shash s) as [|x xs IH]; [reflexivity|]. cbn.
  destruct (str_eqb x l) eqn:E; cbn; [exact IH|].
  destruct (str_eqb l x) eqn:E2; [|exact IH]. apply str_eqb_eq in E2. subst x. rewrite str_eqb_refl in E. discriminate.
Qed.

Lemma skip_overtaken_tie :
  gen_skip_overtaken_outcome = 1 /\
  (forall l s s', GraphExt.skip_overtaken l s = Ok s' -> has_hash l s' = has_hash l s) /\
  (forall l s s', step_op (OpResetToPending l) s = Ok s' -> has_hash l s' = false) /\
  (forall l s, step_op (OpDispatch l) s = set_sstate l (if has_hash l s then SChecking else SRunning) false s).
Proof.
  split; [reflexivity|]. split; [|split].
  - intros l s s' H. unfold GraphExt.skip_overtaken in H. exact (has_hash_set_sstate l l SPending false s s' H).
  - intros l s s' H. cbn [step_op] in H. destruct (reset_for_rerun l s) as [s1| |]; cbn [bind] in H; try discriminate.
    rewrite (has_hash_set_sstate l l SPending false _ s' H). apply has_hash_delete_hash.
  - intros l s. reflexivity.
Qed.

Lemma digest_label_tie : gen_digest_label_source_check = 1 /\ gen_digest_label_source_stored = 1.
Proof. split; reflexivity. Qed.

(* startup.rescan_env_vars, translated statement by statement (the loop is interpreted for a row that differs / does
   not differ): a row of an attached step counts as changed exactly when the current value differs *)
Lemma env_rescan_rule_tie :
  gen_env_rescan_marks = (true, false) /\
  (forall cur s r, attached (KStep, ev_step r) s = true ->
     env_row_changed cur s r =
     if on_eqb (cur (ev_name r)) (ev_value r) then snd gen_env_rescan_marks else fst gen_env_rescan_marks).
Proof.
  split; [reflexivity|]. intros cur s r Ha. unfold env_row_changed. rewrite Ha. cbn [andb].
  destruct (on_eqb (cur (ev_name r)) (ev_value r)); reflexivity.
Qed.

(* Workflow.mark_step_pending and Executor._reset_step_to_pending are translated statement by statement
   (gen_noop.py interprets the functions; a behaviour-preserving rewrite gives the same tables): the effects per
   old state / the effects of the one transaction are those of the model. *)
Definition msp_effects (old : sstate) : list N :=
  match old with
  | SRunning | SChecking => []
  | SPending => [1]
  | SSucceeded | SFailed => [1; 2]
  end.

Lemma mark_step_pending_tie :
  gen_mark_step_pending_table =
  map (fun x => (sstate_code x, msp_effects x)) [SPending; SRunning; SSucceeded; SFailed; SChecking] /\
  (forall fuel l s old, sstate_of l s = Some old ->
     mark_step_pending_f (S fuel) l s =
     match msp_effects old with
     | [] => Ok s
     | [_] => set_sstate l SPending false s
     | _ => do s1 <- set_sstate l SPending false s;
            foldM (fun s f => match fstate_of f s with
                              | Some FBuilt => mark_file_outdated_f fuel f s
                              | _ => Ok s end) (file_sinks_of_step l s1) s1
     end).
Proof.
  split; [reflexivity|]. intros fuel l s old H. cbn [mark_step_pending_f]. rewrite H.
  destruct old; cbn [msp_effects]; try reflexivity.
  destruct (set_sstate l SPending false s); reflexivity.
Qed.

Lemma reset_to_pending_tie :
  gen_reset_to_pending_effects = [1; 2; 3] /\
  (forall l s, step_op (OpResetToPending l) s =
               (do s1 <- reset_for_rerun l s; set_sstate l SPending false (delete_hash l s1))).
Proof. split; [reflexivity|]. intros l s. reflexivity. Qed.

(* After a restart every tracked variable of every attached step has its current value recorded:
   rescan_env_vars writes back EVERY row that it found changed (several variables of one step
   included), and an unchanged row of an attached step already holds the current value. *)
Lemma on_eqb_eq a b : on_eqb a b = true -> a = b.
Proof.
  destruct a as [x|], b as [y|]; cbn; intros H; try discriminate; [|reflexivity].
  apply N.eqb_eq in H. subst. reflexivity.
Qed.

Theorem env_store_complete (s : st) (vals : list envval) (cur : str -> option N) (r' : envval) :
  In r' (rescan_env_store true vals cur s) -> attached (KStep, ev_step r') s = true ->
  ev_value r' = cur (ev_name r').
Proof.
  unfold rescan_env_store. intros Hin Hatt. apply in_map_iff in Hin. destruct Hin as [r [Hr Hin]].
  destruct (env_row_changed cur s r) eqn:Hc.
  - subst r'. reflexivity.
  - subst r'. unfold env_row_changed in Hc. rewrite Hatt in Hc. cbn [andb] in Hc.
    apply negb_false_iff in Hc. symmetry. apply on_eqb_eq. exact Hc.
Qed.

(* the rows, their steps and their variable names are kept; exactly the steps with a changed row are rerun *)
Theorem env_store_shape (s : st) (vals : list envval) (cur : str -> option N) :
  map ev_step (rescan_env_store true vals cur s) = map ev_step vals /\
  map ev_name (rescan_env_store true vals cur s) = map ev_name vals /\
  (forall l, In l (rescan_env_steps vals cur s) <->
             exists r, In r vals /\ ev_step r = l /\ env_row_changed cur s r = true).
Proof.
  unfold rescan_env_store. rewrite !map_map. split; [|split].
  - apply map_ext. intros r. destruct (env_row_changed cur s r); reflexivity.
  - apply map_ext. intros r. destruct (env_row_changed cur s r); reflexivity.
  - intros l. unfold rescan_env_steps. split.
    + intros H. assert (Hin : In l (map ev_step (filter (env_row_changed cur s) vals))).
      { clear - H. revert H. generalize (map ev_step (filter (env_row_changed cur s) vals)). intros xs.
        induction xs as [|x xs IH]; cbn [nodup_strs]; intros H; [exact H|].
        destruct H as [<-|H]; [left; reflexivity|]. apply filter_In in H. right. apply IH. tauto. }
      apply in_map_iff in Hin. destruct Hin as [r [Hl Hr]]. apply filter_In in Hr. exists r. tauto.
    + intros [r [Hin [Hl Hc]]]. apply in_nodup_strs. rewrite <- Hl. apply in_map. apply filter_In. auto.
Qed.

Theorem env_store_complete_all (s : st) (vals : list envval) (cur : str -> option N) :
  (forall r', In r' (rescan_env_store true vals cur s) -> attached (KStep, ev_step r') s = true ->
              ev_value r' = cur (ev_name r')) /\
  map ev_step (rescan_env_store true vals cur s) = map ev_step vals /\
  map ev_name (rescan_env_store true vals cur s) = map ev_name vals /\
  (forall l, In l (rescan_env_steps vals cur s) <->
             exists r, In r vals /\ ev_step r = l /\ env_row_changed cur s r = true).
Proof. split; [intros r'; apply env_store_complete | apply env_store_shape]. Qed.

Theorem env_second_start_quiet (s s' : st) (vals : list envval) (cur : str -> option N) :
  (forall l, attached (KStep, l) s' = true -> attached (KStep, l) s = true) ->
  rescan_env_steps (rescan_env_store true vals cur s) cur s' = [].
Proof.
  intros Hatt. apply env_unchanged_steps. unfold env_unchanged_b. apply forallb_forall.
  intros r' Hin. apply negb_true_iff. unfold env_row_changed.
  destruct (attached (KStep, ev_step r') s') eqn:Ha; [|reflexivity]. cbn [andb]. apply negb_false_iff.
  rewrite (env_store_complete s vals cur r' Hin (Hatt _ Ha)). apply on_eqb_refl.
Qed.

(* the skip / validate check, the stored hash and the command read the tracked variables from the same
   mapping: with an unchanged environment the check recomputes the recorded ingredients *)
Theorem digest_env_consistent (os_env infra : str -> option N) (names : list str) :
  digest_env gen_digest_env_source_check os_env infra names =
  digest_env gen_digest_env_source_stored os_env infra names /\
  digest_env gen_digest_env_source_stored os_env infra names =
  digest_env gen_command_env_source os_env infra names.
Proof. split; reflexivity. Qed.

Lemma env_rule_tie : gen_env_rescan_stores_seen_value = true /\
                     existsb (N.eqb (fstate_code FUnconfirmed)) gen_confirmation_kept_states
                     = gen_drops_stale_confirmation.
Proof. split; reflexivity. Qed.
