(* C02: the cycle checks of supply_files / add_output_edge (would_cycle = RECURSE_SINKS) cannot tell
   two equivalent states apart: by lib/Closure.closure_spec the fuel S (length deps) suffices, so
   membership in rec_sinks is reachability over the SET of dependency edges, which st_equiv
   preserves.  This is the closure argument that congruence of define_step / amend_step needs. *)
From Coq Require Import List NArith Bool Lia.
From SV Require Import lib.Bytes lib.Closure model.Graph model.GraphDump model.GraphInv model.Commute
                       proofs.CommuteProofs.
Import ListNotations.
Open Scope N_scope.

Lemma dep_edge_find a b s : In (a, b) (dep_edges s) <-> find_dep a b s <> None.
Proof.
  unfold dep_edges, find_dep. split.
  - intros H. apply in_map_iff in H as [d [E Hd]]. inversion E; subst.
    destruct (find (fun d0 => key_eqb (dsrc d0) (dsrc d) && key_eqb (dsnk d0) (dsnk d)) (deps s)) eqn:F;
      [discriminate|].
    pose proof (find_none _ _ F d Hd) as N. cbn in N. rewrite !key_eqb_refl in N. discriminate.
  - destruct (find (fun d => key_eqb (dsrc d) a && key_eqb (dsnk d) b) (deps s)) as [d|] eqn:F;
      [|intros H; contradiction H; reflexivity].
    intros _. apply find_some in F as [Hd E]. apply andb_true_iff in E as [E1 E2].
    apply key_eqb_eq in E1, E2. subst. apply in_map_iff. exists d. split; [reflexivity | exact Hd].
Qed.

Lemma dep_edges_incl s s' : st_equiv s s' -> incl (dep_edges s) (dep_edges s').
Proof.
  intros E [a b] H. apply dep_edge_find. rewrite <- (eq_dep s s' E). apply dep_edge_find. exact H.
Qed.

Lemma rec_sinks_spec k x s :
  mem_key x (rec_sinks k s) = true <-> path (dep_edges s) k x.
Proof.
  unfold rec_sinks, rec_sinks_from, mem_key.
  change (existsb (key_eqb x) ?l) with (memb key_eqb x l).
  rewrite (closure_spec key_eqb key_eqb_eq (dep_edges s) (S (length (deps s))) [k] x).
  - split; [intros [a [[<-|[]] P]]; exact P | intros P; exists k; split; [left; reflexivity | exact P]].
  - unfold dep_edges. rewrite map_length. lia.
Qed.

(* the model of RECURSE_SINKS is reachability; it only depends on the set of edges *)
Theorem rec_sinks_equiv k x s s' :
  st_equiv s s' -> mem_key x (rec_sinks k s) = mem_key x (rec_sinks k s').
Proof.
  intros E. apply Bool.eq_iff_eq_true. rewrite !rec_sinks_spec. split; apply path_incl.
  - apply dep_edges_incl. exact E.
  - apply dep_edges_incl. apply st_equiv_sym. exact E.
Qed.

Theorem would_cycle_equiv sink srcs s s' :
  st_equiv s s' -> would_cycle sink srcs s = would_cycle sink srcs s'.
Proof.
  intros E. unfold would_cycle. apply existsb_ext_in. intros x _. apply rec_sinks_equiv. exact E.
Qed.

(* and the check is exactly "a source is reachable from the sink" *)
Theorem would_cycle_spec sink srcs s :
  would_cycle sink srcs s = true <-> exists x, In x srcs /\ path (dep_edges s) sink x.
Proof.
  unfold would_cycle. rewrite existsb_exists. split; intros [x [Hx H]]; exists x; (split; [exact Hx|]);
    apply rec_sinks_spec; exact H.
Qed.
