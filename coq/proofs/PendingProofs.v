(* Proofs for C19 (exit status and pending summary). *)
From Coq Require Import List Arith NArith Bool Lia.
From SV Require Import lib.Bytes lib.SqlExpr model.PendingTypes gen.GenPending model.Pending proofs.PendingGenSpec.
Import ListNotations.
Open Scope N_scope.

(* ------------------------------------------------------------------------------------------ *)
(* (a) Exit status                                                                             *)
(* ------------------------------------------------------------------------------------------ *)

Lemma ltb0_false n : (0 <? n) = false <-> n = 0.
Proof. rewrite N.ltb_ge. lia. Qed.
Lemma ltb0_true n : (0 <? n) = true <-> 0 < n.
Proof. apply N.ltb_lt. Qed.
Lemma eqb0 n : (n =? 0) = negb (0 <? n).
Proof.
  destruct (0 <? n) eqn:H.
  - apply ltb0_true in H. apply N.eqb_neq. lia.
  - apply ltb0_false in H. subst. reflexivity.
Qed.

(* The hand-written guard chain equals the one generated from finalize.py. *)
Lemma report_unbuilt_matches_generated : forall i, report_unbuilt i = report_unbuilt_gen i.
Proof.
  intros [nf dr np mt md gw ge].
  unfold report_unbuilt, report_unbuilt_gen, gen_report_unbuilt, gen_report_pending_steps,
    gen_report_missing_targets, gen_report_glob_violations, report_pending_steps,
    report_missing_targets, report_glob_violations.
  cbn [ru_nfailed ru_draining ru_npending ru_miss_targets ru_miss_dirs ru_glob_warn ru_glob_err].
  rewrite (eqb0 np).
  destruct (0 <? nf), dr, (0 <? np), (0 <? mt), (0 <? md), (0 <? gw), (0 <? ge); reflexivity.
Qed.

(* What report_unbuilt looks at, as booleans. *)
Definition glob_check_reached (i : ru_in) : bool :=
  negb (0 <? ru_nfailed i) && negb (ru_draining i) && negb (0 <? ru_npending i)
  && negb (0 <? ru_miss_targets i) && negb (0 <? ru_miss_dirs i).

Ltac ru_cases i :=
  destruct i as [nf dr np mt md gw ge];
  unfold serve_rc, report_unbuilt, report_pending_steps, report_missing_targets,
    report_glob_violations, glob_check_reached, has_bit;
  cbn [ru_nfailed ru_draining ru_npending ru_miss_targets ru_miss_dirs ru_glob_warn ru_glob_err];
  rewrite ?(eqb0 np).

(* FAILED bit: an attached FAILED step, a glob match that a step builds, or an invalid target. *)
Lemma failed_bit_exact : forall inv i,
  has_bit (serve_rc inv i) rc_FAILED = inv || (0 <? ru_nfailed i) || (0 <? ru_glob_err i).
Proof.
  intros inv i. ru_cases i.
  destruct inv, (0 <? nf), dr, (0 <? np), (0 <? mt), (0 <? md), (0 <? gw), (0 <? ge); reflexivity.
Qed.

Lemma pending_bit_exact : forall i,
  has_bit (report_unbuilt i) rc_PENDING = negb (ru_draining i) && (0 <? ru_npending i).
Proof.
  intros i. ru_cases i.
  destruct (0 <? nf), dr, (0 <? np), (0 <? mt), (0 <? md), (0 <? gw), (0 <? ge); reflexivity.
Qed.

Lemma drained_bit_exact : forall i, has_bit (report_unbuilt i) rc_DRAINED = ru_draining i.
Proof.
  intros i. ru_cases i.
  destruct (0 <? nf), dr, (0 <? np), (0 <? mt), (0 <? md), (0 <? gw), (0 <? ge); reflexivity.
Qed.

Lemma warning_bit_exact : forall i,
  has_bit (report_unbuilt i) rc_WARNING =
  negb (ru_draining i)
  && ((0 <? ru_miss_targets i) || (0 <? ru_miss_dirs i) || (glob_check_reached i && (0 <? ru_glob_warn i))).
Proof.
  intros i. ru_cases i.
  destruct (0 <? nf), dr, (0 <? np), (0 <? mt), (0 <? md), (0 <? gw), (0 <? ge); reflexivity.
Qed.

Definition nothing_wrong (i : ru_in) : Prop :=
  ru_nfailed i = 0 /\ ru_draining i = false /\ ru_npending i = 0 /\ ru_miss_targets i = 0 /\
  ru_miss_dirs i = 0 /\ ru_glob_warn i = 0 /\ ru_glob_err i = 0.

Lemma eq_true_is b : b = true <-> Is_true b.
Proof. destruct b; cbn; intuition discriminate. Qed.
Lemma eq_false_is b : b = false <-> Is_true (negb b).
Proof. destruct b; cbn; intuition discriminate. Qed.

Lemma zero_b : forall inv i,
  (serve_rc inv i =? 0) =
  negb inv && negb (0 <? ru_nfailed i) && negb (ru_draining i) && negb (0 <? ru_npending i)
  && negb (0 <? ru_miss_targets i) && negb (0 <? ru_miss_dirs i) && negb (0 <? ru_glob_warn i)
  && negb (0 <? ru_glob_err i).
Proof.
  intros inv i. ru_cases i.
  destruct inv, (0 <? nf), dr, (0 <? np), (0 <? mt), (0 <? md), (0 <? gw), (0 <? ge); reflexivity.
Qed.

Lemma zero_iff_nothing_wrong : forall inv i,
  serve_rc inv i = 0 <-> inv = false /\ nothing_wrong i.
Proof.
  intros inv i. rewrite <- N.eqb_eq, zero_b. unfold nothing_wrong.
  rewrite <- !ltb0_false. rewrite !andb_true_iff, !negb_true_iff. tauto.
Qed.

(* Only the four build bits ever leave report_unbuilt / serve. *)
Lemma no_foreign_bits : forall inv i,
  has_bit (serve_rc inv i) rc_INTERNAL = false /\ has_bit (serve_rc inv i) rc_INTERRUPTED = false.
Proof.
  intros inv i. ru_cases i.
  destruct inv, (0 <? nf), dr, (0 <? np), (0 <? mt), (0 <? md), (0 <? gw), (0 <? ge); split; reflexivity.
Qed.

(* The TUI adds INTERRUPTED / INTERNAL and leaves the build bits alone. *)
Lemma tui_bits_b : forall inv i sig logp,
  let rc := serve_rc inv i in
  has_bit (tui_exit false rc sig logp) rc_FAILED = has_bit rc rc_FAILED /\
  has_bit (tui_exit false rc sig logp) rc_PENDING = has_bit rc rc_PENDING /\
  (tui_exit false rc sig logp =? 0) = (rc =? 0) && negb sig && negb logp.
Proof.
  intros inv i sig logp. unfold tui_exit. ru_cases i.
  destruct inv, sig, logp, (0 <? nf), dr, (0 <? np), (0 <? mt), (0 <? md), (0 <? gw), (0 <? ge);
    repeat split; reflexivity.
Qed.

Lemma tui_keeps_build_bits : forall inv i sig logp,
  let rc := serve_rc inv i in
  has_bit (tui_exit false rc sig logp) rc_FAILED = has_bit rc rc_FAILED /\
  has_bit (tui_exit false rc sig logp) rc_PENDING = has_bit rc rc_PENDING /\
  (tui_exit false rc sig logp = 0 <-> rc = 0 /\ sig = false /\ logp = false).
Proof.
  intros inv i sig logp rc. destruct (tui_bits_b inv i sig logp) as [H1 [H2 H3]].
  split; [exact H1|]. split; [exact H2|]. fold rc in H3.
  rewrite <- !N.eqb_eq, H3, !andb_true_iff, !negb_true_iff. tauto.
Qed.

(* The first sentence of the property, read literally on the model. *)
Definition exit_status_as_stated (inv : bool) (i : ru_in) : Prop :=
  let rc := serve_rc inv i in
  (has_bit rc rc_FAILED = true <-> (0 < ru_nfailed i \/ 0 < ru_glob_err i \/ inv = true)) /\
  (inv = false ->
     (has_bit rc rc_PENDING = true <-> (ru_draining i = false /\ 0 < ru_npending i))) /\
  (rc = 0 -> inv = false /\ nothing_wrong i).

Lemma pending_clause_b : forall inv d p : bool,
  inv = false -> ((negb inv && (negb d && p)) = true <-> d = false /\ p = true).
Proof. intros inv d p ->. destruct d, p; cbn; intuition congruence. Qed.

(* The first sentence holds for every build. *)
Lemma exit_status_full : forall inv i, exit_status_as_stated inv i.
Proof.
  intros inv i. unfold exit_status_as_stated. cbv zeta.
  rewrite (zero_iff_nothing_wrong inv i). rewrite failed_bit_exact.
  assert (Hp : has_bit (serve_rc inv i) rc_PENDING
               = negb inv && (negb (ru_draining i) && (0 <? ru_npending i))).
  { destruct inv; [reflexivity|]. apply pending_bit_exact. }
  rewrite Hp. clear Hp. rewrite <- !ltb0_true.
  split; [|split; [apply pending_clause_b|tauto]].
  rewrite !orb_true_iff. tauto.
Qed.

(* The pre-fix guard chain (D7) does not satisfy it: a glob error next to a pending step, a missing
   target or a drain leaves the FAILED bit clear. *)
Lemma prefix_variant_refuted :
  (exists i, 0 < ru_glob_err i /\ has_bit (report_unbuilt_prefix i) rc_FAILED = false
             /\ report_unbuilt_prefix i = rc_PENDING /\ has_bit (report_unbuilt i) rc_FAILED = true) /\
  (exists i, 0 < ru_glob_err i /\ report_unbuilt_prefix i = rc_WARNING /\ has_bit (report_unbuilt i) rc_FAILED = true) /\
  (exists i, 0 < ru_glob_err i /\ report_unbuilt_prefix i = rc_DRAINED /\ has_bit (report_unbuilt i) rc_FAILED = true).
Proof.
  split; [|split].
  - exists (mk_ru 0 false 1 0 0 0 1). repeat split; reflexivity.
  - exists (mk_ru 0 false 0 1 0 0 1). repeat split; reflexivity.
  - exists (mk_ru 0 true 0 0 0 0 1). repeat split; reflexivity.
Qed.

(* The two chains agree whenever no glob match is a built file and the pre-fix code was zero or
   there is no glob warning either, i.e. the fix changes nothing else. *)
Lemma prefix_differs_only_on_glob_errors : forall i,
  ru_glob_err i = 0 -> report_unbuilt i = report_unbuilt_prefix i.
Proof.
  intros i He. apply ltb0_false in He. revert He.
  destruct i as [nf dr np mt md gw ge].
  unfold report_unbuilt, report_unbuilt_prefix, report_pending_steps, report_missing_targets,
    report_glob_violations.
  cbn [ru_nfailed ru_draining ru_npending ru_miss_targets ru_miss_dirs ru_glob_warn ru_glob_err].
  rewrite ?(eqb0 np). intros ->.
  destruct (0 <? nf), dr, (0 <? np), (0 <? mt), (0 <? md), (0 <? gw); reflexivity.
Qed.

(* ------------------------------------------------------------------------------------------ *)
(* Generic list facts                                                                          *)
(* ------------------------------------------------------------------------------------------ *)

Lemma memN_In x l : memN x l = true <-> In x l.
Proof.
  unfold memN. rewrite existsb_exists. split.
  - intros [y [Hy He]]. apply N.eqb_eq in He. subst. exact Hy.
  - intros H. exists x. split; [exact H|apply N.eqb_refl].
Qed.

Lemma NoDup_map_filter {A B} (f : A -> B) (p : A -> bool) l :
  NoDup (map f l) -> NoDup (map f (filter p l)).
Proof.
  induction l as [|a l IH]; cbn; intros H; [constructor|].
  inversion H as [|x xs Hn Hd]; subst.
  destruct (p a); cbn; [constructor|]; auto.
  intros Hin. apply Hn. apply in_map_iff in Hin. destruct Hin as [y [Hy Hin]].
  apply filter_In in Hin. apply in_map_iff. exists y. tauto.
Qed.

Lemma NoDup_app_intro {A} (l1 l2 : list A) :
  NoDup l1 -> NoDup l2 -> (forall x, In x l1 -> In x l2 -> False) -> NoDup (l1 ++ l2).
Proof.
  induction l1 as [|a l1 IH]; cbn; intros H1 H2 Hd; [exact H2|].
  inversion H1; subst. constructor.
  - rewrite in_app_iff. intros [H|H]; [tauto|]. apply (Hd a); auto.
  - apply IH; auto. intros x Hx1 Hx2. apply (Hd x); auto.
Qed.

Lemma NoDup_flat_map_disjoint {A B} (f : A -> list B) (l : list A) :
  NoDup l -> (forall x, In x l -> NoDup (f x)) ->
  (forall x y b, In x l -> In y l -> In b (f x) -> In b (f y) -> x = y) ->
  NoDup (flat_map f l).
Proof.
  induction l as [|a l IH]; cbn; intros Hl Hf Hd; [constructor|].
  inversion Hl; subst. apply NoDup_app_intro.
  - apply Hf. now left.
  - apply IH; auto. intros x y b Hx Hy. apply Hd; auto.
  - intros b Hb1 Hb2. apply in_flat_map in Hb2. destruct Hb2 as [y [Hy Hb2]].
    assert (a = y) by (apply (Hd a y b); auto). subst. tauto.
Qed.

Lemma NoDup_map_fst_fun {A B} (l : list (A * B)) a b b' :
  NoDup (map fst l) -> In (a, b) l -> In (a, b') l -> b = b'.
Proof.
  induction l as [|[x y] l IH]; cbn; intros Hn H1 H2; [tauto|].
  inversion Hn as [|? ? Hx Hl]; subst.
  destruct H1 as [H1|H1], H2 as [H2|H2].
  - congruence.
  - inversion H1; subst. exfalso. apply Hx. apply in_map_iff. exists (a, b'). auto.
  - inversion H2; subst. exfalso. apply Hx. apply in_map_iff. exists (a, b). auto.
  - eauto.
Qed.

Lemma filter_length_split {A} (p : A -> bool) l :
  (length (filter p l) + length (filter (fun x => negb (p x)) l) = length l)%nat.
Proof. induction l as [|a l IH]; cbn; [reflexivity|]. destruct (p a); cbn; lia. Qed.

(* A duplicate-free sub-collection A of a duplicate-free U is as long as its trace in U. *)
Lemma filter_mem_length (A U : list N) :
  NoDup A -> NoDup U -> incl A U ->
  length (filter (fun u => memN u A) U) = length A.
Proof.
  intros HA HU Hi. apply Nat.le_antisymm.
  - apply NoDup_incl_length.
    + apply NoDup_filter. exact HU.
    + intros x Hx. apply filter_In in Hx. apply memN_In. tauto.
  - apply NoDup_incl_length; [exact HA|].
    intros x Hx. apply filter_In. split; [auto|]. apply memN_In. exact Hx.
Qed.

(* Counting rows by a key that ranges over a duplicate-free list of keys. *)
Lemma count_one (ks : list N) (k : N) :
  NoDup ks -> In k ks ->
  fold_right Nat.add 0%nat (map (fun k' => if k =? k' then 1%nat else 0%nat) ks) = 1%nat.
Proof.
  induction ks as [|a ks IH]; cbn; intros Hn Hi; [tauto|].
  inversion Hn as [|? ? Ha Hk]; subst. destruct Hi as [->|Hi].
  - rewrite N.eqb_refl.
    assert (fold_right Nat.add 0%nat (map (fun k' => if k =? k' then 1%nat else 0%nat) ks) = 0%nat) as ->; [|lia].
    clear IH Hn Hk. induction ks as [|b ks IH]; cbn; [reflexivity|].
    destruct (k =? b) eqn:E.
    + apply N.eqb_eq in E. subst. exfalso. apply Ha. now left.
    + apply IH. intros H. apply Ha. now right.
  - destruct (k =? a) eqn:E.
    + apply N.eqb_eq in E. subst. tauto.
    + rewrite IH; auto.
Qed.

Lemma count_by_key {A} (key : A -> N) (ks : list N) (l : list A) :
  NoDup ks -> (forall x, In x l -> In (key x) ks) ->
  fold_right Nat.add 0%nat (map (fun k => length (filter (fun x => key x =? k) l)) ks) = length l.
Proof.
  intros Hn. induction l as [|a l IH]; intros Hk.
  - cbn. clear Hn Hk. induction ks as [|k ks IHk]; cbn; auto.
  - assert (E : forall ks',
      fold_right Nat.add 0%nat (map (fun k => length (filter (fun x => key x =? k) (a :: l))) ks')
      = Nat.add (fold_right Nat.add 0%nat (map (fun k' => if key a =? k' then 1%nat else 0%nat) ks'))
                (fold_right Nat.add 0%nat (map (fun k => length (filter (fun x => key x =? k) l)) ks'))).
    { induction ks' as [|k ks' IHk]; cbn [map fold_right]; [reflexivity|].
      rewrite IHk. cbn [filter]. destruct (key a =? k); cbn [length]; lia. }
    rewrite E, IH by (intros x Hx; apply Hk; now right).
    rewrite (count_one ks (key a) Hn (Hk a (or_introl eq_refl))). reflexivity.
Qed.

(* ------------------------------------------------------------------------------------------ *)
(* (b) The attribution walk, for an arbitrary blocker table                                    *)
(* ------------------------------------------------------------------------------------------ *)

Section Walk.
  Variable B : list (N * cand).
  Hypothesis Bfun : NoDup (map fst B).

  Definition ids (l : list (N * cand)) : list N := map fst l.

  Lemma Bfun_fun d c c' : In (d, c) B -> In (d, c') B -> c = c'.
  Proof. apply NoDup_map_fst_fun. exact Bfun. Qed.

  (* d is n BLOCK_STEP edges below a seed row *)
  Fixpoint depth (n : nat) (d : N) : Prop :=
    match n with
    | O => exists c, In (d, c) B /\ is_seed (d, c) = true
    | S k => exists c, In (d, c) B /\ is_seed (d, c) = false /\ depth k (c_src c)
    end.

  Lemma depth_unique : forall n m d, depth n d -> depth m d -> n = m.
  Proof.
    induction n as [|n IH]; destruct m as [|m]; cbn; intros d H1 H2; auto.
    - destruct H1 as [c [Hc Hs]], H2 as [c' [Hc' [Hs' _]]].
      assert (c = c') by (eapply Bfun_fun; eassumption). subst.
      congruence.
    - destruct H2 as [c [Hc Hs]], H1 as [c' [Hc' [Hs' _]]].
      assert (c = c') by (eapply Bfun_fun; eassumption). subst.
      congruence.
    - destruct H1 as [c [Hc [_ H1]]], H2 as [c' [Hc' [_ H2]]].
      assert (c = c') by (eapply Bfun_fun; eassumption). subst.
      f_equal. eapply IH; eauto.
  Qed.

  Lemma in_children d i : In d (children B i) <->
    exists c, In (d, c) B /\ is_seed (d, c) = false /\ c_src c = i.
  Proof.
    unfold children. rewrite in_map_iff. split.
    - intros [[d' c] [Hd Hin]]. cbn in Hd. subst. apply filter_In in Hin. destruct Hin as [Hin Hc].
      rewrite is_child_spec in Hc. cbn in Hc. apply andb_true_iff in Hc. destruct Hc as [Hk Hs].
      exists c. split; [exact Hin|]. split.
      + rewrite is_seed_spec. cbn. rewrite Hk. reflexivity.
      + apply N.eqb_eq. exact Hs.
    - intros [c [Hin [Hs Hi]]]. exists (d, c). split; [reflexivity|]. apply filter_In. split; [exact Hin|].
      rewrite is_child_spec. rewrite is_seed_spec in Hs. cbn in *. apply negb_false_iff in Hs. rewrite Hs. cbn.
      apply N.eqb_eq. exact Hi.
  Qed.

  Lemma children_nodup i : NoDup (children B i).
  Proof. unfold children. apply NoDup_map_filter. exact Bfun. Qed.

  Lemma ids_wstep F : ids (wstep B F) = flat_map (children B) (ids F).
  Proof.
    unfold ids, wstep. induction F as [|[i r] F IH]; cbn; [reflexivity|].
    rewrite map_app, IH, map_map. cbn. rewrite map_id. reflexivity.
  Qed.

  Lemma wstep_nodup F : NoDup (ids F) -> NoDup (ids (wstep B F)).
  Proof.
    intros H. rewrite ids_wstep. apply NoDup_flat_map_disjoint; auto.
    - intros x _. apply children_nodup.
    - intros x y b _ _ Hx Hy. apply in_children in Hx. apply in_children in Hy.
      destruct Hx as [c [Hc [_ Hs]]], Hy as [c' [Hc' [_ Hs']]].
      assert (c = c') by (eapply Bfun_fun; eassumption). subst. reflexivity.
  Qed.

  Lemma wstep_depth F n :
    (forall x, In x (ids F) -> depth n x) -> forall y, In y (ids (wstep B F)) -> depth (S n) y.
  Proof.
    intros HF y Hy. rewrite ids_wstep in Hy. apply in_flat_map in Hy. destruct Hy as [x [Hx Hy]].
    apply in_children in Hy. destruct Hy as [c [Hc [Hs Hi]]]. cbn. exists c. repeat split; auto.
    rewrite Hi. apply HF. exact Hx.
  Qed.

  Lemma walk_depth k : forall F n,
    (forall x, In x (ids F) -> depth n x) ->
    forall y, In y (ids (walk B k F)) -> exists m, (n <= m)%nat /\ depth m y.
  Proof.
    induction k as [|k IH]; cbn; intros F n HF y Hy; [tauto|].
    unfold ids in Hy. rewrite map_app, in_app_iff in Hy. destruct Hy as [Hy|Hy].
    - exists n. split; [lia|]. apply HF. exact Hy.
    - destruct (IH (wstep B F) (S n) (wstep_depth F n HF) y Hy) as [m [Hm Hd]].
      exists m. split; [lia|exact Hd].
  Qed.

  Lemma walk_nodup k : forall F n,
    NoDup (ids F) -> (forall x, In x (ids F) -> depth n x) -> NoDup (ids (walk B k F)).
  Proof.
    induction k as [|k IH]; cbn; intros F n Hn HF; [constructor|].
    unfold ids. rewrite map_app. apply NoDup_app_intro.
    - exact Hn.
    - apply (IH (wstep B F) (S n)); [apply wstep_nodup; exact Hn|apply wstep_depth; exact HF].
    - intros x Hx1 Hx2.
      destruct (walk_depth k (wstep B F) (S n) (wstep_depth F n HF) x Hx2) as [m [Hm Hd]].
      pose proof (depth_unique _ _ _ (HF x Hx1) Hd). lia.
  Qed.

  Lemma seeds_depth0 x : In x (ids (seeds B)) -> depth 0 x.
  Proof.
    unfold ids, seeds. rewrite in_map_iff. intros [[d c] [Hd Hin]]. cbn in Hd. subst.
    apply filter_In in Hin. cbn. exists c. exact Hin.
  Qed.

  Lemma walk_incl k : forall F, incl (ids F) (ids B) -> incl (ids (walk B k F)) (ids B).
  Proof.
    induction k as [|k IH]; cbn; intros F HF x Hx; [destruct Hx|].
    unfold ids in Hx. rewrite map_app, in_app_iff in Hx. destruct Hx as [Hx|Hx]; [auto|].
    apply (IH (wstep B F)); [|exact Hx].
    intros y Hy. rewrite ids_wstep in Hy. apply in_flat_map in Hy. destruct Hy as [z [_ Hy]].
    apply in_children in Hy. destruct Hy as [c [Hc _]]. unfold ids. apply in_map_iff. exists (y, c). auto.
  Qed.

  (* The walk never visits a step twice, whatever the table looks like. *)
  Theorem attributed_nodup : forall k, NoDup (ids (walk B k (seeds B))).
  Proof.
    intros k. apply (walk_nodup k (seeds B) 0%nat).
    - unfold ids, seeds. apply NoDup_map_filter. exact Bfun.
    - apply seeds_depth0.
  Qed.

  Theorem attributed_incl : forall k, incl (ids (walk B k (seeds B))) (ids B).
  Proof.
    intros k. apply walk_incl. intros x Hx. unfold ids, seeds in *. apply in_map_iff in Hx.
    destruct Hx as [r [Hr Hin]]. apply filter_In in Hin. apply in_map_iff. exists r. tauto.
  Qed.

  (* Roots of attributed rows are seed rows: their kind is never BLOCK_STEP. *)
  Lemma walk_roots k : forall F,
    (forall row, In row F -> c_kind (snd row) <> K_BLOCK_STEP) ->
    forall row, In row (walk B k F) -> c_kind (snd row) <> K_BLOCK_STEP.
  Proof.
    induction k as [|k IH]; cbn; intros F HF row Hr; [tauto|].
    apply in_app_iff in Hr. destruct Hr as [Hr|Hr]; [auto|].
    apply (IH (wstep B F)); [|exact Hr].
    intros row' Hr'. unfold wstep in Hr'. apply in_flat_map in Hr'. destruct Hr' as [ir [Hir Hr']].
    apply in_map_iff in Hr'. destruct Hr' as [d [Hd _]]. subst. cbn. apply HF. exact Hir.
  Qed.

  Lemma walk_roots_in_B k : forall F,
    (forall row, In row F -> exists d, In (d, snd row) B) ->
    forall row, In row (walk B k F) -> exists d, In (d, snd row) B.
  Proof.
    induction k as [|k IH]; cbn; intros F HF row Hr; [tauto|].
    apply in_app_iff in Hr. destruct Hr as [Hr|Hr]; [auto|].
    apply (IH (wstep B F)); [|exact Hr].
    intros row' Hr'. unfold wstep in Hr'. apply in_flat_map in Hr'. destruct Hr' as [ir [Hir Hr']].
    apply in_map_iff in Hr'. destruct Hr' as [d [Hd _]]. subst. cbn. apply HF. exact Hir.
  Qed.

  (* Once a level is empty the walk has ended: more fuel changes nothing (the SQL recursion stops). *)
  Lemma walk_nil k : walk B k [] = [].
  Proof. induction k; cbn; auto. Qed.

  Lemma walk_length_bound k F n :
    NoDup (ids F) -> (forall x, In x (ids F) -> depth n x) -> incl (ids F) (ids B) ->
    (length (walk B k F) <= length B)%nat.
  Proof.
    intros Hn HF Hi.
    rewrite <- (map_length fst (walk B k F)), <- (map_length fst B).
    apply NoDup_incl_length.
    - apply (walk_nodup k F n); auto.
    - apply walk_incl. exact Hi.
  Qed.

  Fixpoint level (k : nat) (F : list (N * cand)) : list (N * cand) :=
    match k with O => F | S j => level j (wstep B F) end.

  Lemma level_nil k : level k [] = [].
  Proof. induction k; cbn; auto. Qed.

  Lemma walk_snoc : forall k F, walk B (S k) F = walk B k F ++ level k F.
  Proof.
    induction k as [|k IH]; intros F.
    - cbn. rewrite app_nil_r. reflexivity.
    - change (walk B (S (S k)) F) with (F ++ walk B (S k) (wstep B F)).
      rewrite IH. cbn [walk level]. rewrite app_assoc. reflexivity.
  Qed.

  Lemma level_nonempty_length : forall k F, level k F <> [] -> (k <= length (walk B k F))%nat.
  Proof.
    induction k as [|k IH]; intros F H; [lia|].
    cbn [level] in H. cbn [walk]. rewrite app_length.
    destruct F as [|f F0]; [cbn in H; rewrite level_nil in H; congruence|].
    specialize (IH _ H). cbn [length]. lia.
  Qed.

  Lemma walk_fuel_enough : forall k F n,
    NoDup (ids F) -> (forall x, In x (ids F) -> depth n x) -> incl (ids F) (ids B) ->
    (length B < k)%nat -> walk B (S k) F = walk B k F.
  Proof.
    intros k F n Hn HF Hi Hlen. rewrite walk_snoc.
    destruct (level k F) as [|r l] eqn:E; [apply app_nil_r|].
    exfalso. assert (H : level k F <> []) by (rewrite E; discriminate).
    apply level_nonempty_length in H.
    pose proof (walk_length_bound k F n Hn HF Hi). lia.
  Qed.
End Walk.

(* The exit status of a director run is that of its last finalized phase. *)
Lemma last_phase_rc_snoc cur phases i : last_phase_rc cur (phases ++ [i]) = report_unbuilt i.
Proof. revert cur. induction phases as [|j r IH]; intros cur; cbn; [reflexivity|apply IH]. Qed.

Lemma serve_phases_last inv phases i : serve_phases inv (phases ++ [i]) = serve_rc inv i.
Proof. unfold serve_phases, serve_rc. destruct inv; [reflexivity|apply last_phase_rc_snoc]. Qed.

Lemma serve_no_phase_not_zero : serve_phases false [] = rc_PENDING /\ serve_phases false [] <> 0.
Proof. split; [reflexivity|discriminate]. Qed.

(* ------------------------------------------------------------------------------------------ *)
(* (b) The snapshot level                                                                      *)
(* ------------------------------------------------------------------------------------------ *)

Definition wf_snap (sn : snap) : Prop := NoDup (map s_id (sn_steps sn)).

Lemma U_ids_nodup sn : wf_snap sn -> NoDup (U_ids sn).
Proof. intros H. unfold U_ids, U. apply NoDup_map_filter. exact H. Qed.

Lemma blocker_ids sn : map fst (blocker_rows sn) = U_ids sn.
Proof. unfold blocker_rows, U_ids. rewrite map_map. reflexivity. Qed.

(* pend_blocker: exactly one row per step of U, none for anything else. *)
Lemma pend_blocker_total_function sn : wf_snap sn ->
  forall u, In u (U_ids sn) <-> exists! c, In (u, c) (blocker_rows sn).
Proof.
  intros Hwf u. split.
  - intros Hu. rewrite <- blocker_ids in Hu. apply in_map_iff in Hu. destruct Hu as [[u' c] [Hu Hin]].
    cbn in Hu. subst. exists c. split; [exact Hin|].
    intros c' Hc'. eapply NoDup_map_fst_fun; eauto. rewrite blocker_ids. apply U_ids_nodup. exact Hwf.
  - intros [c [Hc _]]. rewrite <- blocker_ids. apply in_map_iff. exists (u, c). auto.
Qed.

(* The kind chosen for a step is one of the seven constants. *)
Definition all_kinds : list N := root_kinds ++ [K_BLOCK_STEP].

Lemma cand_min_in c l : In (cand_min c l) (c :: l).
Proof.
  revert c. induction l as [|x l IH]; cbn; intros c; [auto|].
  destruct (IH (if cand_lt x c then x else c)) as [H|H].
  - destruct (cand_lt x c); [right; left|left]; congruence.
  - right. right. exact H.
Qed.

Lemma cands_kinds sn u c : In c (cands sn u) -> In (c_kind c) all_kinds /\ c_kind c <> K_ROOT_RUNNABLE.
Proof.
  intros H. apply cands_arm in H. destruct H as [a [Ha ->]].
  pose proof arm_kinds_ok as K. rewrite forallb_forall in K. specialize (K a Ha).
  apply andb_true_iff in K. destruct K as [K1 K2]. apply memN_In in K1.
  apply negb_true_iff, N.eqb_neq in K2. split; [|exact K2].
  unfold all_kinds, root_kinds. cbn in K1 |- *. intuition.
Qed.

Lemma primary_spec sn u :
  (cands sn u = [] /\ primary sn u = (K_ROOT_RUNNABLE, [], s_id u)) \/
  (In (primary sn u) (cands sn u)).
Proof.
  unfold primary. destruct (cands sn u) as [|c l]; [left; auto|right]. apply cand_min_in.
Qed.

Lemma primary_kind sn u : In (c_kind (primary sn u)) all_kinds.
Proof.
  destruct (primary_spec sn u) as [[_ ->]|H].
  - cbv. auto 10.
  - apply (cands_kinds sn u). exact H.
Qed.

(* RUNNABLE exactly when no candidate blocker exists. *)
Lemma runnable_iff_no_candidate sn u :
  c_kind (primary sn u) = K_ROOT_RUNNABLE <-> cands sn u = [].
Proof.
  destruct (primary_spec sn u) as [[H ->]|H]; split; auto.
  - intros E. apply (cands_kinds sn u) in H. tauto.
  - intros E. rewrite E in H. destruct H.
Qed.

(* cand_lt is a strict order, so the chosen candidate is a minimum. *)
Lemma cand_lt_trans a b c : cand_lt a b = true -> cand_lt b c = true -> cand_lt a c = true.
Proof.
  unfold cand_lt. destruct a as [[ka la] sa], b as [[kb lb] sb], c as [[kc lc] sc]. cbn.
  rewrite !orb_true_iff, !andb_true_iff, !orb_true_iff, !andb_true_iff, !N.ltb_lt, !N.eqb_eq, !str_eqb_eq.
  intros [H1|[E1 H1]] [H2|[E2 H2]]; subst.
  - left. lia.
  - left. exact H1.
  - left. exact H2.
  - right. split; [reflexivity|].
    destruct H1 as [H1|[E1 H1]], H2 as [H2|[E2 H2]]; subst.
    + left. eapply lex_lt_trans; eauto.
    + left. exact H1.
    + left. exact H2.
    + right. split; [reflexivity|lia].
Qed.

Lemma cand_min_le c l : forall x, In x (c :: l) -> cand_lt x (cand_min c l) = false.
Proof.
  revert c. induction l as [|y l IH]; intros c x Hx.
  - cbn in *. destruct Hx as [<-|[]]. unfold cand_lt. destruct c as [[k lb] s]. cbn.
    rewrite !N.ltb_irrefl, N.eqb_refl, lex_lt_irrefl, str_eqb_refl. reflexivity.
  - cbn [cand_min]. destruct Hx as [<-|[<-|Hx]].
    + destruct (cand_lt y c) eqn:E.
      * destruct (cand_lt c (cand_min y l)) eqn:E2; [|reflexivity].
        pose proof (cand_lt_trans _ _ _ E E2) as E3.
        rewrite (IH y y (or_introl eq_refl)) in E3. discriminate.
      * apply IH. now left.
    + destruct (cand_lt y c) eqn:E.
      * apply IH. now left.
      * destruct (cand_lt y (cand_min c l)) eqn:E2; [|reflexivity].
        (* y < min(c,l) <= c contradicts not (y < c) unless min = c... use transitivity via c *)
        destruct (cand_min_in c l) as [Hm|Hm].
        -- rewrite <- Hm in E2. congruence.
        -- (* min is some z in l with not (c < z)... we only need: y < min and min <= c *)
           destruct (cand_lt (cand_min c l) c) eqn:E3.
           ++ pose proof (cand_lt_trans _ _ _ E2 E3). congruence.
           ++ (* min not < c and c not < min (IH): then kinds/labels/src equal, so y < c *)
              pose proof (IH c c (or_introl eq_refl)) as E4.
              exfalso. revert E2 E3 E4 E. generalize (cand_min c l). intros m.
              unfold cand_lt. destruct y as [[ky ly] sy], c as [[kc lc] sc], m as [[km lm] sm]. cbn.
              intros E2 E3 E4 E.
              destruct (N.lt_trichotomy km kc) as [H|[H|H]].
              { apply N.ltb_lt in H. rewrite H in E3. discriminate. }
              2:{ apply N.ltb_lt in H. rewrite H in E4. discriminate. }
              subst. rewrite N.ltb_irrefl, N.eqb_refl in E3, E4. cbn in E3, E4.
              apply orb_false_iff in E3, E4. destruct E3 as [A1 A2], E4 as [B1 B2].
              destruct (lex_total lm lc) as [T|[T|T]]; try congruence. subst.
              rewrite str_eqb_refl in A2, B2. cbn in A2, B2.
              apply N.ltb_ge in A2, B2. assert (sm = sc) by lia. subst. congruence.
    + destruct (cand_lt y c); apply IH; now right.
Qed.

Lemma primary_minimal sn u c : In c (cands sn u) -> cand_lt c (primary sn u) = false.
Proof.
  unfold primary. destruct (cands sn u) as [|c0 l]; [intros []|]. apply cand_min_le.
Qed.

(* Attribution on a snapshot *)
Lemma attributed_nodup_snap sn : wf_snap sn -> NoDup (map fst (attributed sn)).
Proof.
  intros H. unfold attributed, attributed_of. apply attributed_nodup.
  rewrite blocker_ids. apply U_ids_nodup. exact H.
Qed.

Lemma attributed_incl_snap sn : wf_snap sn -> incl (map fst (attributed sn)) (U_ids sn).
Proof.
  intros H. unfold attributed, attributed_of. rewrite <- blocker_ids. apply attributed_incl.
Qed.

Lemma attributed_root_kinds sn row : In row (attributed sn) -> In (c_kind (snd row)) root_kinds.
Proof.
  intros H.
  assert (H1 : c_kind (snd row) <> K_BLOCK_STEP).
  { apply (walk_roots (blocker_rows sn) (S (length (blocker_rows sn))) (seeds (blocker_rows sn)));
      [|exact H].
    intros row0 Hr. unfold seeds in Hr. apply filter_In in Hr. destruct Hr as [_ Hs].
    rewrite is_seed_spec in Hs. apply negb_true_iff in Hs. apply N.eqb_neq. exact Hs. }
  assert (H2 : exists d, In (d, snd row) (blocker_rows sn)).
  { apply (walk_roots_in_B (blocker_rows sn) (S (length (blocker_rows sn))) (seeds (blocker_rows sn)));
      [|exact H].
    intros [d c] Hr. unfold seeds in Hr. apply filter_In in Hr. exists d. tauto. }
  destruct H2 as [d Hd]. unfold blocker_rows in Hd. apply in_map_iff in Hd. destruct Hd as [u [Hu _]].
  assert (Hc : primary sn u = snd row) by congruence. pose proof (primary_kind sn u) as Hk. rewrite Hc in Hk.
  unfold all_kinds in Hk. apply in_app_iff in Hk. destruct Hk as [Hk|[Hk|[]]]; [exact Hk|congruence].
Qed.

Lemma root_kinds_nodup : NoDup root_kinds.
Proof. cbv. repeat constructor; cbn; intuition discriminate. Qed.

Lemma N_of_nat_sum (l : list nat) : sumN (map N.of_nat l) = N.of_nat (fold_right Nat.add 0%nat l).
Proof. induction l as [|a l IH]; cbn; [reflexivity|]. unfold sumN in IH. rewrite IH. lia. Qed.

(* The counts per root kind plus the cyclic residue add up to the pending universe. *)
Theorem partition_adds_up sn : wf_snap sn ->
  sumN (map (fun k => count_kind k (attributed sn)) root_kinds) + N.of_nat (length (cyclic_ids sn))
  = N.of_nat (length (U sn)).
Proof.
  intros Hwf.
  assert (Hsum : sumN (map (fun k => count_kind k (attributed sn)) root_kinds)
                 = N.of_nat (length (attributed sn))).
  { unfold count_kind. rewrite <- (map_map (fun k => length (filter (fun row => c_kind (snd row) =? k) (attributed sn))) N.of_nat).
    rewrite N_of_nat_sum. f_equal.
    apply (count_by_key (fun row : N * cand => c_kind (snd row)) root_kinds (attributed sn) root_kinds_nodup).
    intros row Hr. apply (attributed_root_kinds sn). exact Hr. }
  rewrite Hsum. rewrite <- Nat2N.inj_add. f_equal.
  rewrite cyclic_ids_spec.
  rewrite <- (map_length fst (attributed sn)).
  rewrite <- (filter_mem_length (map fst (attributed sn)) (U_ids sn)
               (attributed_nodup_snap sn Hwf) (U_ids_nodup sn Hwf) (attributed_incl_snap sn Hwf)).
  rewrite (filter_length_split (fun u => memN u (map fst (attributed sn))) (U_ids sn)).
  unfold U_ids. apply map_length.
Qed.

(* Every pending step is reported under exactly one cause. *)
Theorem exactly_one_class sn : wf_snap sn -> forall u, In u (U_ids sn) ->
  (exists! r, In (u, r) (attributed sn)) /\ ~ In u (cyclic_ids sn)
  \/ (forall r, ~ In (u, r) (attributed sn)) /\ In u (cyclic_ids sn).
Proof.
  intros Hwf u Hu. destruct (memN u (map fst (attributed sn))) eqn:E.
  - left. pose proof E as E'. apply memN_In in E. apply in_map_iff in E. destruct E as [[u' r] [Hfst Hin]].
    cbn in Hfst. subst. split.
    + exists r. split; [exact Hin|]. intros r' Hr'. eapply NoDup_map_fst_fun; eauto.
      apply attributed_nodup_snap. exact Hwf.
    + rewrite cyclic_ids_spec. rewrite filter_In. rewrite E'. cbn. intros [_ H]. discriminate.
  - right. split.
    + intros r Hr. assert (memN u (map fst (attributed sn)) = true); [|congruence].
      apply memN_In. apply in_map_iff. exists (u, r). auto.
    + rewrite cyclic_ids_spec. apply filter_In. rewrite E. auto.
Qed.

(* class_of agrees with the rows. *)
Lemma class_of_some sn u k : wf_snap sn ->
  class_of sn u = Some k <-> exists r, In (u, r) (attributed sn) /\ c_kind r = k.
Proof.
  intros Hwf. unfold class_of. destruct (find _ (attributed sn)) as [row|] eqn:E.
  - apply find_some in E. destruct E as [Hin He]. apply N.eqb_eq in He. destruct row as [d r]. cbn in *. subst.
    split.
    + intros H. inversion H. exists r. auto.
    + intros [r' [Hr' Hk]]. assert (r = r'); [|congruence].
      eapply NoDup_map_fst_fun; eauto. apply attributed_nodup_snap. exact Hwf.
  - split; [discriminate|]. intros [r [Hr _]]. pose proof (find_none _ _ E _ Hr) as H. cbn in H.
    rewrite N.eqb_refl in H. discriminate.
Qed.

(* The attribution walk has ended with the fuel the model gives it: one more level adds nothing. *)
Lemma attributed_fuel_enough sn : wf_snap sn ->
  walk (blocker_rows sn) (S (S (length (blocker_rows sn)))) (seeds (blocker_rows sn)) = attributed sn.
Proof.
  intros Hwf. unfold attributed, attributed_of.
  set (B := blocker_rows sn).
  assert (HB : NoDup (map fst B)) by (unfold B; rewrite blocker_ids; apply U_ids_nodup; exact Hwf).
  apply (walk_fuel_enough B HB (S (length B)) (seeds B) 0%nat).
  - unfold ids, seeds. apply NoDup_map_filter. exact HB.
  - apply seeds_depth0.
  - intros x Hx. unfold ids, seeds in *. apply in_map_iff in Hx. destruct Hx as [r0 [Hr Hin]].
    apply filter_In in Hin. apply in_map_iff. exists r0. tauto.
  - lia.
Qed.

(* ------------------------------------------------------------------------------------------ *)
(* Zero means every required step succeeded                                                    *)
(* ------------------------------------------------------------------------------------------ *)

Definition valid_state (s : stepr) : Prop :=
  s_state s = SS_PENDING \/ s_state s = SS_RUNNING \/ s_state s = SS_CHECKING \/
  s_state s = SS_SUCCEEDED \/ s_state s = SS_FAILED.
Definition builder_stopped (sn : snap) : Prop :=
  forall s, In s (sn_steps sn) -> valid_state s /\ s_state s <> SS_RUNNING /\ s_state s <> SS_CHECKING.

Lemma length_filter_zero {A} (p : A -> bool) l : length (filter p l) = 0%nat -> forall x, In x l -> p x = false.
Proof.
  induction l as [|a l IH]; cbn; intros H x Hx; [tauto|].
  destruct (p a) eqn:E; [discriminate|]. destruct Hx as [<-|Hx]; auto.
Qed.

Theorem zero_all_required_succeeded sn draining mt md gw ge :
  builder_stopped sn ->
  serve_rc false (ru_of_snap sn draining mt md gw ge) = 0 ->
  (forall s, In s (sn_steps sn) -> required sn s = true -> s_state s = SS_SUCCEEDED)
  /\ draining = false /\ mt = 0 /\ md = 0 /\ gw = 0 /\ ge = 0.
Proof.
  intros Hst Hz. apply zero_iff_nothing_wrong in Hz. destruct Hz as [_ Hz].
  unfold nothing_wrong, ru_of_snap in Hz. cbn in Hz.
  destruct Hz as [Hf [Hd [Hp [Ht [Htd [Hw He]]]]]].
  split; [|tauto].
  intros s Hs Hr. destruct (Hst s Hs) as [Hv [Hnr Hnc]].
  unfold n_failed_attached in Hf. assert (Hf' : length (filter (fun s => is_failed s && negb (s_detached s)) (sn_steps sn)) = 0%nat) by lia.
  assert (Hp' : length (U sn) = 0%nat).
  { unfold U. rewrite <- (filter_ext _ _ (ntotal_is_U sn)). lia. }
  unfold U in Hp'.
  pose proof (length_filter_zero _ _ Hf' s Hs) as F1. pose proof (length_filter_zero _ _ Hp' s Hs) as F2.
  cbn in F1. unfold required in Hr. apply andb_true_iff in Hr. destruct Hr as [Hr1 Hr2].
  rewrite in_U_spec in F2. rewrite Hr1, Hr2 in F2. rewrite Hr2 in F1. rewrite !andb_true_r in *.
  unfold is_failed in F1. apply N.eqb_neq in F1, F2.
  destruct Hv as [H|[H|[H|[H|H]]]]; congruence.
Qed.
