(* C09: the protocol-dependent clauses I4b (J1) and I5c (K) are preserved by every operation issued
   within the build-loop protocol (protocol_ok); I4 follows from I4a (in Inv) and I4b. *)
From Coq Require Import List NArith Bool Lia.
From SV Require Import lib.Bytes lib.Closure model.Graph model.GraphInv
  proofs.GraphBase proofs.GraphNodes proofs.GraphInvP proofs.GraphPrims proofs.GraphFrames
  proofs.GraphCreate proofs.GraphOps proofs.GraphLife.
Import ListNotations.
Open Scope N_scope.

Lemma transition_po c old known ns act :
  transition c old known = Some (ns, act) -> ns = FPlanned \/ ns = FOutdated ->
  (old = FPlanned \/ old = FOutdated) \/ act = Some AUpdated \/ (act = Some ADeleted /\ ns = FPlanned).
Proof.
  destruct c, old, known; cbn; intros H; inversion H; subst; intros [E|E]; try discriminate; auto.
Qed.

Section HH.
Context {hh : bool}.

(* ------------------------------------------------------------------------------------------ *)
(* handlers of update_file_hashes                                                              *)
(* ------------------------------------------------------------------------------------------ *)
Lemma creator_pending_GG p s :
  Inv hh s ->
  wpg false (match step_creator_of_file p s with Some c => mark_step_pending c s | None => Ok s end)
      (fun s' => GG s s' /\ forall l, creator_of (KFile, p) s = Some (KStep, l) -> sstate_of l s' <> Some SSucceeded).
Proof.
  intros HI. unfold step_creator_of_file. destruct (creator_of (KFile, p) s) as [[[] c]|] eqn:Hc;
    try (cbn; split; [apply GG_refl | intros l H; discriminate]).
  eapply wpg_weaken; [apply (@mark_step_pending_GG' hh); exact HI|].
  intros s' [HG Hn]. split; [exact HG|]. intros l Hl. inversion Hl; subst l. exact Hn.
Qed.

Lemma handle_updated_file_GG p s :
  Inv hh s ->
  wpg false (handle_updated_file p s)
      (fun s' => GG s s' /\ (po p s -> forall l, creator_of (KFile, p) s = Some (KStep, l) ->
                                       sstate_of l s' <> Some SSucceeded)).
Proof.
  intros HI. unfold handle_updated_file. unfold po.
  destruct (fstate_of p s) as [[]|] eqn:Hs;
    try (cbn; split; [apply GG_refl | intros [H|H]; discriminate]).
  - eapply wpg_weaken; [apply (@mark_consumers_pending_GG hh); exact HI|].
    intros s' HG. split; [exact HG | intros [H|H]; discriminate].
  - eapply wpg_weaken; [apply creator_pending_GG; exact HI|]. intros s' [HG Hn]. split; [exact HG | intros _; exact Hn].
  - eapply wpg_weaken; [apply creator_pending_GG; exact HI|]. intros s' [HG Hn]. split; [exact HG | intros _; exact Hn].
Qed.

Lemma handle_deleted_file_GG p s :
  Inv hh s ->
  wpg false (handle_deleted_file p s)
      (fun s' => GG s s' /\ (fstate_of p s = Some FPlanned -> forall l, creator_of (KFile, p) s = Some (KStep, l) ->
                                       sstate_of l s' <> Some SSucceeded)).
Proof.
  intros HI. unfold handle_deleted_file. apply wpg_bind.
  assert (H1 : wpg false (match fstate_of p s with
                          | Some FPlanned => match step_creator_of_file p s with
                                             | Some c => mark_step_pending c s | None => Ok s end
                          | _ => Ok s end)
                 (fun s1 => (Inv hh s1 /\ GG s s1) /\
                            (fstate_of p s = Some FPlanned -> forall l, creator_of (KFile, p) s = Some (KStep, l) ->
                               sstate_of l s1 <> Some SSucceeded))).
  { destruct (fstate_of p s) as [[]|] eqn:Hs;
      try (cbn; split; [split; [exact HI | apply GG_refl] | intros H; discriminate]).
    eapply wpg_weaken.
    - apply wpg_conj; [apply (@creator_pending_spec hh); exact HI | apply creator_pending_GG; exact HI].
    - intros s1 [[I1 _] [G1 Hn]]. split; [split; assumption | intros _; exact Hn]. }
  eapply wpg_weaken; [exact H1|]. intros s1 [[I1 G1] Hn].
  eapply wpg_weaken; [apply (@mark_consumers_pending_GG hh); exact I1|].
  intros s2 G2. split; [eapply GG_trans; eassumption|].
  intros Hp l Hl. eapply not_succ_GG; [apply Hn; assumption | exact G2].
Qed.

(* ------------------------------------------------------------------------------------------ *)
(* update_file_hashes                                                                          *)
(* ------------------------------------------------------------------------------------------ *)
Definition plan_ok (c : cause) (s : st) (x : planrow) : Prop :=
  exists r0 k, find_file (p_path x) s = Some r0 /\ transition c (fstt r0) k = Some (p_state x, p_act x).

Lemma plan_fold_ok c s hs : forall acc,
  (forall x, In x acc -> plan_ok c s x) ->
  wpg false (foldM (fun acc ph =>
                match find_file (fst ph) s with
                | None => Internal 118
                | Some r =>
                  match transition c (fstt r) (is_some (snd ph)) with
                  | None => Internal 119
                  | Some (ns, act) => Ok (acc ++ [mkP (fst ph) (snd ph) ns act])
                  end
                end) hs acc)
      (fun plan => forall x, In x plan -> plan_ok c s x).
Proof.
  induction hs as [|ph hs IH]; intros acc Hacc; cbn [foldM]; [exact Hacc|].
  apply wpg_bind. destruct (find_file (fst ph) s) as [r|] eqn:Hr; [|exact I].
  destruct (transition c (fstt r) (is_some (snd ph))) as [[ns act]|] eqn:Ht; [|exact I].
  cbn [wpg]. apply IH. intros x Hx. apply in_app_or in Hx. destruct Hx as [Hx|[<-|[]]]; [auto|].
  exists r, (is_some (snd ph)). cbn. auto.
Qed.

Definition with_act (a : action) (plan : list planrow) : list str :=
  map p_path (filter (fun x => match p_act x with Some b => action_eqb a b | None => false end) plan).

Lemma In_with_act a plan x : In x plan -> p_act x = Some a -> In (p_path x) (with_act a plan).
Proof.
  intros Hx Ha. unfold with_act. apply in_map. apply filter_In. split; [exact Hx|]. rewrite Ha.
  destruct a; reflexivity.
Qed.

(* V on a state that has the same steps and nodes as s *)
Lemma V_same s s' l f :
  steps s' = steps s -> nodes s' = nodes s -> V s' l f -> po f s -> V s l f.
Proof.
  intros Hs Hn [A [B C]] Hp. split; [|split; [|exact Hp]].
  - unfold sstate_of, find_step in *. rewrite Hs in A. exact A.
  - unfold creator_of, find_node in *. rewrite Hn in B. exact B.
Qed.

Lemma Outd_planned s s' f : Outd s s' -> fstate_of f s = Some FPlanned -> fstate_of f s' = Some FPlanned.
Proof. intros H Hp. destruct (H f) as [E|[E _]]; congruence. Qed.

Lemma update_file_hashes_GG c hs s :
  Inv hh s -> wpg false (update_file_hashes c hs s) (GG s).
Proof.
  intros HI. unfold update_file_hashes. apply wpg_bind.
  eapply wpg_weaken; [apply (plan_fold_ok c s hs []); intros x []|].
  intros plan Hplan.
  change (map p_path (filter (fun x => match p_act x with Some b => action_eqb AUpdated b | None => false end) plan))
    with (with_act AUpdated plan).
  change (map p_path (filter (fun x => match p_act x with Some b => action_eqb ADeleted b | None => false end) plan))
    with (with_act ADeleted plan).
  change (map p_path (filter (fun x => match p_act x with Some b => action_eqb ACompleted b | None => false end) plan))
    with (with_act ACompleted plan).
  set (upd := with_act AUpdated plan). set (del := with_act ADeleted plan).
  apply wpg_bind.
  (* first fold: rows get their new states *)
  eapply wpg_weaken.
  { apply (wpg_foldM false _ (fun s' =>
             Inv hh s' /\ SO s s' /\ steps s' = steps s /\ shash s' = shash s /\
             (forall f, po f s' -> po f s \/ In f upd \/ (In f del /\ fstate_of f s' = Some FPlanned)))).
    - intros s1 x Hx [I1 [S1 [T1 [U1 P1]]]].
      destruct (Hplan x Hx) as [r0 [k [Hr0 Htr]]].
      eapply wpg_weaken.
      + apply (@set_fstate_hash_spec hh); [exact I1 | eapply transition_not_undeclared; exact Htr | | intros H; discriminate].
        intros d sl Hd Hs Hk n c0 Hn Hc0. rewrite (so_deps _ _ S1) in Hd. rewrite (so_nodes _ _ S1) in Hn.
        destruct (inv_oe _ HI d sl (p_path x) Hd Hs Hk n c0 Hn Hc0) as [_ [r1 [Hr1 Ho]]].
        unfold find_file in Hr0. fold (findf (p_path x) (files s)) in Hr0. rewrite Hr0 in Hr1. inversion Hr1; subst r1.
        eapply transition_out; eassumption.
      + intros s2 [I2 [S2 [T2 [U2 [Hoth [Hnew Hsame]]]]]].
        split; [exact I2|]. split; [eapply SO_trans; eassumption|]. split; [congruence|]. split; [congruence|].
        intros f Hp. destruct (str_eq_dec f (p_path x)) as [->|Hne].
        * destruct (find_file (p_path x) s1) eqn:Hrow.
          -- assert (Hfs : fstate_of (p_path x) s2 = Some (p_state x)) by (apply Hnew; discriminate).
             unfold po in Hp. rewrite Hfs in Hp.
             assert (Hns : p_state x = FPlanned \/ p_state x = FOutdated) by (destruct Hp as [Hp|Hp]; inversion Hp; auto).
             destruct (transition_po _ _ _ _ _ Htr Hns) as [Hold|[Hu|[Hd Hpl]]].
             ++ left. unfold po, fstate_of. rewrite Hr0. destruct Hold as [->| ->]; auto.
             ++ right. left. apply In_with_act; assumption.
             ++ right. right. split; [apply In_with_act; assumption | rewrite Hfs, Hpl; reflexivity].
          -- rewrite (Hsame eq_refl) in Hp. apply P1 in Hp. rewrite (Hsame eq_refl). exact Hp.
        * assert (Hfs : fstate_of f s2 = fstate_of f s1). { unfold fstate_of. rewrite (Hoth f Hne). reflexivity. }
          unfold po in Hp. rewrite Hfs in Hp. destruct (P1 f Hp) as [A|[A|[A B]]]; auto. right. right. split; [exact A | congruence].
    - split; [exact HI|]. split; [apply SO_refl|]. split; [reflexivity|]. split; [reflexivity|]. intros f Hp. left. exact Hp. }
  intros s1 [I1 [S1 [T1 [U1 P1]]]]. cbn zeta.
  assert (G01 : forall l, (sstate_of l s1 = Some SSucceeded -> sstate_of l s = Some SSucceeded) /\
                          (sstate_of l s1 = Some SRunning -> sstate_of l s = Some SRunning) /\
                          (has_hash l s1 = true -> has_hash l s = true)).
  { intros l. unfold sstate_of, find_step, has_hash. rewrite T1, U1. auto. }
  (* the obligations that remain after the first fold *)
  set (Rem := fun (ru rd : list str) (cur : st) =>
         Inv hh cur /\ SO s1 cur /\ Outd s1 cur /\ GG s1 cur /\
         forall l f, V cur l f -> V s l f \/ In f ru \/ (In f rd /\ fstate_of f cur = Some FPlanned)).
  assert (R1 : Rem upd del s1).
  { split; [exact I1|]. split; [apply SO_refl|]. split; [apply Outd_refl|]. split; [apply GG_refl|].
    intros l f HV. pose proof HV as [_ [_ Hp]]. destruct (P1 f Hp) as [A|[A|A]]; auto.
    left. eapply V_same; [exact T1 | apply (so_nodes _ _ S1) | exact HV | exact A]. }
  apply wpg_bind. eapply wpg_weaken.
  { apply (wpg_foldM_rem false _ (fun rest cur => Rem rest del cur)).
    - intros cur p rest [Ic [Sc [Oc [Gc Vc]]]]. eapply wpg_weaken.
      + apply wpg_conj; [apply (@handle_updated_file_spec hh); exact Ic | apply handle_updated_file_GG; exact Ic].
      + intros cur' [[Ic' [Sc' Oc']] [Gc' Hn]].
        split; [exact Ic'|]. split; [eapply SO_trans; eassumption|]. split; [eapply Outd_trans; eassumption|].
        split; [eapply GG_trans; eassumption|].
        intros l f HV'. pose proof (gg_nv _ _ Gc' l f HV') as HV. destruct (Vc l f HV) as [A|[[A|A]|[A B]]]; auto.
        * exfalso. subst f. destruct HV as [_ [Bc Cc]]. destruct HV' as [Av _]. exact (Hn Cc l Bc Av).
        * right. right. split; [exact A | eapply Outd_planned; eassumption].
    - exact R1. }
  intros s2 [I2 [S2 [O2 [G2 V2]]]].
  apply wpg_bind. eapply wpg_weaken.
  { apply (wpg_foldM_rem false _ (fun rest cur => Rem [] rest cur)).
    - intros cur p rest [Ic [Sc [Oc [Gc Vc]]]]. eapply wpg_weaken.
      + apply wpg_conj; [apply (@handle_deleted_file_spec hh); exact Ic | apply handle_deleted_file_GG; exact Ic].
      + intros cur' [[Ic' [Sc' Oc']] [Gc' Hn]].
        split; [exact Ic'|]. split; [eapply SO_trans; eassumption|]. split; [eapply Outd_trans; eassumption|].
        split; [eapply GG_trans; eassumption|].
        intros l f HV'. pose proof (gg_nv _ _ Gc' l f HV') as HV. destruct (Vc l f HV) as [A|[[]|[[A|A] B]]]; auto.
        * exfalso. subst f. destruct HV as [_ [Bc _]]. destruct HV' as [Av _]. exact (Hn B l Bc Av).
        * right. right. split; [exact A | eapply Outd_planned; eassumption].
    - split; [exact I2|]. split; [exact S2|]. split; [exact O2|]. split; [exact G2|]. exact V2. }
  intros s3 [I3 [S3 [O3 [G3' V3]]]].
  eapply wpg_weaken.
  { apply (wpg_foldM false _ (fun cur => Inv hh cur /\ GG s3 cur)); [|split; [exact I3 | apply GG_refl]].
    intros cur p _ [Ic Gc]. eapply wpg_weaken.
    - apply wpg_conj; [apply (@mark_consumers_pending_spec hh); exact Ic | apply (@mark_consumers_pending_GG hh); exact Ic].
    - intros cur' [[Ic' _] Gc']. split; [exact Ic' | eapply GG_trans; eassumption]. }
  intros s4 [_ G34].
  constructor.
  - intros l Hl. apply (proj1 (G01 l)). apply (gg_succ _ _ G3'). apply (gg_succ _ _ G34). exact Hl.
  - intros l Hl. apply (proj1 (proj2 (G01 l))). apply (gg_run _ _ G3'). apply (gg_run _ _ G34). exact Hl.
  - intros l Hl. apply (proj2 (proj2 (G01 l))). apply (gg_hash _ _ G3'). apply (gg_hash _ _ G34). exact Hl.
  - intros l f HV. apply (gg_nv _ _ G34) in HV. destruct (V3 l f HV) as [A|[[]|[[] _]]]. exact A.
Qed.

(* ------------------------------------------------------------------------------------------ *)
(* generic folds                                                                               *)
(* ------------------------------------------------------------------------------------------ *)
Lemma foldM_G3 {A} (f : st -> A -> res st) (l : list A) s :
  (forall s a s', f s a = Ok s' -> G3 s s') -> wpg false (foldM f l s) (G3 s).
Proof.
  intros Hf. apply (wpg_foldM false f (G3 s)); [|apply G3_refl].
  intros s1 a _ G1. apply wpg_of_ok. intros s2 H2. eapply G3_trans; [exact G1 | eapply Hf; exact H2].
Qed.

Lemma set_fstate_G3 l new s s' :
  new <> FPlanned -> new <> FOutdated -> set_fstate l new s = Ok s' -> G3 s s'.
Proof. apply set_fstate_hash_G3. Qed.

(* ------------------------------------------------------------------------------------------ *)
(* Step.mark_completed, failure branch                                                         *)
(* ------------------------------------------------------------------------------------------ *)
Lemma In_file_products step p l s : Inv hh s -> In l (file_products_in step p s) ->
  creator_of (KFile, l) s = Some (KStep, step).
Proof. intros HI H. apply file_products_in_In in H. destruct H as [H _]. eapply products_creator; eassumption. Qed.

Lemma mark_completed_fail_GG step wd s :
  Inv hh s -> wpg false (mark_completed step false wd s) (GG s).
Proof.
  intros HI. unfold mark_completed.
  destruct (is_some (find_step step s)) eqn:Eg; cbn [negb]; [|exact I].
  apply wpg_bind.
  set (L := file_products_in step is_built s).
  (* first fold: BUILT products become OUTDATED; only rows of L change *)
  eapply wpg_weaken.
  { apply (wpg_foldM false _ (fun s' => Inv hh s' /\ SO s s' /\ steps s' = steps s /\ shash s' = shash s /\
                                      forall f, ~ In f L -> find_file f s' = find_file f s)).
    - intros s1 l Hl [I1 [S1 [T1 [U1 F1]]]]. unfold set_fstate. eapply wpg_weaken.
      + apply (@set_fstate_hash_spec hh); [exact I1 | discriminate | intros; reflexivity | intros H; discriminate].
      + intros s2 [I2 [S2 [T2 [U2 [Hoth _]]]]]. split; [exact I2|]. split; [eapply SO_trans; eassumption|].
        split; [congruence|]. split; [congruence|]. intros f Hf. rewrite Hoth; [apply F1; exact Hf|].
        intros ->. contradiction.
    - split; [exact HI|]. split; [apply SO_refl|]. auto. }
  intros s1 [I1 [S1 [T1 [U1 F1]]]]. apply wpg_bind.
  (* the step ends FAILED or PENDING *)
  assert (Hstate : wpg false
            (if wd
             then match find_step step s1 with
                  | None => Internal 120
                  | Some r =>
                    let dc := sdc r + 1 in
                    let s' := upd_step step (fun r => mkS (sl r) (sst r) (sneed r) (sdef r) dc (shold r)) s1 in
                    if dc <=? defer_cap s then set_sstate step SPending (has_unavailable_dynamic_input step s') s'
                    else set_sstate step SFailed false s'
                  end
             else set_sstate step SFailed false s1)
            (fun s2 => Inv hh s2 /\ G3 s1 s2 /\ sstate_of step s2 <> Some SSucceeded /\ files s2 = files s1 /\ nodes s2 = nodes s1)).
  { assert (Hset : forall new d t, Inv hh t -> new <> SSucceeded -> new <> SRunning -> find_step step t <> None ->
               wpg false (set_sstate step new d t)
                   (fun t' => Inv hh t' /\ G3 t t' /\ sstate_of step t' <> Some SSucceeded /\ files t' = files t /\ nodes t' = nodes t)).
    { intros new d t It H1 H2 Hex. eapply wpg_weaken.
      - apply wpg_conj; [apply (@set_sstate_spec hh); [exact It | intros H; discriminate]|].
        apply wpg_of_ok. intros t' Ht'. exact (set_sstate_G3 _ _ _ _ _ H1 H2 Ht').
      - intros t' [[It' [St' [Ft' [_ [_ [Hn _]]]]]] Gt']. split; [exact It'|]. split; [exact Gt'|].
        split; [rewrite (Hn Hex); congruence|]. split; [exact Ft' | apply (so_nodes _ _ St')]. }
    assert (Hex1 : find_step step s1 <> None).
    { eapply SO_find_step; [exact S1|]. apply is_some_true. exact Eg. }
    destruct wd.
    - destruct (find_step step s1) as [r|] eqn:Hr; [|exact I]. cbn zeta.
      set (g := fun r0 : srow => mkS (sl r0) (sst r0) (sneed r0) (sdef r0) (sdc r + 1) (shold r0)).
      destruct (upd_step_inv step g s1 I1) as [I2 S2]; [reflexivity | |].
      { intros r0 Hr0 _. exact (inv_sw _ I1 r0 Hr0). }
      assert (G2 : G3 s1 (upd_step step g s1)). { apply upd_step_G3; [reflexivity | intros r0; left; reflexivity]. }
      assert (Hex2 : find_step step (upd_step step g s1) <> None).
      { eapply SO_find_step; [exact S2|]. rewrite Hr. discriminate. }
      destruct (sdc r + 1 <=? defer_cap s);
        (eapply wpg_weaken; [apply Hset; [exact I2 | discriminate | discriminate | exact Hex2]|]);
        intros t' [A [B [C [D E]]]]; (split; [exact A|]); (split; [eapply G3_trans; eassumption|]); (split; [exact C|]);
        (split; [rewrite D; reflexivity | rewrite E; reflexivity]).
    - apply Hset; [exact I1 | discriminate | discriminate | exact Hex1]. }
  eapply wpg_weaken; [exact Hstate|]. intros s2 [I2 [G12 [Hns2 [Hf2 Hn2]]]]. apply wpg_bind.
  assert (Hdet : wpg false (match sstate_of step s2 with
                            | Some SFailed => detach_created_steps step s2
                            | _ => Ok s2 end) (fun s3 => Inv hh s3 /\ G3 s2 s3 /\ files s3 = files s2)).
  { destruct (sstate_of step s2) as [[]|]; try (cbn; split; [exact I2|split; [apply G3_refl | reflexivity]]).
    unfold detach_created_steps. eapply wpg_weaken.
    - apply (@detach_list_spec hh); [exact I2|]. intros p Hp. apply filter_In in Hp. destruct Hp as [Hp _].
      apply (products_facts (KStep, step) s2 p I2); [discriminate | exact Hp].
    - intros s3 [A [[_ [B _]] C]]. auto. }
  eapply wpg_weaken; [exact Hdet|]. intros s3 [I3 [G23 Hf3]]. cbn [wpg].
  (* assemble *)
  assert (G13 : G3 s1 (delete_hash step s3)). { eapply G3_trans; [exact G12|]. eapply G3_trans; [exact G23 | apply delete_hash_G3]. }
  constructor.
  - intros l Hl. destruct (g3_st _ _ G13 l _ Hl) as [[A _]|A]; [congruence|].
    unfold sstate_of, find_step in *. rewrite T1 in A. exact A.
  - intros l Hl. destruct (g3_st _ _ G13 l _ Hl) as [[_ A]|A]; [congruence|].
    unfold sstate_of, find_step in *. rewrite T1 in A. exact A.
  - intros l Hl. apply (g3_hash _ _ G13) in Hl. unfold has_hash in *. rewrite U1 in Hl. exact Hl.
  - intros l f [A [B C]].
    assert (A1 : sstate_of l s1 = Some SSucceeded).
    { destruct (g3_st _ _ G13 l _ A) as [[X _]|X]; [congruence | exact X]. }
    assert (B1 : creator_of (KFile, f) s1 = Some (KStep, l)) by (apply (g3_cre _ _ G13); exact B).
    assert (C1 : po f s1) by (apply (g3_po _ _ G13); exact C).
    assert (Hl : l <> step).
    { intros ->. (* the step itself is not SUCCEEDED at the end *)
      assert (Hs3 : sstate_of step s3 = Some SSucceeded) by exact A.
      destruct (g3_st _ _ G23 step _ Hs3) as [[X _]|X]; [congruence | exact (Hns2 X)]. }
    split; [unfold sstate_of, find_step in *; rewrite T1 in A1; exact A1|].
    split; [rewrite <- (SO_creator_of _ _ _ S1); exact B1|].
    assert (Hnl : ~ In f L).
    { intros Hin. pose proof (In_file_products _ _ _ _ HI Hin) as Hc.
      rewrite (SO_creator_of _ _ _ S1) in B1. rewrite Hc in B1. inversion B1. congruence. }
    unfold po, fstate_of in *. rewrite (F1 f Hnl) in C1. exact C1.
Qed.

(* ------------------------------------------------------------------------------------------ *)
(* Step.mark_completed, success branch                                                         *)
(* ------------------------------------------------------------------------------------------ *)
Lemma no_planned_product_spec l s : no_planned_product_b l s = true -> Inv hh s ->
  forall f, creator_of (KFile, f) s = Some (KStep, l) -> fstate_of f s <> Some FPlanned.
Proof.
  intros H HI f Hc Hp. unfold no_planned_product_b in H. rewrite forallb_forall in H.
  rewrite creator_of_findn in Hc. destruct (findn (KFile, f) (nodes s)) as [n|] eqn:Hn; [|discriminate].
  pose proof (findn_In _ _ _ Hn) as [Hin Hk]. specialize (H n Hin). rewrite Hk, Hc in H.
  rewrite key_eqb_refl, Hp in H. discriminate.
Qed.

Lemma products_of_creator l f s : Inv hh s -> creator_of (KFile, f) s = Some (KStep, l) ->
  In (KFile, f) (products (KStep, l) s).
Proof.
  intros HI Hc. rewrite creator_of_findn in Hc. destruct (findn (KFile, f) (nodes s)) as [n|] eqn:Hn; [|discriminate].
  pose proof (findn_In _ _ _ Hn) as [Hin Hk]. rewrite products_eq. apply in_map_iff. exists n. split; [exact Hk|].
  apply filter_In. split; [exact Hin|]. apply is_prod_of_true. split; [exact Hc | rewrite Hk; discriminate].
Qed.

Lemma mark_completed_succ step wd s :
  Inv hh s -> J1 s -> K s ->
  (forall f, creator_of (KFile, f) s = Some (KStep, step) -> fstate_of f s <> Some FPlanned) ->
  wpg false (mark_completed step true wd s) (fun s' => J1 s' /\ K s').
Proof.
  intros HI HJ HK Hnp. unfold mark_completed.
  destruct (is_some (find_step step s)) eqn:Eg; cbn [negb]; [|exact I].
  apply is_some_true in Eg.
  apply wpg_bind.
  destruct (set_sstate step SSucceeded false s) as [s1|t|t] eqn:Es1; try exact I.
  pose proof (@set_sstate_spec hh false step SSucceeded false s HI (fun H _ => False_ind _ (diff_false_true H))) as Hsp.
  rewrite Es1 in Hsp. cbn in Hsp. destruct Hsp as [I1 [S1 [F1 [U1 [Hoth1 [Hnew1 _]]]]]]. specialize (Hnew1 Eg).
  cbn [wpg].
  set (L := file_products_in step is_outdated s1).
  (* every violation of the completed step in s1 is an OUTDATED product, i.e. in L; other steps have none *)
  assert (HV1 : forall l f, V s1 l f -> l = step /\ In f L).
  { intros l f [A [B C]]. destruct (str_eq_dec l step) as [->|Hne].
    - split; [reflexivity|]. unfold L, file_products_in. apply in_map_iff. exists (KFile, f). split; [reflexivity|].
      apply filter_In. split; [apply products_of_creator; assumption|]. cbn.
      assert (Bs : creator_of (KFile, f) s = Some (KStep, step)) by (rewrite <- (SO_creator_of _ _ _ S1); exact B).
      destruct C as [C|C]; rewrite C; [|reflexivity].
      exfalso. apply (Hnp f Bs). unfold fstate_of, find_file in *. rewrite F1 in C. exact C.
    - exfalso. apply (HJ l f). split; [|split].
      + unfold sstate_of in *. rewrite (Hoth1 l Hne) in A. exact A.
      + rewrite <- (SO_creator_of _ _ _ S1). exact B.
      + unfold po, fstate_of, find_file in *. rewrite F1 in C. exact C. }
  apply wpg_bind. eapply wpg_weaken.
  { apply (wpg_foldM_rem false _ (fun rest cur =>
             Inv hh cur /\ GG s1 cur /\ forall l f, V cur l f -> l = step /\ In f rest)).
    - intros cur l rest [Ic [Gc Vc]]. apply wpg_bind. unfold set_fstate.
      destruct (set_fstate_hash l FBuilt None cur) as [c1|t|t] eqn:Ec1; try exact I.
      pose proof (@set_fstate_hash_spec hh false l FBuilt None cur Ic) as Hsf.
      rewrite Ec1 in Hsf. cbn in Hsf.
      destruct Hsf as [Ic1 [Sc1 [_ [_ [_ [Hnewc _]]]]]]; [discriminate | intros; reflexivity | intros H; discriminate|].
      assert (Gc1 : G3 cur c1). { eapply set_fstate_hash_G3; [| |exact Ec1]; discriminate. }
      cbn [wpg]. eapply wpg_weaken.
      + apply wpg_conj; [apply (@mark_consumers_pending_spec hh); exact Ic1 | apply (@mark_consumers_pending_GG hh); exact Ic1].
      + intros c2 [[Ic2 _] Gc2]. split; [exact Ic2|]. split; [eapply GG_trans; [exact Gc|]; eapply GG_trans; [apply G3_GG; exact Gc1 | exact Gc2]|].
        intros x f HV2. pose proof (gg_nv _ _ Gc2 x f HV2) as HV1'.
        pose proof (gg_nv _ _ (G3_GG _ _ Gc1) x f HV1') as HVc. destruct (Vc x f HVc) as [Hx [Hf|Hf]]; [|auto].
        (* f = l: its row is BUILT in c1 *)
        exfalso. subst f. destruct HV1' as [_ [_ Cp]]. destruct HVc as [_ [_ Cc]].
        assert (Hrow : find_file l cur <> None).
        { unfold po, fstate_of in Cc. destruct (find_file l cur); [discriminate | destruct Cc; discriminate]. }
        unfold po in Cp. rewrite (Hnewc Hrow) in Cp. destruct Cp; discriminate.
    - split; [exact I1|]. split; [apply GG_refl | exact HV1]. }
  intros s2 [I2 [G12 V2]]. cbn [wpg].
  split.
  - (* J1 *)
    intros l f [A [B C]]. destruct (V2 l f) as [_ []].
    split; [|split].
    + unfold sstate_of, find_step, store_hash in *. destruct (has_hash step s2); exact A.
    + unfold creator_of, find_node, store_hash in *. destruct (has_hash step s2); exact B.
    + unfold po, fstate_of, find_file, store_hash in *. destruct (has_hash step s2); exact C.
  - (* K *)
    intros l Hr.
    assert (Hr2 : sstate_of l s2 = Some SRunning).
    { unfold sstate_of, find_step, store_hash in *. destruct (has_hash step s2); exact Hr. }
    pose proof (gg_run _ _ G12 l Hr2) as Hr1.
    assert (Hne : l <> step). { intros ->. rewrite Hnew1 in Hr1. discriminate. }
    assert (Hrs : sstate_of l s = Some SRunning). { unfold sstate_of in *. rewrite (Hoth1 l Hne) in Hr1. exact Hr1. }
    destruct (has_hash l (store_hash step s2)) eqn:Eh; [|reflexivity].
    assert (Hh2 : has_hash l s2 = true).
    { unfold store_hash in Eh. destruct (has_hash step s2); [exact Eh|]. unfold has_hash in *. cbn in Eh.
      apply str_eqb_neq in Hne. rewrite Hne in Eh. exact Eh. }
    pose proof (gg_hash _ _ G12 l Hh2) as Hh1. unfold has_hash in Hh1. rewrite U1 in Hh1.
    pose proof (HK l Hrs). unfold has_hash in *. congruence.
Qed.

(* ------------------------------------------------------------------------------------------ *)
(* delete_detached, reset_interrupted, hold, release                                           *)
(* ------------------------------------------------------------------------------------------ *)
Lemma dd_loop_G3 fuel : forall lost s, G3 s (fst (dd_loop fuel lost s)).
Proof.
  induction fuel as [|fuel IH]; intros lost s; cbn [dd_loop]; [apply G3_refl|].
  destruct (find (fun n => deletable n s) (nodes s)); [|apply G3_refl].
  eapply G3_trans; [apply delete_node_G3 | apply IH].
Qed.

Lemma delete_detached_GG s : wpg false (delete_detached s) (GG s).
Proof.
  unfold delete_detached. eapply wpg_weaken.
  - apply (wpg_foldM false _ (G3 s)); [|apply dd_loop_G3].
    intros s1 c _ G1. destruct (find_node c s1); [|exact G1]. unfold after_lost_product.
    destruct (fst c); cbn; try exact I; [eapply G3_trans; [exact G1 | apply delete_hash_G3] | exact G1].
  - intros s' H. apply G3_GG. exact H.
Qed.

Lemma set_sstate_raw_G3 l new s s' :
  new <> SSucceeded -> new <> SRunning -> set_sstate_raw l new s = Ok s' -> G3 s s'.
Proof.
  intros H1 H2. unfold set_sstate_raw. destruct (find_step l s); [apply set_sstate_G3; assumption|].
  intros H; inversion H. apply G3_refl.
Qed.

Lemma reset_interrupted_GG s : Inv hh s -> wpg false (reset_interrupted s) (GG s).
Proof.
  intros HI. unfold reset_interrupted.
  apply wpg_bind. eapply wpg_weaken.
  { apply (wpg_foldM false _ (fun s' => Inv hh s' /\ G3 s s')); [|split; [exact HI | apply G3_refl]].
    intros s1 r _ [I1 G1]. destruct (sst r); try (cbn; split; assumption). eapply wpg_weaken.
    - apply wpg_conj; [apply (@set_sstate_raw_spec hh); exact I1|]. apply wpg_of_ok. intros s2 H2.
      eapply set_sstate_raw_G3; [| |exact H2]; discriminate.
    - intros s2 [I2 G2]. split; [exact I2 | eapply G3_trans; eassumption]. }
  intros s1 [I1 G01]. apply wpg_bind. eapply wpg_weaken.
  { apply (wpg_foldM false _ (fun s' => Inv hh s' /\ G3 s1 s')); [|split; [exact I1 | apply G3_refl]].
    intros s2 r _ [I2 G2]. destruct (sst r); try (cbn; split; assumption). eapply wpg_weaken.
    - apply wpg_conj; [apply (@set_sstate_raw_spec hh); exact I2|]. apply wpg_of_ok. intros s3 H3.
      eapply set_sstate_raw_G3; [| |exact H3]; discriminate.
    - intros s3 [I3 G3']. split; [exact I3 | eapply G3_trans; eassumption]. }
  intros s2 [I2 G12].
  eapply wpg_weaken.
  { apply (wpg_foldM false _ (fun s' => Inv hh s' /\ GG s2 s')); [|split; [exact I2 | apply GG_refl]].
    intros s3 r _ [I3 G3']. destruct (sstate_of (sl r) s3) as [[]|]; try (cbn; split; assumption).
    destruct (is_detached (KStep, sl r) s3); [cbn; split; assumption|].
    eapply wpg_weaken.
    - apply wpg_conj; [apply (@mark_step_pending_spec hh); [exact I3 | intros H; discriminate] | apply (@mark_step_pending_GG hh); exact I3].
    - intros s4 [[I4 _] G4]. split; [exact I4 | eapply GG_trans; eassumption]. }
  intros s3 [_ G23]. eapply GG_trans; [apply G3_GG; eapply G3_trans; eassumption | exact G23].
Qed.

Lemma hold_G3 step s s' : hold step s = Ok s' -> G3 s s'.
Proof.
  unfold hold. destruct (negb (is_some (find_step step s))); [discriminate|]. intros H; inversion H.
  apply upd_step_G3; [reflexivity | intros r; left; reflexivity].
Qed.
Lemma release_G3 step s s' : release step s = Ok s' -> G3 s s'.
Proof.
  unfold release. destruct (find_step step s); [|discriminate]. destruct (shold s0 =? 0); [discriminate|].
  intros H; inversion H. apply upd_step_G3; [reflexivity | intros r; left; reflexivity].
Qed.

End HH.
