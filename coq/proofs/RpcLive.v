(* C16, liveness part: on the connection transition system of model/Rpc.v, under a fairness /
   termination hypothesis on the environment (Section hypotheses, nothing global), every request
   that was received is eventually answered on the wire, or its reply is dropped, which only
   happens on a connection that is going down (the client then sees the connection end and fails
   every pending call with ConnectionResetError: C16_client_pairs_by_id).

   The environment is an infinite schedule `sched : nat -> event`, otherwise arbitrary
   (adversarial fragmentations, completions in any order, stop, garbage, peer gone at any time).
   Hypotheses:
     fair_complete  a handler in flight eventually ends (handlers terminate; a cancelled one too)
     fair_drain     a pending writer.drain() eventually returns or raises ConnectionError
     nodup          the client does not reuse a call id on the connection (_next_call_id)        *)
From Coq Require Import List Arith NArith Bool Lia.
From SV Require Import lib.Bytes.
From SV Require Import lib.RpcTypes.
From SV Require Import gen.GenRpc.
From SV Require Import model.Rpc.
From SV Require Import proofs.RpcProofs.
Import ListNotations.
Open Scope N_scope.

Definition qids (c : conn) : list N := map fst (c_queue c).
Definition draining (c : conn) : bool :=
  match c_send c with SDrain | SDrainFail => true | _ => false end.

(* number of reply objects for a call id: written, queued or dropped *)
Definition R (c : conn) (id : N) : nat := cnt id (reply_ids c).
Definition I (c : conn) (id : N) : nat := cnt id (inflight_ids c).

Lemma M_RI c id : M c id = (R c id + I c id)%nat.
Proof. apply M_split. Qed.

(* invariant: something is queued only while a drain is pending; a failed connection has no
   live sender *)
Definition qinv0 (c : conn) : Prop := sender_alive (c_send c) = false -> c_queue c = [].
Definition qinv (c : conn) : Prop := draining c = false -> c_queue c = [].
Definition ainv (c : conn) : Prop := sender_alive (c_send c) = true -> c_fail c = FNone.

Lemma qinv_qinv0 c : qinv c -> qinv0 c.
Proof.
  unfold qinv, qinv0, draining. intros H Ha. apply H. destruct (c_send c); try reflexivity; discriminate.
Qed.

Lemma pump_qinv c : qinv0 c -> qinv (pump_send c).
Proof.
  dconn c. unfold qinv0, qinv, draining, pump_send. cbn [c_send c_queue c_stop]. intros H.
  destruct sd; cbn.
  - destruct q as [|[i r] q']; [destruct st; cbn; auto|]. destruct r; cbn; intros; discriminate.
  - intros; discriminate.
  - intros; discriminate.
  - intros _. apply H. reflexivity.
  - intros _. apply H. reflexivity.
Qed.

Lemma pump_ainv c : ainv c -> ainv (pump_send c).
Proof.
  unfold ainv. destruct (pump_frame c) as (_ & _ & _ & _ & F & _ & A). rewrite F. intros H Ha. apply H, A, Ha.
Qed.

Lemma pump_draining c : draining c = true -> pump_send c = c.
Proof. dconn c. unfold draining, pump_send. cbn [c_send]. destruct sd; try discriminate; reflexivity. Qed.

Lemma enqueue_qinv0 r c : qinv0 c -> qinv0 (enqueue r c).
Proof.
  dconn c. unfold qinv0, enqueue, queue_full, completed_maxsize. cbn [c_send]. destruct (sender_alive sd) eqn:A; cbn; intros H Ha.
  - rewrite A in Ha. discriminate.
  - apply H. reflexivity.
Qed.

Lemma enqueue_ainv r c : ainv c -> ainv (enqueue r c).
Proof.
  unfold ainv. destruct (enqueue_frame r c) as (_ & _ & S & _ & F & _). rewrite S, F. auto.
Qed.

Lemma teardown_qinv cause mark c : qinv c -> qinv (teardown cause mark c).
Proof.
  dconn c. unfold qinv, teardown. cbn [c_fail]. destruct fl; auto.
Qed.

Lemma teardown_ainv cause mark c : ainv c -> ainv (teardown cause mark c).
Proof.
  dconn c. unfold ainv, teardown. cbn [c_fail]. destruct fl; auto. cbn. discriminate.
Qed.

Lemma teardown_queue cause mark c :
  c_fail c = FNone -> c_queue (teardown cause mark c) = [].
Proof. dconn c. unfold teardown. cbn [c_fail]. intros ->. reflexivity. Qed.

(* --- reply objects are never destroyed ------------------------------------------------------- *)

Lemma pump_R c id : R (pump_send c) id = R c id.
Proof.
  pose proof (pump_M c id) as HM. rewrite !M_RI in HM. unfold I, inflight_ids in *.
  destruct (pump_frame c) as (_ & _ & _ & _ & _ & F & _). rewrite F in HM. lia.
Qed.

Lemma enqueue_R r c id : R (enqueue r c) id = (R c id + one (fst r) id)%nat.
Proof.
  pose proof (enqueue_M r c id) as HM. rewrite !M_RI in HM. unfold I, inflight_ids in *.
  destruct (enqueue_frame r c) as (_ & _ & _ & _ & _ & F & _). rewrite F in HM. lia.
Qed.

Lemma teardown_R cause mark c id : (R c id <= R (teardown cause mark c) id)%nat.
Proof.
  pose proof (teardown_M cause mark c id) as HM. rewrite !M_RI in HM.
  assert (I (teardown cause mark c) id <= I c id)%nat.
  { dconn c. unfold I, inflight_ids, teardown. cbn [c_fail]. destruct fl; cbn; lia. }
  lia.
Qed.

Section Live.
  Variable classify : str -> option request.
  Variable handler : str -> lookup.
  Notation step := (step classify handler).
  Notation run := (run classify handler).
  Notation recv_items := (recv_items classify handler).
  Notation accept := (accept handler).

  Lemma accept_facts id0 rq c :
    (qinv0 c -> qinv0 (accept id0 rq c)) /\ (ainv c -> ainv (accept id0 rq c))
    /\ (forall id, R c id <= R (accept id0 rq c) id)%nat
    /\ (sender_alive (c_send c) = true -> exists extra, c_queue (accept id0 rq c) = c_queue c ++ extra).
  Proof.
    unfold Rpc.accept.
    destruct (dispatch (handler (rq_name rq)) (rq_args_ok rq)).
    - destruct (rq_immediate rq) as [o|].
      + repeat split.
        * intros H. apply enqueue_qinv0. dconn c. exact H.
        * intros H. apply enqueue_ainv. dconn c. exact H.
        * intros id. rewrite enqueue_R. dconn c. unfold R, reply_ids. cbn. lia.
        * intros A. dconn c. unfold enqueue, queue_full, completed_maxsize. cbn [c_send set_completed set_invoked set_received] in *.
          rewrite A. cbn. eexists. reflexivity.
      + repeat split.
        * dconn c. auto.
        * dconn c. auto.
        * intros id. dconn c. unfold R, reply_ids. cbn. lia.
        * intros _. exists []. dconn c. cbn. rewrite app_nil_r. reflexivity.
    - repeat split.
      * intros H. apply enqueue_qinv0. dconn c. exact H.
      * intros H. apply enqueue_ainv. dconn c. exact H.
      * intros id. rewrite enqueue_R. dconn c. unfold R, reply_ids. cbn. lia.
      * intros A. dconn c. unfold enqueue, queue_full, completed_maxsize. cbn [c_send set_received] in *. rewrite A. cbn. eexists. reflexivity.
    - repeat split.
      * intros H. apply enqueue_qinv0. dconn c. exact H.
      * intros H. apply enqueue_ainv. dconn c. exact H.
      * intros id. rewrite enqueue_R. dconn c. unfold R, reply_ids. cbn. lia.
      * intros A. dconn c. unfold enqueue, queue_full, completed_maxsize. cbn [c_send set_received] in *. rewrite A. cbn. eexists. reflexivity.
  Qed.

  Lemma recv_items_facts mark items : forall c,
    (qinv0 c -> qinv0 (recv_items mark items c)) /\ (ainv c -> ainv (recv_items mark items c))
    /\ (forall id, R c id <= R (recv_items mark items c) id)%nat
    /\ (sender_alive (c_send c) = true -> c_fail c = FNone ->
        c_queue (recv_items mark items c) = [] \/
        (c_send (recv_items mark items c) = c_send c /\
         exists extra, c_queue (recv_items mark items c) = c_queue c ++ extra)).
  Proof.
    induction items as [|it rest IH]; intros c; cbn [Rpc.recv_items].
    { repeat split; auto. intros _ _. right. split; [reflexivity|]. exists []. rewrite app_nil_r. reflexivity. }
    assert (Same : (qinv0 c -> qinv0 c) /\ (ainv c -> ainv c) /\ (forall id, R c id <= R c id)%nat /\
                   (sender_alive (c_send c) = true -> c_fail c = FNone ->
                    c_queue c = [] \/ (c_send c = c_send c /\ exists extra, c_queue c = c_queue c ++ extra))).
    { repeat split; auto. intros _ _. right. split; [reflexivity|]. exists []. rewrite app_nil_r. reflexivity. }
    assert (Tear : forall cause,
                   (qinv0 c -> qinv0 (teardown cause mark c)) /\ (ainv c -> ainv (teardown cause mark c)) /\
                   (forall id, R c id <= R (teardown cause mark c) id)%nat /\
                   (sender_alive (c_send c) = true -> c_fail c = FNone ->
                    c_queue (teardown cause mark c) = [] \/
                    (c_send (teardown cause mark c) = c_send c /\
                     exists extra, c_queue (teardown cause mark c) = c_queue c ++ extra))).
    { intros cause. repeat split.
      - intros H. dconn c. unfold qinv0, teardown in *. cbn [c_fail]. destruct fl; auto.
      - apply teardown_ainv.
      - intros id. apply teardown_R.
      - intros _ F. left. apply teardown_queue. exact F. }
    destruct (c_recv c) eqn:Rc; try exact Same.
    destruct it as [id [body|]|id size].
    - destruct (classify body) as [rq|]; [|apply Tear].
      destruct (accept_facts id rq c) as (A1 & A2 & A3 & A4).
      destruct (IH (accept id rq c)) as (B1 & B2 & B3 & B4).
      repeat split.
      + auto.
      + auto.
      + intros j. specialize (A3 j). specialize (B3 j). lia.
      + intros Al F. destruct (accept_frame handler id rq c) as (_ & _ & S & Fl & _).
        destruct (A4 Al) as [e1 E1].
        rewrite <- S in Al. rewrite <- Fl in F. destruct (B4 Al F) as [Z|[S2 [e2 E2]]]; [left; exact Z|].
        right. split; [rewrite S2; exact S|]. exists (e1 ++ e2). rewrite E2, E1, app_assoc. reflexivity.
    - destruct server_none_rule; try apply Tear.
      repeat split.
      + dconn c. auto.
      + dconn c. auto.
      + intros j. dconn c. unfold R, reply_ids. cbn. lia.
      + intros _ _. right. dconn c. cbn. split; [reflexivity|]. exists []. rewrite app_nil_r. reflexivity.
    - apply Tear.
  Qed.

  Lemma take_inflight_some id l :
    In id (map fst l) -> exists n rest, take_inflight id l = Some (n, rest).
  Proof.
    induction l as [|[i m] l IH]; cbn [map fst In take_inflight]; [tauto|].
    intros [E|H].
    - subst. rewrite N.eqb_refl. eauto.
    - destruct (i =? id); [eauto|]. destruct (IH H) as (n & rest & ->). eauto.
  Qed.

  (* ---------------- the invariants along any run ---------------- *)

  Lemma step_inv c e : qinv c /\ ainv c -> qinv (step c e) /\ ainv (step c e).
  Proof.
    intros [Q A]. pose proof (qinv_qinv0 c Q) as Q0.
    destruct e as [b|id o| | | | |]; cbn [Rpc.step].
    - destruct (c_recv c) eqn:Rc; auto.
      destruct (feed (c_rd c) b) as [rd' items].
      destruct (recv_items_facts (length (c_queue c)) items (set_rd c rd')) as (B1 & B2 & _).
      split; [apply pump_qinv, B1|apply pump_ainv, B2]; dconn c; auto.
    - destruct (take_inflight id (c_inflight c)) as [[n rest]|]; auto.
      split; [apply pump_qinv, enqueue_qinv0|apply pump_ainv, enqueue_ainv]; dconn c; auto.
    - destruct (c_send c) eqn:S; auto.
      + split; [apply pump_qinv|apply pump_ainv].
        * dconn c. unfold qinv0. cbn. discriminate.
        * dconn c. unfold ainv in *. cbn in *. subst sd. intros _. apply A. reflexivity.
      + split; [apply teardown_qinv|apply teardown_ainv]; auto.
    - destruct (c_send c) eqn:S; auto.
      + dconn c. unfold qinv, ainv, end_recv, draining. cbn. destruct rc; cbn; split; auto; discriminate.
      + split; [apply teardown_qinv|apply teardown_ainv]; auto.
    - destruct (c_recv c) eqn:Rc; auto.
      split; [apply pump_qinv|apply pump_ainv]; dconn c; auto.
    - destruct (c_recv c) eqn:Rc; auto.
      split; [apply teardown_qinv|apply teardown_ainv]; auto.
    - split; [apply pump_qinv|apply pump_ainv]; dconn c; unfold end_recv; cbn; destruct rc; auto.
  Qed.

  Lemma step_R c e id : (R c id <= R (step c e) id)%nat.
  Proof.
    destruct e as [b|id0 o| | | | |]; cbn [Rpc.step].
    - destruct (c_recv c) eqn:Rc; auto.
      destruct (feed (c_rd c) b) as [rd' items]. rewrite pump_R.
      destruct (recv_items_facts (length (c_queue c)) items (set_rd c rd')) as (_ & _ & B3 & _).
      specialize (B3 id). assert (R (set_rd c rd') id = R c id) by (dconn c; reflexivity). lia.
    - destruct (take_inflight id0 (c_inflight c)) as [[n rest]|]; auto.
      rewrite pump_R, enqueue_R. assert (E : forall x y, R (set_completed (set_inflight c x) y) id = R c id)
        by (intros; dconn c; reflexivity). rewrite E. lia.
    - destruct (c_send c) eqn:S; auto.
      + rewrite pump_R. dconn c. unfold R, reply_ids. cbn. lia.
      + apply teardown_R.
    - destruct (c_send c) eqn:S; auto.
      + dconn c. unfold R, reply_ids, end_recv. cbn.
        destruct rc; cbn; rewrite ?map_app; unfold cnt; rewrite !count_occ_app; lia.
      + apply teardown_R.
    - destruct (c_recv c) eqn:Rc; auto. rewrite pump_R. dconn c. unfold R, reply_ids. cbn. lia.
    - destruct (c_recv c) eqn:Rc; auto. apply teardown_R.
    - rewrite pump_R. dconn c. unfold R, reply_ids, end_recv. cbn. destruct rc; cbn; lia.
  Qed.

  Lemma step_received c e id : In id (c_received c) -> In id (c_received (step c e)).
  Proof.
    intros H. apply cnt_In. apply cnt_In in H.
    (* received only grows: M = R + I and the accounting would not tell; direct argument *)
    assert (G : forall c0, (cnt id (c_received c0) <= cnt id (c_received (pump_send c0)))%nat)
      by (intros; rewrite pump_received; lia).
    assert (Acc : forall i rq c0, (cnt id (c_received c0) <= cnt id (c_received (accept i rq c0)))%nat).
    { intros i rq c0. unfold Rpc.accept.
      destruct (dispatch (handler (rq_name rq)) (rq_args_ok rq)).
      - destruct (rq_immediate rq); [rewrite enqueue_received|]; dconn c0; cbn -[cnt]; rewrite cnt_app; lia.
      - rewrite enqueue_received. dconn c0. cbn -[cnt]. rewrite cnt_app. lia.
      - rewrite enqueue_received. dconn c0. cbn -[cnt]. rewrite cnt_app. lia. }
    assert (Rec : forall mark items c0, (cnt id (c_received c0) <= cnt id (c_received (recv_items mark items c0)))%nat).
    { intros mark items. induction items as [|it rest IH]; intros c0; cbn [Rpc.recv_items]; [lia|].
      destruct (c_recv c0); try lia.
      destruct it as [i [body|]|i size].
      - destruct (classify body) as [rq|]; [|rewrite teardown_received; lia].
        specialize (IH (accept i rq c0)). specialize (Acc i rq c0). lia.
      - destruct server_none_rule; try (rewrite teardown_received; lia). dconn c0. cbn. lia.
      - rewrite teardown_received. lia. }
    destruct e as [b|id0 o| | | | |]; cbn [Rpc.step].
    - destruct (c_recv c) eqn:Rc; auto.
      destruct (feed (c_rd c) b) as [rd' items]. rewrite pump_received.
      specialize (Rec (length (c_queue c)) items (set_rd c rd')).
      assert (c_received (set_rd c rd') = c_received c) by (dconn c; reflexivity). rewrite H0 in Rec. lia.
    - destruct (take_inflight id0 (c_inflight c)) as [[n rest]|]; auto.
      rewrite pump_received, enqueue_received. dconn c. exact H.
    - destruct (c_send c); auto; [rewrite pump_received; dconn c; exact H|rewrite teardown_received; exact H].
    - destruct (c_send c); auto; [dconn c; unfold end_recv; cbn; destruct rc; exact H|rewrite teardown_received; exact H].
    - destruct (c_recv c); auto. rewrite pump_received. dconn c. exact H.
    - destruct (c_recv c); auto. rewrite teardown_received. exact H.
    - rewrite pump_received. dconn c. unfold end_recv. cbn. destruct rc; exact H.
  Qed.

  (* what an event that is not the end of a drain does to the queue while a drain is pending *)
  Lemma step_queue_other c e :
    draining c = true -> ainv c -> e <> EvSent -> e <> EvSendFail ->
    c_queue (step c e) = [] \/ exists extra, c_queue (step c e) = c_queue c ++ extra.
  Proof.
    intros D A N1 N2.
    assert (Al : sender_alive (c_send c) = true) by (unfold draining in D; destruct (c_send c); try discriminate; reflexivity).
    pose proof (A Al) as F.
    assert (Keep : c_queue c = [] \/ exists extra, c_queue c = c_queue c ++ extra)
      by (right; exists []; rewrite app_nil_r; reflexivity).
    destruct e as [b|id o| | | | |]; cbn [Rpc.step]; try congruence.
    - destruct (c_recv c) eqn:Rc; auto.
      destruct (feed (c_rd c) b) as [rd' items].
      destruct (recv_items_facts (length (c_queue c)) items (set_rd c rd')) as (_ & _ & _ & B4).
      assert (E1 : c_send (set_rd c rd') = c_send c) by (dconn c; reflexivity).
      assert (E2 : c_fail (set_rd c rd') = c_fail c) by (dconn c; reflexivity).
      assert (E3 : c_queue (set_rd c rd') = c_queue c) by (dconn c; reflexivity).
      rewrite E1, E2, E3 in B4. destruct (B4 Al F) as [Z|[S [extra E]]].
      + left.
        remember (recv_items (length (c_queue c)) items (set_rd c rd')) as c1.
        (* an empty queue stays empty under pump_send *)
        clear - Z. dconn c1. unfold pump_send. cbn [c_send c_queue c_stop] in *. subst q.
        destruct sd; try reflexivity. destruct st; reflexivity.
      + right. exists extra. rewrite pump_draining; [exact E|]. unfold draining in *. rewrite S. exact D.
    - destruct (take_inflight id (c_inflight c)) as [[n rest]|]; auto.
      right. exists [(id, result_of o)].
      rewrite pump_draining.
      + dconn c. unfold enqueue, queue_full, completed_maxsize. cbn [c_send set_completed set_inflight] in *. rewrite Al. reflexivity.
      + dconn c. unfold draining, enqueue, queue_full, completed_maxsize in *. cbn [c_send set_completed set_inflight] in *. rewrite Al. exact D.
    - destruct (c_recv c) eqn:Rc; auto. right. exists [].
      rewrite pump_draining; dconn c; cbn in *; [rewrite app_nil_r; reflexivity|exact D].
    - destruct (c_recv c) eqn:Rc; auto. left. apply teardown_queue. exact F.
    - right. exists []. rewrite pump_draining; dconn c; unfold end_recv, draining in *; cbn in *;
        destruct rc; cbn; rewrite ?app_nil_r; auto.
  Qed.

  (* the end of a drain: the head of the queue is written, or everything is dropped *)
  Lemma step_queue_drained c e :
    draining c = true -> ainv c -> e = EvSent \/ e = EvSendFail ->
    c_queue (step c e) = [] \/ c_queue (step c e) = tl (c_queue c).
  Proof.
    intros D A He.
    assert (Al : sender_alive (c_send c) = true) by (unfold draining in D; destruct (c_send c); try discriminate; reflexivity).
    pose proof (A Al) as F.
    destruct He as [-> | ->]; cbn [Rpc.step]; unfold draining in D; destruct (c_send c) eqn:S; try discriminate.
    - right. dconn c. unfold pump_send. cbn [c_send c_queue c_stop set_send].
      destruct q as [|[i r] q']; [destruct st; reflexivity|]. destruct r; reflexivity.
    - left. apply teardown_queue. exact F.
    - left. dconn c. unfold end_recv. cbn. destruct rc; reflexivity.
    - left. apply teardown_queue. exact F.
  Qed.

  (* ---------------- the infinite schedule and fairness ---------------- *)

  Variable sched : nat -> event.

  Fixpoint st (n : nat) : conn :=
    match n with O => conn_init | S k => step (st k) (sched k) end.

  Lemma st_run n : st n = run conn_init (map sched (seq 0 n)).
  Proof.
    induction n as [|n IH]; [reflexivity|].
    rewrite seq_S, map_app. unfold Rpc.run in *. rewrite fold_left_app, <- IH. reflexivity.
  Qed.

  Hypothesis fair_complete :
    forall n id, In id (inflight_ids (st n)) -> exists d o, sched (n + d) = EvComplete id o.
  Hypothesis fair_drain :
    forall n, draining (st n) = true -> exists d, sched (n + d) = EvSent \/ sched (n + d) = EvSendFail.
  Hypothesis nodup : forall n, NoDup (c_received (st n)).

  Lemma st_inv n : qinv (st n) /\ ainv (st n).
  Proof.
    induction n as [|n IH]; [split; [intros _; reflexivity|intros _; reflexivity]|]. cbn [st]. apply step_inv, IH.
  Qed.

  Lemma st_acct n id : (R (st n) id + I (st n) id)%nat = cnt id (c_received (st n)).
  Proof. rewrite <- M_RI, st_run. apply (run_acct classify handler _ conn_init init_acct). Qed.

  Lemma st_R_mono id n : forall m, (n <= m)%nat -> (R (st n) id <= R (st m) id)%nat.
  Proof.
    induction m as [|m IH]; intros H.
    - assert (n = 0%nat) by lia. subst. lia.
    - destruct (Nat.eq_dec n (S m)) as [->|Hne]; [lia|].
      assert (n <= m)%nat by lia. specialize (IH H0). cbn [st]. pose proof (step_R (st m) (sched m) id). lia.
  Qed.

  Lemma st_received_mono id n : forall m, (n <= m)%nat -> In id (c_received (st n)) -> In id (c_received (st m)).
  Proof.
    induction m as [|m IH]; intros H Hin.
    - assert (n = 0%nat) by lia. subst. exact Hin.
    - destruct (Nat.eq_dec n (S m)) as [->|Hne]; [exact Hin|].
      cbn [st]. apply step_received. apply IH; [lia|exact Hin].
  Qed.

  (* phase 1: a handler in flight ends *)
  Lemma leaves_inflight id : forall d n o,
    sched (n + d) = EvComplete id o -> exists m, (n <= m)%nat /\ ~ In id (inflight_ids (st m)).
  Proof.
    induction d as [|d IH]; intros n o Hs.
    - destruct (in_dec N.eq_dec id (inflight_ids (st n))) as [Hin|Hout]; [|exists n; split; [lia|exact Hout]].
      exists (S n). split; [lia|]. cbn [st]. rewrite Nat.add_0_r in Hs. rewrite Hs. cbn [Rpc.step].
      destruct (take_inflight_some id _ Hin) as (nm & rest & T). rewrite T.
      match goal with |- context [pump_send ?x] => destruct (pump_frame x) as (_ & _ & _ & _ & _ & F & _) end.
      unfold inflight_ids. rewrite F.
      match goal with |- context [enqueue ?r ?c0] => destruct (enqueue_frame r c0) as (_ & _ & _ & _ & _ & F2 & _) end.
      rewrite F2. assert (E : forall c0 x y, c_inflight (set_completed (set_inflight c0 x) y) = x) by (intros c0; dconn c0; reflexivity).
      rewrite E. intros Hin'. apply cnt_In in Hin'.
      pose proof (take_inflight_cnt id _ _ _ T id) as Hc.
      pose proof (st_acct n id) as Ha. pose proof (cnt_NoDup id _ (nodup n)) as Hn.
      unfold I, inflight_ids, one in *. destruct (N.eq_dec id id); [|congruence]. lia.
    - destruct (IH (S n) o) as (m & Hm & Hout); [rewrite <- Hs; f_equal; lia|].
      exists m. split; [lia|exact Hout].
  Qed.

  (* phase 2: a queued reply leaves the queue (written, or dropped with everything else) *)
  Lemma queue_draining n q1 x q2 : c_queue (st n) = q1 ++ x :: q2 -> draining (st n) = true.
  Proof.
    intros Hq. destruct (st_inv n) as [Q _].
    destruct (draining (st n)) eqn:E; [reflexivity|]. rewrite (Q E) in Hq. destruct q1; discriminate.
  Qed.

  Lemma leaves_queue id : forall k d n q1 r q2,
    c_queue (st n) = q1 ++ (id, r) :: q2 -> length q1 = k ->
    (sched (n + d) = EvSent \/ sched (n + d) = EvSendFail) ->
    exists m, (n <= m)%nat /\ ~ In id (qids (st m)).
  Proof.
    induction k as [k IHk] using lt_wf_ind.
    assert (Base : forall n q1 r q2, c_queue (st n) = q1 ++ (id, r) :: q2 -> length q1 = k ->
                   (sched n = EvSent \/ sched n = EvSendFail) ->
                   exists m, (n <= m)%nat /\ ~ In id (qids (st m))).
    { intros n q1 r q2 Hq Hl Hs.
      destruct (st_inv n) as [Q A]. pose proof (queue_draining n _ _ _ Hq) as D.
      destruct (step_queue_drained (st n) (sched n) D A Hs) as [Z|T].
      - exists (S n). split; [lia|]. unfold qids. cbn [st]. rewrite Z. intros [].
      - destruct q1 as [|x q1'].
        + exists (S n). split; [lia|]. unfold qids. cbn [st]. rewrite T, Hq. cbn [app tl].
          intros Hin. apply cnt_In in Hin.
          pose proof (st_acct n id) as Ha. pose proof (cnt_NoDup id _ (nodup n)) as Hn.
          unfold R, reply_ids in Ha. rewrite Hq in Ha. cbn [app map fst] in Ha. rewrite !cnt_app, cnt_cons, ?cnt_app in Ha.
          unfold one in Ha. destruct (N.eq_dec id id); [|congruence]. lia.
        + cbn [length] in Hl.
          assert (Hq' : c_queue (st (S n)) = q1' ++ (id, r) :: q2) by (cbn [st]; rewrite T, Hq; reflexivity).
          pose proof (queue_draining (S n) _ _ _ Hq') as D'.
          destruct (fair_drain (S n) D') as [d' Hd'].
          destruct (IHk (length q1') ltac:(lia) d' (S n) q1' r q2 Hq' eq_refl Hd') as (m & Hm & Hout).
          exists m. split; [lia|exact Hout]. }
    induction d as [|d IHd]; intros n q1 r q2 Hq Hl Hs.
    - rewrite Nat.add_0_r in Hs. eapply Base; eauto.
    - destruct (st_inv n) as [Q A]. pose proof (queue_draining n _ _ _ Hq) as D.
      assert (Other : sched n <> EvSent -> sched n <> EvSendFail -> exists m, (n <= m)%nat /\ ~ In id (qids (st m))).
      { intros N1 N2. destruct (step_queue_other (st n) (sched n) D A N1 N2) as [Z|[extra E]].
        - exists (S n). split; [lia|]. unfold qids. cbn [st]. rewrite Z. intros [].
        - assert (Hq' : c_queue (st (S n)) = q1 ++ (id, r) :: (q2 ++ extra))
            by (cbn [st]; rewrite E, Hq, <- app_assoc; reflexivity).
          assert (Hs' : sched (S n + d) = EvSent \/ sched (S n + d) = EvSendFail)
            by (replace (S n + d)%nat with (n + S d)%nat by lia; exact Hs).
          destruct (IHd (S n) q1 r (q2 ++ extra) Hq' Hl Hs') as (m & Hm & Hout).
          exists m. split; [lia|exact Hout]. }
      destruct (sched n) eqn:En; try (apply Other; discriminate).
      + eapply Base; eauto.
      + eapply Base; eauto.
  Qed.

  (* Every request that was received is eventually answered on the wire, or its reply is dropped. *)
  Theorem eventually_answered n id :
    In id (c_received (st n)) ->
    exists m, (n <= m)%nat /\
      (In id (map fst (c_wire (st m))) \/ In id (map fst (c_dropped (st m)))).
  Proof.
    intros Hrcv.
    assert (S1 : exists m1, (n <= m1)%nat /\ ~ In id (inflight_ids (st m1))).
    { destruct (in_dec N.eq_dec id (inflight_ids (st n))) as [Hin|Hout]; [|exists n; split; [lia|exact Hout]].
      destruct (fair_complete n id Hin) as (d & o & Hs). exact (leaves_inflight id d n o Hs). }
    destruct S1 as (m1 & Hm1 & Hout1).
    pose proof (st_received_mono id n m1 Hm1 Hrcv) as Hrcv1.
    assert (R1 : (R (st m1) id >= 1)%nat).
    { pose proof (st_acct m1 id) as Ha. apply cnt_In in Hrcv1.
      assert (I (st m1) id = 0%nat).
      { unfold I. destruct (cnt id (inflight_ids (st m1))) eqn:E; [reflexivity|].
        exfalso. apply Hout1. apply cnt_In. lia. }
      lia. }
    assert (S2 : exists m2, (m1 <= m2)%nat /\ ~ In id (qids (st m2))).
    { destruct (in_dec N.eq_dec id (qids (st m1))) as [Hin|Hout]; [|exists m1; split; [lia|exact Hout]].
      unfold qids in Hin. apply in_map_iff in Hin as ([i r] & Hi & Hin). cbn in Hi. subst i.
      apply in_split in Hin as (q1 & q2 & Hq).
      destruct (fair_drain m1 (queue_draining m1 _ _ _ Hq)) as [d Hd].
      exact (leaves_queue id (length q1) d m1 q1 r q2 Hq eq_refl Hd). }
    destruct S2 as (m2 & Hm2 & Hout2).
    exists m2. split; [lia|].
    pose proof (st_R_mono id m1 m2 Hm2) as Hmono.
    assert (Q0 : cnt id (qids (st m2)) = 0%nat).
    { destruct (cnt id (qids (st m2))) eqn:E; [reflexivity|]. exfalso. apply Hout2. apply cnt_In. lia. }
    unfold R, reply_ids in Hmono, R1. rewrite !cnt_app in Hmono. rewrite !cnt_app in R1. unfold qids in Q0.
    destruct (cnt id (map fst (c_wire (st m2)))) eqn:W.
    - right. apply cnt_In. lia.
    - left. apply cnt_In. lia.
  Qed.

  (* A reply is only ever dropped on a connection that is no longer up (stop / peer gone / failure):
     the peer then sees the connection end. *)
  Theorem dropped_only_when_down m : c_dropped (st m) <> [] -> conn_up (st m) = false.
  Proof.
    intros H. destruct (conn_up (st m)) eqn:U; [|reflexivity]. exfalso. apply H.
    rewrite st_run in *. destruct (reply_exactly_once classify handler (map sched (seq 0 m))) as (_ & _ & _ & P).
    destruct (P U) as [D _]. exact D.
  Qed.

  Theorem eventually_answered_or_down n id :
    In id (c_received (st n)) ->
    exists m, (n <= m)%nat /\
      (In id (map fst (c_wire (st m)))
       \/ (In id (map fst (c_dropped (st m))) /\ conn_up (st m) = false)).
  Proof.
    intros H. destruct (eventually_answered n id H) as (m & Hm & [W|D]).
    - exists m. split; [exact Hm|left; exact W].
    - exists m. split; [exact Hm|right]. split; [exact D|]. apply dropped_only_when_down.
      intros E. rewrite E in D. destruct D.
  Qed.
End Live.
