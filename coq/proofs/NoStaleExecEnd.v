(* C01, graph level: the transaction at the end of a successful run or skip (OpExecEnd with
   success = true: update_file_hashes(new_out_hashes, SUCCEEDED) + Step.mark_completed(new_hash))
   keeps K for every step and establishes it for the completed one. *)
From Coq Require Import List NArith Bool Lia.
From SV Require Import lib.Bytes model.Graph model.NoStale proofs.NoStaleMark proofs.NoStaleRescan
     proofs.NoStaleComplete.
Import ListNotations.
Open Scope N_scope.

(* the three follow-up phases of update_file_hashes are markings, whatever the lists are *)
Lemma tail_marks (la ld lc : list str) (s1 s2 s3 s' : st) :
  single_producer s1 ->
  foldM (fun s0 l => handle_updated_file l s0) la s1 = Ok s2 ->
  foldM (fun s0 l => handle_deleted_file l s0) ld s2 = Ok s3 ->
  foldM (fun s0 l => mark_consumers_pending l s0) lc s3 = Ok s' ->
  Mk s1 s' /\ Cl s1 s'.
Proof.
  intros Hsp1 E2 E3 H.
  assert (P2 : Mk s1 s2 /\ Cl s1 s2 /\ (forall a, In a la -> True)).
  { apply (foldM_marks (fun s0 l => handle_updated_file l s0) (fun s0 _ => single_producer s0) (fun _ _ => True)).
    - intros s0 a s0' Hq Hc. destruct (handle_updated_marks a s0 s0' Hq Hc). auto.
    - intros s0 s0' a M Hq. exact (single_producer_Mk _ _ M Hq).
    - auto.
    - intros a _. exact Hsp1.
    - exact E2. }
  destruct P2 as (M2 & C2 & _).
  assert (P3 : Mk s2 s3 /\ Cl s2 s3 /\ (forall a, In a ld -> True)).
  { apply (foldM_marks (fun s0 l => handle_deleted_file l s0) (fun s0 _ => single_producer s0) (fun _ _ => True)).
    - intros s0 a s0' Hq Hc. destruct (handle_deleted_marks a s0 s0' Hq Hc) as (Ma & Ca & _). auto.
    - intros s0 s0' a M Hq. exact (single_producer_Mk _ _ M Hq).
    - auto.
    - intros a _. exact (single_producer_Mk _ _ M2 Hsp1).
    - exact E3. }
  destruct P3 as (M3 & C3 & _).
  assert (P4 : Mk s3 s' /\ Cl s3 s' /\ (forall a, In a lc -> True)).
  { apply (foldM_marks (fun s0 l => mark_consumers_pending l s0) (fun s0 _ => single_producer s0) (fun _ _ => True)).
    - intros s0 a s0' Hq Hc. destruct (marks_consumers a s0 s0' Hq Hc) as (Ma & Ca & _). auto.
    - intros s0 s0' a M Hq. exact (single_producer_Mk _ _ M Hq).
    - auto.
    - intros a _. exact (single_producer_Mk _ _ (Mk_trans _ _ _ M2 M3) Hsp1).
    - exact H. }
  destruct P4 as (M4 & C4 & _).
  pose proof (Mk_trans _ _ _ M2 M3) as M13. pose proof (Cl_trans _ _ _ M2 M3 C2 C3) as C13.
  split; [exact (Mk_trans _ _ _ M13 M4)|exact (Cl_trans _ _ _ M13 M4 C13 C4)].
Qed.

(* every file named in the update is an output that is not up to date *)
Definition out_update (hs : list (str * option N)) (s : st) : Prop :=
  forall ph r, In ph hs -> find_file (fst ph) s = Some r -> fstt r = FPlanned \/ fstt r = FOutdated.

Definition RowOut (s : st) (x : planrow) : Prop :=
  exists a0, fstate_of (p_path x) s = Some a0 /\ (a0 = FPlanned \/ a0 = FOutdated) /\ p_state x = FBuilt.

Lemma plan_rows_out (s : st) (hs : list (str * option N)) :
  out_update hs s ->
  forall acc plan,
    (forall x, In x acc -> RowOut s x) ->
    foldM (fun acc ph =>
             match find_file (fst ph) s with
             | None => Internal 118
             | Some r => match transition CSucceeded (fstt r) (is_some (snd ph)) with
                         | None => Internal 119
                         | Some (ns, act) => Ok (acc ++ [mkP (fst ph) (snd ph) ns act])
                         end
             end) hs acc = Ok plan ->
    forall x, In x plan -> RowOut s x.
Proof.
  induction hs as [|ph hs IH]; intros Hst acc plan Hacc H; cbn [foldM] in H.
  - injection H as <-. exact Hacc.
  - unfold bind in H. destruct (find_file (fst ph) s) as [r|] eqn:Ef; [|discriminate].
    destruct (transition CSucceeded (fstt r) (is_some (snd ph))) as [[ns act]|] eqn:Et; [|discriminate].
    refine (IH (fun ph' r' Hin => Hst ph' r' (or_intror Hin)) _ plan _ H).
    intros x Hx. apply in_app_or in Hx. destruct Hx as [Hx|[<-|[]]]; [apply Hacc; exact Hx|].
    pose proof (Hst ph r (or_introl eq_refl) Ef) as Hs.
    exists (fstt r). cbn [p_path p_state]. unfold fstate_of. rewrite Ef.
    split; [reflexivity|]. split; [exact Hs|].
    destruct Hs as [E|E]; rewrite E in Et; destruct (is_some (snd ph)); cbn in Et; try discriminate;
      injection Et as <- _; reflexivity.
Qed.

(* writing BUILT over PLANNED / OUTDATED only improves K *)
Lemma improved_KexP (s s1 : st) (plan : list planrow) :
  (forall x, In x plan -> RowOut s x) -> WInv s plan s1 -> K_b s = true -> KexP (fun _ => False) s1.
Proof.
  intros Hrow ((Nn & Dd & Hh) & St & Ff) HK. apply K_b_KexP in HK.
  assert (Hdet : forall k, is_detached k s1 = is_detached k s).
  { intros k. unfold is_detached, find_node. rewrite Nn. reflexivity. }
  assert (Hbetter : forall f, fstate_of f s1 = fstate_of f s \/ fstate_of f s1 = Some FBuilt).
  { intros f. destruct (Ff f) as [E|(y & Hy & Py & Sy)]; [left; exact E|].
    destruct (Hrow y Hy) as (a0 & _ & _ & Hb). right. rewrite Sy, Hb. reflexivity. }
  intros r Hr Hs Hd. rewrite St in Hr. rewrite Hdet in Hd.
  destruct (HK r Hr Hs Hd) as (Hha & Hi & Ho). split; [|split].
  - unfold has_hash in *. rewrite Hh. exact Hha.
  - intros k Hk. unfold file_inputs_of_step, sources_of in Hk. rewrite Dd in Hk.
    destruct (Hi k Hk) as [Hok|[]]. left. unfold input_ok in *. rewrite Hdet.
    apply andb_true_iff in Hok. destruct Hok as [Ha Hb]. rewrite Ha. cbn [andb].
    destruct (Hbetter (snd k)) as [E|E]; rewrite E; [exact Hb|reflexivity].
  - intros f Hf. unfold file_sinks_of_step, sinks_of in Hf. rewrite Dd in Hf. specialize (Ho f Hf).
    unfold output_ok in *. rewrite Hdet. destruct (is_detached (KFile, f) s); [reflexivity|].
    cbn [orb] in *. destruct (Hbetter f) as [E|E]; rewrite E; [exact Ho|reflexivity].
Qed.

(* update_file_hashes(new_out_hashes, SUCCEEDED) *)
Lemma K_update_outputs (hs : list (str * option N)) (s s' : st) :
  unique_labels s -> single_producer s -> out_update hs s ->
  update_file_hashes CSucceeded hs s = Ok s' -> K_b s = true ->
  K_b s' = true /\ unique_labels s' /\ single_producer s'.
Proof.
  intros Hu Hsp Hst H HK. unfold update_file_hashes, bind in H.
  match type of H with match ?p with _ => _ end = _ => destruct p as [plan| |] eqn:Ep; try discriminate end.
  pose proof (plan_rows_out s hs Hst [] plan (fun x (F : In x []) => match F with end) Ep) as Hrows.
  change (fun (s0 : st) (x : planrow) =>
            set_fstate_hash (p_path x) (p_state x)
              (Some match p_hash x with Some v => Some v | None => Some 0 end) s0) with write_row in H.
  destruct (foldM write_row plan s) as [s1| |] eqn:E1; try discriminate.
  cbv zeta in H.
  match type of H with match ?p with _ => _ end = _ => destruct p as [s2| |] eqn:E2; try discriminate end.
  match type of H with match ?p with _ => _ end = _ => destruct p as [s3| |] eqn:E3; try discriminate end.
  assert (W1 : WInv s plan s1).
  { apply (writes_inv s plan plan s s1); auto. split; [repeat split|]. split; [reflexivity|]. intros f; left; reflexivity. }
  pose proof (improved_KexP s s1 plan Hrows W1 HK) as K1.
  destruct W1 as ((N1 & D1 & H1) & St1 & _).
  assert (Hu1 : unique_labels s1) by (unfold unique_labels; rewrite St1; exact Hu).
  assert (Hsp1 : single_producer s1).
  { apply (single_producer_same_graph s s1); [repeat split; assumption|exact Hsp]. }
  destruct (tail_marks _ _ _ s1 s2 s3 s' Hsp1 E2 E3 H) as [M C].
  pose proof (KexP_Mk_Cl (fun _ => False) s1 s' Hu1 M C K1) as K4.
  assert (Hu4 : unique_labels s').
  { unfold unique_labels. destruct M as (_ & L & _). rewrite L. exact Hu1. }
  split; [|split; [exact Hu4|exact (single_producer_Mk _ _ M Hsp1)]].
  apply (KexP_K_b (fun _ => False) s' Hu4 K4). intros f [].
Qed.

Lemma update_nothing (c : cause) (s : st) : update_file_hashes c [] s = Ok s.
Proof. reflexivity. Qed.

(* the whole transaction.  Protocol hypotheses: nothing is reported for the inputs ([pre] empty),
   the reported files are outputs that are not up to date, and in the state [s1] right before
   mark_completed the inputs of the step are usable and its attached outputs are fine or are
   OUTDATED products that mark_completed turns BUILT. *)
Lemma K_op_exec_end_success (l : str) (hs : list (str * option N)) (wd : bool) (s : st) :
  unique_labels s -> single_producer s -> out_update hs s -> K_b s = true ->
  (forall s1, update_file_hashes CSucceeded hs s = Ok s1 ->
              (forall k, In k (file_inputs_of_step l s1) -> input_ok k s1 = true) /\
              (forall f, In f (file_sinks_of_step l s1) ->
                         output_ok f s1 = true \/ In f (file_products_in l is_outdated s1))) ->
  K_b (apply_op s (OpExecEnd l [] CSucceeded hs true wd)) = true.
Proof.
  intros Hu Hsp Hst HK Hproto. unfold apply_op. cbn [step_op]. rewrite update_nothing. cbn [bind].
  destruct (update_file_hashes CSucceeded hs s) as [s1| |] eqn:E1; cbn [bind]; try exact HK.
  destruct (K_update_outputs hs s s1 Hu Hsp Hst E1 HK) as (K1 & Hu1 & Hsp1).
  destruct (Hproto s1 eq_refl) as [Hin Hout].
  destruct (mark_completed l true wd s1) as [s'| |] eqn:E2; try exact HK.
  exact (K_mark_completed_success l wd s1 s' Hu1 Hsp1 K1 Hin Hout E2).
Qed.
