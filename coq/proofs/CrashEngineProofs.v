(* proofs/CrashEngineProofs.v -- C05_full for the static-DAG fragment of the engine of C01:
   every crash state of a build satisfies the pre-build invariant [Pre] of model/Engine.v and has
   the sources and the environment of the interrupted build; hence (C01: build_establishes_K,
   finished_unique) the restarted build ends with the step states and the output contents of the
   build that was not interrupted, which are those of a build from scratch. *)
From Coq Require Import List NArith Bool Lia.
From SV Require Import model.Engine proofs.EngineProofs model.CrashEngine.
Import ListNotations.
Open Scope N_scope.

Section Proofs.
  Variable run : N -> list (option N) -> list (option N) -> N -> N.

  Lemma firstn_incl {A} (l : list A) k x : In x (firstn k l) -> In x l.
  Proof. revert k. induction l as [|a l IH]; intros [|k]; cbn; try tauto. intros [H|H]; [left; exact H | right; eapply IH; exact H]. Qed.

  (* any number of dispatch decisions keeps the invariant and the world *)
  Lemma build_from_Pre (proj todo : project) (y : sys) :
    WF proj -> (forall s, In s todo -> In s proj) -> Pre run proj y -> Pre run proj (build_from run proj todo y).
  Proof.
    intros Hwf. revert y. induction todo as [|s rest IH]; intros y Hsub HP; [exact HP|].
    unfold build_from. cbn [fold_left]. apply IH.
    - intros q Hq. apply Hsub. right. exact Hq.
    - apply (step_build_ok run proj s y Hwf (Hsub s (or_introl eq_refl)) HP).
  Qed.

  Lemma prefix_Pre (proj : project) (k : nat) (y : sys) :
    WF proj -> Pre run proj y -> Pre run proj (build_prefix run proj k y).
  Proof. intros Hwf HP. apply build_from_Pre; [exact Hwf | intros s Hs; eapply firstn_incl; exact Hs | exact HP]. Qed.

  Lemma prefix_world (proj : project) (k : nat) (y : sys) : same_world proj y (build_prefix run proj k y).
  Proof. apply build_from_world. intros s Hs. eapply firstn_incl. exact Hs. Qed.

  (* the torn step: a PENDING step without trace and with anything at its outputs *)
  Lemma torn_Pre (proj : project) (s : step) (y : sys) (junk : N -> option N) :
    WF proj -> In s proj -> stt y (sid s) = Pending -> Pre run proj y -> Pre run proj (torn s y junk).
  Proof.
    intros Hwf Hs Hpend (Htv & HK & Hcl). pose proof Hwf as (Hid & Hnd & _).
    (* a SUCCEEDED step reads and writes nothing that [s] writes *)
    assert (Hother : forall q, In q proj -> stt y (sid q) = Succeeded ->
              (forall p, In p (inp q) -> fs (torn s y junk) p = fs y p) /\
              (forall p, In p (out q) -> fs (torn s y junk) p = fs y p)).
    { intros q Hq Hsq. split; intros p Hp; cbn [torn fs]; destruct (memN p (out s)) eqn:E; try reflexivity; exfalso;
        apply memN_In in E.
      - exact (succeeded_reads_no_pending proj y s q p Hwf Hs Hpend (Hcl q Hq Hsq) Hp E).
      - assert (Eq : q = s) by (apply (out_unique proj q s p Hnd Hq Hs Hp E)). subst q. congruence. }
    split; [|split].
    - intros q t Hq Ht. cbn [torn tr] in Ht. destruct (N.eq_dec (sid q) (sid s)) as [E|E].
      + rewrite E, upd_same in Ht. discriminate.
      + rewrite (upd_other _ _ _ _ E) in Ht. exact (Htv q t Hq Ht).
    - intros q Hq Hsq. cbn [torn stt] in Hsq.
      assert (E : sid q <> sid s) by (intros E; rewrite E in Hsq; congruence).
      destruct (Hother q Hq Hsq) as [Hi Ho]. destruct (HK q Hq Hsq) as (t & Ht & Ei & Ee & Eo).
      exists t. cbn [torn tr ev]. rewrite (upd_other _ _ _ _ E). repeat split; auto.
      + rewrite Ei. apply ingredients_ext. intros p Hp. symmetry. apply Hi. exact Hp.
      + rewrite Eo. apply ingredients_ext. intros p Hp. symmetry. apply Ho. exact Hp.
    - intros q Hq Hsq. cbn [torn stt] in Hsq. apply (ready_mono proj y); [|auto|exact (Hcl q Hq Hsq)].
      apply (Hother q Hq Hsq).
  Qed.

  Lemma torn_world (proj : project) (s : step) (y : sys) (junk : N -> option N) :
    In s proj -> same_world proj y (torn s y junk).
  Proof.
    intros Hs. split; [|reflexivity]. intros p Hp. cbn [torn fs]. destruct (memN p (out s)) eqn:E; [|reflexivity].
    exfalso. apply memN_In in E. apply is_output_false in Hp. apply Hp. apply in_outs. exists s. auto.
  Qed.

  (* every crash state satisfies the pre-build invariant and has the world of the interrupted build *)
  Theorem crash_state_Pre (proj : project) (y c : sys) :
    WF proj -> Pre run proj y -> crash_state run proj y c -> Pre run proj c /\ same_world proj y c.
  Proof.
    intros Hwf HP H. destruct H as [k | k s junk Hk Hpend].
    - split; [apply prefix_Pre; assumption | apply prefix_world].
    - assert (Hs : In s proj) by (eapply nth_error_In; exact Hk). split.
      + apply torn_Pre; [exact Hwf | exact Hs | exact Hpend | apply prefix_Pre; assumption].
      + eapply same_world_trans; [apply prefix_world | apply torn_world; exact Hs].
  Qed.

  Lemma restart_is_build_world (proj : project) (c : sys) :
    WF proj -> Pre run proj c ->
    Pre run proj (restart run proj c) /\ Finished run proj (restart run proj c) /\
    same_world proj c (restart run proj c).
  Proof.
    intros Hwf HP. unfold restart. destruct (build_world_inv run proj (fs c, ev c) c Hwf HP) as (H1 & H2 & H3 & H4).
    split; [exact H1|]. split; [exact H2|]. split.
    - intros p Hp. rewrite (H3 p Hp). reflexivity.
    - intros n. rewrite H4. reflexivity.
  Qed.

  (* C05_full on the static-DAG fragment *)
  Theorem crash_restart_equals_uninterrupted (proj : project) (y c : sys) :
    wf proj = true -> Pre run proj y -> crash_state run proj y c ->
    Pre run proj (restart run proj c) /\ K proj (restart run proj c) /\ Finished run proj (restart run proj c) /\
    same_result proj (restart run proj c) (build run proj y) /\
    same_result proj (restart run proj c) (scratch run proj (fs y) (ev y)).
  Proof.
    intros Hwf0 HP Hc. pose proof (wf_WF proj Hwf0) as Hwf.
    destruct (crash_state_Pre proj y c Hwf HP Hc) as [Pc Wc].
    destruct (restart_is_build_world proj c Hwf Pc) as (Pr & Fr & Wr).
    destruct (build_establishes_K run proj y Hwf HP) as (_ & _ & Fy & Wy).
    split; [exact Pr|]. split; [apply Pr|]. split; [exact Fr|]. split.
    - apply (finished_unique run proj _ _ Hwf Fr Fy).
      apply same_world_sym. eapply same_world_trans; [apply same_world_sym; exact Wy|].
      eapply same_world_trans; [exact Wc | exact Wr].
    - destruct (build_establishes_K run proj (init proj (fs y) (ev y)) Hwf (init_Pre run proj (fs y) (ev y)))
        as (_ & _ & Fz & Wz).
      apply (finished_unique run proj _ _ Hwf Fr Fz).
      apply same_world_sym. eapply same_world_trans; [apply same_world_sym; exact Wz|].
      eapply same_world_trans; [|eapply same_world_trans; [exact Wc | exact Wr]].
      split; [|reflexivity]. intros p Hp. cbn. unfold sources. rewrite Hp. reflexivity.
  Qed.
End Proofs.

(* "No output of an interrupted step is ever treated as up to date": in the restarted build the
   interrupted step is never hash-checked-and-skipped (it has no recorded trace until it has run) *)
Section NoSkip.
  Variable run : N -> list (option N) -> list (option N) -> N -> N.

  Lemma log_no_skip (proj : project) (s : step) :
    NoDup (map sid proj) -> In s proj ->
    forall todo y, (forall q, In q todo -> In q proj) -> NoDup (map sid todo) ->
      (tr y (sid s) = None \/ ~ In (sid s) (map sid todo)) ->
      ~ In (sid s, false) (build_log run proj todo y).
  Proof.
    intros Hid Hs. induction todo as [|x rest IH]; intros y Hsub Hnd Hc; [intros []|].
    cbn [map] in Hnd. inversion Hnd as [|? ? Hx Hnd']; subst.
    assert (Hxp : In x proj) by (apply Hsub; left; reflexivity).
    assert (Hsub' : forall q, In q rest -> In q proj) by (intros q Hq; apply Hsub; right; exact Hq).
    cbn [build_log].
    assert (Hnext : tr (step_build run proj x y) (sid s) = None \/ ~ In (sid s) (map sid rest)).
    { destruct (N.eq_dec (sid x) (sid s)) as [E|E].
      - right. rewrite <- E. exact Hx.
      - destruct Hc as [Hc|Hc].
        + left. destruct (step_build_frame run proj x y) as (_ & _ & _ & Htr). rewrite Htr; [exact Hc | congruence].
        + right. intros Hin. apply Hc. right. exact Hin. }
    destruct (is_succ (stt y (sid x)) || negb (ready proj y x)).
    - apply IH; assumption.
    - intros [Hin|Hin]; [|revert Hin; apply IH; assumption].
      inversion Hin as [[E1 E2]]. apply negb_false_iff in E2.
      assert (Exs : x = s) by (apply (sid_unique proj x s Hid Hxp Hs E1)). subst x.
      destruct Hc as [Hc|Hc]; [|apply Hc; left; reflexivity].
      unfold can_skip in E2. rewrite Hc in E2. discriminate.
  Qed.

  Theorem interrupted_step_not_skipped (proj : project) (s : step) (y : sys) (junk : N -> option N) :
    wf proj = true -> In s proj ->
    let c := torn s y junk in
    ~ In (sid s, false) (build_log run proj proj (resync proj c (fs c, ev c))).
  Proof.
    intros Hwf0 Hs c. destruct (wf_WF proj Hwf0) as (Hid & _ & _).
    apply log_no_skip; [exact Hid | exact Hs | auto | exact Hid|].
    left. cbn. apply upd_same.
  Qed.
End NoSkip.

(* ------------------------------------------------------------------------------------------ *)
(* A concrete instance: the diamond of props/C01.v, killed at every point                      *)
(* ------------------------------------------------------------------------------------------ *)
Definition ce_diamond : project :=
  [ mkStep 100 [1] [] [10]; mkStep 101 [10] [7] [11]; mkStep 102 [10; 2] [] [12];
    mkStep 103 [11; 12] [] [13] ].
Definition ce_run (id : N) (ins : list (option N)) (envs : list (option N)) (p : N) : N :=
  fold_left (fun a o => match o with Some c => a * 31 + c + 1 | None => a * 31 end) (ins ++ envs) (id + p).
Definition ce_src : N -> option N := fun p => if p =? 1 then Some 5 else if p =? 2 then Some 6 else None.
Definition ce_env : N -> option N := fun n => if n =? 7 then Some 3 else None.
(* a complete build, then source 2 changes: the interrupted build has C and D to rerun *)
Definition ce_start : sys :=
  resync ce_diamond (scratch ce_run ce_diamond ce_src ce_env)
         ((fun p => if p =? 2 then Some 9 else ce_src p), ce_env).
Definition ce_junk : N -> option N := fun _ => Some 77.

Lemma ce_example :
  wf ce_diamond = true /\
  (* every between-point and every inside-point: the restart gives the uninterrupted result *)
  forallb (fun k => same_result_b ce_diamond (restart ce_run ce_diamond (crash_between_b ce_run ce_diamond ce_start k))
                                  (build ce_run ce_diamond ce_start)) (seq 0 6) = true /\
  forallb (fun k => match crash_inside_b ce_run ce_diamond ce_start k ce_junk with
                    | Some c => same_result_b ce_diamond (restart ce_run ce_diamond c) (build ce_run ce_diamond ce_start)
                    | None => true end) (seq 0 6) = true /\
  (* the inside-points of the two steps that rerun exist, and there the torn outputs are not what
     the build writes *)
  map (fun k => match crash_inside_b ce_run ce_diamond ce_start k ce_junk with Some _ => true | None => false end)
      (seq 0 4) = [false; false; true; true] /\
  build_log ce_run ce_diamond ce_diamond ce_start = [(102, true); (103, true)].
Proof. vm_compute. repeat split; reflexivity. Qed.

(* statements in the form used by props/C05.v *)
Section Props.
  Variable run : N -> list (option N) -> list (option N) -> N -> N.
  Lemma crash_state_Pre_wf (proj : project) (y c : sys) :
    wf proj = true -> Pre run proj y -> crash_state run proj y c -> Pre run proj c /\ same_world proj y c.
  Proof. intros H. apply crash_state_Pre. apply wf_WF. exact H. Qed.
End Props.
