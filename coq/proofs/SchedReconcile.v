(* A director run with other targets: Scheduler.initialize rebuilds target_path / target_dir, then
   Workflow.reconcile_targets flags the steps whose target elevation may have changed.  The composition keeps
   the flag invariant (C10 FlagInv), so the first metadata pass of the run recomputes every _implied_need that
   the new targets change.  (C11: "resumed with a different target set than the previous run") *)
From Coq Require Import List NArith Bool Arith Lia.
From SV Require Import lib.Bytes lib.SqlExpr gen.GenSched model.Sched proofs.SchedProofs.
Import ListNotations.
Open Scope N_scope.

(* attached files have distinct labels; outputs are created by their producer and are not static *)
Definition LabelsUnique (g : graph) : Prop :=
  forall f1 f2, In f1 (g_files g) -> In f2 (g_files g) -> f_detached f1 = false -> f_detached f2 = false ->
    f_label f1 = f_label f2 -> f1 = f2.
Definition OutInv (g : graph) : Prop :=
  forall d s f, In d (g_deps g) -> find_step g (d_src d) = Some s -> find_file g (d_snk d) = Some f ->
    f_detached f = false ->
    f_creator f = Some (d_src d) /\ mem_N (f_state f) static_file_states = false.

(* ---- swapping the target tables under flags ---- *)

Lemma cons_keys_set_targets g ts tds thr k : cons_keys (set_targets g ts tds thr) k = cons_keys g k.
Proof. reflexivity. Qed.
Lemma seed0_set_targets g ts tds thr : seed0 (set_targets g ts tds thr) = seed0 g.
Proof. reflexivity. Qed.
Lemma vals_of_set_targets g ts tds thr : vals_of (set_targets g ts tds thr) = vals_of g.
Proof. reflexivity. Qed.
Lemma outputs_set_targets g ts tds thr k : outputs (set_targets g ts tds thr) k = outputs g k.
Proof. reflexivity. Qed.

Definition consM (g : graph) (k : N) : N :=
  maxl after_sink_default (map (fun y => fst (vals_of g y)) (cons_keys g k)).

Lemma set_targets_need_sound g ts tds thr :
  WF g -> FlagInv_need g ->
  (forall s, In s (g_steps g) -> s_detached s = false -> s_chk_after s = false ->
     s_ineed s = N.max (local_need g s) (consM g (s_key s)) ->
     N.max (local_need (set_targets g ts tds thr) s) (consM g (s_key s)) = s_ineed s) ->
  FlagInv_need (set_targets g ts tds thr).
Proof.
  intros Hwf HF Hch s Hin Hd Hc Hy.
  change (In s (g_steps g)) in Hin. rewrite seed0_set_targets in Hy.
  pose proof (HF s Hin Hd Hc Hy) as E. unfold new_val in E. cbn [fst] in E.
  unfold local_k in E. rewrite (find_step_in g s Hwf Hin) in E.
  unfold new_val. cbn [fst]. unfold local_k.
  change (find_step (set_targets g ts tds thr) (s_key s)) with (find_step g (s_key s)).
  rewrite (find_step_in g s Hwf Hin). rewrite vals_of_set_targets.
  symmetry. apply (Hch s Hin Hd Hc). exact E.
Qed.

(* ---- the three parts flag every step whose elevation changes ---- *)

Lemma forbidden_split st :
  mem_N st target_forbidden_states = true -> mem_N st static_file_states = true \/ st = FS_VOLATILE.
Proof.
  intros H. apply mem_N_In in H.
  assert (A : forallb (fun x => mem_N x static_file_states || (x =? FS_VOLATILE)) target_forbidden_states = true)
    by reflexivity.
  pose proof (proj1 (forallb_forall _ _) A st H) as B. apply orb_true_iff in B.
  destruct B as [B|B]; [left; exact B | right; apply N.eqb_eq; exact B].
Qed.

(* generated fact: UPDATE_CHECK_AFTER uses the half-open range that RECONCILE_TARGET_DIRS (pinned) uses *)
Lemma in_tdir_repo g f : in_tdir g f = in_tdir_half_open g f.
Proof. reflexivity. Qed.

Lemma elev_cases g s : elev g s = after_elev_target \/ elev g s = after_elev_none.
Proof. unfold elev. destruct (existsb _ _); [left; reflexivity|]. destruct (_ && _); auto. Qed.

Lemma in_outputs g k f : In f (outputs g k) ->
  exists d, In d (g_deps g) /\ d_src d = k /\ find_file g (d_snk d) = Some f.
Proof.
  unfold outputs. intros H. apply in_flat_map in H. destruct H as [d [Hd H]].
  destruct (d_src d =? k) eqn:E; [|destruct H]. apply N.eqb_eq in E.
  destruct (find_file g (d_snk d)) as [f'|] eqn:Ef; [|destruct H].
  destruct H as [<-|[]]. exists d. auto.
Qed.

Lemma find_file_some g k f : find_file g k = Some f -> In f (g_files g) /\ f_key f = k.
Proof. unfold find_file. intros H. apply find_some in H. destruct H as [A B]. apply N.eqb_eq in B. auto. Qed.

Section Reconcile.
  Variable g : graph.
  Variables (ts : list str) (tds : list (str * str)) (thr : N).
  Local Notation g0 := (set_targets g ts tds thr).
  Hypothesis Hwf : WF g.
  Hypothesis Hlab : LabelsUnique g.
  Hypothesis Hout : OutInv g.

  (* a step that gains an elevation under the new tables is among the keys of parts 2 and 3 *)
  Lemma gains_elevation_flagged s :
    In s (g_steps g) -> elev g0 s = after_elev_target ->
    In (s_key s) (reconcile_exact g0 ++ reconcile_dirs g0).
  Proof.
    intros Hin He. unfold elev in He. rewrite outputs_set_targets in He.
    destruct (existsb (fun f => regular_output f && is_target g0 f) (outputs g (s_key s))) eqn:E1.
    - (* an exact target *)
      apply existsb_exists in E1. destruct E1 as [f [Hf H]]. apply andb_true_iff in H. destruct H as [Hr Ht].
      apply in_outputs in Hf. destruct Hf as [d [Hd [Es Ef]]].
      destruct (find_file_some g _ _ Ef) as [Hfin Hfk].
      rewrite regular_output_meaning in Hr. apply andb_true_iff in Hr. destruct Hr as [Hr1 Hr2].
      apply negb_true_iff in Hr1. apply negb_true_iff in Hr2.
      unfold is_target in Ht. apply existsb_exists in Ht. destruct Ht as [t [Htin Hteq]].
      change (g_targets g0) with ts in Htin.
      apply in_or_app. left. unfold reconcile_exact. apply in_flat_map. exists t. split; [exact Htin|].
      assert (Ea : find_attached_file g0 t = Some f).
      { unfold find_attached_file. change (g_files g0) with (g_files g).
        destruct (find (fun f0 => str_eqb (f_label f0) t && negb (f_detached f0)) (g_files g)) as [f'|] eqn:Ef'.
        - apply find_some in Ef'. destruct Ef' as [Hf' H']. apply andb_true_iff in H'. destruct H' as [H1 H2].
          apply negb_true_iff in H2. f_equal. apply Hlab; try assumption.
          apply str_eqb_eq in H1. apply str_eqb_eq in Hteq. congruence.
        - exfalso. pose proof (find_none _ _ Ef' f Hfin) as Hn. cbv beta in Hn.
          rewrite Hteq, Hr1 in Hn. discriminate. }
      rewrite Ea.
      assert (Hs : find_step g (d_src d) = Some s) by (rewrite Es; apply find_step_in; assumption).
      destruct (Hout d s f Hd Hs Ef Hr1) as [Hc Hst].
      destruct (mem_N (f_state f) target_forbidden_states) eqn:Efb.
      + exfalso. destruct (forbidden_split _ Efb) as [A|A]; [congruence|].
        rewrite A in Hr2. rewrite N.eqb_refl in Hr2. discriminate.
      + rewrite Hc, Es. left. reflexivity.
    - (* a directory target *)
      destruct ((s_need s =? after_dir_guard_need)
                && existsb (fun f => regular_output f && in_tdir g0 f) (outputs g (s_key s))) eqn:E2.
      + apply andb_true_iff in E2. destruct E2 as [_ E2].
        apply existsb_exists in E2. destruct E2 as [f [Hf H]].
        apply in_outputs in Hf. destruct Hf as [d [Hd [Es Ef]]].
        destruct (find_file_some g _ _ Ef) as [Hfin Hfk].
        apply in_or_app. right. unfold reconcile_dirs. apply in_flat_map. exists f.
        split; [exact Hfin|]. rewrite <- in_tdir_repo.
        change (in_tdir (set_targets g ts tds thr) f) with (in_tdir g0 f). rewrite H. unfold producers_of_node.
        apply in_map_iff. exists d. split; [exact Es|]. apply filter_In. split; [exact Hd|].
        apply N.eqb_eq. congruence.
      + (* no elevation at all *)
        exfalso. revert He. change after_elev_none with ND_OPTIONAL. change after_elev_target with ND_TARGET.
        intros He. discriminate He.
  Qed.

  Lemma sink_default_le_consM k : after_sink_default <= consM g k.
  Proof. unfold consM. apply maxl_ge. Qed.

  Theorem reconcile_need_sound :
    reconcile_parts = (true, true, true) ->
    FlagInv_need g -> FlagInv_need (reconcile g0).
  Proof.
    intros Hparts HF. unfold reconcile, reconcile_with. rewrite Hparts. unfold reconcile_keys. cbn [fst snd].
    set (ks := reconcile_stale g0 ++ reconcile_exact g0 ++ reconcile_dirs g0).
    (* flag first (on the old tables), swap the tables afterwards: the same graph *)
    change (flag_keys FAfter ks g0) with (set_targets (flag_keys FAfter ks g) ts tds thr).
    rewrite flag_keys_mapg.
    assert (HFA : FlagInv_need (mapg (flagF FAfter ks) g)).
    { apply FlagInv_need_only_flags; [apply flagF_only_flags | exact HF]. }
    assert (HwfA : WF (mapg (flagF FAfter ks) g)).
    { unfold WF, mapg. cbn [g_steps with_steps]. rewrite map_map.
      erewrite map_ext; [exact Hwf|]. intros s. unfold flagF. destruct (mem_N _ _); [|reflexivity].
      reflexivity. }
    apply set_targets_need_sound; [exact HwfA | exact HFA |].
    intros s' Hin' Hd' Hc' HI.
    unfold mapg in Hin'. cbn [g_steps with_steps] in Hin'. apply in_map_iff in Hin'.
    destruct Hin' as [s [Es Hin]]. unfold flagF in Es.
    destruct (mem_N (s_key s) ks) eqn:Emem.
    { subst s'. cbn in Hc'. discriminate. }
    subst s'.
    (* consumers' cached values and the outputs do not depend on flags *)
    assert (EM : consM (mapg (flagF FAfter ks) g) (s_key s) = consM g (s_key s)).
    { unfold consM. rewrite cons_keys_mapg by (apply (of_keeps _ (flagF_only_flags FAfter ks))).
      f_equal. apply map_ext. intros y.
      unfold vals_of. rewrite find_step_mapg by (apply (of_keeps _ (flagF_only_flags FAfter ks))).
      destruct (find_step g y) as [sy|]; [|reflexivity]. cbn [option_map].
      unfold flagF. destruct (mem_N (s_key sy) ks); reflexivity. }
    rewrite EM in *.
    assert (EL : forall G, local_need (set_targets (mapg (flagF FAfter ks) g) (g_targets G) (g_tdirs G) (g_threshold G)) s
                         = local_need (set_targets g (g_targets G) (g_tdirs G) (g_threshold G)) s).
    { intros G. reflexivity. }
    assert (EL0 : local_need (mapg (flagF FAfter ks) g) s = local_need g s) by reflexivity.
    rewrite EL0 in HI.
    change (local_need (set_targets (mapg (flagF FAfter ks) g) ts tds thr) s) with (local_need g0 s).
    unfold local_need in *.
    assert (Hnotin : forall x, In x ks -> x <> s_key s).
    { intros x Hx Ex. subst x. apply mem_N_In in Hx. congruence. }
    pose proof (sink_default_le_consM (s_key s)) as HM.
    change after_sink_default with ND_OPTIONAL in HM.
    destruct (elev_cases g0 s) as [En|En]; destruct (elev_cases g s) as [Eo|Eo]; rewrite En; rewrite Eo in HI.
    - symmetry. exact HI.
    - (* gains an elevation: flagged by part 2 or 3 *)
      exfalso. apply (Hnotin (s_key s)); [|reflexivity].
      unfold ks. apply in_or_app. right. apply gains_elevation_flagged; assumption.
    - (* loses an elevation: either the cached value is TARGET (flagged by part 1) or something higher decides *)
      change after_elev_target with ND_TARGET in HI. change after_elev_none with ND_OPTIONAL.
      destruct (s_ineed s =? ND_TARGET) eqn:Et.
      + exfalso. apply (Hnotin (s_key s)); [|reflexivity].
        unfold ks. apply in_or_app. left. unfold reconcile_stale. apply in_map.
        change (g_steps g0) with (g_steps g). apply filter_In. split; [exact Hin|].
        change reconcile_stale_need with ND_TARGET. exact Et.
      + apply N.eqb_neq in Et. revert HI Et HM. generalize (consM g (s_key s)) (s_need s) (s_ineed s).
        intros M n i. unfold ND_TARGET, ND_OPTIONAL. lia.
    - symmetry. exact HI.
  Qed.
End Reconcile.

(* flags are only added; the target tables are read by _implied_need alone *)
Theorem reconcile_sound g ts tds thr :
  reconcile_parts = (true, true, true) ->
  WF g -> LabelsUnique g -> OutInv g -> FlagInv g ->
  FlagInv (reconcile (set_targets g ts tds thr)).
Proof.
  intros Hp Hwf Hl Ho [HFs [HFn HFr]]. split; [|split].
  - unfold reconcile, reconcile_with. rewrite flag_keys_mapg.
    apply FlagInv_safe_only_flags; [apply flagF_only_flags|].
    apply (FlagInv_safe_steps_only g); [reflexivity | exact HFs].
  - apply reconcile_need_sound; assumption.
  - unfold reconcile, reconcile_with. rewrite flag_keys_mapg.
    apply FlagInv_ready_mapg.
    + split; [apply (of_keeps _ (flagF_only_flags FAfter _))|]. split; intros s; unfold flagF;
        destruct (mem_N _ _); reflexivity.
    + intros s Hin Hc. apply (HFr s Hin Hc).
Qed.

(* ---- decidable forms of the hypotheses ---- *)

Lemma NoDup_fkey_eq (l : list file) f1 f2 :
  NoDup (map f_key l) -> In f1 l -> In f2 l -> f_key f1 = f_key f2 -> f1 = f2.
Proof.
  induction l as [|a l IH]; intros Hnd H1 H2 E; [destruct H1|].
  cbn [map] in Hnd. inversion Hnd as [|x y Hni Hnd']; subst.
  destruct H1 as [<-|H1], H2 as [<-|H2].
  - reflexivity.
  - exfalso. apply Hni. rewrite E. apply in_map. exact H2.
  - exfalso. apply Hni. rewrite <- E. apply in_map. exact H1.
  - apply IH; assumption.
Qed.
Lemma nodup_b_sound l : nodup_b l = true -> NoDup l.
Proof.
  induction l as [|a l IH]; intros H; [constructor|]. cbn [nodup_b] in H.
  apply andb_true_iff in H. destruct H as [H1 H2]. constructor; [|apply IH; exact H2].
  intros Hin. apply mem_N_In in Hin. rewrite Hin in H1. discriminate.
Qed.

Lemma labels_unique_b_sound g : fwf_b g = true -> labels_unique_b g = true -> LabelsUnique g.
Proof.
  intros Hfw H f1 f2 H1 H2 D1 D2 E. unfold labels_unique_b in H.
  pose proof (proj1 (forallb_forall _ _) (proj1 (forallb_forall _ _) H f1 H1) f2 H2) as B. cbv beta in B.
  rewrite D1, D2, E, str_eqb_refl in B. cbn in B. apply N.eqb_eq in B.
  apply (NoDup_fkey_eq (g_files g)); [apply nodup_b_sound; exact Hfw | assumption..].
Qed.

Lemma outinv_b_sound g : outinv_b g = true -> OutInv g.
Proof.
  intros H d s f Hd Hs Hf Hdet. unfold outinv_b in H.
  pose proof (proj1 (forallb_forall _ _) H d Hd) as B. cbv beta in B. rewrite Hs, Hf, Hdet in B. cbn [orb] in B.
  apply andb_true_iff in B. destruct B as [B1 B2]. apply negb_true_iff in B2. split; [|exact B2].
  unfold ocreator_is_key in B1. destruct (f_creator f) as [c|]; [|discriminate].
  apply N.eqb_eq in B1. congruence.
Qed.

(* ---- each of the three parts is necessary ---- *)

(* plan (1, RUNNING) -> P (2, DEFAULT, PENDING) -> f (10, label "f", PLANNED) *)
Definition g_rec (ineed : N) (ts : list str) (thr : N) : graph :=
  mkGraph [wstep 1 22 34 None true 34 false false false;
           wstep 2 21 32 (Some 1) true ineed false false false]
          [mkFile 10 [102] 15 false (Some 2) false] [mkOnode 0 false None]
          [mkDep 2 10 false] ts [] [] thr.

Theorem reconcile_parts_necessary :
  forall parts, parts <> (true, true, true) ->
  exists g ts tds thr, WF g /\ LabelsUnique g /\ OutInv g /\ Acyclic g /\ AllCorrect g /\
    ~ FlagInv_need (reconcile_with parts (set_targets g ts tds thr)).
Proof.
  intros [[a b] c] Hne.
  assert (Hcert : forall i t th, WF (g_rec i t th) /\ LabelsUnique (g_rec i t th) /\ OutInv (g_rec i t th) /\ Acyclic (g_rec i t th)).
  { intros i t th. split; [apply wf_refl; vm_compute; reflexivity|].
    split; [apply labels_unique_b_sound; vm_compute; reflexivity|].
    split; [apply outinv_b_sound; vm_compute; reflexivity|].
    split; [exists (fun k => N.to_nat (k - 1)); apply creator_rank_refl
           | exists (fun k => 0%nat); apply need_rank_refl]; vm_compute; reflexivity. }
  destruct a.
  - destruct b.
    + destruct c; [exfalso; apply Hne; reflexivity|].
      (* part 3 missing: the directory "f".."g" becomes a target *)
      exists (g_rec 32 [] 31), [], [([102], [103])], 32.
      destruct (Hcert 32 [] 31) as [A [B [C D]]].
      split; [exact A|]. split; [exact B|]. split; [exact C|]. split; [exact D|].
      split; [apply allcorrect_refl; vm_compute; reflexivity|].
      intros H. apply flaginv_need_refl in H. vm_compute in H. discriminate.
    + (* part 2 missing: "f" becomes an exact target *)
      exists (g_rec 32 [] 31), [[102]], [], 32.
      destruct (Hcert 32 [] 31) as [A [B [C D]]].
      split; [exact A|]. split; [exact B|]. split; [exact C|]. split; [exact D|].
      split; [apply allcorrect_refl; vm_compute; reflexivity|].
      intros H. apply flaginv_need_refl in H. destruct c; vm_compute in H; discriminate.
  - (* part 1 missing: "f" is no longer a target *)
    exists (g_rec 33 [[102]] 32), [], [], 31.
    destruct (Hcert 33 [[102]] 32) as [A [B [C D]]].
    split; [exact A|]. split; [exact B|]. split; [exact C|]. split; [exact D|].
    split; [apply allcorrect_refl; vm_compute; reflexivity|].
    intros H. apply flaginv_need_refl in H. destruct b, c; vm_compute in H; discriminate.
Qed.
