(* C17 part 3, at the level of the COMPILER and outside the fragment F1: replacing one anonymous
   `*` by a fresh default named wildcard `${*n}` never changes which strings the compiled regex
   accepts -- for every pattern (every position of `**` and `**/`, negated classes, user
   sub-patterns and repeated names for the OTHER names), every substitution dictionary and every
   string (not only canonical paths), provided the replaced `*` takes no part in the merging rules
   of convert_nglob_to_regex:

     - the token before it is neither `*` nor `**`   (model.NglobWide.star_before_ok),
     - the token after it is none of `*`, `**`, `**/` (model.NglobWide.star_after_ok).

   Excluded patterns and why.  The code drops a `*` that follows a `*` / `**`, and lets a `**` / `**/`
   that follows a `*` replace the part of that `*`; a named wildcard is never merged.  When one of
   the two conditions fails the two compiled part lists have different lengths and the statement
   is FALSE of the code: see [named_vs_star_adjacent_after_refuted] and
   [named_vs_star_adjacent_before_refuted] below (both witnesses are the string "d/", a path with
   an empty last component: finding D5d, C17:empty-last-component-accepted).

   Proof: a simulation of conv_loop on the two token lists (the part lists agree except at one
   index k, where one holds re_star and the other RGrp n re_star; star_names differ by the binding
   k -> n; `encountered` differs by n), then of the enclosed and the trailing rule (the text tests
   on neighbours give the same answers, position k is rewritten to re_plus on both sides or on
   neither), then proofs.NglobNamed.named_group_wrapping_preserves_acceptance; that no part refers
   to n is an invariant of the compiler for patterns in which ${*n} does not occur. *)
From Coq Require Import List NArith Bool Arith Lia.
From SV Require Import lib.Bytes.
From SV Require Import lib.Regex.
From SV Require Import model.Nglob.
From SV Require Import model.NglobWide.
From SV Require Import proofs.NglobBackref.
From SV Require Import proofs.NglobShape.
From SV Require Import proofs.NglobNamed.
From SV Require Import proofs.NglobCorrect.
Import ListNotations.
Open Scope N_scope.

(* ------------------------------------------------------------------------------------------ *)
(* 0. Lists                                                                                    *)
(* ------------------------------------------------------------------------------------------ *)

Lemma upd_length {A} (l : list A) : forall i x, length (upd i x l) = length l.
Proof. induction l as [|y l IH]; intros [|i] x; cbn; auto. Qed.

Lemma upd_snoc {A} (l : list A) : forall k z r, (k < length l)%nat -> upd k z (l ++ [r]) = upd k z l ++ [r].
Proof.
  induction l as [|y l IH]; intros k z r H; cbn [length] in H; [lia|].
  destruct k as [|k]; cbn; [reflexivity|]. rewrite IH by lia. reflexivity.
Qed.

Lemma upd_upd_same {A} (l : list A) : forall k x y, upd k y (upd k x l) = upd k y l.
Proof. induction l as [|a l IH]; intros [|k] x y; cbn; auto. rewrite IH. reflexivity. Qed.

Lemma upd_comm {A} (l : list A) : forall i k x y, i <> k -> upd i x (upd k y l) = upd k y (upd i x l).
Proof.
  induction l as [|a l IH]; intros [|i] [|k] x y H; cbn; auto; [lia|].
  rewrite IH by lia. reflexivity.
Qed.

Lemma nth_upd {A} (l : list A) (d : A) : forall i x j,
  nth j (upd i x l) d = if (j =? i)%nat && (i <? length l)%nat then x else nth j l d.
Proof.
  induction l as [|y l IH]; intros i x j.
  - rewrite upd_nil. replace (i <? length (@nil A))%nat with false by (symmetry; apply Nat.ltb_ge; cbn; lia).
    rewrite andb_false_r. reflexivity.
  - destruct i as [|i]; destruct j as [|j]; cbn [upd nth length]; try reflexivity.
    rewrite IH. change (S j =? S i)%nat with (j =? i)%nat. change (S i <? S (length l))%nat with (i <? length l)%nat.
    reflexivity.
Qed.

Lemma upd_mid {A} (a : list A) x y b : upd (length a) y (a ++ x :: b) = a ++ y :: b.
Proof. induction a as [|z a IH]; cbn; [reflexivity|]. rewrite IH. reflexivity. Qed.

Lemma removelast_snoc1 {A} (l : list A) (a : A) : removelast (l ++ [a]) = l.
Proof. rewrite removelast_app by discriminate. cbn. apply app_nil_r. Qed.

Lemma last_as_nth (l : list re) : last l REps = nth (length l - 1) l REps.
Proof.
  destruct l as [|a l']; [reflexivity|].
  assert (Hne : a :: l' <> []) by discriminate.
  destruct (exists_last Hne) as [l0 [b ->]]. rewrite last_last, app_length. cbn [length].
  replace (length l0 + 1 - 1)%nat with (length l0) by lia.
  rewrite app_nth2 by lia. rewrite Nat.sub_diag. reflexivity.
Qed.

(* ------------------------------------------------------------------------------------------ *)
(* 1. Every part of the compiled list satisfies a predicate that the fragments satisfy         *)
(* ------------------------------------------------------------------------------------------ *)

(* [okn m]: a back-reference to m may be emitted *)
Record closed (f : re -> bool) (okn : str -> bool) : Prop := {
  f_eps : f REps = true;
  f_str : forall s, f (RStr s) = true;
  f_cls : forall neg b, f (RCls neg b) = true;
  f_star : f re_star = true;
  f_plus : f re_plus = true;
  f_dstar : f re_dstar = true;
  f_dstarslash : f re_dstarslash = true;
  f_optslash : f re_optslash = true;
  f_ref : forall m, okn m = true -> f (RRef m) = true;
  f_grp : forall m a, f a = true -> f (RGrp m a) = true;
  f_cat : forall a b, f a = true -> f b = true -> f (RCat a b) = true;
  f_s2p : forall r, f r = true -> f (star_to_plus r) = true
}.

Lemma push_f (f : re -> bool) st r replace sn enc t :
  forallb f (c_parts st) = true -> (forall x, r = Some x -> f x = true) ->
  forallb f (c_parts (push st r replace sn enc t)) = true.
Proof.
  intros Hp Hr. unfold push. destruct r as [x|]; [|exact Hp].
  destruct (is_nil (pr x)); [exact Hp|]. cbn [c_parts]. destruct replace.
  - rewrite forallb_app, (forallb_removelast _ _ Hp). cbn. rewrite (Hr x eq_refl). reflexivity.
  - rewrite forallb_app, Hp. cbn. rewrite (Hr x eq_refl). reflexivity.
Qed.

Lemma re_cls_f f okn inner : closed f okn -> f (re_cls inner) = true.
Proof. intros C. unfold re_cls. destruct (head_is 33 inner); apply (f_cls _ _ C). Qed.

Lemma conv_loop_sub_f f okn (C : closed f okn) ts : forall st st',
  forallb f (c_parts st) = true -> conv_loop err_handler ts st = COk st' ->
  forallb f (c_parts st') = true.
Proof.
  induction ts as [|t ts IH]; intros st st' Hp H; cbn [conv_loop] in H.
  - inversion H; subst. exact Hp.
  - destruct (conv_step err_handler st t) as [st1|e] eqn:E; [|discriminate].
    apply (IH st1 st'); [|exact H]. clear IH H.
    destruct t; cbn [conv_step] in E; try (apply COk_inj in E; subst st1).
    + cbn [c_parts]. rewrite forallb_app, Hp. cbn. rewrite (f_str _ _ C). reflexivity.
    + apply push_f; [exact Hp|]. intros x Hx. inversion Hx. apply (f_cls _ _ C).
    + apply push_f; [exact Hp|]. intros x Hx.
      destruct (is_tstar (c_last st) || is_tdstar (c_last st)); inversion Hx. apply (f_star _ _ C).
    + apply push_f; [exact Hp|]. intros x Hx.
      destruct (is_tdstar (c_last st)); inversion Hx. apply (f_dstar _ _ C).
    + apply push_f; [exact Hp|]. intros x Hx.
      destruct (is_tdstarslash (c_last st)); inversion Hx. apply (f_dstarslash _ _ C).
    + apply push_f; [exact Hp|]. intros x Hx. inversion Hx. eapply re_cls_f; exact C.
    + unfold err_handler in E. discriminate.
Qed.

Lemma rcat_f f okn (C : closed f okn) ps : forallb f ps = true -> f (rcat ps) = true.
Proof.
  induction ps as [|r rs IH]; [intros _; apply (f_eps _ _ C)|]. cbn [forallb]. intros H.
  apply andb_true_iff in H as [Hr Hrs].
  destruct rs as [|r2 rs']; [exact Hr|]. change (rcat (r :: r2 :: rs')) with (RCat r (rcat (r2 :: rs'))).
  apply (f_cat _ _ C); [exact Hr|exact (IH Hrs)].
Qed.

Lemma conv_sub_f f okn (C : closed f okn) p ps : conv_sub p = COk ps -> f (rcat ps) = true.
Proof.
  unfold conv_sub. destruct (is_nil p); [discriminate|].
  destruct (conv_loop _ (tokenize p) st0) as [st|e] eqn:E; [|discriminate].
  intros H. inversion H; subst. apply (rcat_f f okn C).
  eapply (conv_loop_sub_f f okn C _ st0 st); [reflexivity|exact E].
Qed.

Lemma conv_step_f f okn (C : closed f okn) subs st t st' :
  forallb f (c_parts st) = true -> (forall m, t = TName m -> okn m = true) ->
  conv_step (top_named subs) st t = COk st' -> forallb f (c_parts st') = true.
Proof.
  intros Hp Hok E. destruct t; cbn [conv_step] in E; try (apply COk_inj in E; subst st').
  - cbn [c_parts]. rewrite forallb_app, Hp. cbn. rewrite (f_str _ _ C). reflexivity.
  - apply push_f; [exact Hp|]. intros x Hx. inversion Hx. apply (f_cls _ _ C).
  - apply push_f; [exact Hp|]. intros x Hx.
    destruct (is_tstar (c_last st) || is_tdstar (c_last st)); inversion Hx. apply (f_star _ _ C).
  - apply push_f; [exact Hp|]. intros x Hx.
    destruct (is_tdstar (c_last st)); inversion Hx. apply (f_dstar _ _ C).
  - apply push_f; [exact Hp|]. intros x Hx.
    destruct (is_tdstarslash (c_last st)); inversion Hx. apply (f_dstarslash _ _ C).
  - apply push_f; [exact Hp|]. intros x Hx. inversion Hx. eapply re_cls_f; exact C.
  - unfold top_named in E. destruct (is_nil name); [discriminate|].
    destruct (mem_str name (c_enc st)).
    + apply COk_inj in E; subst st'. apply push_f; [exact Hp|]. intros x Hx. inversion Hx.
      apply (f_ref _ _ C). apply Hok. reflexivity.
    + destruct (conv_sub (sub_of name subs)) as [ps|e] eqn:Es; [|discriminate].
      apply COk_inj in E; subst st'. apply push_f; [exact Hp|]. intros x Hx. inversion Hx.
      apply (f_grp _ _ C). eapply conv_sub_f; [exact C|exact Es].
Qed.

Lemma conv_loop_f f okn (C : closed f okn) subs ts : forall st st',
  forallb f (c_parts st) = true -> (forall m, In (TName m) ts -> okn m = true) ->
  conv_loop (top_named subs) ts st = COk st' -> forallb f (c_parts st') = true.
Proof.
  induction ts as [|t ts IH]; intros st st' Hp Hok H; cbn [conv_loop] in H.
  - inversion H; subst. exact Hp.
  - destruct (conv_step (top_named subs) st t) as [st1|e] eqn:E; [|discriminate].
    apply (IH st1 st'); [|intros m Hm; apply Hok; right; exact Hm|exact H].
    eapply conv_step_f; [exact C|exact Hp| |exact E]. intros m ->. apply Hok. left. reflexivity.
Qed.

Lemma nth_f (f : re -> bool) ps i : f REps = true -> forallb f ps = true -> f (nth i ps REps) = true.
Proof.
  intros He H. destruct (nth_in_or_default i ps REps) as [Hin|Hd]; [|rewrite Hd; exact He].
  rewrite forallb_forall in H. apply H, Hin.
Qed.

Lemma enclosed_f f okn (C : closed f okn) stars cnt : forall i ps,
  forallb f ps = true -> forallb f (enclosed stars cnt i ps) = true.
Proof.
  induction cnt as [|cnt IH]; intros i ps H; cbn [enclosed]; [exact H|]. apply IH.
  match goal with |- forallb f (if ?c then _ else _) = true => destruct c end; [|exact H].
  destruct (stars_get i stars).
  - apply forallb_upd; [exact H|]. apply (f_grp _ _ C), (f_plus _ _ C).
  - destruct (last_char_is 42 (pr (nth i ps REps))); [|exact H].
    apply forallb_upd; [exact H|]. apply (f_s2p _ _ C). apply nth_f; [apply (f_eps _ _ C)|exact H].
Qed.

Lemma trailing_f f okn (C : closed f okn) stars ps : forallb f ps = true -> forallb f (trailing stars ps) = true.
Proof.
  intros H. unfold trailing.
  match goal with |- forallb f (if ?c then _ else _) = true => destruct c end; [|exact H].
  rewrite forallb_app. cbn [forallb]. rewrite (f_optslash _ _ C). rewrite andb_true_r.
  apply forallb_upd; [exact H|].
  match goal with |- context [if ?c then re_plus else re_star] => destruct c end;
    destruct (stars_get (length ps - 1) stars);
    try apply (f_grp _ _ C); first [apply (f_plus _ _ C)|apply (f_star _ _ C)].
Qed.

Lemma conv_regex_f f okn (C : closed f okn) p subs ps :
  conv_regex p subs = COk ps -> (forall m, In (TName m) (tokenize p) -> okn m = true) ->
  forallb f ps = true.
Proof.
  unfold conv_regex. destruct (is_nil p); [discriminate|].
  destruct (conv_loop (top_named subs) (tokenize p) st0) as [st|e] eqn:E; [|discriminate].
  intros H Hok. apply COk_inj in H. subst ps.
  apply (trailing_f f okn C), (enclosed_f f okn C).
  eapply (conv_loop_f f okn C); [|exact Hok|exact E]. reflexivity.
Qed.

Lemma closed_noref n : closed (noref n) (fun m => negb (str_eqb n m)).
Proof.
  constructor; try reflexivity.
  - intros m H. exact H.
  - intros m a H. exact H.
  - intros a b Ha Hb. cbn [noref]. rewrite Ha, Hb. reflexivity.
  - intros r H. destruct r; exact H.
Qed.

Lemma closed_wf : closed wf_re (fun _ => true).
Proof.
  constructor; try reflexivity.
  - intros m a H. exact H.
  - intros a b Ha Hb. cbn [wf_re]. rewrite Ha, Hb. reflexivity.
  - intros r H. destruct r; exact H.
Qed.

(* every compiled regex is in the fragment for which the executable matcher is complete *)
Lemma conv_regex_wf p subs ps : conv_regex p subs = COk ps -> wf_re (rcat ps) = true.
Proof.
  intros H. apply wf_re_rcat. eapply (conv_regex_f wf_re _ closed_wf); [exact H|]. reflexivity.
Qed.

(* ------------------------------------------------------------------------------------------ *)
(* 2. Facts about the loop: last token, encountered names, concatenation                       *)
(* ------------------------------------------------------------------------------------------ *)

Lemma push_last st ro replace sn enc t : c_last (push st ro replace sn enc t) = Some t.
Proof. unfold push. destruct ro as [r|]; [destruct (is_nil (pr r))|]; reflexivity. Qed.

Lemma push_enc st ro replace sn enc t : c_enc (push st ro replace sn enc t) = enc.
Proof. unfold push. destruct ro as [r|]; [destruct (is_nil (pr r))|]; reflexivity. Qed.

Lemma conv_step_last subs st t st' : conv_step (top_named subs) st t = COk st' -> c_last st' = Some t.
Proof.
  intros E. destruct t; cbn [conv_step] in E; try (apply COk_inj in E; subst st'); try apply push_last.
  - reflexivity.
  - destruct (top_named subs name st) as [[[r sn] enc]|e]; [|discriminate].
    apply COk_inj in E; subst st'. apply push_last.
Qed.

Lemma conv_step_enc subs st t st' m :
  conv_step (top_named subs) st t = COk st' -> In m (c_enc st') -> In m (c_enc st) \/ t = TName m.
Proof.
  intros E Hin. destruct t; cbn [conv_step] in E; try (apply COk_inj in E; subst st');
    try (rewrite push_enc in Hin; left; exact Hin).
  - left. exact Hin.
  - unfold top_named in E. destruct (is_nil name); [discriminate|].
    destruct (mem_str name (c_enc st)).
    + apply COk_inj in E; subst st'. rewrite push_enc in Hin. left. exact Hin.
    + destruct (conv_sub (sub_of name subs)) as [ps|e]; [|discriminate].
      apply COk_inj in E; subst st'. rewrite push_enc in Hin. destruct Hin as [<-|Hin]; [right; reflexivity|left; exact Hin].
Qed.

Lemma conv_loop_enc subs ts : forall st st' m,
  conv_loop (top_named subs) ts st = COk st' -> In m (c_enc st') -> In m (c_enc st) \/ In (TName m) ts.
Proof.
  induction ts as [|t ts IH]; intros st st' m H Hin; cbn [conv_loop] in H.
  - inversion H; subst. left. exact Hin.
  - destruct (conv_step (top_named subs) st t) as [st1|e] eqn:E; [|discriminate].
    destruct (IH _ _ _ H Hin) as [H1|H1]; [|right; right; exact H1].
    destruct (conv_step_enc _ _ _ _ _ E H1) as [H2|H2]; [left; exact H2|right; left; exact H2].
Qed.

Lemma conv_loop_app h a : forall b st,
  conv_loop h (a ++ b) st = match conv_loop h a st with COk st' => conv_loop h b st' | CErr e => CErr e end.
Proof.
  induction a as [|t a IH]; intros b st; cbn [app conv_loop]; [reflexivity|].
  destruct (conv_step h st t) as [st1|e]; [apply IH|reflexivity].
Qed.

Lemma conv_loop_last subs pre st' : conv_loop (top_named subs) pre st0 = COk st' -> c_last st' = last_tok pre.
Proof.
  destruct pre as [|t0 pre0] using rev_ind; intros H.
  - cbn in H. inversion H; subst. reflexivity.
  - rewrite conv_loop_app in H. destruct (conv_loop (top_named subs) pre0 st0) as [sa|e]; [|discriminate].
    cbn [conv_loop] in H. destruct (conv_step (top_named subs) sa t0) as [sb|e] eqn:E; [|discriminate].
    inversion H; subst. rewrite last_tok_snoc. eapply conv_step_last. exact E.
Qed.

(* ------------------------------------------------------------------------------------------ *)
(* 3. The simulation relation on loop states                                                   *)
(* ------------------------------------------------------------------------------------------ *)

(* star_names of the two runs: equal except for the binding k -> n of the second *)
Record srel (n : str) (k : nat) (s1 s2 : list (nat * str)) : Prop := {
  sr_other : forall i, i <> k -> stars_get i s2 = stars_get i s1;
  sr_k2 : stars_get k s2 = Some n;
  sr_k1 : stars_get k s1 = None
}.

Record wsim (n : str) (k : nat) (p1 p2 : list re) (e1 e2 : list str) (s1 s2 : list (nat * str)) : Prop := {
  ws_x : nth_error p1 k = Some re_star;
  ws_parts : p2 = upd k (RGrp n re_star) p1;
  ws_enc : forall m, m <> n -> mem_str m e2 = mem_str m e1;
  ws_stars : srel n k s1 s2
}.

Definition bind (parts' : list re) (sn : option str) (s : list (nat * str)) : list (nat * str) :=
  match sn with Some m => ((length parts' - 1)%nat, m) :: s | None => s end.

Lemma srel_bind n k s1 s2 (q1 q2 : list re) sn :
  srel n k s1 s2 -> length q2 = length q1 -> (length q1 - 1 <> k)%nat ->
  srel n k (bind q1 sn s1) (bind q2 sn s2).
Proof.
  intros [S1 S2 S3] Hl Hk. unfold bind. destruct sn as [m|]; [|constructor; assumption].
  rewrite Hl. constructor; cbn [stars_get].
  - intros i Hi. destruct (Nat.eqb i (length q1 - 1)); [reflexivity|apply S1; exact Hi].
  - destruct (Nat.eqb_spec k (length q1 - 1)); [congruence|exact S2].
  - destruct (Nat.eqb_spec k (length q1 - 1)); [congruence|exact S3].
Qed.

Lemma wsim_snoc n k p1 p2 e1 e2 s1 s2 e1' e2' r sn :
  wsim n k p1 p2 e1 e2 s1 s2 -> (forall m, m <> n -> mem_str m e2' = mem_str m e1') ->
  wsim n k (p1 ++ [r]) (p2 ++ [r]) e1' e2' (bind (p1 ++ [r]) sn s1) (bind (p2 ++ [r]) sn s2).
Proof.
  intros [W1 W2 W3 W4] He.
  assert (Hk : (k < length p1)%nat) by (apply nth_error_Some; congruence).
  constructor.
  - rewrite nth_error_app1 by exact Hk. exact W1.
  - subst p2. symmetry. apply upd_snoc. exact Hk.
  - exact He.
  - apply srel_bind; [exact W4| |].
    + subst p2. rewrite !app_length, upd_length. reflexivity.
    + rewrite app_length. cbn [length]. lia.
Qed.

Lemma wsim_replace n k p1 p2 e1 e2 s1 s2 e1' e2' r sn :
  wsim n k p1 p2 e1 e2 s1 s2 -> (S k < length p1)%nat ->
  (forall m, m <> n -> mem_str m e2' = mem_str m e1') ->
  wsim n k (removelast p1 ++ [r]) (removelast p2 ++ [r]) e1' e2'
       (bind (removelast p1 ++ [r]) sn s1) (bind (removelast p2 ++ [r]) sn s2).
Proof.
  intros [W1 W2 W3 W4] Hk He.
  assert (Hne : p1 <> []) by (intros ->; cbn in Hk; lia).
  destruct (exists_last Hne) as [l [b Hl]]. subst p1.
  rewrite app_length in Hk. cbn [length] in Hk.
  assert (Hkl : (k < length l)%nat) by lia.
  rewrite (upd_snoc l k _ b Hkl) in W2. subst p2. rewrite !removelast_snoc1.
  apply (wsim_snoc n k l (upd k (RGrp n re_star) l) e1 e2 s1 s2); [|exact He].
  constructor; [|reflexivity|exact W3|exact W4].
  rewrite nth_error_app1 in W1 by exact Hkl. exact W1.
Qed.

Definition wsimS n k (st1 st2 : cst) : Prop :=
  wsim n k (c_parts st1) (c_parts st2) (c_enc st1) (c_enc st2) (c_stars st1) (c_stars st2).

(* the strong relation: something follows the part at k and the last tokens agree *)
Definition simS n k (st1 st2 : cst) : Prop :=
  wsimS n k st1 st2 /\ (S k < length (c_parts st1))%nat /\ c_last st2 = c_last st1.

Lemma wsim_same n k p1 p2 e1 e2 s1 s2 e1' e2' :
  wsim n k p1 p2 e1 e2 s1 s2 -> (forall m, m <> n -> mem_str m e2' = mem_str m e1') ->
  wsim n k p1 p2 e1' e2' s1 s2.
Proof. intros [W1 W2 W3 W4] He. constructor; assumption. Qed.

Lemma push_wsim n k st1 st2 ro replace sn e1' e2' t :
  wsimS n k st1 st2 -> (forall m, m <> n -> mem_str m e2' = mem_str m e1') ->
  (replace = true -> (S k < length (c_parts st1))%nat) ->
  wsimS n k (push st1 ro replace sn e1' t) (push st2 ro replace sn e2' t).
Proof.
  intros W He Hr. unfold push, wsimS. destruct ro as [r|].
  - destruct (is_nil (pr r)); cbn [c_parts c_enc c_stars].
    + eapply wsim_same; [exact W|exact He].
    + destruct replace.
      * exact (wsim_replace n k _ _ _ _ _ _ e1' e2' r sn W (Hr eq_refl) He).
      * exact (wsim_snoc n k _ _ _ _ _ _ e1' e2' r sn W He).
  - cbn [c_parts c_enc c_stars]. eapply wsim_same; [exact W|exact He].
Qed.

Lemma push_len_ge st ro replace sn enc t :
  (length (c_parts st) <= length (c_parts (push st ro replace sn enc t)))%nat.
Proof.
  unfold push. destruct ro as [r|]; [|cbn [c_parts]; lia].
  destruct (is_nil (pr r)); cbn [c_parts]; [lia|]. destruct replace.
  - destruct (c_parts st) as [|a l]; [cbn; lia|].
    assert (Hne : a :: l <> []) by discriminate.
    destruct (exists_last Hne) as [l0 [b ->]]. rewrite removelast_snoc1, !app_length. cbn [length]. lia.
  - rewrite app_length. cbn [length]. lia.
Qed.

Lemma push_len_grow st r sn enc t : is_nil (pr r) = false ->
  length (c_parts (push st (Some r) false sn enc t)) = S (length (c_parts st)).
Proof. intros H. unfold push. rewrite H. cbn [c_parts]. rewrite app_length. cbn [length]. lia. Qed.

Lemma wsimS_k n k st1 st2 : wsimS n k st1 st2 -> (k < length (c_parts st1))%nat.
Proof. intros [W1 _ _ _]. apply nth_error_Some. congruence. Qed.

(* a non-empty fragment is appended: the result is strongly related *)
Lemma push_sim_grow n k st1 st2 r sn e1' e2' t :
  wsimS n k st1 st2 -> (forall m, m <> n -> mem_str m e2' = mem_str m e1') -> is_nil (pr r) = false ->
  simS n k (push st1 (Some r) false sn e1' t) (push st2 (Some r) false sn e2' t).
Proof.
  intros W He Hr. split; [apply push_wsim; [exact W|exact He|discriminate]|]. split.
  - rewrite push_len_grow by exact Hr. apply wsimS_k in W. lia.
  - rewrite !push_last. reflexivity.
Qed.

Lemma push_sim_strong n k st1 st2 ro replace sn e1' e2' t :
  simS n k st1 st2 -> (forall m, m <> n -> mem_str m e2' = mem_str m e1') ->
  simS n k (push st1 ro replace sn e1' t) (push st2 ro replace sn e2' t).
Proof.
  intros [W [Hk Hl]] He. split; [apply push_wsim; [exact W|exact He|intros _; exact Hk]|]. split.
  - pose proof (push_len_ge st1 ro replace sn e1' t). lia.
  - rewrite !push_last. reflexivity.
Qed.

Lemma wsimS_enc n k st1 st2 : wsimS n k st1 st2 -> forall m, m <> n -> mem_str m (c_enc st2) = mem_str m (c_enc st1).
Proof. intros [_ _ W3 _]. exact W3. Qed.

(* One step on both sides with the same token, which is not ${*n}.  Either the states are strongly
   related, or the token does not look at the previous token (it is none of `*`, `**`, `**/`). *)
Lemma step_sim n k subs st1 st2 t st1' st2' :
  wsimS n k st1 st2 ->
  (((S k < length (c_parts st1))%nat /\ c_last st2 = c_last st1)
   \/ is_tstar (Some t) || is_tdstar (Some t) || is_tdstarslash (Some t) = false) ->
  t <> TName n ->
  conv_step (top_named subs) st1 t = COk st1' -> conv_step (top_named subs) st2 t = COk st2' ->
  simS n k st1' st2'.
Proof.
  intros W Hs Hn E1 E2. pose proof (wsimS_enc _ _ _ _ W) as He.
  destruct t; cbn [conv_step] in E1, E2.
  - apply COk_inj in E1, E2. subst st1' st2'. split; [|split].
    + exact (wsim_snoc n k _ _ _ _ _ _ (c_enc st1) (c_enc st2) (RStr s) None W He).
    + cbn [c_parts]. rewrite app_length. cbn [length]. apply wsimS_k in W. lia.
    + reflexivity.
  - apply COk_inj in E1, E2. subst st1' st2'. apply push_sim_grow; [exact W|exact He|reflexivity].
  - destruct Hs as [[Hk Hl]|Hs]; [|discriminate].
    apply COk_inj in E1, E2. subst st1' st2'. rewrite Hl. apply push_sim_strong; [|exact He].
    split; [exact W|split; assumption].
  - destruct Hs as [[Hk Hl]|Hs]; [|discriminate].
    apply COk_inj in E1, E2. subst st1' st2'. rewrite Hl. apply push_sim_strong; [|exact He].
    split; [exact W|split; assumption].
  - destruct Hs as [[Hk Hl]|Hs]; [|discriminate].
    apply COk_inj in E1, E2. subst st1' st2'. rewrite Hl. apply push_sim_strong; [|exact He].
    split; [exact W|split; assumption].
  - apply COk_inj in E1, E2. subst st1' st2'.
    apply push_sim_grow; [exact W|exact He|apply (re_cls_plain inner)].
  - assert (Hne : name <> n) by (intros ->; apply Hn; reflexivity).
    unfold top_named in E1, E2. rewrite (He name Hne) in E2.
    destruct (is_nil name); [discriminate|]. destruct (mem_str name (c_enc st1)).
    + apply COk_inj in E1, E2. subst st1' st2'. apply push_sim_grow; [exact W|exact He|reflexivity].
    + destruct (conv_sub (sub_of name subs)) as [ps|e]; [|discriminate].
      apply COk_inj in E1, E2. subst st1' st2'. apply push_sim_grow; [exact W| |reflexivity].
      intros m Hm. rewrite !mem_str_cons, (He m Hm). reflexivity.
Qed.

Lemma loop_sim n k subs ts : forall st1 st2 st1' st2',
  simS n k st1 st2 -> ~ In (TName n) ts ->
  conv_loop (top_named subs) ts st1 = COk st1' -> conv_loop (top_named subs) ts st2 = COk st2' ->
  simS n k st1' st2'.
Proof.
  induction ts as [|t ts IH]; intros st1 st2 st1' st2' S Hn H1 H2; cbn [conv_loop] in H1, H2.
  - apply COk_inj in H1, H2. subst. exact S.
  - destruct (conv_step (top_named subs) st1 t) as [sa|e] eqn:E1; [|discriminate].
    destruct (conv_step (top_named subs) st2 t) as [sb|e] eqn:E2; [|discriminate].
    apply (IH sa sb st1' st2'); [|intros Hin; apply Hn; right; exact Hin|exact H1|exact H2].
    destruct S as [W [Hk Hl]].
    eapply step_sim; [exact W|left; split; assumption| |exact E1|exact E2].
    intros ->. apply Hn. left. reflexivity.
Qed.

(* from the weak relation, when the first token of the rest does not look back *)
Lemma loop_sim_weak n k subs post st1 st2 st1' st2' :
  wsimS n k st1 st2 -> star_after_ok post = true -> ~ In (TName n) post ->
  conv_loop (top_named subs) post st1 = COk st1' -> conv_loop (top_named subs) post st2 = COk st2' ->
  wsimS n k st1' st2'.
Proof.
  intros W Ha Hn H1 H2. destruct post as [|t post]; cbn [conv_loop] in H1, H2.
  - apply COk_inj in H1, H2. subst. exact W.
  - destruct (conv_step (top_named subs) st1 t) as [sa|e] eqn:E1; [|discriminate].
    destruct (conv_step (top_named subs) st2 t) as [sb|e] eqn:E2; [|discriminate].
    assert (S : simS n k sa sb).
    { eapply step_sim; [exact W|right| |exact E1|exact E2].
      - unfold star_after_ok in Ha. apply negb_true_iff in Ha. exact Ha.
      - intros ->. apply Hn. left. reflexivity. }
    apply (loop_sim n k subs post sa sb st1' st2' S); [|exact H1|exact H2].
    intros Hin. apply Hn. right. exact Hin.
Qed.

(* the two steps at the replaced token *)
Lemma start_sim n subs pre sA st1 st2 :
  conv_loop (top_named subs) pre st0 = COk sA ->
  n <> [] -> ~ In (TName n) pre -> subs_get n subs = None -> star_before_ok pre = true ->
  conv_step (top_named subs) sA TStar = COk st1 -> conv_step (top_named subs) sA (TName n) = COk st2 ->
  wsimS n (length (c_parts sA)) st1 st2.
Proof.
  intros HA Hne Hnin Hsub Hb E1 E2.
  pose proof (conv_loop_inv subs _ _ _ inv_st0 HA) as [_ _ _ I4 _].
  pose proof (conv_loop_last subs pre sA HA) as Hlast.
  assert (Henc : mem_str n (c_enc sA) = false).
  { destruct (mem_str n (c_enc sA)) eqn:Em; [|reflexivity]. exfalso.
    apply mem_str_In' in Em. destruct (conv_loop_enc subs pre st0 sA n HA Em) as [[]|H]. apply Hnin, H. }
  cbn [conv_step] in E1, E2. rewrite Hlast in E1.
  unfold star_before_ok in Hb. apply negb_true_iff in Hb. rewrite Hb in E1.
  apply COk_inj in E1. subst st1.
  unfold top_named in E2.
  assert (Hnil : is_nil n = false) by (destruct n; [congruence|reflexivity]).
  rewrite Hnil, Henc, (sub_of_default n subs Hsub), conv_sub_default in E2.
  change (str_eqb (pr (rcat [re_star])) star_text) with true in E2. cbn [rcat] in E2.
  apply COk_inj in E2. subst st2.
  unfold wsimS. rewrite !push_some by reflexivity. cbn [c_parts c_enc c_stars].
  assert (Hk1 : stars_get (length (c_parts sA)) (c_stars sA) = None).
  { destruct (stars_get (length (c_parts sA)) (c_stars sA)) as [m|] eqn:Es; [|reflexivity]. exfalso.
    destruct (I4 _ _ Es) as [a Ha].
    assert (Hnone : nth_error (c_parts sA) (length (c_parts sA)) = None) by (apply nth_error_None; lia).
    congruence. }
  constructor.
  - apply (nth_error_mid (c_parts sA) re_star []).
  - symmetry. apply upd_last.
  - intros m Hm. rewrite mem_str_cons. destruct (str_eqb m n) eqn:Emn; [|reflexivity].
    apply str_eqb_eq in Emn. congruence.
  - rewrite app_length. cbn [length].
    replace (length (c_parts sA) + 1 - 1)%nat with (length (c_parts sA)) by lia.
    constructor; cbn [stars_get].
    + intros i Hi. destruct (Nat.eqb_spec i (length (c_parts sA))); [congruence|reflexivity].
    + rewrite Nat.eqb_refl. reflexivity.
    + exact Hk1.
Qed.

(* ------------------------------------------------------------------------------------------ *)
(* 4. The enclosed and the trailing rule on the two part lists                                 *)
(* ------------------------------------------------------------------------------------------ *)

(* the part at k is re_star, or re_plus once the enclosed rule has fired there (then it is not
   the last part) *)
Definition esim (n : str) (k : nat) (ps1 ps2 : list re) : Prop :=
  exists x, (x = re_star \/ (x = re_plus /\ (S k < length ps1)%nat))
            /\ nth_error ps1 k = Some x /\ ps2 = upd k (RGrp n x) ps1.

(* what is left at the end *)
Definition fsim (n : str) (k : nat) (ps1 ps2 : list re) : Prop :=
  exists x, nth_error ps1 k = Some x /\ ps2 = upd k (RGrp n x) ps1.

Lemma grp_last_char c n a : last_char_is c (pr (RGrp n a)) = (41 =? c).
Proof. cbn [pr]. rewrite !app_assoc. rewrite last_char_app by discriminate. reflexivity. Qed.

Lemma esim_facts n k ps1 ps2 : esim n k ps1 ps2 ->
  length ps2 = length ps1
  /\ (forall j, last_char_is 47 (pr (nth j ps2 REps)) = last_char_is 47 (pr (nth j ps1 REps)))
  /\ (forall j, head_is 47 (pr (nth j ps2 REps)) = head_is 47 (pr (nth j ps1 REps)))
  /\ (forall j, j <> k -> nth j ps2 REps = nth j ps1 REps).
Proof.
  intros [x [Hx [Hn ->]]].
  assert (Hk : (k <? length ps1)%nat = true) by (apply Nat.ltb_lt, nth_error_Some; congruence).
  pose proof (nth_nth_error _ _ _ Hn) as Hnth.
  assert (Hx' : x = re_star \/ x = re_plus) by (destruct Hx as [H|[H _]]; auto).
  split; [apply upd_length|]. split; [|split].
  - intros j. rewrite nth_upd. destruct (Nat.eqb_spec j k) as [->|Hj]; [|reflexivity].
    rewrite Hk. cbn [andb]. rewrite Hnth, grp_last_char. destruct Hx' as [->| ->]; reflexivity.
  - intros j. rewrite nth_upd. destruct (Nat.eqb_spec j k) as [->|Hj]; [|reflexivity].
    rewrite Hk. cbn [andb]. rewrite Hnth. destruct Hx' as [->| ->]; reflexivity.
  - intros j Hj. rewrite nth_upd. destruct (Nat.eqb_spec j k) as [->|_]; [congruence|reflexivity].
Qed.

Definition enc_step (stars : list (nat * str)) (i : nat) (ps : list re) : list re :=
  if (Nat.ltb 0 i) && (Nat.ltb i (length ps - 1))
     && last_char_is 47 (pr (nth (i - 1) ps REps))
     && head_is 47 (pr (nth (i + 1) ps REps))
  then match stars_get i stars with
       | Some sn => upd i (RGrp sn re_plus) ps
       | None => if last_char_is 42 (pr (nth i ps REps)) then upd i (star_to_plus (nth i ps REps)) ps else ps
       end
  else ps.

Lemma enclosed_S stars cnt i ps : enclosed stars (S cnt) i ps = enclosed stars cnt (S i) (enc_step stars i ps).
Proof. reflexivity. Qed.

Lemma esim_upd_other n k ps1 ps2 i y : esim n k ps1 ps2 -> i <> k -> esim n k (upd i y ps1) (upd i y ps2).
Proof.
  intros [x [Hx [Hn ->]]] Hik. exists x. split; [rewrite upd_length; exact Hx|]. split.
  - rewrite nth_error_upd. destruct (Nat.eqb_spec k i) as [->|_]; [congruence|]. exact Hn.
  - apply upd_comm. exact Hik.
Qed.

Lemma enc_step_sim n k s1 s2 i ps1 ps2 :
  srel n k s1 s2 -> esim n k ps1 ps2 -> esim n k (enc_step s1 i ps1) (enc_step s2 i ps2).
Proof.
  intros [S1 S2 S3] E. destruct (esim_facts _ _ _ _ E) as [Hlen [Hl [Hh Hnth]]].
  unfold enc_step. rewrite Hlen, Hl, Hh.
  destruct ((0 <? i)%nat && (i <? length ps1 - 1)%nat && last_char_is 47 (pr (nth (i - 1) ps1 REps))
            && head_is 47 (pr (nth (i + 1) ps1 REps))) eqn:Ec; [|exact E].
  destruct (Nat.eq_dec i k) as [->|Hik].
  - rewrite S2, S3. destruct E as [x [Hx [Hn ->]]]. rewrite (nth_nth_error _ _ _ Hn).
    assert (Hk : (k <? length ps1)%nat = true) by (apply Nat.ltb_lt, nth_error_Some; congruence).
    assert (Hk2 : (S k < length ps1)%nat).
    { apply andb_true_iff in Ec as [Ec _]. apply andb_true_iff in Ec as [Ec _].
      apply andb_true_iff in Ec as [_ Ec]. apply Nat.ltb_lt in Ec. lia. }
    exists re_plus. split; [right; split; [reflexivity|]|].
    + destruct Hx as [->|[-> _]].
      * change (last_char_is 42 (pr re_star)) with true. cbv iota. rewrite upd_length. exact Hk2.
      * change (last_char_is 42 (pr re_plus)) with false. cbv iota. exact Hk2.
    + destruct Hx as [->|[-> _]].
      * change (last_char_is 42 (pr re_star)) with true. cbv iota.
        change (star_to_plus re_star) with re_plus. split.
        -- rewrite nth_error_upd, Nat.eqb_refl, Hk. reflexivity.
        -- rewrite !upd_upd_same. reflexivity.
      * change (last_char_is 42 (pr re_plus)) with false. cbv iota. split; [exact Hn|].
        rewrite upd_upd_same. reflexivity.
  - rewrite (S1 i Hik), (Hnth i Hik). destruct (stars_get i s1).
    + apply esim_upd_other; assumption.
    + destruct (last_char_is 42 (pr (nth i ps1 REps))); [|exact E]. apply esim_upd_other; assumption.
Qed.

Lemma enclosed_sim n k s1 s2 cnt : forall i ps1 ps2,
  srel n k s1 s2 -> esim n k ps1 ps2 -> esim n k (enclosed s1 cnt i ps1) (enclosed s2 cnt i ps2).
Proof.
  induction cnt as [|cnt IH]; intros i ps1 ps2 S E; [exact E|].
  rewrite !enclosed_S. apply IH; [exact S|]. apply enc_step_sim; assumption.
Qed.

Lemma esim_fsim n k ps1 ps2 : esim n k ps1 ps2 -> fsim n k ps1 ps2.
Proof. intros [x [_ H]]. exists x. exact H. Qed.

Lemma trailing_sim n k s1 s2 ps1 ps2 :
  srel n k s1 s2 -> esim n k ps1 ps2 -> fsim n k (trailing s1 ps1) (trailing s2 ps2).
Proof.
  intros [S1 S2 S3] E. destruct (esim_facts _ _ _ _ E) as [Hlen [Hl [Hh Hnth]]].
  unfold trailing. cbv zeta. rewrite !last_as_nth, Hlen, Hl.
  set (body := if (2 <=? length ps1)%nat && last_char_is 47 (pr (nth (length ps1 - 2) ps1 REps))
               then re_plus else re_star).
  destruct (Nat.eq_dec (length ps1 - 1) k) as [Hk|Hk].
  - rewrite Hk, S2, S3. cbn [orb]. destruct E as [x [Hx [Hn ->]]].
    assert (Hlt : (k < length ps1)%nat) by (apply nth_error_Some; congruence).
    assert (Hxs : x = re_star) by (destruct Hx as [H|[_ H]]; [exact H|lia]). subst x.
    rewrite (nth_nth_error _ _ _ Hn). change (str_eqb (pr re_star) star_text) with true. cbv iota.
    exists body. split.
    + rewrite nth_error_app1 by (rewrite upd_length; exact Hlt).
      rewrite nth_error_upd, Nat.eqb_refl. apply Nat.ltb_lt in Hlt. rewrite Hlt. reflexivity.
    + rewrite upd_upd_same. rewrite upd_snoc by (rewrite upd_length; exact Hlt).
      rewrite upd_upd_same. reflexivity.
  - rewrite (S1 _ Hk), (Hnth _ Hk).
    destruct ((match stars_get (length ps1 - 1) s1 with Some _ => true | None => false end)
              || str_eqb (pr (nth (length ps1 - 1) ps1 REps)) star_text); [|apply esim_fsim; exact E].
    set (y := match stars_get (length ps1 - 1) s1 with Some name => RGrp name body | None => body end).
    destruct E as [x [Hx [Hn ->]]].
    assert (Hlt : (k < length ps1)%nat) by (apply nth_error_Some; congruence).
    exists x. split.
    + rewrite nth_error_app1 by (rewrite upd_length; exact Hlt).
      rewrite nth_error_upd. destruct (Nat.eqb_spec k (length ps1 - 1)) as [Heq|_]; [congruence|]. exact Hn.
    + rewrite (upd_comm ps1 (length ps1 - 1) k y _ Hk).
      rewrite upd_snoc by (rewrite upd_length; exact Hlt). reflexivity.
Qed.

Lemma fsim_split n k ps1 ps2 : fsim n k ps1 ps2 ->
  exists A x B, ps1 = A ++ x :: B /\ ps2 = A ++ RGrp n x :: B.
Proof.
  intros [x [Hn ->]]. destruct (nth_error_split _ _ Hn) as [A [B [-> Hl]]].
  exists A, x, B. split; [reflexivity|]. subst k. apply upd_mid.
Qed.

(* ------------------------------------------------------------------------------------------ *)
(* 5. The theorem                                                                              *)
(* ------------------------------------------------------------------------------------------ *)

(* The two compiled part lists differ by the group wrapper at one position. *)
Lemma named_vs_star_parts :
  forall (p1 p2 : str) (subs : subs_t) (pre post : list tok) (n : str) (ps1 ps2 : list re),
    tokenize p1 = pre ++ TStar :: post -> tokenize p2 = pre ++ TName n :: post ->
    n <> [] -> ~ In (TName n) (pre ++ post) -> subs_get n subs = None ->
    star_before_ok pre = true -> star_after_ok post = true ->
    conv_regex p1 subs = COk ps1 -> conv_regex p2 subs = COk ps2 ->
    exists A x B, ps1 = A ++ x :: B /\ ps2 = A ++ RGrp n x :: B /\ forallb (noref n) B = true.
Proof.
  intros p1 p2 subs pre post n ps1 ps2 Ht1 Ht2 Hne Hnin Hsub Hb Ha Hc1 Hc2.
  assert (Hnr : forallb (noref n) ps1 = true).
  { eapply (conv_regex_f (noref n) _ (closed_noref n)); [exact Hc1|].
    intros m Hm. rewrite Ht1 in Hm. destruct (str_eqb n m) eqn:Enm; [|reflexivity]. exfalso.
    apply str_eqb_eq in Enm. subst m. apply Hnin. apply in_app_or in Hm as [Hm|[Hm|Hm]].
    - apply in_or_app. left. exact Hm.
    - discriminate.
    - apply in_or_app. right. exact Hm. }
  unfold conv_regex in Hc1, Hc2.
  destruct (is_nil p1); [discriminate|]. destruct (is_nil p2); [discriminate|].
  rewrite Ht1 in Hc1. rewrite Ht2 in Hc2. rewrite conv_loop_app in Hc1, Hc2.
  destruct (conv_loop (top_named subs) pre st0) as [sA|e] eqn:EA; [|discriminate].
  cbn [conv_loop] in Hc1, Hc2.
  destruct (conv_step (top_named subs) sA TStar) as [s1|e] eqn:E1; [|discriminate].
  destruct (conv_step (top_named subs) sA (TName n)) as [s2|e] eqn:E2; [|discriminate].
  destruct (conv_loop (top_named subs) post s1) as [t1|e] eqn:L1; [|discriminate].
  destruct (conv_loop (top_named subs) post s2) as [t2|e] eqn:L2; [|discriminate].
  apply COk_inj in Hc1, Hc2.
  assert (Hpre : ~ In (TName n) pre) by (intros H; apply Hnin, in_or_app; left; exact H).
  assert (Hpost : ~ In (TName n) post) by (intros H; apply Hnin, in_or_app; right; exact H).
  pose proof (start_sim n subs pre sA s1 s2 EA Hne Hpre Hsub Hb E1 E2) as W0.
  pose proof (loop_sim_weak n _ subs post s1 s2 t1 t2 W0 Ha Hpost L1 L2) as [W1 W2 _ W4].
  set (k := length (c_parts sA)) in *.
  assert (E0 : esim n k (c_parts t1) (c_parts t2)).
  { exists re_star. split; [left; reflexivity|]. split; [exact W1|exact W2]. }
  assert (Hlen : length (c_parts t2) = length (c_parts t1)) by (rewrite W2; apply upd_length).
  rewrite Hlen in Hc2.
  pose proof (enclosed_sim n k _ _ (length (c_parts t1)) 0 _ _ W4 E0) as E3.
  pose proof (trailing_sim n k _ _ _ _ W4 E3) as F. rewrite Hc1, Hc2 in F.
  destruct (fsim_split _ _ _ _ F) as [A [x [B [H1 H2]]]].
  exists A, x, B. split; [exact H1|]. split; [exact H2|].
  rewrite H1, forallb_app in Hnr. apply andb_true_iff in Hnr as [_ Hnr].
  cbn [forallb] in Hnr. apply andb_true_iff in Hnr as [_ Hnr]. exact Hnr.
Qed.

(* Replacing an anonymous `*` by a fresh default named wildcard never changes which strings the
   compiled regex accepts, when the `*` is not next to a wildcard it would be merged with. *)
Theorem named_equals_star_nonadjacent :
  forall (p1 p2 : str) (subs : subs_t) (pre post : list tok) (n : str) (ps1 ps2 : list re),
    tokenize p1 = pre ++ TStar :: post -> tokenize p2 = pre ++ TName n :: post ->
    n <> [] -> ~ In (TName n) (pre ++ post) -> subs_get n subs = None ->
    star_before_ok pre = true -> star_after_ok post = true ->
    conv_regex p1 subs = COk ps1 -> conv_regex p2 subs = COk ps2 ->
    forall s, accepted (rcat ps2) s <-> accepted (rcat ps1) s.
Proof.
  intros p1 p2 subs pre post n ps1 ps2 Ht1 Ht2 Hne Hnin Hsub Hb Ha Hc1 Hc2 s.
  destruct (named_vs_star_parts p1 p2 subs pre post n ps1 ps2 Ht1 Ht2 Hne Hnin Hsub Hb Ha Hc1 Hc2)
    as [A [x [B [-> [-> Hnr]]]]].
  symmetry. apply named_group_wrapping_preserves_acceptance. exact Hnr.
Qed.

(* the same for re.fullmatch as computed by the executable matcher *)
Corollary named_equals_star_nonadjacent_accepts :
  forall (p1 p2 : str) (subs : subs_t) (pre post : list tok) (n : str) (ps1 ps2 : list re),
    tokenize p1 = pre ++ TStar :: post -> tokenize p2 = pre ++ TName n :: post ->
    n <> [] -> ~ In (TName n) (pre ++ post) -> subs_get n subs = None ->
    star_before_ok pre = true -> star_after_ok post = true ->
    conv_regex p1 subs = COk ps1 -> conv_regex p2 subs = COk ps2 ->
    forall s, accepts (rcat ps2) s = accepts (rcat ps1) s.
Proof.
  intros p1 p2 subs pre post n ps1 ps2 Ht1 Ht2 Hne Hnin Hsub Hb Ha Hc1 Hc2 s.
  apply bool_iff.
  rewrite (accepts_spec _ s (conv_regex_wf _ _ _ Hc1)), (accepts_spec _ s (conv_regex_wf _ _ _ Hc2)).
  exact (named_equals_star_nonadjacent p1 p2 subs pre post n ps1 ps2 Ht1 Ht2 Hne Hnin Hsub Hb Ha Hc1 Hc2 s).
Qed.

(* ------------------------------------------------------------------------------------------ *)
(* 6. The hypotheses are satisfiable; the excluded class is where the statement is false       *)
(* ------------------------------------------------------------------------------------------ *)

(* p1 = **/x[!a]${*m}-${*m}/*.t${*k}   p2 = **/x[!a]${*m}-${*m}/${*n}.t${*k}   subs = {k: ?*}
   a recursive wildcard, a negated class, a repeated other name and a user sub-pattern *)
Definition wide_p1 : str :=
  [42;42;47;120;91;33;97;93;36;123;42;109;125;45;36;123;42;109;125;47;42;46;116;36;123;42;107;125].
Definition wide_p2 : str :=
  [42;42;47;120;91;33;97;93;36;123;42;109;125;45;36;123;42;109;125;47;36;123;42;110;125;46;116;36;123;42;107;125].
Definition wide_subs : subs_t := [([107], [63;42])].
Definition wide_pre : list tok :=
  [TDStarSlash; TLit [120]; TCls [33;97]; TName [109]; TLit [45]; TName [109]; TLit [47]].
Definition wide_post : list tok := [TLit [46;116]; TName [107]].

Example named_equals_star_nonadjacent_example :
  tokenize wide_p1 = wide_pre ++ TStar :: wide_post
  /\ tokenize wide_p2 = wide_pre ++ TName [110] :: wide_post
  /\ [110] <> [] /\ ~ In (TName [110]) (wide_pre ++ wide_post) /\ subs_get [110] wide_subs = None
  /\ star_before_ok wide_pre = true /\ star_after_ok wide_post = true
  /\ f1 wide_p1 wide_subs = false
  /\ match conv_regex wide_p1 wide_subs, conv_regex wide_p2 wide_subs with
     | COk ps1, COk ps2 =>
       (* d/xb0-0/f.tgz is accepted by both, d/xb0-1/f.tgz by neither *)
       accepts (rcat ps1) [100;47;120;98;48;45;48;47;102;46;116;103;122] = true
       /\ accepts (rcat ps2) [100;47;120;98;48;45;48;47;102;46;116;103;122] = true
       /\ accepts (rcat ps1) [100;47;120;98;48;45;49;47;102;46;116;103;122] = false
       /\ accepts (rcat ps2) [100;47;120;98;48;45;49;47;102;46;116;103;122] = false
     | _, _ => False
     end.
Proof.
  vm_compute. repeat split; try discriminate.
  intros H. repeat (destruct H as [H|H]; [discriminate|]). exact H.
Qed.

(* The side conditions cannot be dropped: the statement is false of the code when the replaced `*`
   is next to another `*`.  Both witnesses are the string d/ (empty last component, D5d).

   After: "d/***" compiles to [d/; re_plus; re_optslash] (the three `*` are merged, then the
   trailing rule), but "d/${*n}**" to [d/; RGrp n re_star; re_star; re_optslash]: the `*` after the
   named wildcard is kept and the trailing rule sees no separator before it. *)
Lemma named_vs_star_adjacent_after_refuted :
  exists p1 p2 subs pre post n ps1 ps2 s,
    tokenize p1 = pre ++ TStar :: post /\ tokenize p2 = pre ++ TName n :: post
    /\ n <> [] /\ ~ In (TName n) (pre ++ post) /\ subs_get n subs = None
    /\ star_before_ok pre = true /\ star_after_ok post = false
    /\ conv_regex p1 subs = COk ps1 /\ conv_regex p2 subs = COk ps2
    /\ accepts (rcat ps1) s = false /\ accepts (rcat ps2) s = true
    /\ wf_path s = true /\ ends_sep s = true.
Proof.
  exists [100;47;42;42;42], [100;47;36;123;42;110;125;42;42], [], [TLit [100;47]], [TStar; TStar], [110].
  eexists. eexists. exists [100;47].
  vm_compute. repeat split; try discriminate.
  intros H. repeat (destruct H as [H|H]; [discriminate|]). exact H.
Qed.

(* Before: "d/**${*n}" compiles to [d/; re_star; RGrp n re_star; re_optslash]. *)
Lemma named_vs_star_adjacent_before_refuted :
  exists p1 p2 subs pre post n ps1 ps2 s,
    tokenize p1 = pre ++ TStar :: post /\ tokenize p2 = pre ++ TName n :: post
    /\ n <> [] /\ ~ In (TName n) (pre ++ post) /\ subs_get n subs = None
    /\ star_before_ok pre = false /\ star_after_ok post = true
    /\ conv_regex p1 subs = COk ps1 /\ conv_regex p2 subs = COk ps2
    /\ accepts (rcat ps1) s = false /\ accepts (rcat ps2) s = true
    /\ wf_path s = true /\ ends_sep s = true.
Proof.
  exists [100;47;42;42;42], [100;47;42;42;36;123;42;110;125], [], [TLit [100;47]; TStar; TStar], [], [110].
  eexists. eexists. exists [100;47].
  vm_compute. repeat split; try discriminate.
  intros H. repeat (destruct H as [H|H]; [discriminate|]). exact H.
Qed.

(* Consequently the clause for all patterns (last conjunct of C17_full) fails already at the level
   of the compiled regex, without any file system. *)
Definition named_equals_star_full : Prop :=
  forall (p1 p2 : str) (subs : subs_t) (pre post : list tok) (n : str) (ps1 ps2 : list re),
    tokenize p1 = pre ++ TStar :: post -> tokenize p2 = pre ++ TName n :: post ->
    n <> [] -> ~ In (TName n) (pre ++ post) -> subs_get n subs = None ->
    conv_regex p1 subs = COk ps1 -> conv_regex p2 subs = COk ps2 ->
    forall s, accepts (rcat ps2) s = accepts (rcat ps1) s.

Lemma named_equals_star_full_refuted : ~ named_equals_star_full.
Proof.
  intros H.
  destruct named_vs_star_adjacent_after_refuted
    as [p1 [p2 [subs [pre [post [n [ps1 [ps2 [s [H1 [H2 [H3 [H4 [H5 [_ [_ [H6 [H7 [H8 [H9 _]]]]]]]]]]]]]]]]]]]].
  specialize (H p1 p2 subs pre post n ps1 ps2 H1 H2 H3 H4 H5 H6 H7 s). congruence.
Qed.

(* ========================================================================================== *)
(* Part II.  compile_regex_correct on F2 = F1 plus back-references                             *)
(* ========================================================================================== *)

(* The development of proofs/NglobCorrect.v describes what a part matches without capture
   environments, which is impossible for a back-reference.  Here the same three steps (loop =
   specification parts; enclosed rule; trailing rule) are proved on [mt_parts], with environments:
   the enclosed rule keeps the very same list of pieces. *)

Definition shape0r (r : re) : Prop := shape0 r \/ exists n, r = RRef n.
Definition shape2 (r : re) : Prop := shape r \/ exists n, r = RRef n.

Definition starlike2 (r : re) : bool :=
  match r with RStar _ | RPlus _ | RGrp _ _ | RRef _ => true | _ => false end.

Fixpoint nadj2 (prev : bool) (ps : list re) : bool :=
  match ps with
  | [] => true
  | r :: rs => negb (prev && starlike2 r) && nadj2 (starlike2 r) rs
  end.

Definition tok_part2 (subs : subs_t) (t : tok) (r : re) : Prop :=
  match t with
  | TLit s => r = RStr s
  | TQ => r = notslash
  | TCls inner => r = re_cls inner
  | TStar => r = re_star
  | TName n => (r = RGrp n re_star /\ subs_get n subs = None) \/ r = RRef n
  | _ => False
  end.

Lemma f1_f2_toks ts subs : forall seen prev, f1_toks ts subs seen prev = true -> f2_toks ts subs seen prev = true.
Proof.
  induction ts as [|t ts IH]; intros seen prev H; [reflexivity|].
  destruct t; cbn [f1_toks f2_toks] in *; try discriminate.
  - apply andb_true_iff in H as [H1 H2]. rewrite H1, (IH _ _ H2). reflexivity.
  - apply IH, H.
  - apply andb_true_iff in H as [H1 H2]. rewrite H1, (IH _ _ H2). reflexivity.
  - apply andb_true_iff in H as [H1 H2]. rewrite H1, (IH _ _ H2). reflexivity.
  - apply andb_true_iff in H as [H Hr]. apply andb_true_iff in H as [H Hsub].
    apply andb_true_iff in H as [H Hseen]. apply andb_true_iff in H as [Hp Hnn].
    apply negb_true_iff in Hseen. rewrite Hp, Hnn, Hseen, Hsub, (IH _ _ Hr). reflexivity.
Qed.

Lemma f1_f2 p subs : f1 p subs = true -> f2 p subs = true.
Proof.
  unfold f1, f2. intros H. apply andb_true_iff in H as [H1 H2]. rewrite H1, (f1_f2_toks _ _ _ _ H2). reflexivity.
Qed.

Lemma conv_step_ref subs st n :
  is_nil n = false -> mem_str n (c_enc st) = true ->
  conv_step (top_named subs) st (TName n) =
  COk (mk_cst (c_parts st ++ [RRef n]) (Some (TName n)) (c_enc st) (c_stars st)).
Proof.
  intros H1 H2. cbn [conv_step]. unfold top_named. rewrite H1, H2.
  rewrite push_some by reflexivity. reflexivity.
Qed.

Lemma last_cons_noref x sp :
  (sp = [] -> forall n, x <> RRef n) -> (forall n, last sp REps <> RRef n) ->
  forall n, last (x :: sp) REps <> RRef n.
Proof. intros Hx Hs n. destruct sp as [|y sp']; [apply Hx; reflexivity|apply (Hs n)]. Qed.

Lemma loop_f2 subs ts : forall seen prev st,
  f2_toks ts subs seen prev = true ->
  c_enc st = seen ->
  (is_tstar (c_last st) || is_tdstar (c_last st) = true -> prev = true) ->
  bind_ok (c_parts st) (c_stars st) -> grp_in_enc (c_parts st) (c_enc st) ->
  exists sp st',
    spec_parts ts subs seen = Some sp /\
    conv_loop (top_named subs) ts st = COk st' /\
    c_parts st' = c_parts st ++ sp /\
    Forall shape0r sp /\
    bind_ok (c_parts st') (c_stars st') /\
    Forall2 (tok_part2 subs) ts sp /\ nadj2 prev sp = true /\
    (forall n, last sp REps <> RRef n).
Proof.
  induction ts as [|t ts IH]; intros seen prev st Hf Henc Hlast Hb Hg.
  - exists [], st. cbn. rewrite app_nil_r. split; [reflexivity|]. split; [reflexivity|].
    split; [reflexivity|]. split; [constructor|]. split; [exact Hb|]. split; [constructor|].
    split; [reflexivity|]. intros n. discriminate.
  - destruct t; cbn [f2_toks] in Hf; try discriminate.
    + (* TLit *)
      apply andb_true_iff in Hf as [Hs Hf].
      set (st1 := mk_cst (c_parts st ++ [RStr s]) (Some (TLit s)) (c_enc st) (c_stars st)).
      destruct (IH seen false st1 Hf Henc) as [sp [st' [H1 [H2 [H3 [H4 [H5 [H6 [H7 H8]]]]]]]]].
      * cbn. discriminate.
      * apply bind_ok_snoc_plain; [exact Hb|]. intros n. discriminate.
      * apply grp_in_enc_snoc_plain; [exact Hg|]. intros n a. discriminate.
      * exists (RStr s :: sp), st'. cbn [spec_parts conv_loop conv_step]. rewrite H1. fold st1. rewrite H2.
        split; [reflexivity|]. split; [reflexivity|]. split; [rewrite H3; cbn; rewrite <- app_assoc; reflexivity|].
        split; [constructor; [|exact H4]; left; left; exists s; split; [reflexivity|destruct s; discriminate]|].
        split; [exact H5|]. split; [constructor; [reflexivity|exact H6]|].
        split; [cbn [nadj2 starlike2]; rewrite andb_false_r; exact H7|].
        apply last_cons_noref; [intros _ n; discriminate|exact H8].
    + (* TQ *)
      set (st1 := mk_cst (c_parts st ++ [re_q]) (Some TQ) (c_enc st) (c_stars st)).
      destruct (IH seen false st1 Hf Henc) as [sp [st' [H1 [H2 [H3 [H4 [H5 [H6 [H7 H8]]]]]]]]].
      * cbn. discriminate.
      * apply bind_ok_snoc_plain; [exact Hb|]. intros n. discriminate.
      * apply grp_in_enc_snoc_plain; [exact Hg|]. intros n a. discriminate.
      * exists (notslash :: sp), st'. cbn [spec_parts conv_loop conv_step]. rewrite H1.
        rewrite push_some by reflexivity. cbn zeta. fold st1. rewrite H2.
        split; [reflexivity|]. split; [reflexivity|]. split; [rewrite H3; cbn; rewrite <- app_assoc; reflexivity|].
        split; [constructor; [|exact H4]; left; right; left; exists true, [47]; split; reflexivity|].
        split; [exact H5|]. split; [constructor; [reflexivity|exact H6]|].
        split; [cbn [nadj2 starlike2 notslash]; rewrite andb_false_r; exact H7|].
        apply last_cons_noref; [intros _ n; discriminate|exact H8].
    + (* TStar *)
      apply andb_true_iff in Hf as [Hp Hf]. apply negb_true_iff in Hp. subst prev.
      assert (Hns : is_tstar (c_last st) || is_tdstar (c_last st) = false).
      { destruct (is_tstar (c_last st) || is_tdstar (c_last st)); [|reflexivity]. specialize (Hlast eq_refl). discriminate. }
      set (st1 := mk_cst (c_parts st ++ [re_star]) (Some TStar) (c_enc st) (c_stars st)).
      destruct (IH seen true st1 Hf Henc) as [sp [st' [H1 [H2 [H3 [H4 [H5 [H6 [H7 H8]]]]]]]]].
      * reflexivity.
      * apply bind_ok_snoc_plain; [exact Hb|]. intros n. discriminate.
      * apply grp_in_enc_snoc_plain; [exact Hg|]. intros n a. discriminate.
      * exists (re_star :: sp), st'. cbn [spec_parts conv_loop conv_step]. rewrite H1, Hns.
        rewrite push_some by reflexivity. cbn zeta. fold st1. rewrite H2.
        split; [reflexivity|]. split; [reflexivity|]. split; [rewrite H3; cbn; rewrite <- app_assoc; reflexivity|].
        split; [constructor; [|exact H4]; left; right; right; left; reflexivity|]. split; [exact H5|].
        split; [constructor; [reflexivity|exact H6]|].
        split; [cbn [nadj2 starlike2 re_star andb negb]; exact H7|].
        apply last_cons_noref; [intros _ n; discriminate|exact H8].
    + (* TCls *)
      apply andb_true_iff in Hf as [Hc Hf]. unfold cls_rejects_sep in Hc.
      destruct (re_cls_is_cls inner) as [neg [body Hr]]. rewrite Hr in Hc. apply negb_true_iff in Hc.
      set (st1 := mk_cst (c_parts st ++ [re_cls inner]) (Some (TCls inner)) (c_enc st) (c_stars st)).
      destruct (IH seen false st1 Hf Henc) as [sp [st' [H1 [H2 [H3 [H4 [H5 [H6 [H7 H8]]]]]]]]].
      * cbn. discriminate.
      * apply bind_ok_snoc_plain; [exact Hb|]. intros n. rewrite Hr. discriminate.
      * apply grp_in_enc_snoc_plain; [exact Hg|]. intros n a. rewrite Hr. discriminate.
      * exists (re_cls inner :: sp), st'. cbn [spec_parts conv_loop conv_step]. rewrite H1.
        assert (Hsc : spec_cls inner = Some (re_cls inner)).
        { unfold spec_cls. rewrite Hr, Hc. reflexivity. }
        rewrite Hsc. rewrite push_some by (rewrite Hr; reflexivity). cbn zeta. fold st1. rewrite H2.
        split; [reflexivity|]. split; [reflexivity|]. split; [rewrite H3; cbn; rewrite <- app_assoc; reflexivity|].
        split; [constructor; [|exact H4]; left; right; left; exists neg, body; split; assumption|]. split; [exact H5|].
        split; [constructor; [reflexivity|exact H6]|].
        split; [cbn [nadj2]; rewrite Hr; cbn [starlike2]; rewrite andb_false_r; exact H7|].
        apply last_cons_noref; [intros _ n; rewrite Hr; discriminate|exact H8].
    + (* TName *)
      apply andb_true_iff in Hf as [Hf Hrest]. apply andb_true_iff in Hf as [Hp Hnn].
      apply negb_true_iff in Hp, Hnn. subst prev.
      destruct (mem_str name seen) eqn:Hseen.
      * (* a back-reference *)
        apply andb_true_iff in Hrest as [Hne Hr]. apply negb_true_iff in Hne.
        set (st1 := mk_cst (c_parts st ++ [RRef name]) (Some (TName name)) (c_enc st) (c_stars st)).
        destruct (IH seen true st1 Hr Henc) as [sp [st' [H1 [H2 [H3 [H4 [H5 [H6 [H7 H8]]]]]]]]].
        -- reflexivity.
        -- apply bind_ok_snoc_plain; [exact Hb|]. intros n. discriminate.
        -- apply grp_in_enc_snoc_plain; [exact Hg|]. intros n a. discriminate.
        -- exists (RRef name :: sp), st'. cbn [spec_parts conv_loop].
           rewrite (conv_step_ref subs st name Hnn) by (rewrite Henc; exact Hseen).
           rewrite Hnn, Hseen, H1. fold st1.
           split; [reflexivity|]. split; [exact H2|].
           split; [rewrite H3; cbn; rewrite <- app_assoc; reflexivity|].
           split; [constructor; [|exact H4]; right; exists name; reflexivity|]. split; [exact H5|].
           split; [constructor; [right; reflexivity|exact H6]|].
           split; [cbn [nadj2 starlike2 andb negb]; exact H7|].
           apply last_cons_noref; [|exact H8]. intros Hsp. subst sp. inversion H6; subst. discriminate.
      * (* the first occurrence *)
        apply andb_true_iff in Hrest as [Hsub Hr].
        assert (Hsub' : subs_get name subs = None) by (destruct (subs_get name subs); [discriminate|reflexivity]).
        set (parts1 := c_parts st ++ [RGrp name re_star]).
        set (st1 := mk_cst parts1 (Some (TName name)) (name :: c_enc st) ((length parts1 - 1, name)%nat :: c_stars st)).
        destruct (IH (name :: seen) true st1 Hr) as [sp [st' [H1 [H2 [H3 [H4 [H5 [H6 [H7 H8]]]]]]]]].
        -- cbn. rewrite Henc. reflexivity.
        -- reflexivity.
        -- apply bind_ok_snoc_group with (enc := c_enc st); [exact Hb|exact Hg|]. rewrite Henc. exact Hseen.
        -- apply grp_in_enc_snoc_group. exact Hg.
        -- exists (RGrp name re_star :: sp), st'. cbn [spec_parts conv_loop].
           rewrite (conv_step_name subs st name Hnn) by (try rewrite Henc; assumption).
           rewrite Hnn, Hseen, (sub_of_default _ _ Hsub'), spec_sub_default, H1. cbn [rcat is_nil].
           split; [reflexivity|]. split; [exact H2|].
           split; [rewrite H3; unfold st1, parts1; cbn; rewrite <- app_assoc; reflexivity|].
           split; [constructor; [|exact H4]; left; right; right; right; exists name; reflexivity|]. split; [exact H5|].
           split; [constructor; [left; split; [reflexivity|exact Hsub']|exact H6]|].
           split; [cbn [nadj2 starlike2 andb negb]; exact H7|].
           apply last_cons_noref; [intros _ n; discriminate|exact H8].
Qed.

(* ---- text tests on the parts of F2 ---- *)

Lemma shape0r_shape2 r : shape0r r -> shape2 r.
Proof. intros [H|H]; [left; apply shape0_shape; exact H|right; exact H]. Qed.

Lemma ref_last_char c n : last_char_is c (pr (RRef n)) = (41 =? c).
Proof. cbn [pr]. rewrite app_assoc. rewrite last_char_app by discriminate. reflexivity. Qed.

Lemma pr_last_sep2 r : shape2 r -> last_char_is 47 (pr r) = true -> exists l, r = RStr l /\ ends_sep l = true.
Proof.
  intros [Hs|[n ->]] H; [apply pr_last_sep; assumption|]. rewrite ref_last_char in H. discriminate.
Qed.

Lemma pr_head_sep2 r : shape2 r -> head_is 47 (pr r) = true -> exists l, r = RStr l /\ head_is 47 l = true.
Proof. intros [Hs|[n ->]] H; [apply pr_head_sep; assumption|]. discriminate. Qed.

Lemma last_char_lit2 r : shape2 r -> last_char_is 47 (pr r) = lit_ends_sep r.
Proof. intros [Hs|[n ->]]; [apply last_char_lit; exact Hs|]. rewrite ref_last_char. reflexivity. Qed.

(* ---- the enclosed rule keeps the pieces ---- *)

Lemma mt_str_inv l e y e' : mt (RStr l) e y e' -> y = l /\ e' = e.
Proof. intros H. inversion H; subst. split; reflexivity. Qed.

Lemma mt_parts_mid a p z q b e ss e' :
  mt_parts (a ++ p :: z :: q :: b) e ss e' <->
  exists sa ea y1 e1 y e2 y2 e3 sb,
    ss = sa ++ y1 :: y :: y2 :: sb /\ mt_parts a e sa ea /\ mt p ea y1 e1 /\ mt z e1 y e2
    /\ mt q e2 y2 e3 /\ mt_parts b e3 sb e'.
Proof.
  rewrite mt_parts_app. split.
  - intros [sa [sr [ea [-> [Ha Hr]]]]].
    apply mt_parts_cons_inv in Hr as [y1 [r1 [e1 [-> [Hp Hr]]]]].
    apply mt_parts_cons_inv in Hr as [y [r2 [e2 [-> [Hz Hr]]]]].
    apply mt_parts_cons_inv in Hr as [y2 [sb [e3 [-> [Hq Hb]]]]].
    exists sa, ea, y1, e1, y, e2, y2, e3, sb. repeat split; assumption.
  - intros [sa [ea [y1 [e1 [y [e2 [y2 [e3 [sb [-> [Ha [Hp [Hz [Hq Hb]]]]]]]]]]]]]].
    exists sa, (y1 :: y :: y2 :: sb), ea. split; [reflexivity|]. split; [exact Ha|].
    econstructor; [exact Hp|]. econstructor; [exact Hz|]. econstructor; [exact Hq|exact Hb].
Qed.

(* replacing a part between two separators by its non-empty version *)
Lemma sandwich2 a l1 x x' l2 b e ss e' :
  ends_sep l1 = true -> head_is 47 l2 = true ->
  (forall e0 y e1, mt x' e0 y e1 <-> mt x e0 y e1 /\ y <> []) ->
  no_dslash (concat ss) = true ->
  (mt_parts (a ++ RStr l1 :: x' :: RStr l2 :: b) e ss e' <-> mt_parts (a ++ RStr l1 :: x :: RStr l2 :: b) e ss e').
Proof.
  intros He Hh Hx Hs. apply ends_sep_inv in He as [l1' ->]. apply head_sep_inv in Hh as [l2' ->].
  rewrite !mt_parts_mid. split.
  - intros [sa [ea [y1 [e1 [y [e2 [y2 [e3 [sb [-> [Ha [Hp [Hz [Hq Hb]]]]]]]]]]]]]].
    apply Hx in Hz as [Hz _]. exists sa, ea, y1, e1, y, e2, y2, e3, sb. repeat split; assumption.
  - intros [sa [ea [y1 [e1 [y [e2 [y2 [e3 [sb [-> [Ha [Hp [Hz [Hq Hb]]]]]]]]]]]]]].
    exists sa, ea, y1, e1, y, e2, y2, e3, sb. repeat split; try assumption.
    apply Hx. split; [exact Hz|]. intros ->.
    apply mt_str_inv in Hp as [-> _]. apply mt_str_inv in Hq as [-> _].
    rewrite concat_app in Hs. cbn [concat app] in Hs.
    rewrite <- !app_assoc in Hs. cbn [app] in Hs. rewrite app_assoc in Hs.
    rewrite no_dslash_mid in Hs. discriminate.
Qed.

Lemma plus_nonempty e0 y e1 : mt re_plus e0 y e1 <-> mt re_star e0 y e1 /\ y <> [].
Proof.
  rewrite mt_plus_notslash, mt_star_notslash. split.
  - intros [H1 [H2 H3]]. repeat split; assumption.
  - intros [[H1 H2] H3]. repeat split; assumption.
Qed.

Lemma gplus_nonempty n e0 y e1 : mt (RGrp n re_plus) e0 y e1 <-> mt (RGrp n re_star) e0 y e1 /\ y <> [].
Proof.
  split.
  - intros H. apply mt_grp_inv in H as [ex [-> H]]. apply plus_nonempty in H as [H Hy].
    split; [constructor; exact H|exact Hy].
  - intros [H Hy]. apply mt_grp_inv in H as [ex [-> H]]. constructor. apply plus_nonempty. split; assumption.
Qed.

Record einv (stars : list (nat * str)) (sp ps : list re) : Prop := {
  e_shape : Forall shape2 ps;
  e_bind : forall i n, stars_get i stars = Some n ->
             exists b, nth_error ps i = Some (RGrp n b) /\ (b = re_star \/ b = re_plus);
  e_eqv : forall e ss e', no_dslash (concat ss) = true -> (mt_parts ps e ss e' <-> mt_parts sp e ss e');
  e_len : length ps = length sp;
  e_lit : forall j l, nth_error ps j = Some (RStr l) <-> nth_error sp j = Some (RStr l);
  e_cls : forall j neg body, nth_error ps j = Some (RCls neg body) <-> nth_error sp j = Some (RCls neg body);
  e_last : nth_error ps (length sp - 1) = nth_error sp (length sp - 1)
}.

Definition repl_ok2 (x x' : re) : Prop :=
  shape2 x' /\ ((forall e0 y e1, mt x' e0 y e1 <-> mt x e0 y e1 /\ y <> []) \/ x' = x)
  /\ (forall l, x <> RStr l) /\ (forall l, x' <> RStr l)
  /\ (forall neg body, x <> RCls neg body) /\ (forall neg body, x' <> RCls neg body)
  /\ (forall n bb, x = RGrp n bb -> exists b', x' = RGrp n b' /\ (b' = re_star \/ b' = re_plus)).

Lemma einv_replace stars sp a l1 x x' l2 b :
  einv stars sp (a ++ RStr l1 :: x :: RStr l2 :: b) ->
  ends_sep l1 = true -> head_is 47 l2 = true -> repl_ok2 x x' ->
  einv stars sp (a ++ RStr l1 :: x' :: RStr l2 :: b).
Proof.
  intros [P1 P2 P3 P4 P5 P7 P6] He Hh [R1 [R2 [R3 [R4 [R6 [R7 R5]]]]]]. constructor.
  - apply Forall_app in P1 as [Pa Pr]. apply Forall_app. split; [exact Pa|].
    inversion Pr as [|? ? Hp Pr1]; subst. inversion Pr1 as [|? ? Hx Pr2]; subst.
    constructor; [exact Hp|]. constructor; [exact R1|exact Pr2].
  - intros i n Hs. destruct (P2 i n Hs) as [b0 [Hn Hb]]. rewrite (nth_error_replace a (RStr l1) x x').
    destruct (Nat.eqb_spec i (length a + 1)) as [->|Hne]; [|exists b0; split; assumption].
    rewrite (nth_error_replace a (RStr l1) x x), Nat.eqb_refl in Hn. inversion Hn as [Hx].
    destruct (R5 n b0 Hx) as [b' [-> Hb']]. exists b'. split; [reflexivity|exact Hb'].
  - intros e ss e' Hs. rewrite <- (P3 e ss e' Hs). destruct R2 as [R2| ->]; [|reflexivity].
    apply (sandwich2 a l1 x x' l2 b e ss e' He Hh R2 Hs).
  - rewrite <- P4, !app_length. reflexivity.
  - intros j l. rewrite <- P5, (nth_error_replace a (RStr l1) x x').
    destruct (Nat.eqb_spec j (length a + 1)) as [->|Hne]; [|reflexivity].
    rewrite (nth_error_replace a (RStr l1) x x), Nat.eqb_refl.
    split; intros H; inversion H; [exfalso; eapply R4; eassumption|exfalso; eapply R3; eassumption].
  - intros j neg body. rewrite <- P7, (nth_error_replace a (RStr l1) x x').
    destruct (Nat.eqb_spec j (length a + 1)) as [->|Hne]; [|reflexivity].
    rewrite (nth_error_replace a (RStr l1) x x), Nat.eqb_refl.
    split; intros H; inversion H; [exfalso; eapply R7; eassumption|exfalso; eapply R6; eassumption].
  - rewrite <- P6, (nth_error_replace a (RStr l1) x x').
    destruct (Nat.eqb_spec (length sp - 1) (length a + 1)) as [Heq|Hne]; [|reflexivity].
    exfalso. rewrite <- P4, app_length in Heq. cbn [length] in Heq. lia.
Qed.

Lemma enclosed_einv stars sp n : forall i ps, einv stars sp ps -> einv stars sp (enclosed stars n i ps).
Proof.
  induction n as [|n IH]; intros i ps Hp; cbn [enclosed]; [exact Hp|]. apply IH.
  match goal with |- einv _ _ (if ?c then _ else _) => destruct c eqn:Ec end; [|exact Hp].
  apply andb_true_iff in Ec as [Ec Eq]. apply andb_true_iff in Ec as [Ec Ep].
  apply andb_true_iff in Ec as [E0 E1]. apply Nat.ltb_lt in E0, E1.
  destruct (split3 ps i E0 E1) as [a [p [x [q [b [Hps Hla]]]]]].
  assert (Hi : i = (length a + 1)%nat) by lia.
  assert (Hnp : nth_error ps (i - 1) = Some p) by (rewrite Hps, <- Hla; apply nth_error_mid).
  assert (Hnx : nth_error ps i = Some x).
  { rewrite Hps, Hi. change (a ++ p :: x :: q :: b) with (a ++ [p] ++ x :: q :: b). rewrite app_assoc.
    replace (length a + 1)%nat with (length (a ++ [p])) by (rewrite app_length; reflexivity). apply nth_error_mid. }
  assert (Hnq : nth_error ps (i + 1) = Some q).
  { rewrite Hps, Hi. change (a ++ p :: x :: q :: b) with (a ++ [p; x] ++ q :: b). rewrite app_assoc.
    replace (length a + 1 + 1)%nat with (length (a ++ [p; x])) by (rewrite app_length; cbn; lia). apply nth_error_mid. }
  rewrite (nth_nth_error _ _ _ Hnp) in Ep. rewrite (nth_nth_error _ _ _ Hnq) in Eq. rewrite (nth_nth_error _ _ _ Hnx).
  assert (Hsh := e_shape _ _ _ Hp). rewrite Forall_forall in Hsh.
  destruct (pr_last_sep2 p (Hsh _ (nth_error_In _ _ Hnp)) Ep) as [l1 [-> He]].
  destruct (pr_head_sep2 q (Hsh _ (nth_error_In _ _ Hnq)) Eq) as [l2 [-> Hh]].
  assert (Hsx : shape2 x) by (apply Hsh; eapply nth_error_In; exact Hnx).
  assert (Hupd : forall y, upd i y ps = a ++ RStr l1 :: y :: RStr l2 :: b).
  { intros y. rewrite Hps, Hi, upd_app. reflexivity. }
  assert (Hp' : einv stars sp (a ++ RStr l1 :: x :: RStr l2 :: b)) by (rewrite <- Hps; exact Hp).
  destruct (stars_get i stars) as [sn|] eqn:Es.
  - rewrite Hupd. destruct (e_bind _ _ _ Hp i sn Es) as [b0 [Hb0 Hb]].
    rewrite Hnx in Hb0. inversion Hb0; subst x.
    apply (einv_replace stars sp a l1 (RGrp sn b0) (RGrp sn re_plus) l2 b); try assumption.
    split; [left; constructor|]. split.
    + destruct Hb as [->| ->]; [left; apply gplus_nonempty|right; reflexivity].
    + split; [intros l; discriminate|]. split; [intros l; discriminate|].
      split; [intros ng bd; discriminate|]. split; [intros ng bd; discriminate|].
      intros n0 bb H. inversion H; subst. exists re_plus. split; [reflexivity|right; reflexivity].
  - destruct (last_char_is 42 (pr x)) eqn:E42; [|exact Hp].
    destruct Hsx as [Hsx|[m ->]]; [|rewrite ref_last_char in E42; discriminate].
    destruct Hsx as [l Hl|neg body Hc| | |m|m];
      try (cbn [star_to_plus re_plus]; rewrite (upd_same _ _ _ Hnx); exact Hp).
    cbn [star_to_plus re_star]. fold re_plus. rewrite Hupd.
    apply (einv_replace stars sp a l1 re_star re_plus l2 b); try assumption.
    split; [left; constructor|]. split; [left; apply plus_nonempty|].
    split; [intros l; discriminate|]. split; [intros l; discriminate|].
    split; [intros ng bd; discriminate|]. split; [intros ng bd; discriminate|]. intros n0 bb H. discriminate.
Qed.

Lemma shape2_forall0 sp : Forall shape0r sp -> Forall shape2 sp.
Proof. intros H. eapply Forall_impl; [|exact H]. apply shape0r_shape2. Qed.

Lemma einv_init stars sp : Forall shape0r sp -> bind_ok sp stars -> einv stars sp sp.
Proof.
  intros Hs Hb. constructor; try reflexivity.
  - apply shape2_forall0. exact Hs.
  - intros i n H. apply Hb in H. exists re_star. split; [exact H|left; reflexivity].
Qed.

(* ---- the trailing rule, with environments ---- *)

(* the parts P0 match u0 from the empty environment and leave e1 *)
Definition accE (P0 : list re) (u0 : str) (e1 : env) : Prop :=
  exists ss, concat ss = u0 /\ mt_parts P0 [] ss e1.

Lemma accepted_parts ps s : accepted (rcat ps) s <-> exists e', accE ps s e'.
Proof. unfold accepted, accE. split; intros [e' H]; exists e'; apply mt_rcat; exact H. Qed.

Lemma accE_snoc P0 X u e' :
  accE (P0 ++ [X]) u e' <-> exists u0 y e1, u = u0 ++ y /\ accE P0 u0 e1 /\ mt X e1 y e'.
Proof.
  unfold accE. split.
  - intros [ss [Hc H]]. apply mt_parts_app in H as [s1 [s2 [e1 [-> [H1 H2]]]]].
    apply mt_parts_cons_inv in H2 as [y [r [e2 [-> [Hy Hr]]]]]. apply mt_parts_nil_inv in Hr as [-> ->].
    exists (concat s1), y, e1. rewrite concat_app in Hc. cbn in Hc. rewrite app_nil_r in Hc.
    split; [symmetry; exact Hc|]. split; [exists s1; split; [reflexivity|exact H1]|exact Hy].
  - intros [u0 [y [e1 [-> [[s1 [Hc H1]] Hy]]]]]. exists (s1 ++ [y]). rewrite concat_app. cbn. rewrite app_nil_r, Hc.
    split; [reflexivity|]. apply mt_parts_app. exists s1, [y], e1. split; [reflexivity|]. split; [exact H1|].
    econstructor; [exact Hy|constructor].
Qed.

Lemma accE_nil u e : accE [] u e -> u = [].
Proof. intros [ss [Hc H]]. apply mt_parts_nil_inv in H as [-> _]. cbn in Hc. congruence. Qed.

Lemma accE_ends_lit P00 l u e : l <> [] -> accE (P00 ++ [RStr l]) u e -> ends_sep u = ends_sep l.
Proof.
  intros Hl H. apply accE_snoc in H as [u0 [y [e1 [-> [_ Hy]]]]]. apply mt_str_inv in Hy as [-> _].
  apply ends_sep_app. exact Hl.
Qed.

Lemma accE_ends_cls P00 neg body u e :
  cls_accepts neg body 47 = false -> accE (P00 ++ [RCls neg body]) u e -> ends_sep u = false.
Proof.
  intros Hc H. apply accE_snoc in H as [u0 [y [e1 [-> [_ Hy]]]]]. inversion Hy; subst.
  rewrite ends_sep_app by discriminate. unfold ends_sep. cbn.
  destruct (N.eqb_spec c 47) as [->|]; [congruence|reflexivity].
Qed.

Lemma accepted_ends_lit sp0 l s : l <> [] -> accepted (rcat (sp0 ++ [RStr l])) s -> ends_sep s = ends_sep l.
Proof. intros Hl H. apply accepted_parts in H as [e' H]. eapply accE_ends_lit; eassumption. Qed.

Lemma accepted_ends_cls sp0 neg body s :
  cls_accepts neg body 47 = false -> accepted (rcat (sp0 ++ [RCls neg body])) s -> ends_sep s = false.
Proof. intros Hc H. apply accepted_parts in H as [e' H]. eapply accE_ends_cls; eassumption. Qed.

Lemma accepted_optslash2 ps s :
  accepted (rcat (ps ++ [re_optslash])) s <->
  accepted (rcat ps) s \/ exists s', s = s' ++ [47] /\ accepted (rcat ps) s'.
Proof.
  split.
  - intros H. apply accepted_parts in H as [e' H]. apply accE_snoc in H as [u0 [y [e1 [-> [H0 Hy]]]]].
    apply mt_optslash in Hy as [_ [->| ->]].
    + left. rewrite app_nil_r. apply accepted_parts. exists e1. exact H0.
    + right. exists u0. split; [reflexivity|]. apply accepted_parts. exists e1. exact H0.
  - intros [H|[s' [-> H]]]; apply accepted_parts in H as [e1 H]; apply accepted_parts; exists e1; apply accE_snoc.
    + exists s, [], e1. rewrite app_nil_r. split; [reflexivity|]. split; [exact H|].
      apply mt_optslash. split; [reflexivity|left; reflexivity].
    + exists s', [47], e1. split; [reflexivity|]. split; [exact H|].
      apply mt_optslash. split; [reflexivity|right; reflexivity].
Qed.

Lemma trailing_key2 P0 L u :
  (L = re_star \/ exists m, L = RGrp m re_star) ->
  Forall shape2 P0 ->
  (P0 <> [] -> starlike2 (last P0 REps) = false) ->
  u <> [] ->
  (accepted (rcat (P0 ++ [with_body L (prev_sep P0)])) u
   <-> accepted (rcat (P0 ++ [L])) u /\ ends_sep u = false).
Proof.
  intros HL Hsh Hna Hu.
  assert (HsL : shape L) by (destruct HL as [->|[m ->]]; constructor).
  assert (HsB : shape (with_body L (prev_sep P0))) by (apply with_body_shape; exact HL).
  assert (HpL : forall y, pieceb L y = nosep y) by (intros y; destruct HL as [->|[m ->]]; reflexivity).
  assert (HpB : forall y, pieceb (with_body L (prev_sep P0)) y = nosep y && (negb (prev_sep P0) || negb (is_nil y))).
  { intros y. destruct HL as [->|[m ->]]; cbn [with_body]; destruct (prev_sep P0); cbn [pieceb re_star re_plus];
      try reflexivity; rewrite ?andb_true_r; reflexivity. }
  assert (HX : forall X, shape X -> forall v,
            accepted (rcat (P0 ++ [X])) v <-> exists u0 y e1, v = u0 ++ y /\ accE P0 u0 e1 /\ pieceb X y = true).
  { intros X HXs v. rewrite accepted_parts. split.
    - intros [e' H]. apply accE_snoc in H as [u0 [y [e1 [-> [H0 Hy]]]]]. exists u0, y, e1.
      split; [reflexivity|]. split; [exact H0|]. apply (piece_spec X e1 y HXs). exists e'. exact Hy.
    - intros [u0 [y [e1 [-> [H0 Hy]]]]]. apply (piece_spec X e1 y HXs) in Hy as [e' Hy]. exists e'.
      apply accE_snoc. exists u0, y, e1. split; [reflexivity|]. split; assumption. }
  rewrite (HX _ HsB), (HX _ HsL). split.
  - intros [u0 [y [e1 [-> [H0 Hy]]]]]. rewrite HpB in Hy. apply andb_true_iff in Hy as [Hn Hy].
    split; [exists u0, y, e1; rewrite HpL; repeat split; assumption|].
    destruct y as [|c y'].
    + rewrite app_nil_r in *. cbn in Hy. rewrite orb_false_r in Hy. apply negb_true_iff in Hy.
      destruct P0 as [|p0 P0'] using rev_ind; [apply accE_nil in H0; congruence|]. clear IHP0'.
      unfold prev_sep in Hy. rewrite last_last in Hy.
      specialize (Hna ltac:(intros Hx; destruct P0'; discriminate)). rewrite last_last in Hna.
      apply Forall_app in Hsh as [_ Hp]. inversion Hp as [|? ? Hs0 _]; subst.
      destruct Hs0 as [Hs0|[m ->]]; [|cbn in Hna; discriminate].
      destruct Hs0 as [l Hl|neg body Hc| | |m|m]; try (cbn in Hna; discriminate).
      * rewrite (accE_ends_lit _ _ _ _ Hl H0). exact Hy.
      * apply (accE_ends_cls _ _ _ _ _ Hc H0).
    + rewrite ends_sep_app by discriminate. apply nosep_ends; [exact Hn|discriminate].
  - intros [[u0 [y [e1 [-> [H0 Hy]]]]] He]. exists u0, y, e1. split; [reflexivity|]. split; [exact H0|].
    rewrite HpB. rewrite HpL in Hy. rewrite Hy. cbn [andb].
    destruct (prev_sep P0) eqn:Eps; [|reflexivity]. cbn [negb orb].
    destruct y as [|c y']; [|reflexivity]. exfalso. rewrite app_nil_r in *.
    destruct P0 as [|p0 P0'] using rev_ind; [discriminate|]. clear IHP0'.
    unfold prev_sep in Eps. rewrite last_last in Eps. destruct p0; try discriminate. cbn in Eps.
    apply Forall_app in Hsh as [_ Hp]. inversion Hp as [|? ? Hs0 _]; subst.
    destruct Hs0 as [Hs0|[m Hm]]; [|discriminate]. inversion Hs0; subst.
    match goal with Hl : _ <> [] |- _ => rewrite (accE_ends_lit _ _ _ _ Hl H0) in He end. congruence.
Qed.

Lemma body_cond2 P0 L : Forall shape2 P0 ->
  (Nat.leb 2 (length (P0 ++ [L])) && last_char_is 47 (pr (nth (length (P0 ++ [L]) - 2) (P0 ++ [L]) REps)))
  = prev_sep P0.
Proof.
  intros Hsh. destruct P0 as [|M P00] using rev_ind; [reflexivity|]. clear IHP00.
  rewrite !app_length. cbn [length]. unfold prev_sep. rewrite last_last.
  replace (Nat.leb 2 (length P00 + 1 + 1)) with true by (symmetry; apply Nat.leb_le; lia).
  replace (length P00 + 1 + 1 - 2)%nat with (length P00) by lia.
  rewrite <- app_assoc. cbn [app andb].
  rewrite (nth_nth_error _ _ _ (nth_error_mid P00 M [L])).
  apply last_char_lit2. apply Forall_app in Hsh as [_ Hm]. inversion Hm; assumption.
Qed.

Lemma trailing_snoc2 stars P0 L : Forall shape2 P0 ->
  trailing stars (P0 ++ [L]) =
  match stars_get (length P0) stars with
  | Some name => P0 ++ [RGrp name (if prev_sep P0 then re_plus else re_star)] ++ [re_optslash]
  | None => if str_eqb (pr L) star_text
            then P0 ++ [if prev_sep P0 then re_plus else re_star] ++ [re_optslash]
            else P0 ++ [L]
  end.
Proof.
  intros Hsh. unfold trailing. rewrite (body_cond2 P0 L Hsh). rewrite last_last, app_length. cbn [length].
  replace (length P0 + 1 - 1)%nat with (length P0) by lia.
  destruct (stars_get (length P0) stars) as [name|]; cbn [orb].
  - rewrite upd_last, <- app_assoc. reflexivity.
  - destruct (str_eqb (pr L) star_text); [|reflexivity]. rewrite upd_last, <- app_assoc. reflexivity.
Qed.

(* the documented path rules, on the specification parts, with environments *)
Definition crisp2 (sp : list re) (s : str) : Prop :=
  match last sp REps with
  | RStr l => if ends_sep l then accepted (rcat sp) s else (ends_sep s = false /\ accepted (rcat sp) s)
  | RCls _ _ => ends_sep s = false /\ accepted (rcat sp) s
  | _ => (ends_sep s = false /\ accepted (rcat sp) s)
         \/ (ends_sep s = true /\ accepted (rcat sp) (removelast s))
  end.

Lemma nadj2_last2 prev P00 M L : nadj2 prev (P00 ++ [M; L]) = true -> starlike2 L = true -> starlike2 M = false.
Proof.
  revert prev. induction P00 as [|r P00 IH]; intros prev H HL; cbn [app nadj2] in H.
  - apply andb_true_iff in H as [_ H]. apply andb_true_iff in H as [H _]. rewrite HL, andb_true_r in H.
    apply negb_true_iff in H. exact H.
  - apply andb_true_iff in H as [_ H]. eapply IH; eassumption.
Qed.

Lemma star_case2 sp P0 L s :
  (L = re_star \/ exists m, L = RGrp m re_star) ->
  Forall shape2 P0 ->
  (P0 <> [] -> starlike2 (last P0 REps) = false) ->
  (forall u, no_dslash u = true -> (accepted (rcat sp) u <-> accepted (rcat (P0 ++ [L])) u)) ->
  s <> [] -> head_is 47 s = false -> no_dslash s = true ->
  (accepted (rcat ((P0 ++ [with_body L (prev_sep P0)]) ++ [re_optslash])) s
   <-> (ends_sep s = false /\ accepted (rcat sp) s) \/ (ends_sep s = true /\ accepted (rcat sp) (removelast s))).
Proof.
  intros HL Hsh Hna Heqv Hsne Hhd Hnd.
  rewrite accepted_optslash2.
  assert (Hkey : forall u, u <> [] -> no_dslash u = true ->
            (accepted (rcat (P0 ++ [with_body L (prev_sep P0)])) u <-> accepted (rcat sp) u /\ ends_sep u = false)).
  { intros u Hu Hdu. rewrite (trailing_key2 P0 L u HL Hsh Hna Hu), (Heqv u Hdu). reflexivity. }
  split.
  - intros [H|[s' [-> H]]].
    + apply (Hkey s Hsne Hnd) in H as [H1 H2]. left. split; assumption.
    + right. rewrite ends_sep_app by discriminate. split; [reflexivity|]. rewrite removelast_last.
      assert (Hs' : s' <> []) by (intros ->; cbn in Hhd; discriminate).
      apply (Hkey s' Hs' (no_dslash_app_l _ _ Hnd)) in H. apply H.
  - intros [[He H]|[He H]].
    + left. apply (Hkey s Hsne Hnd). split; assumption.
    + right. pose proof (ends_sep_snoc_inv s He) as Hs. set (s' := removelast s) in *.
      exists s'. split; [exact Hs|].
      assert (Hs' : s' <> []) by (intros E; rewrite E in Hs; rewrite Hs in Hhd; cbn in Hhd; discriminate).
      assert (Hd' : no_dslash s' = true) by (rewrite Hs in Hnd; apply (no_dslash_app_l _ _ Hnd)).
      apply (Hkey s' Hs' Hd'). split; [exact H|].
      destruct (ends_sep s') eqn:E'; [|reflexivity]. exfalso.
      destruct (ends_sep_inv s' E') as [s'' Hs'']. rewrite Hs, Hs'', <- app_assoc in Hnd. cbn [app] in Hnd.
      rewrite no_dslash_mid in Hnd. discriminate.
Qed.

Theorem trailing_crisp2 stars sp P s :
  sp <> [] -> Forall shape0r sp -> bind_ok sp stars -> nadj2 false sp = true ->
  (forall n, last sp REps <> RRef n) ->
  einv stars sp P -> wf_path s = true ->
  (accepted (rcat (trailing stars P)) s <-> crisp2 sp s).
Proof.
  intros Hne Hs0 Hb Hadj Hnoref Hp Hwf. destruct (wf_path_parts s Hwf) as [Hsne [Hhd Hnd]].
  destruct (exists_last Hne) as [sp0 [L Hsp]].
  assert (HlenP : length P = (length sp0 + 1)%nat) by (rewrite (e_len _ _ _ Hp), Hsp, app_length; reflexivity).
  assert (HlastP : nth_error P (length sp0) = Some L).
  { pose proof (e_last _ _ _ Hp) as H. rewrite Hsp, app_length in H. cbn [length] in H.
    replace (length sp0 + 1 - 1)%nat with (length sp0) in H by lia. rewrite H. apply nth_error_mid. }
  assert (HP : exists P0, P = P0 ++ [L] /\ length P0 = length sp0).
  { assert (HPne : P <> []) by (intros ->; cbn in HlenP; lia).
    destruct (exists_last HPne) as [P0 [L' HP]]. exists P0.
    assert (Hl0 : length P0 = length sp0) by (rewrite HP, app_length in HlenP; cbn in HlenP; lia).
    rewrite HP, <- Hl0, nth_error_mid in HlastP. inversion HlastP; subst L'. split; [exact HP|exact Hl0]. }
  destruct HP as [P0 [HP Hl0]].
  assert (HshP : Forall shape2 P) by apply (e_shape _ _ _ Hp).
  assert (HshP0 : Forall shape2 P0) by (rewrite HP in HshP; apply Forall_app in HshP; apply HshP).
  assert (HL0 : shape0 L).
  { assert (HLr : shape0r L) by (rewrite Hsp in Hs0; apply Forall_app in Hs0 as [_ H]; inversion H; assumption).
    destruct HLr as [HL|[m Hm]]; [exact HL|]. exfalso. apply (Hnoref m). rewrite Hsp, last_last. exact Hm. }
  assert (Heqv : forall u, no_dslash u = true -> (accepted (rcat sp) u <-> accepted (rcat P) u)).
  { intros u Hu. rewrite !accepted_parts. split; intros [e' [ss [Hc H]]]; exists e', ss; (split; [exact Hc|]);
      apply (e_eqv _ _ _ Hp [] ss e'); try (rewrite Hc; exact Hu); exact H. }
  assert (Hbind : forall m, stars_get (length sp0) stars = Some m <-> L = RGrp m re_star).
  { intros m. rewrite (Hb (length sp0) m), Hsp, nth_error_mid. split; intros H; [inversion H; reflexivity|subst; reflexivity]. }
  assert (Hprev : starlike2 L = true -> P0 <> [] -> starlike2 (last P0 REps) = false).
  { intros HLs HP0. destruct (exists_last HP0) as [P00 [Mp HP00]].
    assert (Hsp0 : sp0 <> []) by (intros ->; rewrite HP00, app_length in Hl0; cbn in Hl0; lia).
    destruct (exists_last Hsp0) as [sp00 [M Hsp00]].
    assert (Hl00 : length P00 = length sp00) by (rewrite HP00, Hsp00, !app_length in Hl0; cbn in Hl0; lia).
    rewrite HP00, last_last.
    assert (HM : starlike2 M = false).
    { rewrite Hsp, Hsp00, <- app_assoc in Hadj. cbn [app] in Hadj. eapply nadj2_last2; eassumption. }
    assert (HMs : shape0r M).
    { rewrite Hsp, Hsp00 in Hs0. apply Forall_app in Hs0 as [H _]. apply Forall_app in H as [_ H]. inversion H; assumption. }
    assert (HnM : nth_error sp (length sp00) = Some M).
    { rewrite Hsp, Hsp00, <- app_assoc. apply nth_error_mid. }
    assert (HnP : nth_error P (length sp00) = Some Mp).
    { rewrite HP, HP00, <- app_assoc, <- Hl00. apply nth_error_mid. }
    destruct HMs as [[[l [-> Hl]]|[[neg [body [-> Hc]]]|[->|[m ->]]]]|[m ->]]; try discriminate.
    - apply (e_lit _ _ _ Hp) in HnM. rewrite HnM in HnP. inversion HnP. reflexivity.
    - apply (e_cls _ _ _ Hp) in HnM. rewrite HnM in HnP. inversion HnP. reflexivity. }
  unfold crisp2. rewrite Hsp at 1. rewrite last_last. rewrite HP, (trailing_snoc2 stars P0 L HshP0), Hl0.
  destruct HL0 as [[l [-> Hl]]|[[neg [body [-> Hc]]]|[->|[m ->]]]].
  - (* literal *)
    destruct (stars_get (length sp0) stars) as [m|] eqn:Es; [discriminate (proj1 (Hbind m) eq_refl)|].
    destruct (str_eqb (pr (RStr l)) star_text) eqn:Et;
      [apply (pr_star_text _ (sh_str l Hl)) in Et; discriminate|].
    rewrite <- HP, <- (Heqv s Hnd).
    destruct (ends_sep l) eqn:El; [reflexivity|]. split; [|intros [_ H]; exact H].
    intros H. split; [|exact H]. rewrite Hsp in H. rewrite (accepted_ends_lit _ _ _ Hl H). exact El.
  - (* class *)
    destruct (stars_get (length sp0) stars) as [m|] eqn:Es; [discriminate (proj1 (Hbind m) eq_refl)|].
    destruct (str_eqb (pr (RCls neg body)) star_text) eqn:Et;
      [apply (pr_star_text _ (sh_cls neg body Hc)) in Et; discriminate|].
    rewrite <- HP, <- (Heqv s Hnd).
    split; [|intros [_ H]; exact H]. intros H. split; [|exact H]. rewrite Hsp in H.
    apply (accepted_ends_cls _ _ _ _ Hc H).
  - (* anonymous star *)
    destruct (stars_get (length sp0) stars) as [m|] eqn:Es; [discriminate (proj1 (Hbind m) eq_refl)|].
    change (str_eqb (pr re_star) star_text) with true. cbn iota.
    rewrite app_assoc. change (if prev_sep P0 then re_plus else re_star) with (with_body re_star (prev_sep P0)).
    apply star_case2; try assumption; [left; reflexivity| |intros u Hu; rewrite <- HP; apply Heqv; exact Hu].
    apply Hprev. reflexivity.
  - (* named star *)
    destruct (stars_get (length sp0) stars) as [m'|] eqn:Es;
      [|pose proof (proj2 (Hbind m) eq_refl) as Hx; discriminate Hx].
    pose proof (proj1 (Hbind m') eq_refl) as Hx. inversion Hx; subst m'.
    rewrite app_assoc.
    change (RGrp m (if prev_sep P0 then re_plus else re_star)) with (with_body (RGrp m re_star) (prev_sep P0)).
    apply star_case2; try assumption; [right; exists m; reflexivity| |intros u Hu; rewrite <- HP; apply Heqv; exact Hu].
    apply Hprev. reflexivity.
Qed.

(* ---- compile_regex_correct on F2 ---- *)

Lemma f2_last_name subs n a : forall seen prev,
  f2_toks (a ++ [TName n]) subs seen prev = true ->
  mem_str n seen = false /\ (forall t, In t a -> t <> TName n).
Proof.
  induction a as [|t a IH]; intros seen prev H.
  - cbn [app f2_toks] in H. apply andb_true_iff in H as [_ H].
    destruct (mem_str n seen) eqn:E; [cbn in H; discriminate|]. split; [reflexivity|intros t []].
  - cbn [app f2_toks] in H. destruct t; try discriminate.
    + apply andb_true_iff in H as [_ H]. destruct (IH _ _ H) as [H1 H2]. split; [exact H1|].
      intros t [<-|Hin]; [discriminate|apply H2; exact Hin].
    + destruct (IH _ _ H) as [H1 H2]. split; [exact H1|]. intros t [<-|Hin]; [discriminate|apply H2; exact Hin].
    + apply andb_true_iff in H as [_ H]. destruct (IH _ _ H) as [H1 H2]. split; [exact H1|].
      intros t [<-|Hin]; [discriminate|apply H2; exact Hin].
    + apply andb_true_iff in H as [_ H]. destruct (IH _ _ H) as [H1 H2]. split; [exact H1|].
      intros t [<-|Hin]; [discriminate|apply H2; exact Hin].
    + apply andb_true_iff in H as [_ H]. destruct (mem_str name seen) eqn:Em.
      * apply andb_true_iff in H as [_ H]. destruct (IH _ _ H) as [H1 H2]. split; [exact H1|].
        intros t [<-|Hin]; [|apply H2; exact Hin]. intros Heq. inversion Heq; subst. congruence.
      * apply andb_true_iff in H as [_ H]. destruct (IH _ _ H) as [H1 H2].
        rewrite mem_str_cons in H1. apply orb_false_iff in H1 as [Hne H1]. split; [exact H1|].
        intros t [<-|Hin]; [|apply H2; exact Hin]. intros Heq. inversion Heq; subst.
        rewrite str_eqb_refl in Hne. discriminate.
Qed.

Lemma f2_crisp :
  forall (p : str) (subs : subs_t) (ps : list re) (s : str),
    f2 p subs = true -> conv_regex p subs = COk ps -> wf_path s = true ->
    exists sp, spec_parts (tokenize p) subs [] = Some sp /\ Forall2 (tok_part2 subs) (tokenize p) sp
               /\ Forall shape0r sp /\ tokenize p <> []
               /\ f2_toks (tokenize p) subs [] false = true
               /\ (forall n, last sp REps <> RRef n)
               /\ (accepted (rcat ps) s <-> crisp2 sp s).
Proof.
  intros p subs ps s Hf Hc Hwf. unfold f2 in Hf. apply andb_true_iff in Hf as [Hne Hf].
  assert (Hts : tokenize p <> []) by (destruct (tokenize p); [discriminate|discriminate]).
  assert (Hp : is_nil p = false) by (destruct p; [exfalso; apply Hts; reflexivity|reflexivity]).
  destruct (loop_f2 subs (tokenize p) [] false st0 Hf eq_refl) as [sp [st' [H1 [H2 [H3 [H4 [H5 [H6 [H7 H8]]]]]]]]].
  { cbn. discriminate. }
  { intros i n. cbn. destruct i; split; discriminate. }
  { intros i n a. destruct i; discriminate. }
  cbn [c_parts st0 app] in H3.
  unfold conv_regex in Hc. rewrite Hp, H2 in Hc. apply COk_inj in Hc. subst ps. rewrite H3 in *.
  set (stars := c_stars st') in *.
  assert (Hspne : sp <> []).
  { intros ->. inversion H6; subst. apply Hts. symmetry. assumption. }
  pose proof (enclosed_einv stars sp (length sp) 0 sp (einv_init stars sp H4 H5)) as Hinv.
  set (P := enclosed stars (length sp) 0 sp) in *.
  pose proof (trailing_crisp2 stars sp P s Hspne H4 H5 H7 H8 Hinv Hwf) as Hcrisp.
  exists sp. split; [exact H1|]. split; [exact H6|]. split; [exact H4|]. split; [exact Hts|]. split; [exact Hf|].
  split; [exact H8|exact Hcrisp].
Qed.

(* On F2 the compiled regex IS the reference semantics, on every canonical path. *)
Theorem compile_regex_correct_f2_partial :
  forall (p : str) (subs : subs_t) (ps : list re) (s : str),
    f2 p subs = true -> conv_regex p subs = COk ps -> wf_path s = true ->
    nglob_ref false p subs s = Some (accepts (rcat ps) s).
Proof.
  intros p subs ps s Hf0 Hc Hwf.
  destruct (f2_crisp p subs ps s Hf0 Hc Hwf) as [sp [H1 [H6 [H4 [Hts [Hf [Hnoref Hcrisp]]]]]]].
  unfold nglob_ref. rewrite H1, Hwf. cbn [andb]. f_equal. symmetry. apply bool_iff.
  rewrite (accepts_spec _ s (conv_regex_wf _ _ _ Hc)), Hcrisp. clear Hcrisp.
  assert (Hwfsp : wf_re (rcat sp) = true).
  { apply wf_re_rcat, forallb_forall. intros r Hr. rewrite Forall_forall in H4.
    destruct (H4 r Hr) as [H|[m ->]]; [apply shape_wf_re, shape0_shape, H|reflexivity]. }
  assert (Hacc : forall u, accepts (rcat sp) u = true <-> accepted (rcat sp) u)
    by (intros u; apply accepts_spec; exact Hwfsp).
  destruct (exists_last Hts) as [ts0 [t Hts0]]. rewrite Hts0 in *.
  apply Forall2_app_inv_l in H6 as [sp0 [spl [H60 [H6l ->]]]].
  inversion H6l as [|? L ? ? HtL Hnil]; subst. inversion Hnil; subst.
  unfold crisp2, pat_ends_sep. rewrite last_last, last_tok_snoc, ends_starlike_snoc.
  destruct t; cbn [tok_part2] in HtL; try contradiction.
  - (* literal *) subst L. cbn [is_tdstar orb]. destruct (ends_sep s0) eqn:El.
    + cbn [orb]. symmetry. apply Hacc.
    + cbn [orb andb]. rewrite orb_false_r, andb_true_iff, negb_true_iff, Hacc. reflexivity.
  - (* ? *) subst L. cbn [is_tdstar orb andb notslash]. rewrite orb_false_r, andb_true_iff, negb_true_iff, Hacc. reflexivity.
  - (* * *) subst L. cbn [is_tdstar orb andb re_star].
    rewrite orb_true_iff, !andb_true_iff, negb_true_iff, !Hacc. reflexivity.
  - (* class *) subst L. destruct (re_cls_is_cls inner) as [neg [body Hr]]. rewrite Hr in *.
    cbn [is_tdstar orb andb]. rewrite orb_false_r, andb_true_iff, negb_true_iff, Hacc. reflexivity.
  - (* named: the last token is a first occurrence *)
    destruct HtL as [[-> Hsub]| ->]; [|exfalso; apply (Hnoref name); rewrite last_last; reflexivity].
    cbn [is_tdstar orb].
    destruct (f2_last_name subs name ts0 [] false Hf) as [_ Hno].
    assert (Hex : existsb (fun t => match t with TName m => str_eqb name m | _ => false end) (rev ts0) = false).
    { destruct (existsb _ (rev ts0)) eqn:E; [|reflexivity]. exfalso.
      apply existsb_exists in E as [t [Hin Ht]]. apply in_rev in Hin. destruct t; try discriminate.
      apply str_eqb_eq in Ht. subst. eapply Hno; [exact Hin|reflexivity]. }
    rewrite Hex, (sub_of_default _ _ Hsub). change (tokenize [42]) with [TStar]. cbn [negb is_nil forallb andb].
    rewrite orb_true_iff, !andb_true_iff, negb_true_iff, !Hacc. reflexivity.
Qed.

(* F2 contains F1, so this is a proper extension of compile_regex_correct_partial. *)
Corollary compile_regex_correct_f1_from_f2 :
  forall (p : str) (subs : subs_t) (ps : list re) (s : str),
    f1 p subs = true -> conv_regex p subs = COk ps -> wf_path s = true ->
    nglob_ref false p subs s = Some (accepts (rcat ps) s).
Proof. intros p subs ps s Hf. apply compile_regex_correct_f2_partial, f1_f2, Hf. Qed.

(* Non-vacuity: src/${*n}/${*n}_*.[ch] and ${*n}-${*n}/x are in F2 and not in F1; the two
   restrictions on back-references are tight (both excluded patterns accept a/, an empty last
   component, which the reference rejects). *)
Example compile_regex_correct_f2_example :
  let p := [115;114;99;47;36;123;42;110;125;47;36;123;42;110;125;95;42;46;91;99;104;93] in
  f2 p [] = true /\ f1 p [] = false
  /\ nglob_ref false p [] [115;114;99;47;97;98;47;97;98;95;120;46;99] = Some true
  /\ nglob_ref false p [] [115;114;99;47;97;98;47;97;99;95;120;46;99] = Some false
  /\ nglob_ref false p [] [115;114;99;47;47;95;120;46;99] = Some false
  /\ f2 [36;123;42;110;125;45;36;123;42;110;125;47;120] [] = true
  /\ f2 [97;36;123;42;110;125;47;36;123;42;110;125] [] = false
  /\ f2 [97;36;123;42;110;125;47;36;123;42;110;125;42] [] = false.
Proof. vm_compute. repeat split. Qed.

Lemma f2_restrictions_tight :
  (exists p ps s, conv_regex p [] = COk ps /\ f2 p [] = false /\ wf_path s = true
                  /\ accepts (rcat ps) s = true /\ nglob_ref false p [] s = Some false
                  /\ last_tok (tokenize p) = Some (TName [110]))
  /\ (exists p ps s, conv_regex p [] = COk ps /\ f2 p [] = false /\ wf_path s = true
                  /\ accepts (rcat ps) s = true /\ nglob_ref false p [] s = Some false
                  /\ last_tok (tokenize p) = Some TStar).
Proof.
  split.
  - exists [97;36;123;42;110;125;47;36;123;42;110;125]. eexists. exists [97;47]. vm_compute. repeat split.
  - exists [97;36;123;42;110;125;47;36;123;42;110;125;42]. eexists. exists [97;47]. vm_compute. repeat split.
Qed.
