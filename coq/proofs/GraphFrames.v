(* C09: the protocol-dependent clauses of the invariant.
   I4b (J1): a product file of a SUCCEEDED step is not PLANNED or OUTDATED;
   I5c (K):  a RUNNING step has no stored hash.
   Together with I4a (inv_outedge_b, part of Inv) J1 gives I4: an attached SUCCEEDED step has only
   BUILT or VOLATILE attached outputs.  Preservation is proved through a frame GG ("no new
   violation pair, no new SUCCEEDED/RUNNING state, no new stored hash") for every function of the
   model; only Step.mark_completed (success) and the dispatch create SUCCEEDED / RUNNING states and
   are treated separately. *)
From Coq Require Import List NArith Bool Lia.
From SV Require Import lib.Bytes lib.Closure model.Graph model.GraphInv
  proofs.GraphBase proofs.GraphNodes proofs.GraphInvP proofs.GraphPrims.
Import ListNotations.
Open Scope N_scope.

Definition po (f : str) (s : st) : Prop :=
  fstate_of f s = Some FPlanned \/ fstate_of f s = Some FOutdated.
Definition V (s : st) (l f : str) : Prop :=
  sstate_of l s = Some SSucceeded /\ creator_of (KFile, f) s = Some (KStep, l) /\ po f s.
Definition J1 (s : st) : Prop := forall l f, ~ V s l f.
Definition K (s : st) : Prop := forall l, sstate_of l s = Some SRunning -> has_hash l s = false.

Record GG (s s' : st) : Prop := {
  gg_succ : forall l, sstate_of l s' = Some SSucceeded -> sstate_of l s = Some SSucceeded;
  gg_run : forall l, sstate_of l s' = Some SRunning -> sstate_of l s = Some SRunning;
  gg_hash : forall l, has_hash l s' = true -> has_hash l s = true;
  gg_nv : forall l f, V s' l f -> V s l f }.

Lemma GG_refl s : GG s s.
Proof. constructor; auto. Qed.
Lemma GG_trans s1 s2 s3 : GG s1 s2 -> GG s2 s3 -> GG s1 s3.
Proof. intros [a1 a2 a3 a4] [b1 b2 b3 b4]. constructor; auto. Qed.
Lemma J1_GG s s' : J1 s -> GG s s' -> J1 s'.
Proof. intros HJ HG l f HV. apply (HJ l f). apply (gg_nv _ _ HG). exact HV. Qed.
Lemma K_GG s s' : K s -> GG s s' -> K s'.
Proof.
  intros HK HG l Hr. destruct (has_hash l s') eqn:E; [|reflexivity].
  rewrite <- (HK l (gg_run _ _ HG l Hr)). symmetry. apply (gg_hash _ _ HG). exact E.
Qed.

(* structural frame: step states only move to quiet states, no new hash, file creators only get
   lost, no file enters PLANNED/OUTDATED *)
Record G3 (s s' : st) : Prop := {
  g3_st : forall l st', sstate_of l s' = Some st' ->
          (st' <> SSucceeded /\ st' <> SRunning) \/ sstate_of l s = Some st';
  g3_hash : forall l, has_hash l s' = true -> has_hash l s = true;
  g3_cre : forall f c, creator_of (KFile, f) s' = Some c -> creator_of (KFile, f) s = Some c;
  g3_po : forall f, po f s' -> po f s }.

Lemma G3_GG s s' : G3 s s' -> GG s s'.
Proof.
  intros [H1 H2 H3 H4]. constructor.
  - intros l Hl. destruct (H1 l _ Hl) as [[A _]|A]; [congruence | exact A].
  - intros l Hl. destruct (H1 l _ Hl) as [[_ A]|A]; [congruence | exact A].
  - exact H2.
  - intros l f [A [B C]]. split; [|split; [apply H3; exact B | apply H4; exact C]].
    destruct (H1 l _ A) as [[X _]|X]; [congruence | exact X].
Qed.

Lemma G3_refl s : G3 s s.
Proof. constructor; auto. Qed.
Lemma G3_trans s1 s2 s3 : G3 s1 s2 -> G3 s2 s3 -> G3 s1 s3.
Proof.
  intros [a1 a2 a3 a4] [b1 b2 b3 b4]. constructor; auto.
  intros l st' H. destruct (b1 l st' H) as [A|A]; [left; exact A | apply a1; exact A].
Qed.

(* G3 from equalities of tables *)
Lemma G3_tables s s' :
  steps s' = steps s -> files s' = files s -> (forall l, has_hash l s' = true -> has_hash l s = true) ->
  (forall f c, creator_of (KFile, f) s' = Some c -> creator_of (KFile, f) s = Some c) -> G3 s s'.
Proof.
  intros Hs Hf Hh Hc. constructor; try assumption.
  - intros l st' H. right. unfold sstate_of, find_step in *. rewrite Hs in H. exact H.
  - intros f H. unfold po, fstate_of, find_file in *. rewrite Hf in H. exact H.
Qed.

Lemma wpg_of_ok {A} (r : res A) (Q : A -> Prop) : (forall a, r = Ok a -> Q a) -> wpg false r Q.
Proof. intros H. destruct r; cbn; auto. Qed.

Lemma wpg_conj {A} strict (r : res A) (Q1 Q2 : A -> Prop) :
  wpg strict r Q1 -> wpg strict r Q2 -> wpg strict r (fun a => Q1 a /\ Q2 a).
Proof. destruct r, strict; cbn; auto. Qed.

(* ------------------------------------------------------------------------------------------ *)
(* row-level primitives                                                                        *)
(* ------------------------------------------------------------------------------------------ *)
Lemma sstate_of_upd_step x l g s : (forall r, sl (g r) = sl r) ->
  sstate_of x (upd_step l g s) =
  if str_eqb x l then option_map (fun r => sst (g r)) (find_step x s) else sstate_of x s.
Proof.
  intros Hg. unfold sstate_of. rewrite find_step_upd_step; [|exact Hg].
  destruct (str_eqb x l); [|reflexivity]. destruct (find_step x s); reflexivity.
Qed.

Lemma upd_step_G3 l g s :
  (forall r, sl (g r) = sl r) ->
  (forall r, sst (g r) = sst r \/ (sst (g r) <> SSucceeded /\ sst (g r) <> SRunning)) ->
  G3 s (upd_step l g s).
Proof.
  intros Hg Hst. constructor; try (intros; assumption).
  intros x st' H. rewrite sstate_of_upd_step in H; [|exact Hg].
  destruct (str_eqb x l) eqn:E; [|right; exact H].
  unfold sstate_of. destruct (find_step x s) as [r|]; [|discriminate]. cbn in H. inversion H; subst st'.
  destruct (Hst r) as [A|A]; [right; rewrite A; reflexivity | left; exact A].
Qed.

Lemma set_sstate_G3 l new d s s' :
  new <> SSucceeded -> new <> SRunning -> set_sstate l new d s = Ok s' -> G3 s s'.
Proof.
  intros H1 H2. unfold set_sstate. destruct (find_step l s) as [r|]; [|intros H; inversion H; apply G3_refl].
  destruct (d && negb (sstate_eqb new SPending)); [discriminate|]. intros H; inversion H; subst s'.
  apply upd_step_G3; [reflexivity|]. intros r0. right. cbn. auto.
Qed.

Lemma fstate_of_upd_file x l g s : (forall r, fl (g r) = fl r) ->
  fstate_of x (upd_file l g s) =
  if str_eqb x l then option_map (fun r => fstt (g r)) (find_file x s) else fstate_of x s.
Proof.
  intros Hg. rewrite !fstate_of_findf, files_upd_file, findf_updf; [|exact Hg].
  unfold find_file. fold (findf x (files s)).
  destruct (str_eqb x l); [|reflexivity]. destruct (findf x (files s)); reflexivity.
Qed.

Lemma set_fstate_hash_G3 l new newh s s' :
  new <> FPlanned -> new <> FOutdated -> set_fstate_hash l new newh s = Ok s' -> G3 s s'.
Proof.
  intros H1 H2. unfold set_fstate_hash. destruct (find_file l s) as [r|] eqn:Hf; [|intros H; inversion H; apply G3_refl].
  destruct (needs_hash new && _); [discriminate|]. destruct (fstate_eqb new FUndeclared && _); [discriminate|].
  intros H; inversion H; subst s'. constructor; try (intros; assumption).
  - intros x st' Hx. right. exact Hx.
  - intros f Hp. unfold po in *. rewrite fstate_of_upd_file in Hp; [|reflexivity].
    destruct (str_eqb f l) eqn:E; [|exact Hp]. apply str_eqb_eq in E. subst f.
    rewrite Hf in Hp. cbn in Hp. destruct Hp as [Hp|Hp]; inversion Hp; congruence.
Qed.

Lemma has_hash_delete_hash x l s : has_hash x (delete_hash l s) = true -> has_hash x s = true.
Proof.
  unfold has_hash, delete_hash. cbn. rewrite !existsb_exists. intros [y [Hy1 Hy2]].
  apply filter_In in Hy1. exists y. tauto.
Qed.

Lemma delete_hash_G3 l s : G3 s (delete_hash l s).
Proof. apply G3_tables; [reflexivity | reflexivity | intros x; apply has_hash_delete_hash | auto]. Qed.

Lemma add_env_G3 step name dyn rep s : G3 s (add_env step name dyn rep s).
Proof.
  destruct (add_env_frame step name dyn rep s) as [E1 [E2 [E3 [E4 E5]]]].
  apply G3_tables; try assumption.
  - intros l. unfold has_hash. rewrite E5. auto.
  - intros f c. unfold creator_of, find_node. rewrite E1. auto.
Qed.

Lemma set_deps_G3 s ds : G3 s (set_deps s ds).
Proof. apply G3_tables; try reflexivity; auto. Qed.
Lemma set_envs_G3 s es : G3 s (set_envs s es).
Proof. apply G3_tables; try reflexivity; auto. Qed.

Lemma add_dep_G3 a b dyn s s' : add_dep a b dyn s = Ok s' -> G3 s s'.
Proof.
  unfold add_dep. destruct (has_dep a b s); [discriminate|]. destruct (negb (dep_kinds_ok a b)); [discriminate|].
  intros H; inversion H. apply set_deps_G3.
Qed.

(* ------------------------------------------------------------------------------------------ *)
(* node-table primitives                                                                       *)
(* ------------------------------------------------------------------------------------------ *)
Lemma creator_of_findn k s : creator_of k s = match findn k (nodes s) with Some n => ncre n | None => None end.
Proof. reflexivity. Qed.

Lemma node_detach_G3 k s s' : node_detach k s = Ok s' -> G3 s s'.
Proof.
  unfold node_detach. destruct (find_node k s) as [n|] eqn:Hf; [|discriminate].
  destruct (ncre n) as [c|]; [|intros H; inversion H; apply G3_refl].
  intros H; inversion H; subst s'. clear H.
  unfold find_node in Hf. fold (findn k (nodes s)) in Hf.
  set (s1 := upd_node k (fun n0 => mkNode (nk n0) None true) s).
  assert (Hn : nodes (if ndet n then s1 else set_detached_rec k true s1) = detach_nodes k n (nodes s)).
  { unfold detach_nodes. destruct (ndet n); reflexivity. }
  apply G3_tables.
  - destruct (ndet n); reflexivity.
  - destruct (ndet n); reflexivity.
  - intros l. unfold has_hash. destruct (ndet n); cbn; auto.
  - intros f c0. rewrite !creator_of_findn, Hn.
    destruct (findn (KFile, f) (detach_nodes k n (nodes s))) as [n'|] eqn:Hn'; [|discriminate].
    destruct (detach_nodes_findn _ _ _ _ _ Hf Hn') as [m [Hm [[Hc|Hc] _]]]; rewrite Hm; [congruence|].
    rewrite Hc. auto.
Qed.

Lemma delete_node_G3 k s : G3 s (delete_node k s).
Proof.
  assert (Hst : forall l st', sstate_of l (delete_node k s) = Some st' -> sstate_of l s = Some st').
  { intros l st'. unfold delete_node. destruct k as [[] kl]; cbn [fst snd]; try (intros H; exact H).
    unfold sstate_of, find_step. cbn [steps set_envs set_shash set_steps set_nodes del_all_sources del_deps_where set_deps].
    rewrite find_filter. intros H.
    destruct (find (fun x => negb (str_eqb (sl x) kl) && str_eqb (sl x) l) (steps s)) as [r|] eqn:E; [|discriminate].
    pose proof (find_some _ _ E) as [Hin Hr]. apply andb_true_iff in Hr. destruct Hr as [Hr1 Hr2].
    (* the first row with label l in the original table is the same row *)
    assert (Hfirst : find (fun x => str_eqb (sl x) l) (steps s) = Some r).
    { clear H Hin. revert E. induction (steps s) as [|x xs IH]; cbn; [discriminate|].
      destruct (str_eqb (sl x) l) eqn:Ex.
      - destruct (negb (str_eqb (sl x) kl)) eqn:Ek; cbn; [intros H; exact H|].
        intros H. exfalso. apply negb_false_iff in Ek. apply str_eqb_eq in Ek. apply str_eqb_eq in Ex.
        apply str_eqb_eq in Hr2. apply negb_true_iff in Hr1. apply str_eqb_neq in Hr1. congruence.
      - rewrite andb_false_r. exact IH. }
    rewrite Hfirst. exact H. }
  assert (Hfs : forall f st', fstate_of f (delete_node k s) = Some st' -> fstate_of f s = Some st').
  { intros f st'. unfold delete_node. destruct k as [[] kl]; cbn [fst snd]; try (intros H; exact H).
    unfold fstate_of, find_file. cbn [files set_files set_nodes del_all_sources del_deps_where set_deps].
    rewrite find_filter. intros H.
    destruct (find (fun x => negb (str_eqb (fl x) kl) && str_eqb (fl x) f) (files s)) as [r|] eqn:E; [|discriminate].
    pose proof (find_some _ _ E) as [Hin Hr]. apply andb_true_iff in Hr. destruct Hr as [Hr1 Hr2].
    assert (Hfirst : find (fun x => str_eqb (fl x) f) (files s) = Some r).
    { clear H Hin. revert E. induction (files s) as [|x xs IH]; cbn; [discriminate|].
      destruct (str_eqb (fl x) f) eqn:Ex.
      - destruct (negb (str_eqb (fl x) kl)) eqn:Ek; cbn; [intros H; exact H|].
        intros H. exfalso. apply negb_false_iff in Ek. apply str_eqb_eq in Ek. apply str_eqb_eq in Ex.
        apply str_eqb_eq in Hr2. apply negb_true_iff in Hr1. apply str_eqb_neq in Hr1. congruence.
      - rewrite andb_false_r. exact IH. }
    rewrite Hfirst. exact H. }
  constructor.
  - intros l st' H. right. apply Hst. exact H.
  - intros l. unfold has_hash, delete_node. destruct k as [[] kl]; cbn [fst snd]; cbn; auto.
    rewrite !existsb_exists. intros [y [Hy1 Hy2]]. apply filter_In in Hy1. exists y. tauto.
  - intros f c. rewrite !creator_of_findn.
    assert (Hn : nodes (delete_node k s) = removen k (nodes s)).
    { unfold delete_node. destruct k as [[] kl]; reflexivity. }
    rewrite Hn. unfold removen. rewrite findn_remove. destruct (key_eqb (KFile, f) k); [discriminate | auto].
  - intros f [H|H]; [left | right]; apply Hfs; exact H.
Qed.

Section HH.
Context {hh : bool}.

Lemma node_reattach_G3 k c s :
  Inv hh s -> fst k = KStep -> wpg false (node_reattach k c s) (G3 s).
Proof.
  intros HI Hk.
  destruct (find_node k s) as [n|] eqn:Hfk.
  2:{ unfold node_reattach. rewrite Hfk. exact I. }
  destruct (find_node c s) as [cn|] eqn:Hfc.
  2:{ unfold node_reattach. rewrite Hfk, Hfc. exact I. }
  eapply wpg_weaken; [apply (@node_reattach_spec hh); [exact HI | exact Hk | intros H; discriminate]|].
  intros s' [_ [[N1 [N2 [N3 [N4 [N5 [N6 N7]]]]]] Hn]]. specialize (Hn n cn Hfk Hfc).
  apply G3_tables; try assumption.
  - intros l. unfold has_hash. rewrite !existsb_exists. intros [y [Hy1 Hy2]]. exists y. split; [apply N6; exact Hy1 | exact Hy2].
  - intros f c0. rewrite !creator_of_findn, Hn.
    destruct (findn (KFile, f) (reattach_nodes k c (ndet cn) (nodes s))) as [n'|] eqn:Hn'; [|discriminate].
    destruct (reattach_nodes_findn _ _ _ _ _ _ Hn') as [m [Hm Hcm]]. rewrite Hm, <- Hcm; [auto|].
    intros He. rewrite <- He in Hk. discriminate.
Qed.

(* ------------------------------------------------------------------------------------------ *)
(* state propagation never creates a violation pair                                            *)
(* ------------------------------------------------------------------------------------------ *)
(* entry condition of mark_file_outdated: the creator step of the file is not SUCCEEDED *)
Definition creator_not_succeeded (f : str) (s : st) : Prop :=
  forall l, creator_of (KFile, f) s = Some (KStep, l) -> sstate_of l s <> Some SSucceeded.

Lemma SO_creator_of k s s' : SO s s' -> creator_of k s' = creator_of k s.
Proof. intros H. unfold creator_of, find_node. rewrite (so_nodes _ _ H). reflexivity. Qed.

Lemma mark_GG fuel :
  (forall l s, Inv hh s -> wpg false (mark_step_pending_f fuel l s)
                             (fun s' => GG s s' /\ sstate_of l s' <> Some SSucceeded)) /\
  (forall f s, Inv hh s -> creator_not_succeeded f s -> wpg false (mark_file_outdated_f fuel f s) (GG s)).
Proof.
  induction fuel as [|fuel [IHs IHf]]; [split; intros; exact I|].
  destruct (@mark_spec hh false fuel) as [MSs MSf].
  split.
  - intros l s HI. cbn [mark_step_pending_f].
    destruct (sstate_of l s) as [old|] eqn:Hold; [|exact I].
    assert (Hmain : forall (after : st -> res st),
               (forall s1, Inv hh s1 -> SO s s1 -> sstate_of l s1 = Some SPending ->
                           wpg false (after s1) (GG s1)) ->
               wpg false (bind (set_sstate l SPending false s) after)
                   (fun s' => GG s s' /\ sstate_of l s' <> Some SSucceeded)).
    { intros after Hafter. apply wpg_bind. destruct (set_sstate l SPending false s) as [s1|t|t] eqn:Es1; try exact I.
      pose proof (@set_sstate_spec hh false l SPending false s HI (fun H _ => False_ind _ (diff_false_true H))) as Hsp.
      rewrite Es1 in Hsp. cbn in Hsp. destruct Hsp as [I1 [S1 [_ [_ [_ [Hnew _]]]]]].
      assert (Hp1 : sstate_of l s1 = Some SPending).
      { apply Hnew. unfold sstate_of in Hold. destruct (find_step l s); [discriminate | discriminate]. }
      cbn [wpg]. eapply wpg_weaken.
      - apply Hafter; [exact I1 | exact S1 | exact Hp1].
      - intros s2 G2. split.
        + eapply GG_trans; [|exact G2]. apply G3_GG. eapply set_sstate_G3; [| |exact Es1]; discriminate.
        + intros Hs. apply (gg_succ _ _ G2) in Hs. congruence. }
    assert (Hprop : forall s1, Inv hh s1 -> SO s s1 -> sstate_of l s1 = Some SPending ->
               wpg false (foldM (fun s f => match fstate_of f s with
                                             | Some FBuilt => mark_file_outdated_f fuel f s
                                             | _ => Ok s end) (file_sinks_of_step l s1) s1) (GG s1)).
    { intros s1 I1 S1 Hp1.
      eapply wpg_weaken.
      - apply (wpg_foldM false _ (fun s' => Inv hh s' /\ SO s1 s' /\ GG s1 s')); [|split; [exact I1|split; [apply SO_refl | apply GG_refl]]].
        intros s2 f Hf [I2 [S2 G2]].
        destruct (fstate_of f s2) as [[]|] eqn:Hfs; try (cbn; split; [exact I2|split; assumption]).
        eapply wpg_weaken.
        + apply wpg_conj; [apply MSf; [exact I2 | intros H; discriminate]|].
          apply IHf; [exact I2|].
          (* the creator of an output sink of l is l, which is PENDING now *)
          intros l' Hc Hs'.
          assert (Hedge : In ((KStep, l), (KFile, f)) (EL (deps s2))).
          { rewrite (so_deps _ _ S2). apply file_sinks_In. exact Hf. }
          apply in_map_iff in Hedge. destruct Hedge as [d [Hd1 Hd2]]. inversion Hd1 as [[Hsrc Hsnk]].
          rewrite creator_of_findn in Hc. destruct (findn (KFile, f) (nodes s2)) as [n|] eqn:Hn; [|discriminate].
          destruct (inv_oe _ I2 d l f Hd2 Hsrc Hsnk n _ Hn Hc) as [He _]. inversion He; subst l'.
          assert (sstate_of l s2 = Some SSucceeded -> False); [|auto].
          intros Hx. apply (gg_succ _ _ G2) in Hx. congruence.
        + intros s3 [[I3 [S3 _]] G3']. split; [exact I3|]. split; [eapply SO_trans; eassumption | eapply GG_trans; eassumption].
      - intros s2 [_ [_ G2]]. exact G2. }
    destruct old; try (cbn; split; [apply GG_refl | congruence]).
    + apply Hmain. intros s1 I1 _ _. cbn. apply GG_refl.
    + apply Hmain. exact Hprop.
    + apply Hmain. exact Hprop.
  - intros f s HI Hentry. cbn [mark_file_outdated_f].
    destruct (fstate_of f s) as [[]|] eqn:Hfs; try exact I; [|cbn; apply GG_refl].
    apply wpg_bind. unfold set_fstate.
    destruct (set_fstate_hash f FOutdated None s) as [s1|t|t] eqn:Es1; try exact I.
    assert (Hsp : wpg false (set_fstate_hash f FOutdated None s)
                      (fun s' => Inv hh s' /\ SO s s' /\ steps s' = steps s /\ shash s' = shash s /\
                                 (forall l', l' <> f -> find_file l' s' = find_file l' s) /\
                                 (find_file f s <> None -> fstate_of f s' = Some FOutdated) /\
                                 (find_file f s = None -> s' = s))).
    { apply (@set_fstate_hash_spec hh); [exact HI | discriminate | intros; reflexivity | intros H; discriminate]. }
    rewrite Es1 in Hsp. cbn in Hsp. destruct Hsp as [I1 [S1 [Hst1 [Hsh1 [Hoth1 _]]]]].
    assert (G1 : GG s s1).
    { constructor.
      - intros l. unfold sstate_of, find_step. rewrite Hst1. auto.
      - intros l. unfold sstate_of, find_step. rewrite Hst1. auto.
      - intros l. unfold has_hash. rewrite Hsh1. auto.
      - intros l f' [A [B C]].
        assert (A' : sstate_of l s = Some SSucceeded). { unfold sstate_of, find_step in *. rewrite Hst1 in A. exact A. }
        assert (B' : creator_of (KFile, f') s = Some (KStep, l)). { rewrite <- (SO_creator_of _ _ _ S1). exact B. }
        destruct (str_eq_dec f' f) as [->|Hne].
        + exfalso. exact (Hentry l B' A').
        + split; [exact A'|]. split; [exact B'|]. unfold po, fstate_of in *. rewrite (Hoth1 f' Hne) in C. exact C. }
    cbn [wpg]. eapply wpg_weaken.
    + apply (wpg_foldM false _ (fun s' => Inv hh s' /\ SO s1 s' /\ GG s1 s')); [|split; [exact I1|split; [apply SO_refl | apply GG_refl]]].
      intros s2 l Hl [I2 [S2 G2]]. eapply wpg_weaken.
      * apply wpg_conj; [apply MSs; [exact I2 | intros H; discriminate] | apply IHs; exact I2].
      * intros s3 [[I3 [S3 _]] [G3' _]]. split; [exact I3|]. split; [eapply SO_trans; eassumption | eapply GG_trans; eassumption].
    + intros s2 [_ [_ G2]]. eapply GG_trans; eassumption.
Qed.

Lemma mark_step_pending_GG' l s :
  Inv hh s -> wpg false (mark_step_pending l s) (fun s' => GG s s' /\ sstate_of l s' <> Some SSucceeded).
Proof. intros HI. unfold mark_step_pending. apply (proj1 (mark_GG (fuel_of s))). exact HI. Qed.
Lemma mark_step_pending_GG l s : Inv hh s -> wpg false (mark_step_pending l s) (GG s).
Proof. intros HI. eapply wpg_weaken; [apply mark_step_pending_GG'; exact HI|]. intros s' [H _]. exact H. Qed.

Lemma mark_file_outdated_GG f s :
  Inv hh s -> creator_not_succeeded f s -> wpg false (mark_file_outdated f s) (GG s).
Proof. intros HI He. unfold mark_file_outdated. apply (proj2 (mark_GG (fuel_of s))); assumption. Qed.

Lemma mark_consumers_pending_GG f s : Inv hh s -> wpg false (mark_consumers_pending f s) (GG s).
Proof.
  intros HI. unfold mark_consumers_pending. eapply wpg_weaken.
  - apply (wpg_foldM false _ (fun s' => Inv hh s' /\ GG s s')); [|split; [exact HI | apply GG_refl]].
    intros s1 l _ [I1 G1]. eapply wpg_weaken.
    + apply wpg_conj; [apply (@mark_step_pending_spec hh); [exact I1 | intros H; discriminate] | apply mark_step_pending_GG; exact I1].
    + intros s2 [[I2 _] G2]. split; [exact I2 | eapply GG_trans; eassumption].
  - intros s1 [_ G1]. exact G1.
Qed.

End HH.
