(* C17: the part list that conv_regex returns always satisfies parts_ok (named groups only at the
   top level, each name defined at most once), for every pattern and substitution dictionary.
   This discharges the hypothesis of the back-reference theorem. *)
From Coq Require Import List NArith Bool Arith Lia.
From SV Require Import lib.Bytes.
From SV Require Import lib.Regex.
From SV Require Import model.Nglob.
From SV Require Import proofs.NglobBackref.
Import ListNotations.
Open Scope N_scope.

Lemma grp_names_app a b : grp_names (a ++ b) = grp_names a ++ grp_names b.
Proof.
  induction a as [|r a IH]; [reflexivity|]. cbn [app]. rewrite (grp_names_cons r (a ++ b)), (grp_names_cons r a), IH.
  apply app_assoc.
Qed.

Definition is_grp (r : re) : bool := match r with RGrp _ _ => true | _ => false end.

Lemma grp_names_single_nongrp r : is_grp r = false -> grp_names [r] = [].
Proof. destruct r; cbn; congruence. Qed.

Lemma nth_error_snoc {A} (l : list A) (x : A) i :
  nth_error (l ++ [x]) i = if (i <? length l)%nat then nth_error l i
                           else if (i =? length l)%nat then Some x else None.
Proof.
  destruct (Nat.ltb_spec i (length l)) as [H|H].
  - apply nth_error_app1. exact H.
  - rewrite nth_error_app2 by exact H. destruct (Nat.eqb_spec i (length l)) as [->|Hne].
    + rewrite Nat.sub_diag. reflexivity.
    + destruct (i - length l)%nat as [|k] eqn:E; [lia|]. cbn. destruct k; reflexivity.
Qed.

Lemma NoDup_snoc_l {A} (l : list A) (x : A) : NoDup l -> ~ In x l -> NoDup (l ++ [x]).
Proof.
  induction l as [|a l IH]; cbn; intros Hnd Hni.
  - constructor; [intros []|constructor].
  - inversion Hnd as [|? ? Ha Hl]; subst. constructor.
    + rewrite in_app_iff. cbn. intros [H|[H|[]]]; [apply Ha; exact H|apply Hni; left; symmetry; exact H].
    + apply IH; [exact Hl|]. intros H. apply Hni. right. exact H.
Qed.

Lemma removelast_snoc {A} (l : list A) (d : A) : l <> [] -> l = removelast l ++ [last l d].
Proof. apply app_removelast_last. Qed.

(* ---- the loop invariant ---- *)

Definition last_part (l : list re) : option re := nth_error l (length l - 1).

Record inv (st : cst) : Prop := {
  inv_flat : forallb part_flat (c_parts st) = true;
  inv_nodup : NoDup (grp_names (c_parts st));
  inv_enc : forall n, In n (grp_names (c_parts st)) -> In n (c_enc st);
  inv_stars : forall i n, stars_get i (c_stars st) = Some n ->
                exists a, nth_error (c_parts st) i = Some (RGrp n a);
  inv_last : is_tstar (c_last st) || is_tdstar (c_last st) = true ->
             forall r, last_part (c_parts st) = Some r -> is_grp r = false
}.

Lemma inv_st0 : inv st0.
Proof.
  constructor; cbn.
  - reflexivity.
  - constructor.
  - intros n [].
  - intros i n H. discriminate.
  - discriminate.
Qed.

Lemma last_part_snoc l x : last_part (l ++ [x]) = Some x.
Proof.
  unfold last_part. rewrite app_length. cbn. replace (length l + 1 - 1)%nat with (length l) by lia.
  rewrite nth_error_snoc, Nat.ltb_irrefl, Nat.eqb_refl. reflexivity.
Qed.

(* appending a part that is not a group *)
Lemma inv_append_plain st r t enc' :
  inv st -> part_flat r = true -> is_grp r = false ->
  (forall n, In n (c_enc st) -> In n enc') ->
  inv (mk_cst (c_parts st ++ [r]) (Some t) enc' (c_stars st)).
Proof.
  intros [I1 I2 I3 I4 I5] Hf Hg Henc. constructor; cbn [c_parts c_last c_enc c_stars].
  - rewrite forallb_app, I1. cbn. rewrite Hf. reflexivity.
  - rewrite grp_names_app, (grp_names_single_nongrp r Hg), app_nil_r. exact I2.
  - intros n. rewrite grp_names_app, (grp_names_single_nongrp r Hg), app_nil_r. intros H. apply Henc, I3, H.
  - intros i n H. destruct (I4 i n H) as [a Ha]. exists a.
    rewrite nth_error_app1; [exact Ha|]. apply nth_error_Some. congruence.
  - intros _ r0 H. rewrite last_part_snoc in H. inversion H; subst. exact Hg.
Qed.

(* replacing the last part by a part that is not a group, when the last part is not a group *)
Lemma inv_replace_plain st r t :
  inv st -> part_flat r = true -> is_grp r = false ->
  is_tstar (c_last st) || is_tdstar (c_last st) = true ->
  inv (mk_cst (removelast (c_parts st) ++ [r]) (Some t) (c_enc st) (c_stars st)).
Proof.
  intros Hinv Hf Hg Hl. destruct (c_parts st) as [|p0 ps0] eqn:Ep.
  - assert (H := inv_append_plain st r t (c_enc st) Hinv Hf Hg (fun n h => h)). rewrite Ep in H. exact H.
  - destruct Hinv as [I1 I2 I3 I4 I5]. rewrite Ep in *.
    assert (Hne : p0 :: ps0 <> []) by discriminate.
    pose proof (removelast_snoc (p0 :: ps0) REps Hne) as Hd.
    set (rl := removelast (p0 :: ps0)) in *. set (lst := last (p0 :: ps0) REps) in *.
    assert (Hlast : is_grp lst = false).
    { apply (I5 Hl). unfold last_part. rewrite Hd at 1 2. rewrite app_length. cbn [length].
      replace (length rl + 1 - 1)%nat with (length rl) by lia.
      rewrite nth_error_snoc, Nat.ltb_irrefl, Nat.eqb_refl. reflexivity. }
    rewrite Hd in I1, I2, I3, I4. rewrite forallb_app in I1. apply andb_true_iff in I1 as [I1a _].
    rewrite grp_names_app, (grp_names_single_nongrp lst Hlast), app_nil_r in I2, I3.
    constructor; cbn [c_parts c_last c_enc c_stars].
    + rewrite forallb_app, I1a. cbn. rewrite Hf. reflexivity.
    + rewrite grp_names_app, (grp_names_single_nongrp r Hg), app_nil_r. exact I2.
    + intros n. rewrite grp_names_app, (grp_names_single_nongrp r Hg), app_nil_r. apply I3.
    + intros i n H. destruct (I4 i n H) as [a Ha]. exists a.
      rewrite nth_error_snoc in Ha. rewrite nth_error_snoc.
      destruct (i <? length rl)%nat; [exact Ha|].
      destruct (i =? length rl)%nat; [|discriminate]. inversion Ha as [Hl2].
      rewrite Hl2 in Hlast. discriminate Hlast.
    + intros _ r0 H. rewrite last_part_snoc in H. inversion H; subst. exact Hg.
Qed.

(* the token is recorded but nothing is stored (regex None or empty) *)
Lemma inv_skip st t :
  inv st -> (is_tstar (Some t) || is_tdstar (Some t) = true -> is_tstar (c_last st) || is_tdstar (c_last st) = true) ->
  inv (mk_cst (c_parts st) (Some t) (c_enc st) (c_stars st)).
Proof.
  intros [I1 I2 I3 I4 I5] Hl. constructor; cbn [c_parts c_last c_enc c_stars]; try assumption.
  intros H. apply I5, Hl, H.
Qed.

Lemma push_some st r replace sn enc t : is_nil (pr r) = false ->
  push st (Some r) replace sn enc t =
  let parts' := if replace then removelast (c_parts st) ++ [r] else c_parts st ++ [r] in
  mk_cst parts' (Some t) enc
         (match sn with Some n => (length parts' - 1, n)%nat :: c_stars st | None => c_stars st end).
Proof. intros H. unfold push. rewrite H. reflexivity. Qed.

(* push of a plain (non-group) fragment without star name *)
Lemma inv_push_plain st r replace t :
  inv st -> is_nil (pr r) = false -> part_flat r = true -> is_grp r = false ->
  (replace = true -> is_tstar (c_last st) || is_tdstar (c_last st) = true) ->
  inv (push st (Some r) replace None (c_enc st) t).
Proof.
  intros Hinv Hne Hf Hg Hrep. rewrite (push_some _ _ _ _ _ _ Hne). cbn zeta. destruct replace.
  - apply inv_replace_plain; auto.
  - apply inv_append_plain; auto.
Qed.

Lemma inv_push_none st t :
  inv st -> (is_tstar (Some t) || is_tdstar (Some t) = true -> is_tstar (c_last st) || is_tdstar (c_last st) = true) ->
  inv (push st None false None (c_enc st) t).
Proof. intros Hinv Hl. unfold push. apply inv_skip; assumption. Qed.

(* appending the defining group of a new name *)
Lemma inv_push_group st n body sn m :
  inv st -> nogrp body = true -> ~ In n (c_enc st) -> (sn = None \/ sn = Some n) ->
  inv (push st (Some (RGrp n body)) false sn (n :: c_enc st) (TName m)).
Proof.
  intros [I1 I2 I3 I4 I5] Hb Hn Hsn.
  rewrite push_some by reflexivity. cbn zeta.
  assert (Hnames : grp_names (c_parts st ++ [RGrp n body]) = grp_names (c_parts st) ++ [n])
    by (rewrite grp_names_app; reflexivity).
  assert (Hold : forall i m, stars_get i (c_stars st) = Some m ->
                   exists a, nth_error (c_parts st ++ [RGrp n body]) i = Some (RGrp m a)).
  { intros i k H. destruct (I4 i k H) as [a Ha]. exists a.
    rewrite nth_error_app1; [exact Ha|]. apply nth_error_Some. congruence. }
  constructor; cbn [c_parts c_last c_enc c_stars].
  - rewrite forallb_app, I1. cbn. rewrite Hb. reflexivity.
  - rewrite Hnames. apply NoDup_snoc_l; [exact I2|]. intros H. apply Hn, I3, H.
  - intros k. rewrite Hnames, in_app_iff. cbn. intros [H|[<-|[]]]; [right; apply I3, H|left; reflexivity].
  - destruct Hsn as [->| ->]; [exact Hold|].
    intros i k. cbn [stars_get]. rewrite app_length. cbn [length].
    replace (length (c_parts st) + 1 - 1)%nat with (length (c_parts st)) by lia.
    destruct (Nat.eqb_spec i (length (c_parts st))) as [->|Hne].
    + intros H. inversion H; subst. exists body.
      rewrite nth_error_snoc, Nat.ltb_irrefl, Nat.eqb_refl. reflexivity.
    + apply Hold.
  - cbn. discriminate.
Qed.

Lemma COk_inj {A} (a b : A) : COk a = COk b -> a = b.
Proof. intros H. inversion H. reflexivity. Qed.

(* ---- sub-patterns: no group at all ---- *)

Lemma forallb_removelast {A} (f : A -> bool) (l : list A) : forallb f l = true -> forallb f (removelast l) = true.
Proof.
  induction l as [|a l IH]; [reflexivity|]. cbn [forallb]. intros H. apply andb_true_iff in H as [Ha Hl].
  destruct l as [|b l']; [reflexivity|]. change (removelast (a :: b :: l')) with (a :: removelast (b :: l')).
  cbn [forallb]. rewrite Ha. exact (IH Hl).
Qed.

Lemma push_nogrp st r replace sn enc t :
  forallb nogrp (c_parts st) = true -> (forall x, r = Some x -> nogrp x = true) ->
  forallb nogrp (c_parts (push st r replace sn enc t)) = true.
Proof.
  intros Hp Hr. unfold push. destruct r as [x|]; [|exact Hp].
  destruct (is_nil (pr x)); [exact Hp|]. cbn [c_parts]. destruct replace.
  - rewrite forallb_app, (forallb_removelast _ _ Hp). cbn. rewrite (Hr x eq_refl). reflexivity.
  - rewrite forallb_app, Hp. cbn. rewrite (Hr x eq_refl). reflexivity.
Qed.

Lemma re_cls_nogrp inner : nogrp (re_cls inner) = true.
Proof. unfold re_cls. destruct (head_is 33 inner); reflexivity. Qed.

Definition err_handler : named_handler := fun _ _ => CErr ENamesNotAllowed.

Lemma conv_loop_sub_nogrp ts : forall st st',
  forallb nogrp (c_parts st) = true -> conv_loop err_handler ts st = COk st' ->
  forallb nogrp (c_parts st') = true.
Proof.
  induction ts as [|t ts IH]; intros st st' Hp H; cbn [conv_loop] in H.
  - inversion H; subst. exact Hp.
  - destruct (conv_step err_handler st t) as [st1|e] eqn:E; [|discriminate].
    apply (IH st1 st'); [|exact H]. clear IH H.
    destruct t; cbn [conv_step] in E; try (apply COk_inj in E; subst st1).
    + cbn [c_parts]. rewrite forallb_app, Hp. reflexivity.
    + apply push_nogrp; [exact Hp|]. intros x Hx. inversion Hx. reflexivity.
    + apply push_nogrp; [exact Hp|]. intros x Hx.
      destruct (is_tstar (c_last st) || is_tdstar (c_last st)); inversion Hx. reflexivity.
    + apply push_nogrp; [exact Hp|]. intros x Hx.
      destruct (is_tdstar (c_last st)); inversion Hx. reflexivity.
    + apply push_nogrp; [exact Hp|]. intros x Hx.
      destruct (is_tdstarslash (c_last st)); inversion Hx. reflexivity.
    + apply push_nogrp; [exact Hp|]. intros x Hx. inversion Hx. apply re_cls_nogrp.
    + unfold err_handler in E. discriminate.
Qed.

Lemma rcat_nogrp ps : forallb nogrp ps = true -> nogrp (rcat ps) = true.
Proof.
  induction ps as [|r rs IH]; [reflexivity|]. cbn [forallb]. intros H. apply andb_true_iff in H as [Hr Hrs].
  destruct rs as [|r2 rs']; [exact Hr|]. change (rcat (r :: r2 :: rs')) with (RCat r (rcat (r2 :: rs'))).
  cbn [nogrp]. rewrite Hr. exact (IH Hrs).
Qed.

Lemma conv_sub_nogrp p ps : conv_sub p = COk ps -> nogrp (rcat ps) = true.
Proof.
  unfold conv_sub. destruct (is_nil p); [discriminate|].
  destruct (conv_loop _ (tokenize p) st0) as [st|e] eqn:E; [|discriminate].
  intros H. inversion H; subst. apply rcat_nogrp.
  eapply (conv_loop_sub_nogrp _ st0 st); [reflexivity|exact E].
Qed.

(* ---- the top-level loop ---- *)

Lemma mem_str_spec n l : mem_str n l = true <-> In n l.
Proof. apply mem_str_In'. Qed.

Lemma re_cls_plain inner : is_nil (pr (re_cls inner)) = false /\ part_flat (re_cls inner) = true /\ is_grp (re_cls inner) = false.
Proof. unfold re_cls. destruct (head_is 33 inner); repeat split. Qed.

Lemma conv_step_inv subs st t st' : inv st -> conv_step (top_named subs) st t = COk st' -> inv st'.
Proof.
  intros Hinv E. destruct t; cbn [conv_step] in E.
  - apply COk_inj in E; subst st'. apply inv_append_plain; auto.
  - apply COk_inj in E; subst st'. apply inv_push_plain; auto. discriminate.
  - apply COk_inj in E; subst st'. destruct (is_tstar (c_last st) || is_tdstar (c_last st)) eqn:El.
    + apply inv_push_none; auto.
    + apply inv_push_plain; auto. discriminate.
  - apply COk_inj in E; subst st'. destruct (is_tdstar (c_last st)) eqn:El.
    + replace (is_tstar (c_last st)) with false by (destruct (c_last st) as [[]|]; cbn in *; congruence).
      apply inv_push_none; auto. intros _. rewrite El. apply orb_true_r.
    + apply inv_push_plain; auto. intros ->. reflexivity.
  - apply COk_inj in E; subst st'. destruct (is_tdstarslash (c_last st)) eqn:El.
    + replace (is_tstar (c_last st) || is_tdstar (c_last st)) with false
        by (destruct (c_last st) as [[]|]; cbn in *; congruence).
      apply inv_push_none; auto. cbn. discriminate.
    + apply inv_push_plain; auto.
  - apply COk_inj in E; subst st'. destruct (re_cls_plain inner) as [H1 [H2 H3]]. apply inv_push_plain; auto. discriminate.
  - unfold top_named in E. destruct (is_nil name); [discriminate|].
    destruct (mem_str name (c_enc st)) eqn:Em.
    + apply COk_inj in E; subst st'. apply inv_push_plain; auto. discriminate.
    + destruct (conv_sub (sub_of name subs)) as [ps|e] eqn:Es; [|discriminate].
      apply COk_inj in E; subst st'. apply inv_push_group; auto.
      * eapply conv_sub_nogrp. exact Es.
      * intros Hin. apply mem_str_spec in Hin. congruence.
      * destruct (str_eqb (pr (rcat ps)) star_text); [right|left]; reflexivity.
Qed.

Lemma conv_loop_inv subs ts : forall st st', inv st -> conv_loop (top_named subs) ts st = COk st' -> inv st'.
Proof.
  induction ts as [|t ts IH]; intros st st' Hinv H; cbn [conv_loop] in H.
  - inversion H; subst. exact Hinv.
  - destruct (conv_step (top_named subs) st t) as [st1|e] eqn:E; [|discriminate].
    apply (IH st1 st'); [|exact H]. eapply conv_step_inv; eassumption.
Qed.

(* ---- post-processing ---- *)

Definition pinv (stars : list (nat * str)) (ps : list re) : Prop :=
  forallb part_flat ps = true /\ NoDup (grp_names ps) /\
  (forall i n, stars_get i stars = Some n -> exists a, nth_error ps i = Some (RGrp n a)).

Lemma upd_nil {A} i (x : A) : upd i x [] = [].
Proof. destruct i; reflexivity. Qed.

Lemma nth_error_upd {A} (l : list A) : forall i (x : A) j,
  nth_error (upd i x l) j = if (j =? i)%nat && (i <? length l)%nat then Some x else nth_error l j.
Proof.
  induction l as [|y l IH]; intros i x j.
  - rewrite upd_nil. cbn. rewrite andb_false_r. reflexivity.
  - destruct i as [|i]; destruct j as [|j]; cbn [upd nth_error length]; try reflexivity.
    rewrite IH. change (S j =? S i)%nat with (j =? i)%nat. change (S i <? S (length l))%nat with (i <? length l)%nat.
    reflexivity.
Qed.

Lemma forallb_upd {A} (f : A -> bool) (l : list A) : forall i x,
  forallb f l = true -> f x = true -> forallb f (upd i x l) = true.
Proof.
  induction l as [|y l IH]; intros i x Hl Hx; [rewrite upd_nil; reflexivity|].
  cbn [forallb] in Hl. apply andb_true_iff in Hl as [Hy Hl].
  destruct i as [|i]; cbn [upd forallb]; [rewrite Hx, Hl|rewrite Hy, (IH i x Hl Hx)]; reflexivity.
Qed.

Lemma grp_names_upd (l : list re) : forall i x y,
  nth_error l i = Some y -> grp_names [x] = grp_names [y] -> grp_names (upd i x l) = grp_names l.
Proof.
  induction l as [|z l IH]; intros i x y Hn Hg; [destruct i; discriminate|].
  destruct i as [|i]; cbn [nth_error upd] in *.
  - inversion Hn; subst. rewrite (grp_names_cons x l), (grp_names_cons y l), Hg. reflexivity.
  - rewrite (grp_names_cons z (upd i x l)), (grp_names_cons z l), (IH i x y Hn Hg). reflexivity.
Qed.

Lemma upd_beyond {A} (l : list A) : forall i (x : A), (length l <= i)%nat -> upd i x l = l.
Proof.
  induction l as [|y l IH]; intros i x H; [apply upd_nil|].
  destruct i as [|i]; cbn [length] in H; [lia|]. cbn [upd]. rewrite IH; [reflexivity|lia].
Qed.

Lemma pinv_upd stars ps i x :
  pinv stars ps -> part_flat x = true ->
  (forall y, nth_error ps i = Some y ->
     grp_names [x] = grp_names [y] /\ (forall n a, y = RGrp n a -> exists b, x = RGrp n b)) ->
  pinv stars (upd i x ps).
Proof.
  intros [P1 [P2 P3]] Hx Hy. destruct (nth_error ps i) as [y|] eqn:En.
  - destruct (Hy y eq_refl) as [Hg Hk]. split; [apply forallb_upd; assumption|]. split.
    + rewrite (grp_names_upd ps i x y En Hg). exact P2.
    + intros j n Hs. destruct (P3 j n Hs) as [a Ha]. rewrite nth_error_upd.
      destruct (Nat.eqb_spec j i) as [->|Hne]; cbn [andb]; [|exists a; exact Ha].
      assert (Hlt : (i <? length ps)%nat = true) by (apply Nat.ltb_lt, nth_error_Some; congruence).
      rewrite Hlt. rewrite En in Ha. inversion Ha; subst y. destruct (Hk n a eq_refl) as [b ->]. exists b. reflexivity.
  - rewrite upd_beyond; [split; [exact P1|split; [exact P2|exact P3]]|]. apply nth_error_None. exact En.
Qed.

Lemma nth_nth_error (l : list re) i r : nth_error l i = Some r -> nth i l REps = r.
Proof. intros H. apply nth_error_nth. exact H. Qed.

Lemma star_to_plus_same r :
  grp_names [star_to_plus r] = grp_names [r] /\ part_flat (star_to_plus r) = part_flat r
  /\ (forall n a, r = RGrp n a -> exists b, star_to_plus r = RGrp n b).
Proof. destruct r; cbn; repeat split; intros; try discriminate; eauto. Qed.

Lemma enclosed_pinv stars n : forall i ps, pinv stars ps -> pinv stars (enclosed stars n i ps).
Proof.
  induction n as [|n IH]; intros i ps Hp; cbn [enclosed]; [exact Hp|].
  apply IH.
  match goal with |- pinv _ (if ?c then _ else _) => destruct c end; [|exact Hp].
  destruct (stars_get i stars) as [sn|] eqn:Es.
  - apply pinv_upd; [exact Hp|reflexivity|]. intros y Hy.
    destruct Hp as [_ [_ P3]]. destruct (P3 i sn Es) as [a Ha]. rewrite Ha in Hy. inversion Hy; subst.
    split; [reflexivity|]. intros n0 a0 H. inversion H; subst. eexists. reflexivity.
  - destruct (last_char_is 42 (pr (nth i ps REps))); [|exact Hp].
    assert (Hflat := proj1 Hp). rewrite forallb_forall in Hflat.
    destruct (nth_error ps i) as [y|] eqn:En.
    + rewrite (nth_nth_error _ _ _ En). destruct (star_to_plus_same y) as [H1 [H2 H3]].
      apply pinv_upd; [exact Hp| |].
      * rewrite H2. apply Hflat. eapply nth_error_In. exact En.
      * intros y' Hy'. rewrite En in Hy'. inversion Hy'; subst. split; [exact H1|exact H3].
    + rewrite upd_beyond; [exact Hp|]. apply nth_error_None. exact En.
Qed.

Lemma pr_star_text_nongrp r : str_eqb (pr r) star_text = true -> is_grp r = false.
Proof. destruct r; try reflexivity. cbn. discriminate. Qed.

Lemma last_nth_error (l : list re) : l <> [] -> nth_error l (length l - 1) = Some (last l REps).
Proof.
  intros Hne. rewrite (removelast_snoc l REps Hne) at 1 2. rewrite app_length. cbn [length].
  replace (length (removelast l) + 1 - 1)%nat with (length (removelast l)) by lia.
  rewrite nth_error_snoc, Nat.ltb_irrefl, Nat.eqb_refl. reflexivity.
Qed.

Lemma NoDup_nodup_str l : NoDup l -> nodup_str l = true.
Proof.
  induction 1 as [|x l Hni Hnd IH]; [reflexivity|]. cbn. rewrite IH, andb_true_r.
  destruct (mem_str x l) eqn:E; [|reflexivity]. apply mem_str_spec in E. contradiction.
Qed.

Lemma pinv_parts_ok stars ps : pinv stars ps -> parts_ok ps = true.
Proof. intros [P1 [P2 _]]. unfold parts_ok. rewrite P1. apply NoDup_nodup_str. exact P2. Qed.

Lemma part_flat_nongrp r : is_grp r = false -> part_flat r = nogrp r.
Proof. destruct r; cbn; intros H; try reflexivity; discriminate. Qed.

Lemma trailing_parts_ok stars ps : pinv stars ps -> parts_ok (trailing stars ps) = true.
Proof.
  intros Hp. unfold trailing.
  match goal with |- parts_ok (if ?c then _ else _) = true => destruct c eqn:Ec end;
    [|eapply pinv_parts_ok; exact Hp].
  match goal with |- context [if ?c then re_plus else re_star] =>
    set (body := if c then re_plus else re_star);
    assert (Hbody : nogrp body = true /\ is_grp body = false) by (subst body; destruct c; split; reflexivity)
  end.
  destruct Hbody as [Hb1 Hb2].
  assert (Hq : pinv stars (upd (length ps - 1)
                 match stars_get (length ps - 1) stars with Some name => RGrp name body | None => body end ps)).
  { destruct (stars_get (length ps - 1) stars) as [name|] eqn:Es.
    - apply pinv_upd; [exact Hp|exact Hb1|]. intros y Hy.
      destruct Hp as [_ [_ P3]]. destruct (P3 _ _ Es) as [a Ha]. rewrite Ha in Hy. inversion Hy; subst.
      split; [reflexivity|]. intros n0 a0 H. inversion H; subst. eexists. reflexivity.
    - cbn [orb] in Ec. apply pr_star_text_nongrp in Ec.
      apply pinv_upd; [exact Hp|rewrite (part_flat_nongrp body Hb2); exact Hb1|]. intros y Hy.
      assert (Hne : ps <> []) by (intros ->; cbn in Hy; discriminate).
      rewrite (last_nth_error ps Hne) in Hy. inversion Hy as [Hy']. clear Hy. subst y.
      split; [rewrite (grp_names_single_nongrp _ Hb2), (grp_names_single_nongrp _ Ec); reflexivity|].
      intros n0 a0 H. rewrite H in Ec. discriminate. }
  destruct Hq as [Q1 [Q2 _]]. unfold parts_ok.
  rewrite forallb_app, Q1, grp_names_app. cbn [forallb part_flat re_optslash nogrp andb grp_names].
  rewrite app_nil_r. apply NoDup_nodup_str. exact Q2.
Qed.

(* The hypothesis of the back-reference theorem holds for every pattern. *)
Theorem conv_regex_parts_ok : forall p subs ps, conv_regex p subs = COk ps -> parts_ok ps = true.
Proof.
  intros p subs ps. unfold conv_regex. destruct (is_nil p); [discriminate|].
  destruct (conv_loop (top_named subs) (tokenize p) st0) as [st|e] eqn:E; [|discriminate].
  intros H. apply COk_inj in H. subst ps.
  pose proof (conv_loop_inv subs _ _ _ inv_st0 E) as [I1 I2 I3 I4 I5].
  apply trailing_parts_ok. apply enclosed_pinv. split; [exact I1|]. split; [exact I2|exact I4].
Qed.

(* The back-reference theorem for every pattern, without side condition. *)
Theorem backref_equal_substrings_all :
  forall (p : str) (subs : subs_t) (ps : list re) (path : str) (e' : env),
    conv_regex p subs = COk ps ->
    mt (rcat ps) [] path e' ->
    exists pieces, concat pieces = path /\ length pieces = length ps /\
      forall i j n a, (i < j)%nat ->
        nth_error ps i = Some (RGrp n a) -> nth_error ps j = Some (RRef n) ->
        exists v, nth_error pieces i = Some v /\ nth_error pieces j = Some v /\ env_get n e' = Some v.
Proof.
  intros p subs ps path e' Hc Hm. apply backref_equal_substrings; [|exact Hm].
  eapply conv_regex_parts_ok. exact Hc.
Qed.
